package c14

import (
	"fmt"
	"testing"

	"github.com/0xReLogic/Helios/verifharness/lab"
)

// TestC14KnownFindings re-runs the fixed reproduction of every finding of C14. While an entry is open
// and its reproduction still fails, the KNOWN-FINDING line is printed; once an entry is no longer open
// the reproduction is a plain regression case (a failure is a violation). It runs last (file name), so
// that the count of net/http race manifestations of this shard is known.
func TestC14KnownFindings(t *testing.T) {
	if lab.Replaying() || lab.Shard() != 0 {
		t.Skip()
	}
	report := func(key, what string, c any) {
		if lab.Open(key) {
			lab.KnownFinding(key, what)
			return
		}
		lab.Violation(t, "known-finding-regression", c, "%s: %s", key, what)
	}
	get := lab.RawRequest{Method: "GET", Target: "/", Framing: "none", Header: []lab.KV{{K: "Host", V: "helios.test"}}}
	ch := Chain{L: 1, M: 1, Style: "yaml-int"}
	pcWith, _ := ch.Plugins(true)
	pcWithout, _ := ch.Plugins(false)
	with, err := NewStubLab(pcWith)
	if err != nil {
		t.Fatal(err)
	}
	defer with.Close()
	without, err := NewStubLab(pcWithout)
	if err != nil {
		t.Fatal(err)
	}
	defer without.Close()
	stubStatus := func(l *StubLab, p Program) int {
		out, _, err := l.Run(&get, &p)
		if err != nil || out == nil {
			t.Fatalf("harness: %v", err)
		}
		return out.Status
	}

	// status-lost-without-body-write
	p1 := Program{Ops: []Op{{Op: "status", N: 201}}}
	if a, b := stubStatus(without, p1), stubStatus(with, p1); a == 201 && b != 201 {
		// the same through the balancer: an empty 404
		px, err := NewProxyLab(pcWith, 1)
		if err != nil {
			t.Fatal(err)
		}
		pc := ProxyCase{Chain: ch, Backends: 1, Req: get, Resp: lab.RespScript{Status: 404, Framing: "cl", BarrierAfter: -1}}
		r := px.Run(&pc)
		px.Close()
		proxied := "n/a"
		if r.err == nil {
			proxied = fmt.Sprint(r.out.Status)
		}
		report(keyBodiless, fmt.Sprintf("chain [size_limit]: handler calls WriteHeader(201) and returns without a Write -> client receives %d (201 without the plugin); through the balancer a backend '404 Not Found' with 'Content-Length: 0' -> client receives %s: WriteHeader only records the status and nothing forwards it when no Write follows", b, proxied), p1)
	}

	// flush-before-write-commits-200
	p2 := Program{Ops: []Op{{Op: "status", N: 404}, {Op: "flush"}, {Op: "write", N: 1}}}
	if a, b := stubStatus(without, p2), stubStatus(with, p2); a == 404 && b != 404 {
		report(keyFlush, fmt.Sprintf("chain [size_limit]: handler calls WriteHeader(404); Flush(); Write(1 byte) -> client receives %d (404 without the plugin): Flush reaches the underlying writer before the recorded status does (hit schedule-dependently by every proxied non-200 response without Content-Length)", b), p2)
	}

	// 413-lost-behind-balancer
	{
		px, err := NewProxyLab(pcWith, 1)
		if err != nil {
			t.Fatal(err)
		}
		pc := ProxyCase{Chain: ch, Backends: 1, Req: get, Resp: lab.RespScript{Status: 200, Framing: "cl", Body: []byte("xy"), BodyLen: 2, BarrierAfter: -1}}
		r := px.Run(&pc)
		px.Close()
		if r.err != nil || r.out.Status != 413 {
			gotS := fmt.Sprintf("no response (%v)", r.err)
			if r.err == nil {
				gotS = fmt.Sprintf("status %d with %d body bytes", r.out.Status, len(r.out.Body))
			}
			report(key413, "chain [size_limit max_response_body=1] -> balancer -> backend '200 OK' 'Content-Length: 2' + 2 bytes in one write: client gets "+gotS+", not 413 (the 413 header is still buffered when httputil.ReverseProxy aborts the handler because its Write failed)", pc)
		}
	}

	// request-body-close-race (net/http; listed for C14 so that its exact signature is re-run, see C01)
	if n := proxyRaceRetries + boundaryRaceRetries; lab.Open(keyRace) {
		lab.KnownFinding(keyRace, fmt.Sprintf("schedule-dependent net/http abort of a proxied request with a body (see C01) manifested %d time(s) in shard 0 of this run, each re-run cleanly", n))
	}
}
