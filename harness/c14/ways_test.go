package c14

import (
	"fmt"
	"strings"
	"testing"

	"github.com/0xReLogic/Helios/verifharness/lab"
)

// ---------------------------------------------------------------------------------------------
// Exhaustive sub-check 3: every partition of a short response body into pieces x every way a handler
// hands each piece to the ResponseWriter
// ---------------------------------------------------------------------------------------------
//
// The property bounds the bytes the client receives; a handler behind the plugin chain (the extension point
// of docs/plugin-development.md) is free to produce them with w.Write, io.WriteString, io.Copy or formatted
// output, and to mix these within one response. The partition sub-check holds the call constant (w.Write);
// this one enumerates the call per piece. size_limit stands alone in the chain, so it wraps net/http's own
// writer (an io.StringWriter and io.ReaderFrom) and the handler talks to size_limit's writer directly.

const waysSub = "emission-ways-exhaustive"

// enumWays lists the ways enumerated per piece: fmt.Fprint reaches the writer as w.Write and is left to the
// rapid sub-checks.
var enumWays = []string{ViaWrite, ViaString, ViaCopy}

// wayAssignments returns every assignment of enumWays to k pieces.
func wayAssignments(k int) [][]string {
	out := [][]string{nil}
	for i := 0; i < k; i++ {
		var next [][]string
		for _, a := range out {
			for _, w := range enumWays {
				next = append(next, append(append([]string(nil), a...), w))
			}
		}
		out = next
	}
	return out
}

func enumWayPrograms(tmax, maxParts int) []Program {
	var progs []Program
	for total := 0; total <= tmax; total++ {
		partitions := compositions(total, maxParts)
		if total == 0 {
			partitions = [][]int{nil}
		}
		for _, parts := range partitions {
			for _, vias := range wayAssignments(len(parts)) {
				for _, stop := range []bool{true, false} {
					p := Program{StopOnErr: stop, Salt: 11, Header: []lab.KV{{K: "Content-Type", V: "text/plain"}}}
					for i, n := range parts {
						p.Ops = append(p.Ops, Op{Op: "write", N: n, Via: vias[i]})
					}
					progs = append(progs, p)
					if len(parts) == 0 {
						break // nothing to stop at
					}
				}
			}
		}
	}
	return progs
}

func TestC14EmissionWays(t *testing.T) {
	tmax, mmax, kmax := lab.Scale(7, 9), lab.Scale(8, 10), lab.Scale(3, 4)
	sub := lab.Sub(waysSub, fmt.Sprintf("complete enumeration: max_response_body M = 1..%d x response body length T = 0..%d x EVERY ordered partition of T into <= %d pieces "+
		"x EVERY assignment of {w.Write, io.WriteString(w, ..), io.Copy(w, ..)} to the pieces x handler stops / continues after a failed call; implicit WriteHeader, no Flush; "+
		"GET through [size_limit] (which therefore wraps net/http's own writer, an io.StringWriter and io.ReaderFrom) -> stub terminal over a real connection; oracle S1, S2 (not demanded when the first piece is copied) and "+
		"differential U against the same program without the plugin (framing not compared for programs that copy); non-trivial = T within +-1 of M or >= 2 pieces; "+
		"exhaustive for this finite space (shards split it by index)", mmax, tmax, kmax))
	sub.NontrivialFloor(0.60)
	sub.Floor("emit-string", 0.40)
	sub.Floor("emit-copy", 0.40)
	sub.Floor("emit-mixed", 0.40)
	sub.Floor("response-too-large", 0.15)
	sub.Floor("413-required", 0.03)
	sub.Floor("within-limits", 0.30)
	mkChain := func(m int) Chain { return Chain{L: 0, M: int64(m), Style: "yaml-int"} }
	req := lab.RawRequest{Method: "GET", Target: "/", Framing: "none", Header: []lab.KV{{K: "Host", V: "helios.test"}}}
	refPC, _ := mkChain(1).Plugins(false)
	without, err := NewStubLab(refPC)
	if err != nil {
		t.Fatal(err)
	}
	defer without.Close()
	withLab := func(m int) *StubLab {
		pc, err := mkChain(m).Plugins(true)
		if err != nil {
			t.Fatal(err)
		}
		l, err := NewStubLab(pc)
		if resourceError(err) {
			lab.Problem("%s: %v", waysSub, err)
		}
		if err != nil {
			t.Fatalf("a valid size_limit configuration was refused: %v", err)
		}
		return l
	}
	var rc StubCase
	if lab.ReplayCase(waysSub, &rc) {
		with := withLab(int(rc.Chain.M))
		defer with.Close()
		if v := JudgeStub(&rc, with, without); v.Viol != "" {
			lab.Violation(t, waysSub, rc, "%s\n=> %s", rc.describe(), v.Viol)
		}
		return
	}
	if lab.Replaying() {
		t.Skip("replay of another sub-check")
	}
	progs := enumWayPrograms(tmax, kmax)
	type refResult struct {
		out *lab.RawResponse
		err error
	}
	refs := map[int]*refResult{}
	labs := map[int]*StubLab{}
	defer func() {
		for _, l := range labs {
			l.Close()
		}
	}()
	total := len(progs) * mmax
	for idx := lab.Shard(); idx < total; idx += lab.Shards() {
		pi, m := idx/mmax, idx%mmax+1
		if labs[m] == nil {
			labs[m] = withLab(m)
		}
		c := StubCase{Chain: mkChain(m), Req: req, Prog: progs[pi]}
		v := JudgeStubRef(&c, labs[m], func() (*lab.RawResponse, error) {
			if r := refs[pi]; r != nil {
				return r.out, r.err
			}
			p := progs[pi]
			out, rec, err := without.Run(&req, &p)
			if err == nil && (out == nil || !rec.Invoked()) {
				err = fmt.Errorf("reference handler was not invoked")
			}
			refs[pi] = &refResult{out, err}
			return out, err
		})
		if strings.HasPrefix(v.Viol, "harness:") {
			lab.Problem("%s: %s", waysSub, v.Viol)
			t.Fatalf("inconclusive: %s", v.Viol)
		}
		if v.Excluded != "" {
			sub.Excluded(v.Excluded)
		}
		sub.Case(c, v.Nontrivial, v.Labels...)
		if v.Viol != "" {
			lab.Violation(t, waysSub, c, "%s\n=> %s", c.describe(), v.Viol)
		}
	}
	sub.Exhaustive()
}
