package c14

// Hijacked (upgraded) exchanges: the terminal takes the connection over through the whole writer chain.
// They are interleaved with ordinary exchanges in the same lab and process, so that whatever the plugin
// keeps or recycles per response (flags, wrappers) is exposed to the ordinary exchanges that follow.

import (
	"fmt"
	"io"
	"net"
	"sort"
	"strings"
	"time"

	"github.com/0xReLogic/Helios/verifharness/lab"
)

func rstClose(cc *lab.ClientConn) {
	if tc, ok := cc.C.(*net.TCPConn); ok {
		_ = tc.SetLinger(0)
	}
	cc.Close()
}

// RunHijack sends an upgrade request on a connection of its own; the stub hijacks, answers 101 followed by
// n raw bytes and closes. It returns every byte the client read up to EOF.
func (s *StubLab) RunHijack(n int, salt byte) ([]byte, *Record, error) {
	p := &Program{Salt: salt, Ops: []Op{{Op: "hijack", N: n}}}
	rec := s.Stub.Arm(p)
	cc, err := dialRetry(s.L.Addr)
	if err != nil {
		return nil, rec, fmt.Errorf("harness: dial: %w", err)
	}
	defer rstClose(cc)
	req := &lab.RawRequest{Method: "GET", Target: "/ws", Framing: "none", Header: []lab.KV{{K: "Host", V: "helios.test"}, {K: "Connection", V: "Upgrade"}, {K: "Upgrade", V: "verif"}}}
	if err := cc.Send(req); err != nil {
		return nil, rec, err
	}
	_ = cc.C.SetReadDeadline(time.Now().Add(ioDeadline))
	raw, rerr := io.ReadAll(cc.BR)
	select {
	case <-rec.done:
	case <-time.After(ioDeadline):
		return raw, rec, fmt.Errorf("harness: stub handler did not return within %v", ioDeadline)
	}
	if rerr != nil && !strings.Contains(rerr.Error(), "reset") {
		return raw, rec, rerr
	}
	return raw, rec, nil
}

// UpgradeResult is what the client saw of a real protocol switch through the balancer.
type UpgradeResult struct {
	Status int
	Header string // canonical rendering of the complete header multimap
}

// RunUpgrade performs a WebSocket-style handshake through the balancer: the raw backend answers
// "101 Switching Protocols", httputil.ReverseProxy hijacks the client connection through the plugin chain
// and tunnels. The client then sends bytes that are no HTTP request; the backend closes, the tunnel ends.
func (p *ProxyLab) RunUpgrade() (UpgradeResult, error) {
	var res UpgradeResult
	l := p.L
	id := l.NextCase()
	script := &lab.RespScript{Status: 101, Framing: "none", BarrierAfter: -1, Header: []lab.KV{{K: "Upgrade", V: "websocket"}, {K: "Connection", V: "Upgrade"}, {K: "Sec-WebSocket-Accept", V: "s3pPLMBiTxaQ9kYGzzhZRbK+xOo="}}}
	l.ExpectAll(id, script)
	defer l.ForgetAll(id)
	cc, err := dialRetry(l.Addr)
	if err != nil {
		return res, fmt.Errorf("harness: dial: %w", err)
	}
	defer rstClose(cc)
	req := &lab.RawRequest{Method: "GET", Target: "/ws", Framing: "none", Header: []lab.KV{{K: "Host", V: "helios.test"}, {K: "Connection", V: "Upgrade"}, {K: "Upgrade", V: "websocket"},
		{K: "Sec-WebSocket-Key", V: "dGhlIHNhbXBsZSBub25jZQ=="}, {K: "Sec-WebSocket-Version", V: "13"}, {K: "X-Verif-Case", V: id}}}
	if err := cc.Send(req); err != nil {
		return res, err
	}
	out, _, err := cc.ReadHead("GET", ioDeadline)
	if err != nil {
		return res, fmt.Errorf("no response to the upgrade request: %w", err)
	}
	res.Status = out.Status
	keys := make([]string, 0, len(out.Header))
	for k := range out.Header {
		if k != "Date" {
			keys = append(keys, k)
		}
	}
	sort.Strings(keys)
	for _, k := range keys {
		res.Header += fmt.Sprintf("%s: %q; ", k, out.Header[k])
	}
	if out.Status == 101 {
		// inside the tunnel: not HTTP, the backend gives up and closes, which ends the tunnel
		_, _ = cc.C.Write([]byte("\x81\x05hello\r\n\r\n"))
		_ = cc.C.SetReadDeadline(time.Now().Add(ioDeadline))
		_, _ = io.Copy(io.Discard, cc.BR)
	}
	deadline := time.Now().Add(5 * time.Second)
	for time.Now().Before(deadline) {
		busy := false
		for _, b := range l.Backends {
			if b.Inflight() != 0 {
				busy = true
			}
		}
		if !busy {
			break
		}
		time.Sleep(200 * time.Microsecond)
	}
	return res, nil
}
