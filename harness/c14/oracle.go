package c14

// The C14 oracle, written from the property statement only:
//
//	R1  the backend (stub or raw backend) never receives more than max_request_body bytes of a request body
//	R2  a request that DECLARES a larger length gets 413 and the backend is never contacted
//	R3  a body of at most the limit (in particular exactly the limit) arrives intact
//	S1  the client never receives more than max_response_body bytes of (backend) response body
//	S2  if the excess is detected before anything was sent (the first Write alone overflows and neither a
//	    Flush nor a Write preceded it) the client gets 413
//	U   an exchange within both limits is identical - status, complete header multimap except Date,
//	    framing, body - to the same exchange through the same chain WITHOUT size_limit
//
// The statement counts the bytes the client receives, so S1, S2 and U hold whichever way the handler behind
// the plugin hands its body to the ResponseWriter (w.Write, io.WriteString, io.Copy, fmt.Fprint - stub.go).
// Two allowances for io.Copy, whose piece sizes are the copier's business: S2 is not demanded when the FIRST
// piece is copied (what "the first write" is then depends on who copies), and U does not compare
// Content-Length vs chunked framing of a program that copies (net/http's own ReadFrom flushes the header
// after the first 512 bytes; any wrapper in front of it - this plugin, logging - hides that method).
//
// Nothing else is asserted: a too-large chunked upload may end in any status, a response that overflows
// after bytes were sent may end in any way as long as S1 holds, and the 413 answer to a rejected request
// is the plugin's own message, not a backend body (S1 does not apply to it).

import (
	"bytes"
	"fmt"
	"strings"

	"github.com/0xReLogic/Helios/verifharness/lab"
)

const (
	keyBodiless = "status-lost-without-body-write"      // explicit status != 200 and no Write call follows
	keyFlush    = "flush-before-write-commits-200"      // explicit status != 200 and Flush precedes the first Write
	keyRace     = "request-body-close-race"             // net/http schedule-dependent abort (see C01)
	keyGzip413  = "413-lost-when-gzip-wraps-size-limit" // NOT listed in known_findings.json: nothing is excluded unless it is
	key413      = "413-lost-behind-balancer"            // proxied: the buffered 413 is dropped when ReverseProxy aborts the handler
)

// StubCase is one exchange against the stub terminal.
type StubCase struct {
	Chain Chain          `json:"chain"`
	Req   lab.RawRequest `json:"req"`
	Prog  Program        `json:"prog"`
}

// Verdict is the outcome of judging one case.
type Verdict struct {
	Viol       string
	Excluded   string // key of an open finding whose exact signature explains the only difference
	Labels     []string
	Nontrivial bool
}

// stubRegion returns the key of the known-finding region the program lies in ("" = none).
func stubRegion(p *Program) string {
	s := p.Explicit()
	if s == 0 || s == 200 {
		return ""
	}
	n, flushed := p.FirstWrite()
	if n < 0 {
		return keyBodiless
	}
	if flushed {
		return keyFlush
	}
	return ""
}

// directlyOnServerWriter: no plugin that wraps the ResponseWriter stands on either side of size_limit
// (headers does not wrap, logging does), so size_limit wraps net/http's own writer - with all its optional
// interfaces - and the handler sees size_limit's writer itself.
func directlyOnServerWriter(ch Chain) bool {
	for _, side := range [][]string{ch.Before, ch.After} {
		for _, p := range side {
			if p != "headers" {
				return false
			}
		}
	}
	return true
}

func (c *StubCase) describe() string {
	return fmt.Sprintf("chain before=%v [size_limit max_request_body=%d max_response_body=%d (%s; 0 = omitted)] after=%v\nrequest %s %s framing=%s body=%d parts=%v\nhandler: %s",
		c.Chain.Before, c.Chain.L, c.Chain.M, c.Chain.Style, c.Chain.After, c.Req.Method, c.Req.Target, c.Req.Framing, len(c.Req.Body), c.Req.Parts, c.Prog.String())
}

func (c *StubCase) classify() (labels []string, nontrivial bool) {
	L, M := c.Chain.EffL(), c.Chain.EffM()
	n, total := int64(len(c.Req.Body)), int64(c.Prog.Total())
	if c.Req.Framing != "none" {
		labels = append(labels, sizeClass("req", n, L), "req-"+c.Req.Framing)
		if nearLimit(n, L) {
			nontrivial = true
		}
	} else {
		labels = append(labels, "req-bodiless")
	}
	labels = append(labels, sizeClass("resp", total, M))
	if nearLimit(total, M) {
		nontrivial = true
	}
	st := c.Prog.Explicit()
	switch {
	case st == 0:
		labels = append(labels, "implicit-writeheader")
	default:
		labels = append(labels, "explicit-writeheader", fmt.Sprintf("status-%dxx", st/100))
	}
	if bodilessStatus(st) {
		labels = append(labels, "bodiless-status")
		nontrivial = true
	}
	if st != 0 && st != 200 && total == 0 {
		labels = append(labels, "empty-non200")
	}
	if c.Req.Method == "HEAD" {
		labels = append(labels, "HEAD")
		nontrivial = true
	}
	if c.Prog.Writes() >= 2 {
		labels = append(labels, "writes>=2")
		nontrivial = true
	}
	ways := c.Prog.Ways()
	for _, w := range ways {
		if w == ViaWrite {
			w = "write"
		}
		labels = append(labels, "emit-"+w)
	}
	if len(ways) >= 2 {
		labels = append(labels, "emit-mixed")
	}
	if len(ways) > 1 || (len(ways) == 1 && ways[0] != ViaWrite) {
		labels = append(labels, "emit-other-than-Write")
	}
	if directlyOnServerWriter(c.Chain) {
		labels = append(labels, "plugin-on-server-writer")
	}
	_, fb := c.Prog.FirstWrite()
	hasFlush := false
	for _, o := range c.Prog.Ops {
		if o.Op == "flush" {
			hasFlush = true
		}
	}
	if hasFlush {
		labels = append(labels, "flush")
	}
	if fb {
		labels = append(labels, "flush-before-first-write")
	}
	if carriesUpgrade(c.Req.Header) {
		labels = append(labels, "req-carries-upgrade")
	}
	if len(c.Chain.Before) > 0 {
		labels = append(labels, "plugin-wrapped-by-others")
	}
	if len(c.Chain.After) > 0 {
		labels = append(labels, "plugin-wraps-others")
	}
	labels = append(labels, c.Chain.Style)
	return
}

// JudgeStub runs the case on the lab with size_limit and, when the exchange is within both limits,
// on the reference lab (same chain without size_limit).
func JudgeStub(c *StubCase, with, without *StubLab) Verdict {
	return JudgeStubRef(c, with, func() (*lab.RawResponse, error) {
		refProg := c.Prog
		ref, refRec, rerr := without.Run(&c.Req, &refProg)
		if rerr == nil && (ref == nil || !refRec.Invoked()) {
			rerr = fmt.Errorf("reference handler was not invoked")
		}
		return ref, rerr
	})
}

// JudgeStubRef is JudgeStub with the reference exchange supplied by the caller (enumerations cache it:
// the reference does not depend on the limits).
func JudgeStubRef(c *StubCase, with *StubLab, reference func() (*lab.RawResponse, error)) Verdict {
	v := Verdict{}
	v.Labels, v.Nontrivial = c.classify()
	L, M := c.Chain.EffL(), c.Chain.EffM()
	n := int64(len(c.Req.Body))
	hasBody := c.Req.Framing != "none"
	prog := c.Prog
	got, rec, err := with.Run(&c.Req, &prog)
	if err != nil && (got == nil || strings.HasPrefix(err.Error(), "harness:")) {
		v.Viol = "harness: " + err.Error()
		return v
	}
	// R1
	if rec.Invoked() && int64(len(rec.Got)) > L {
		v.Viol = fmt.Sprintf("R1: the handler behind size_limit received %d request body bytes, max_request_body is %d", len(rec.Got), L)
		return v
	}
	// R2
	if hasBody && c.Req.Framing == "cl" && n > L {
		v.Labels = append(v.Labels, "declared-too-large")
		if rec.Invoked() {
			v.Viol = fmt.Sprintf("R2: request declares Content-Length %d > max_request_body %d but the handler behind the plugin was invoked (client got %d)", n, L, got.Status)
		} else if err != nil {
			v.Viol = fmt.Sprintf("R2: request declares Content-Length %d > max_request_body %d: client could not read a response (%v)", n, L, err)
		} else if got.Status != 413 {
			v.Viol = fmt.Sprintf("R2: request declares Content-Length %d > max_request_body %d: client got status %d, not 413", n, L, got.Status)
		}
		return v
	}
	if hasBody && n > L {
		// too-large chunked upload: only the bounds are claimed
		v.Labels = append(v.Labels, "chunked-too-large")
		if err == nil && deliveredLen(got) > M {
			v.Viol = fmt.Sprintf("S1: client received %d response body bytes, max_response_body is %d", deliveredLen(got), M)
		}
		return v
	}
	// R3
	if !rec.Invoked() {
		st := -1
		if got != nil {
			st = got.Status
		}
		v.Viol = fmt.Sprintf("R3: request body of %d bytes (limit %d) never reached the handler behind the plugin (client got status %d, err %v)", n, L, st, err)
		return v
	}
	if !bytes.Equal(rec.Got, c.Req.Body) || rec.ReadErr != "" {
		v.Viol = fmt.Sprintf("R3: request body of %d bytes (limit %d): the handler read %d bytes, error %q (first difference at %d)", n, L, len(rec.Got), rec.ReadErr, firstDiff(rec.Got, c.Req.Body))
		return v
	}
	total := int64(c.Prog.Total())
	if err != nil && total <= M {
		v.Viol = fmt.Sprintf("client could not read a response head: %v", err)
		return v
	}
	// S1 (a connection without a readable response head delivered no body bytes)
	if err == nil && deliveredLen(got) > M {
		v.Viol = fmt.Sprintf("S1: client received %d response body bytes, max_response_body is %d", deliveredLen(got), M)
		return v
	}
	if total > M {
		v.Labels = append(v.Labels, "response-too-large")
		first, flushed := c.Prog.FirstWrite()
		if int64(first) > M && !flushed && c.Prog.FirstVia() != ViaCopy {
			v.Labels = append(v.Labels, "413-required")
			if err != nil {
				v.Viol = fmt.Sprintf("S2: the first Write (%d bytes) alone exceeds max_response_body %d and nothing was written or flushed before it, but the client got no response (%v), not 413", first, M, err)
			} else if got.Status != 413 {
				v.Viol = fmt.Sprintf("S2: the first Write (%d bytes) alone exceeds max_response_body %d and nothing was written or flushed before it, but the client got status %d, not 413", first, M, got.Status)
			}
		}
		return v
	}
	// U
	v.Labels = append(v.Labels, "within-limits")
	ref, rerr := reference()
	if rerr != nil || ref == nil {
		v.Viol = fmt.Sprintf("harness: reference exchange without the plugin failed: %v", rerr)
		return v
	}
	if d := DiffResponse(ref, got, c.Prog.UsesCopy()); d != "" {
		if key := stubRegion(&c.Prog); key != "" && lab.Open(key) && got.Status == 200 && ref.Status != 200 {
			v.Excluded = key
			return v
		}
		v.Viol = "U: exchange within both limits differs from the same exchange without size_limit: " + d +
			fmt.Sprintf("\n   without: %d %s body %d bytes\n   with:    %d %s body %d bytes", ref.Status, fmtHeader(ref.Header), len(ref.Body), got.Status, fmtHeader(got.Header), len(got.Body))
	}
	return v
}
