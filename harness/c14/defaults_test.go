package c14

import (
	"strings"
	"testing"

	"github.com/0xReLogic/Helios/verifharness/lab"
	"pgregory.net/rapid"
)

// The documented defaults. README ("10MB request, 50MB response") and the option table of
// docs/plugin-development.md state them exactly: max_request_body 10485760, max_response_body 52428800
// bytes (= defaultL, defaultM). A deployment that omits an option gets that limit: an exchange within it
// "passes through unchanged", one beyond it is bounded like any other. The other sub-checks only send
// bodies of at most 100 KiB (1 MiB) when an option is omitted; here the bodies are megabytes large, so the
// cases are few.

const mib = 1 << 20

// bigSizes returns the body lengths used against an omitted limit of the given documented default.
// quick: clearly inside the default, and - for the response side, whose default is the larger one - clearly
// above the other direction's default. thorough: also the exact boundary default-1 / default / default+1 and
// a length beyond it.
func bigSizes(def int64, response bool) []int {
	var s []int
	if response {
		s = []int{defaultL + 1, defaultL + 4097, 11 * mib, 12 * mib} // just above the REQUEST default, far inside the response default
		if lab.Thorough() {
			s = append(s, 20*mib, 49*mib, int(def)-1, int(def), int(def)+1, int(def)+mib)
		}
		return s
	}
	s = []int{mib + 1, 5 * mib, 9 * mib}
	if lab.Thorough() {
		s = append(s, int(def)-1, int(def), int(def)+1, int(def)+mib)
	}
	return s
}

func genBigRequest(t *rapid.T, n int) lab.RawRequest {
	r := lab.RawRequest{Target: rapid.SampledFrom([]string{"/upload", "/a/b?x=1"}).Draw(t, "target")}
	r.Header = append([]lab.KV{{K: "Host", V: "helios.test"}}, rapid.SampledFrom(reqExtra).Draw(t, "reqhdr")...)
	r.Method = rapid.SampledFrom([]string{"POST", "PUT", "PATCH"}).Draw(t, "method")
	r.Body = payload(n, byte(rapid.IntRange(0, 255).Draw(t, "reqsalt")))
	r.BodyLen = n
	r.Framing = rapid.SampledFrom([]string{"cl", "chunked"}).Draw(t, "reqframing")
	r.Parts = partition(t, n, 4, "req")
	return r
}

func plainGet(t *rapid.T) lab.RawRequest {
	r := lab.RawRequest{Method: "GET", Target: rapid.SampledFrom([]string{"/", "/download", "/a/b?x=1"}).Draw(t, "target"), Framing: "none"}
	r.Header = append([]lab.KV{{K: "Host", V: "helios.test"}}, rapid.SampledFrom(reqExtra).Draw(t, "reqhdr")...)
	return r
}

// genBigProgram: a stub handler that writes a body of the given size in <= 4 Writes.
func genBigProgram(t *rapid.T, total int) Program {
	p := Program{Salt: byte(rapid.IntRange(0, 255).Draw(t, "respsalt"))}
	p.Header = append(p.Header, rapid.SampledFrom(respExtra).Draw(t, "resphdr")...)
	if st := rapid.SampledFrom([]int{0, 0, 200, 201, 404, 500}).Draw(t, "status"); st != 0 {
		p.Ops = append(p.Ops, Op{Op: "status", N: st})
	}
	p.DeclareCL = rapid.IntRange(0, 2).Draw(t, "declarecl") == 2
	parts := partition(t, total, 4, "resp")
	vias := genVias(t, len(parts))
	for i, n := range parts {
		p.Ops = append(p.Ops, Op{Op: "write", N: n, Via: vias[i]})
		if i < len(parts)-1 && rapid.IntRange(0, 5).Draw(t, "flush-between") == 5 {
			p.Ops = append(p.Ops, Op{Op: "flush"})
		}
	}
	p.StopOnErr = rapid.Bool().Draw(t, "stop-on-error")
	return p
}

// genBigScript: a raw backend response with a body of the given size in <= 4 writes.
func genBigScript(t *rapid.T, total int) lab.RespScript {
	r := lab.RespScript{BarrierAfter: -1}
	r.Status = rapid.SampledFrom([]int{200, 200, 200, 201, 404, 500}).Draw(t, "status")
	r.Header = append(r.Header, rapid.SampledFrom(respExtra).Draw(t, "resphdr")...)
	r.Framing = rapid.SampledFrom([]string{"cl", "cl", "chunked", "close"}).Draw(t, "framing")
	r.Body = payload(total, byte(rapid.IntRange(0, 255).Draw(t, "respsalt")))
	r.BodyLen = total
	r.Parts = partition(t, total, 4, "resp")
	return r
}

var defaultsRaceRetries int

func TestC14DocumentedDefaults(t *testing.T) {
	sub := lab.Sub("documented-defaults", "rapid (few cases, megabyte bodies): size_limit at a drawn position among logging/headers with max_response_body and/or max_request_body OMITTED (no config block at all / only the other option, 1000..65536), "+
		"stub terminal or the real balancer with a raw TCP backend, one lab per case; against an omitted max_response_body one GET whose response body (<=4 writes, Content-Length / chunked / close-delimited resp. declared or not, status 200/201/404/500 or implicit) is 10 MiB+1, 10 MiB+4097, 11 MiB or 12 MiB long "+
		"- above the request default, far inside the documented 52428800 - (thorough: also 20 MiB, 49 MiB and the exact boundary 52428800-1 / 52428800 / 52428800+1 / +1 MiB); against an omitted max_request_body one POST/PUT/PATCH (Content-Length or chunked, <=4 writes) of 1 MiB+1, 5 MiB or 9 MiB "+
		"(thorough: also 10485760-1 / 10485760 / 10485760+1 / +1 MiB); oracle as everywhere: R1-R3, S1-S2 with the documented defaults as the limits and differential U against the same chain without size_limit; "+
		"non-trivial = a response body above 10 MiB against an omitted max_response_body or a request body above 1 MiB against an omitted max_request_body")
	sub.NontrivialFloor(0.9)
	sub.Floor("resp-above-10MiB-limit-omitted", 0.45)
	sub.Floor("req-above-1MiB-limit-omitted", 0.30)
	lab.Check(t, sub, 8, 160, func(rt *rapid.T) {
		ch := genChain(rt)
		// at least one option is omitted; the other one, if present, is an ordinary small limit
		switch rapid.IntRange(0, 3).Draw(rt, "omitted") {
		case 0:
			ch.L, ch.M = 0, 0 // `- name: size_limit` without a config block
		case 1, 2:
			ch.M = 0 // only the upload side is configured
			ch.L = int64(rapid.SampledFrom([]int{1000, 4096, 65536}).Draw(rt, "L-set"))
		default:
			ch.L = 0
			ch.M = int64(rapid.SampledFrom([]int{1000, 4096, 65536}).Draw(rt, "M-set"))
		}
		proxied := rapid.Bool().Draw(rt, "through-balancer")
		pcWith, err := ch.Plugins(true)
		if err != nil {
			rt.Fatalf("harness: yaml: %v\n%s", err, ch.YAML(true))
		}
		type exch struct {
			req  lab.RawRequest
			size int
			resp bool
		}
		var todo []exch
		if ch.M == 0 {
			todo = append(todo, exch{plainGet(rt), rapid.SampledFrom(bigSizes(defaultM, true)).Draw(rt, "resp-size"), true})
		}
		if ch.L == 0 {
			n := rapid.SampledFrom(bigSizes(defaultL, false)).Draw(rt, "req-size")
			todo = append(todo, exch{genBigRequest(rt, n), n, false})
		}
		small := 100
		if ch.M != 0 && int64(small) > ch.M {
			small = int(ch.M)
		}
		label := func(e exch, labels []string) []string {
			if e.resp {
				return append(labels, "resp-above-10MiB-limit-omitted")
			}
			return append(labels, "req-above-1MiB-limit-omitted")
		}
		if !proxied {
			with, err := NewStubLab(pcWith)
			if resourceError(err) {
				Inconclusive(rt, "documented-defaults", err.Error())
			}
			if err != nil {
				rt.Fatalf("a valid size_limit configuration was refused: %v\n%s", err, ch.YAML(true))
			}
			defer with.Close()
			without, err := RefStubLab(ch)
			if err != nil {
				Inconclusive(rt, "documented-defaults", err.Error())
			}
			for _, e := range todo {
				c := StubCase{Chain: ch, Req: e.req}
				if e.resp {
					c.Prog = genBigProgram(rt, e.size)
				} else {
					c.Prog = genBigProgram(rt, small)
				}
				v := JudgeStub(&c, with, without)
				if strings.HasPrefix(v.Viol, "harness:") {
					Inconclusive(rt, "documented-defaults", v.Viol)
				}
				if v.Excluded != "" {
					sub.Excluded(v.Excluded)
				}
				sub.Case(c, true, label(e, append(v.Labels, "stub-terminal"))...)
				if v.Viol != "" {
					rt.Fatalf("%s\n=> %s", c.describe(), v.Viol)
				}
			}
			if p := with.L.PanicLines(); len(p) > 0 {
				rt.Fatalf("handler panicked: %v", p)
			}
			return
		}
		with, err := NewProxyLab(pcWith, 1)
		if resourceError(err) {
			Inconclusive(rt, "documented-defaults", err.Error())
		}
		if err != nil {
			rt.Fatalf("a valid size_limit configuration was refused: %v\n%s", err, ch.YAML(true))
		}
		defer with.Close()
		without, err := RefProxyLab(ch, 1)
		if err != nil {
			Inconclusive(rt, "documented-defaults", err.Error())
		}
		for i, e := range todo {
			c := ProxyCase{Chain: ch, Backends: 1, Req: e.req}
			if e.resp {
				c.Resp = genBigScript(rt, e.size)
			} else {
				c.Resp = genBigScript(rt, small)
			}
			before := defaultsRaceRetries
			v := JudgeProxy(&c, with, without, i == 0, &defaultsRaceRetries)
			if strings.HasPrefix(v.Viol, "harness:") {
				Inconclusive(rt, "documented-defaults", v.Viol)
			}
			for k := before; k < defaultsRaceRetries; k++ {
				sub.Excluded(keyRace)
			}
			if v.Excluded != "" {
				sub.Excluded(v.Excluded)
			}
			sub.Case(c, true, label(e, append(v.Labels, "real-balancer"))...)
			if v.Viol != "" {
				rt.Fatalf("%s\n=> %s", c.describe(), v.Viol)
			}
		}
		if p := with.L.PanicLines(); len(p) > 0 {
			rt.Fatalf("handler panicked: %v", p)
		}
	})
}
