package c14

import (
	"strings"
	"testing"

	"github.com/0xReLogic/Helios/verifharness/lab"
	"pgregory.net/rapid"
)

const proxyRule = "rapid: size_limit at a drawn position among logging/headers (limits and number styles as in stub-terminal-rapid) in front of the REAL balancer with 1-2 raw scripted TCP backends; 1-6 (thorough 1-12) exchanges per lab (one kept-alive client connection): " +
	"request (a quarter of them carrying an Upgrade: websocket / h2c offer, with and without Connection: Upgrade, that the backend does not take up) without body (GET/HEAD/DELETE) or with a body of 0, L-1, L, L+1, 3L, 100 KiB in Content-Length or chunked framing; byte-exact backend response script: 15 statuses incl. 204/304/3xx/4xx/5xx (also empty), " +
	"Content-Length / chunked / close-delimited framing, body of 0, M-1, M, M+1, 3M, 100 KiB in <=4 backend writes; oracle R1 (every backend's recorded body), R2 (413, no request arrived and no backend connection accepted), R3, S1, " +
	"S2 (only when the first backend write alone overflows, Content-Length framing, M <= 1024), U differential against a second lab without size_limit (response at the client and request at the backend); " +
	"non-trivial = a body length within +-1 of its limit, a bodiless status, HEAD, or >= 2 backend writes"

var proxyRaceRetries int

func TestC14ProxyRapid(t *testing.T) {
	sub := lab.Sub("real-balancer-rapid", proxyRule)
	sub.NontrivialFloor(0.60)
	sub.Floor("req=limit", 0.08)
	sub.Floor("req=limit+1", 0.05)
	sub.Floor("req-chunked", 0.15)
	sub.Floor("declared-too-large", 0.04)
	sub.Floor("chunked-too-large", 0.04)
	sub.Floor("resp=limit", 0.08)
	sub.Floor("resp=limit+1", 0.05)
	sub.Floor("413-required", 0.02)
	sub.Floor("within-limits", 0.25)
	sub.Floor("bodiless-status", 0.04)
	sub.Floor("empty-non200", 0.04)
	sub.Floor("HEAD", 0.03)
	sub.Floor("resp-chunked", 0.10)
	sub.Floor("resp-close", 0.10)
	sub.Floor("req-carries-upgrade", 0.15)
	sub.Floor("plugin-wrapped-by-others", 0.15)
	sub.Floor("plugin-wraps-others", 0.15)
	lab.Assume("L2 with the real balancer: handler composition and server timeouts replicate cmd/helios/server.go (lab.BuildHandler, lab.NewSocketLab); raw TCP backends record the exact request and play byte-exact response scripts; HTTP/1.1 over loopback only; backend responses are preceded by an interim 100/102/103 in one case of six and chunked ones carry trailer fields in one case of five; Expect: 100-continue is not generated for C14.")
	lab.Check(t, sub, 4000, 30000, func(rt *rapid.T) {
		ch := genChain(rt)
		pcWith, err := ch.Plugins(true)
		if err != nil {
			rt.Fatalf("harness: yaml: %v\n%s", err, ch.YAML(true))
		}
		nb := rapid.IntRange(1, 2).Draw(rt, "backends")
		with, err := NewProxyLab(pcWith, nb)
		if resourceError(err) {
			Inconclusive(rt, "real-balancer-rapid", err.Error())
		}
		if err != nil {
			rt.Fatalf("a valid size_limit configuration was refused: %v\n%s", err, ch.YAML(true))
		}
		defer with.Close()
		without, err := RefProxyLab(ch, nb)
		if err != nil {
			Inconclusive(rt, "real-balancer-rapid", err.Error())
		}
		n := rapid.IntRange(1, lab.Scale(6, 12)).Draw(rt, "exchanges")
		for i := 0; i < n; i++ {
			c := ProxyCase{Chain: ch, Backends: nb}
			c.Req = genRequest(rt, ch, true)
			c.Resp = genScript(rt, ch)
			before := proxyRaceRetries
			v := JudgeProxy(&c, with, without, i == 0, &proxyRaceRetries)
			if strings.HasPrefix(v.Viol, "harness:") {
				Inconclusive(rt, "real-balancer-rapid", v.Viol)
			}
			for k := before; k < proxyRaceRetries; k++ {
				sub.Excluded(keyRace)
			}
			if v.Excluded != "" {
				sub.Excluded(v.Excluded)
			}
			sub.Case(c, v.Nontrivial, v.Labels...)
			if v.Viol != "" {
				rt.Fatalf("%s\n=> %s", c.describe(), v.Viol)
			}
		}
		if p := with.L.PanicLines(); len(p) > 0 {
			rt.Fatalf("handler panicked: %v", p)
		}
	})
}
