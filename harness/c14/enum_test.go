package c14

import (
	"fmt"
	"strings"
	"testing"

	"github.com/0xReLogic/Helios/verifharness/lab"
)

// ---------------------------------------------------------------------------------------------
// Exhaustive sub-check 1: every partition of a short response body into <= 4 writes
// ---------------------------------------------------------------------------------------------

// compositions returns every way to write total as an ordered sum of 1..maxParts positive parts.
func compositions(total, maxParts int) [][]int {
	var out [][]int
	var rec func(rest int, cur []int)
	rec = func(rest int, cur []int) {
		if rest == 0 {
			out = append(out, append([]int(nil), cur...))
			return
		}
		if len(cur) == maxParts {
			return
		}
		for n := 1; n <= rest; n++ {
			rec(rest-n, append(cur, n))
		}
	}
	if total > 0 {
		rec(total, nil)
	}
	return out
}

// enumPrograms builds the finite program space of the sub-check (independent of the limit).
func enumPrograms(tmax int) []Program {
	var progs []Program
	seen := map[string]bool{}
	for total := 0; total <= tmax; total++ {
		var partitions [][]int
		if total == 0 {
			partitions = [][]int{nil, {0}} // no Write at all, one empty Write
		} else {
			partitions = compositions(total, 4)
		}
		for _, parts := range partitions {
			for _, status := range []int{0, 200, 201, 404} {
				for _, fl := range []string{"none", "before-first-write", "after-first-write", "after-last-write"} {
					for _, declare := range []bool{false, true} {
						for _, stop := range []bool{true, false} {
							p := Program{DeclareCL: declare, StopOnErr: stop, Salt: 7, Header: []lab.KV{{K: "Content-Type", V: "text/plain"}}}
							if status != 0 {
								p.Ops = append(p.Ops, Op{Op: "status", N: status})
							}
							if fl == "before-first-write" {
								p.Ops = append(p.Ops, Op{Op: "flush"})
							}
							for i, n := range parts {
								p.Ops = append(p.Ops, Op{Op: "write", N: n})
								if (i == 0 && fl == "after-first-write") || (i == len(parts)-1 && fl == "after-last-write") {
									p.Ops = append(p.Ops, Op{Op: "flush"})
								}
							}
							key := fmt.Sprintf("%v|%v|%v", p.Ops, declare, stop)
							if seen[key] {
								continue // e.g. after-first == after-last for a single write
							}
							seen[key] = true
							progs = append(progs, p)
						}
					}
				}
			}
		}
	}
	return progs
}

const partitionsSub = "write-partitions-exhaustive"

func TestC14WritePartitions(t *testing.T) {
	tmax, mmax := lab.Scale(8, 10), lab.Scale(9, 11)
	sub := lab.Sub(partitionsSub, fmt.Sprintf("complete enumeration: max_response_body M = 1..%d x response body length T = 0..%d x EVERY ordered partition of T into <= 4 Writes (T=0: no Write, one empty Write) "+
		"x {implicit, WriteHeader(200), WriteHeader(201), WriteHeader(404)} x Flush {none, before the first Write, after the first Write, after the last Write} x declared Content-Length yes/no x handler stops / continues after a failed Write; "+
		"GET through [size_limit] -> stub terminal over a real connection; oracle S1, S2 and differential U against the same program without the plugin; non-trivial = T within +-1 of M or >= 2 writes; "+
		"exhaustive for this finite space (shards split it by index)", mmax, tmax))
	sub.NontrivialFloor(0.60)
	sub.Floor("resp=limit", 0.05)
	sub.Floor("413-required", 0.03)
	sub.Floor("within-limits", 0.30)
	mkChain := func(m int) Chain { return Chain{L: 0, M: int64(m), Style: "yaml-int"} }
	req := lab.RawRequest{Method: "GET", Target: "/", Framing: "none", Header: []lab.KV{{K: "Host", V: "helios.test"}}}
	refPC, _ := mkChain(1).Plugins(false)
	without, err := NewStubLab(refPC)
	if err != nil {
		t.Fatal(err)
	}
	defer without.Close()
	withLab := func(m int) *StubLab {
		pc, err := mkChain(m).Plugins(true)
		if err != nil {
			t.Fatal(err)
		}
		l, err := NewStubLab(pc)
		if resourceError(err) {
			lab.Problem("%s: %v", partitionsSub, err)
		}
		if err != nil {
			t.Fatalf("a valid size_limit configuration was refused: %v", err)
		}
		return l
	}
	var rc StubCase
	if lab.ReplayCase(partitionsSub, &rc) {
		with := withLab(int(rc.Chain.M))
		defer with.Close()
		if v := JudgeStub(&rc, with, without); v.Viol != "" {
			lab.Violation(t, partitionsSub, rc, "%s\n=> %s", rc.describe(), v.Viol)
		}
		return
	}
	if lab.Replaying() {
		t.Skip("replay of another sub-check")
	}
	progs := enumPrograms(tmax)
	type refResult struct {
		out *lab.RawResponse
		err error
	}
	refs := map[int]*refResult{}
	labs := map[int]*StubLab{}
	defer func() {
		for _, l := range labs {
			l.Close()
		}
	}()
	total := len(progs) * mmax
	for idx := lab.Shard(); idx < total; idx += lab.Shards() {
		pi, m := idx/mmax, idx%mmax+1
		if labs[m] == nil {
			labs[m] = withLab(m)
		}
		c := StubCase{Chain: mkChain(m), Req: req, Prog: progs[pi]}
		v := JudgeStubRef(&c, labs[m], func() (*lab.RawResponse, error) {
			if r := refs[pi]; r != nil {
				return r.out, r.err
			}
			p := progs[pi]
			out, rec, err := without.Run(&req, &p)
			if err == nil && (out == nil || !rec.Invoked()) {
				err = fmt.Errorf("reference handler was not invoked")
			}
			refs[pi] = &refResult{out, err}
			return out, err
		})
		if strings.HasPrefix(v.Viol, "harness:") {
			lab.Problem("%s: %s", partitionsSub, v.Viol)
			t.Fatalf("inconclusive: %s", v.Viol)
		}
		if v.Excluded != "" {
			sub.Excluded(v.Excluded)
		}
		sub.Case(c, v.Nontrivial, v.Labels...)
		if v.Viol != "" {
			lab.Violation(t, partitionsSub, c, "%s\n=> %s", c.describe(), v.Viol)
		}
	}
	sub.Exhaustive()
}

// ---------------------------------------------------------------------------------------------
// Exhaustive sub-check 2: every request limit of a range x the boundary lengths x both framings
// ---------------------------------------------------------------------------------------------

const boundarySub = "request-boundary-exhaustive"

type boundaryCase struct {
	Terminal string         `json:"terminal"` // stub | balancer
	Chain    Chain          `json:"chain"`
	Req      lab.RawRequest `json:"req"`
}

func boundaryLimits() []int {
	var ls []int
	for l := 1; l <= lab.Scale(64, 256); l++ {
		ls = append(ls, l)
	}
	return append(ls, 4095, 4096, 4097, 32768)
}

func boundaryRequests(l int) []lab.RawRequest {
	var out []lab.RawRequest
	seen := map[int]bool{}
	for _, n := range []int{0, l - 1, l, l + 1, 3 * l} {
		if seen[n] {
			continue
		}
		seen[n] = true
		for _, fr := range []string{"cl", "chunked"} {
			splits := [][]int{nil}
			switch {
			case n > l:
				splits = append(splits, []int{l, n - l}) // the limit falls exactly on a write/chunk boundary
			case n >= 2:
				splits = append(splits, []int{n - 1, 1})
			}
			for _, parts := range splits {
				// plain, and carrying an Upgrade offer the backend does not take up (websocket with Connection: Upgrade, bare h2c)
				for _, up := range [][]lab.KV{nil, upgradeHeaders[1], upgradeHeaders[3]} {
					hdr := append([]lab.KV{{K: "Host", V: "helios.test"}, {K: "Content-Type", V: "application/octet-stream"}}, up...)
					out = append(out, lab.RawRequest{Method: "POST", Target: "/upload", Framing: fr, Body: payload(n, byte(l)), BodyLen: n, Parts: parts, Header: hdr})
				}
			}
		}
	}
	return out
}

var boundaryRaceRetries int

func judgeBoundary(c *boundaryCase, withStub, refStub *StubLab, withProxy, refProxy *ProxyLab) Verdict {
	if c.Terminal == "stub" {
		sc := StubCase{Chain: c.Chain, Req: c.Req, Prog: Program{Salt: 3, Ops: []Op{{Op: "write", N: 2}}}}
		return JudgeStub(&sc, withStub, refStub)
	}
	pc := ProxyCase{Chain: c.Chain, Backends: 1, Req: c.Req, Resp: lab.RespScript{Status: 200, Framing: "cl", Body: []byte("ok"), BodyLen: 2, BarrierAfter: -1}}
	return JudgeProxy(&pc, withProxy, refProxy, false, &boundaryRaceRetries)
}

func TestC14RequestBoundary(t *testing.T) {
	limits := boundaryLimits()
	sub := lab.Sub(boundarySub, fmt.Sprintf("complete enumeration: max_request_body L = 1..%d and 4095, 4096, 4097, 32768 x request body length {0, L-1, L, L+1, 3L} x {Content-Length, chunked} x {one write, split (at the limit when longer than L)} x request headers {plain, 'Connection: Upgrade' + 'Upgrade: websocket', bare 'Upgrade: h2c' (the backend does not switch protocols)} "+
		"x terminal {stub handler, real balancer + raw backend}; POST through [size_limit] over a real connection; oracle R1, R2 (413 and backend not contacted), R3 (body arrives intact) and U (2-byte 200 response identical to the run without the plugin); "+
		"non-trivial = length within +-1 of L; exhaustive for this finite grid (shards split it by limit)", lab.Scale(64, 256)))
	sub.NontrivialFloor(0.50)
	sub.Floor("req=limit", 0.15)
	sub.Floor("req=limit+1", 0.15)
	sub.Floor("declared-too-large", 0.15)
	sub.Floor("chunked-too-large", 0.15)
	sub.Floor("req-carries-upgrade", 0.50)
	mkChain := func(l int) Chain { return Chain{L: int64(l), M: 0, Style: "yaml-int"} }
	refPC, _ := mkChain(1).Plugins(false)
	refStub, err := NewStubLab(refPC)
	if err != nil {
		t.Fatal(err)
	}
	defer refStub.Close()
	refProxy, err := NewProxyLab(refPC, 1)
	if err != nil {
		t.Fatal(err)
	}
	defer refProxy.Close()
	labsFor := func(l int) (*StubLab, *ProxyLab) {
		pc, err := mkChain(l).Plugins(true)
		if err != nil {
			t.Fatal(err)
		}
		s, err := NewStubLab(pc)
		if err != nil {
			t.Fatalf("a valid size_limit configuration was refused: %v", err)
		}
		p, err := NewProxyLab(pc, 1)
		if err != nil {
			t.Fatalf("a valid size_limit configuration was refused: %v", err)
		}
		return s, p
	}
	var rc boundaryCase
	if lab.ReplayCase(boundarySub, &rc) {
		rc.Req.Body = payload(rc.Req.BodyLen, byte(rc.Chain.L))
		s, p := labsFor(int(rc.Chain.L))
		defer s.Close()
		defer p.Close()
		if v := judgeBoundary(&rc, s, refStub, p, refProxy); v.Viol != "" {
			lab.Violation(t, boundarySub, rc, "terminal=%s max_request_body=%d request %s body=%d parts=%v\n=> %s", rc.Terminal, rc.Chain.L, rc.Req.Framing, rc.Req.BodyLen, rc.Req.Parts, v.Viol)
		}
		return
	}
	if lab.Replaying() {
		t.Skip("replay of another sub-check")
	}
	for li := lab.Shard(); li < len(limits); li += lab.Shards() {
		l := limits[li]
		s, p := labsFor(l)
		for _, req := range boundaryRequests(l) {
			for _, term := range []string{"stub", "balancer"} {
				c := boundaryCase{Terminal: term, Chain: mkChain(l), Req: req}
				before := boundaryRaceRetries
				v := judgeBoundary(&c, s, refStub, p, refProxy)
				for k := before; k < boundaryRaceRetries; k++ {
					sub.Excluded(keyRace)
				}
				if strings.HasPrefix(v.Viol, "harness:") {
					lab.Problem("%s: %s", boundarySub, v.Viol)
					t.Fatalf("inconclusive: %s", v.Viol)
				}
				if v.Excluded != "" {
					sub.Excluded(v.Excluded)
				}
				sub.Case(c, v.Nontrivial, append(v.Labels, "terminal-"+term)...)
				if v.Viol != "" {
					s.Close()
					p.Close()
					lab.Violation(t, boundarySub, c, "terminal=%s max_request_body=%d request %s body=%d parts=%v\n=> %s", term, l, req.Framing, req.BodyLen, req.Parts, v.Viol)
				}
			}
		}
		s.Close()
		p.Close()
	}
	sub.Exhaustive()
}
