package c14

import (
	"bytes"
	"fmt"
	"strings"
	"testing"

	"github.com/0xReLogic/Helios/verifharness/lab"
	"pgregory.net/rapid"
)

const hijackSub = "after-hijacked-exchange"

// hijackCase is one exchange of an interleaved sequence.
type hijackCase struct {
	Terminal    string     `json:"terminal"` // stub | balancer
	Index       int        `json:"index"`    // position in the lab's sequence
	HijacksSoFa int        `json:"hijacked_exchanges_before"`
	Kind        string     `json:"kind"` // hijack | bodiless | ordinary
	HijackBytes int        `json:"hijack_bytes,omitempty"`
	Stub        *StubCase  `json:"stub,omitempty"`
	Proxy       *ProxyCase `json:"proxy,omitempty"`
}

var bodilessStatuses = []int{204, 304, 302, 404, 502, 201, 301, 500}

// genBodilessProgram: a non-200 status and no body write (204, 304, redirects, empty errors), GET or HEAD.
func genBodilessStub(t *rapid.T, ch Chain) StubCase {
	st := rapid.SampledFrom(bodilessStatuses).Draw(t, "bodiless-status")
	c := StubCase{Chain: ch}
	c.Req = lab.RawRequest{Method: rapid.SampledFrom([]string{"GET", "GET", "HEAD"}).Draw(t, "method"), Target: "/", Framing: "none", Header: []lab.KV{{K: "Host", V: "helios.test"}}}
	c.Prog = Program{Salt: 1, Ops: []Op{{Op: "status", N: st}}}
	switch st {
	case 301, 302:
		c.Prog.Header = []lab.KV{{K: "Location", V: "/next?x=1"}}
	case 304:
		c.Prog.Header = []lab.KV{{K: "ETag", V: "\"v1\""}}
	}
	if c.Req.Method == "HEAD" && !bodilessStatus(st) && rapid.Bool().Draw(t, "head-declares-length") {
		c.Prog.Header = append(c.Prog.Header, lab.KV{K: "Content-Length", V: "1234"})
	}
	return c
}

func genBodilessProxy(t *rapid.T, ch Chain) ProxyCase {
	st := rapid.SampledFrom(bodilessStatuses).Draw(t, "bodiless-status")
	c := ProxyCase{Chain: ch, Backends: 1}
	c.Req = lab.RawRequest{Method: rapid.SampledFrom([]string{"GET", "GET", "HEAD"}).Draw(t, "method"), Target: "/", Framing: "none", Header: []lab.KV{{K: "Host", V: "helios.test"}}}
	c.Resp = lab.RespScript{Status: st, Framing: "cl", BarrierAfter: -1}
	switch st {
	case 301, 302:
		c.Resp.Header = []lab.KV{{K: "Location", V: "/next?x=1"}}
	case 304:
		c.Resp.Header = []lab.KV{{K: "ETag", V: "\"v1\""}}
	}
	if bodilessStatus(st) {
		c.Resp.Framing = "none"
	} else if c.Req.Method == "HEAD" {
		// a HEAD answer that describes a body the GET would carry (never more than max_response_body)
		n := int(min(c.Chain.EffM(), 40))
		c.Resp.Body, c.Resp.BodyLen = payload(n, 5), n
	}
	return c
}

// TestC14AfterHijack interleaves protocol switches with ordinary exchanges in one lab.
func TestC14AfterHijack(t *testing.T) {
	sub := lab.Sub(hijackSub, "rapid: size_limit at a drawn position among logging/headers (limits as in stub-terminal-rapid); one lab per case, terminal drawn {stub handler, real balancer + raw backend}; a sequence of "+
		"4-24 (thorough 4-40) exchanges in that lab, each drawn from {protocol switch: the stub Hijack()s through the writer chain, writes '101 Switching Protocols' + 0-64 raw bytes and closes / the raw backend answers 101 and "+
		"httputil.ReverseProxy hijacks and tunnels; bodiless non-200: 204, 304, 301/302, empty 201/404/500/502 by GET or HEAD; ordinary: any request/program of the rapid sub-checks, bodies within and beyond the limits}; "+
		"oracle: the switched exchange is byte-identical (stub) / same status and header multimap (balancer) as without size_limit, every other exchange satisfies R1-R3, S1-S2 and U unchanged; "+
		"non-trivial = a protocol switch, or any exchange after at least one protocol switch in the same lab")
	sub.NontrivialFloor(0.60)
	sub.Floor("hijacked", 0.15)
	sub.Floor("bodiless-non200-after-hijack", 0.12)
	sub.Floor("ordinary-after-hijack", 0.12)
	sub.Floor("terminal-stub", 0.30)
	sub.Floor("terminal-balancer", 0.30)
	lab.Check(t, sub, 400, 8000, func(rt *rapid.T) {
		ch := genChain(rt)
		terminal := rapid.SampledFrom([]string{"stub", "balancer"}).Draw(rt, "terminal")
		pcWith, err := ch.Plugins(true)
		if err != nil {
			rt.Fatalf("harness: yaml: %v\n%s", err, ch.YAML(true))
		}
		var withS, refS *StubLab
		var withP, refP *ProxyLab
		if terminal == "stub" {
			if withS, err = NewStubLab(pcWith); err == nil {
				defer withS.Close()
				refS, err = RefStubLab(ch)
			}
		} else {
			if withP, err = NewProxyLab(pcWith, 1); err == nil {
				defer withP.Close()
				refP, err = RefProxyLab(ch, 1)
			}
		}
		if resourceError(err) {
			Inconclusive(rt, hijackSub, err.Error())
		}
		if err != nil {
			rt.Fatalf("a valid size_limit configuration was refused: %v\n%s", err, ch.YAML(true))
		}
		n := rapid.IntRange(4, lab.Scale(24, 40)).Draw(rt, "exchanges")
		hijacks := 0
		var retries int
		for i := 0; i < n; i++ {
			hc := hijackCase{Terminal: terminal, Index: i, HijacksSoFa: hijacks}
			hc.Kind = rapid.SampledFrom([]string{"hijack", "bodiless", "bodiless", "ordinary", "ordinary", "hijack"}).Draw(rt, "kind")
			var v Verdict
			desc := ""
			switch hc.Kind {
			case "hijack":
				hc.HijackBytes = rapid.SampledFrom([]int{0, 1, 17, 64}).Draw(rt, "hijack-bytes")
				hc.Stub = &StubCase{Chain: ch} // the chain is part of every case record
				v.Labels, v.Nontrivial = []string{"hijacked"}, true
				desc = fmt.Sprintf("exchange #%d: protocol switch (%s terminal, %d raw bytes after the 101)", i, terminal, hc.HijackBytes)
				if terminal == "stub" {
					got, rec, err := withS.RunHijack(hc.HijackBytes, 9)
					ref, _, rerr := refS.RunHijack(hc.HijackBytes, 9)
					switch {
					case err != nil && strings.HasPrefix(err.Error(), "harness:"):
						v.Viol = err.Error()
					case rerr != nil:
						v.Viol = "harness: reference protocol switch failed: " + rerr.Error()
					case !bytes.HasPrefix(ref, []byte("HTTP/1.1 101 ")):
						v.Viol = fmt.Sprintf("harness: reference protocol switch did not switch: %q", ref)
					case err != nil:
						v.Viol = fmt.Sprintf("U: protocol switch through size_limit: client read failed: %v (handler invoked: %v)", err, rec.Invoked())
					case !bytes.Equal(got, ref):
						v.Viol = fmt.Sprintf("U: protocol switch: client read %q without size_limit and %q with it", ref, got)
					}
				} else {
					got, err := withP.RunUpgrade()
					ref, rerr := refP.RunUpgrade()
					switch {
					case err != nil && strings.HasPrefix(err.Error(), "harness:"):
						v.Viol = err.Error()
					case rerr != nil:
						v.Viol = "harness: reference protocol switch failed: " + rerr.Error()
					case ref.Status != 101:
						v.Viol = fmt.Sprintf("harness: reference protocol switch did not switch: status %d", ref.Status)
					case err != nil:
						v.Viol = fmt.Sprintf("U: protocol switch through size_limit and the balancer: %v", err)
					case got != ref:
						v.Viol = fmt.Sprintf("U: protocol switch through the balancer: without size_limit %d {%s}, with it %d {%s}", ref.Status, ref.Header, got.Status, got.Header)
					}
				}
				hijacks++
			default:
				if terminal == "stub" {
					var c StubCase
					if hc.Kind == "bodiless" {
						c = genBodilessStub(rt, ch)
					} else {
						c = StubCase{Chain: ch}
						c.Req = genRequest(rt, ch, true)
						c.Prog = genProgram(rt, ch, c.Req.Method)
					}
					hc.Stub = &c
					v = JudgeStub(&c, withS, refS)
					desc = fmt.Sprintf("exchange #%d (after %d protocol switches in this lab): %s", i, hijacks, c.describe())
				} else {
					var c ProxyCase
					if hc.Kind == "bodiless" {
						c = genBodilessProxy(rt, ch)
					} else {
						c = ProxyCase{Chain: ch, Backends: 1}
						c.Req = genRequest(rt, ch, true)
						c.Resp = genScript(rt, ch)
					}
					hc.Proxy = &c
					before := retries
					v = JudgeProxy(&c, withP, refP, false, &retries)
					for k := before; k < retries; k++ {
						sub.Excluded(keyRace)
					}
					desc = fmt.Sprintf("exchange #%d (after %d protocol switches in this lab): %s", i, hijacks, c.describe())
				}
				if hijacks > 0 {
					v.Nontrivial = true
					if hc.Kind == "bodiless" {
						v.Labels = append(v.Labels, "bodiless-non200-after-hijack")
					} else {
						v.Labels = append(v.Labels, "ordinary-after-hijack")
					}
				} else {
					v.Nontrivial = false
				}
			}
			if strings.HasPrefix(v.Viol, "harness:") {
				Inconclusive(rt, hijackSub, v.Viol)
			}
			if v.Excluded != "" {
				sub.Excluded(v.Excluded)
			}
			sub.Case(hc, v.Nontrivial, append(v.Labels, "terminal-"+terminal, "kind-"+hc.Kind)...)
			if v.Viol != "" {
				rt.Fatalf("%s\n=> %s", desc, v.Viol)
			}
		}
		proxyRaceRetries += retries
		if terminal == "stub" {
			if p := withS.L.PanicLines(); len(p) > 0 {
				rt.Fatalf("handler panicked: %v", p)
			}
		} else if p := withP.L.PanicLines(); len(p) > 0 {
			rt.Fatalf("handler panicked: %v", p)
		}
	})
}
