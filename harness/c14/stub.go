package c14

// Shared machinery of the C14 check: chain description and rendering (YAML text as an operator writes
// it), the programmable stub terminal handler, lab construction and the response comparison.

import (
	"bytes"
	"compress/gzip"
	"errors"
	"fmt"
	"io"
	"net"
	"net/http"
	"sort"
	"strings"
	"sync"
	"sync/atomic"
	"time"

	"github.com/0xReLogic/Helios/internal/config"
	"github.com/0xReLogic/Helios/verifharness/lab"
	"gopkg.in/yaml.v3"
)

const ioDeadline = 10 * time.Second // budget for a loopback exchange that normally takes < 5 ms

const (
	defaultL = 10 << 20 // documented default of max_request_body
	defaultM = 50 << 20 // documented default of max_response_body
)

// Chain says where size_limit sits among `logging` and `headers` and how it is configured.
type Chain struct {
	Before []string `json:"before,omitempty"` // plugins listed before size_limit (they wrap it)
	After  []string `json:"after,omitempty"`  // plugins listed after size_limit (it wraps them)
	L      int64    `json:"max_request_body"` // 0 = option omitted (documented default 10 MiB)
	M      int64    `json:"max_response_body"`
	Style  string   `json:"style"` // yaml-int | yaml-float | go-int64
}

func (c Chain) EffL() int64 {
	if c.L == 0 {
		return defaultL
	}
	return c.L
}

func (c Chain) EffM() int64 {
	if c.M == 0 {
		return defaultM
	}
	return c.M
}

func companionYAML(name string) string {
	switch name {
	case "gzip", "gzip-min64":
		// only ever listed BEFORE size_limit (it wraps it), so that the bytes size_limit counts are the backend's
		min := "0"
		if name == "gzip-min64" {
			min = "64"
		}
		return "  - name: gzip\n    config:\n      level: 6\n      min_size: " + min + "\n      content_types:\n        - \"text/\"\n"
	case "headers":
		return "  - name: headers\n    config:\n      set:\n        X-Verif-Set: \"on\"\n      request_set:\n        X-Verif-Req: lb\n"
	default:
		return "  - name: " + name + "\n"
	}
}

func num(v int64, style string) string {
	if style == "yaml-float" {
		return fmt.Sprintf("%d.0", v)
	}
	return fmt.Sprintf("%d", v)
}

// YAML renders the `plugins:` section body. withLimit=false renders the same chain without
// size_limit (the differential reference).
func (c Chain) YAML(withLimit bool) string {
	var sb strings.Builder
	sb.WriteString("enabled: true\nchain:\n")
	n := 0
	for _, p := range c.Before {
		sb.WriteString(companionYAML(p))
		n++
	}
	if withLimit {
		sb.WriteString("  - name: size_limit\n")
		if c.L != 0 || c.M != 0 {
			sb.WriteString("    config:\n")
			if c.L != 0 {
				sb.WriteString("      max_request_body: " + num(c.L, c.Style) + "\n")
			}
			if c.M != 0 {
				sb.WriteString("      max_response_body: " + num(c.M, c.Style) + " # bytes\n")
			}
		}
		n++
	}
	for _, p := range c.After {
		sb.WriteString(companionYAML(p))
		n++
	}
	if n == 0 {
		return "enabled: false\nchain: []\n"
	}
	return sb.String()
}

// Plugins builds the plugin configuration the way the loader delivers it: YAML text through
// yaml.v3 into config.PluginsConfig (style go-int64: the numbers are replaced by int64 values, as
// a programmatic caller would pass them).
func (c Chain) Plugins(withLimit bool) (config.PluginsConfig, error) {
	var pc config.PluginsConfig
	if err := yaml.Unmarshal([]byte(c.YAML(withLimit)), &pc); err != nil {
		return pc, err
	}
	if withLimit && c.Style == "go-int64" {
		for i := range pc.Chain {
			if pc.Chain[i].Name != "size_limit" {
				continue
			}
			for k, v := range pc.Chain[i].Config {
				if iv, ok := v.(int); ok {
					pc.Chain[i].Config[k] = int64(iv)
				}
			}
		}
	}
	return pc, nil
}

// payload builds n deterministic bytes from a salt (no megabytes drawn through rapid).
func payload(n int, salt byte) []byte {
	b := make([]byte, n)
	x := uint32(salt)*2654435761 + 12345
	for i := range b {
		x = x*1664525 + 1013904223
		b[i] = byte(x >> 24)
	}
	return b
}

// ---------------------------------------------------------------------------------------------
// Stub terminal handler: plays an exact sequence of Header().Set / WriteHeader / Write / Flush
// ---------------------------------------------------------------------------------------------

// Op is one call on the http.ResponseWriter.
type Op struct {
	Op  string `json:"op"`            // status | write | flush | hijack (N bytes sent on the raw connection after the 101)
	N   int    `json:"n,omitempty"`   // status: the code; write: number of body bytes
	Via string `json:"via,omitempty"` // write: HOW the handler hands the N bytes to the ResponseWriter (see the Via constants; "" = w.Write)
}

// The ways a Go handler emits a piece of body. The property speaks of the bytes the client receives, not of
// the call that produced them, so the bounds and "unchanged" hold for every one of them.
const (
	ViaWrite  = ""       // w.Write(piece)
	ViaString = "string" // io.WriteString(w, piece): w.WriteString when the writer in front of the handler is an io.StringWriter, else w.Write
	ViaCopy   = "copy"   // io.CopyBuffer(w, reader, 32 KiB buffer): w.ReadFrom when the writer is an io.ReaderFrom, else w.Write per buffer-full
	ViaFprint = "fprint" // fmt.Fprint(w, piece): formatted output (templates, Fprintf), arrives as w.Write
)

// emitWays lists the ways in the order generators and enumerations use.
var emitWays = []string{ViaWrite, ViaString, ViaCopy, ViaFprint}

const copyBuf = 32 << 10 // io.Copy's own buffer size

// onlyReader hides every optional interface of a reader (bytes.Reader is an io.WriterTo, which io.Copy
// would prefer over the destination's ReadFrom).
type onlyReader struct{ io.Reader }

// emit hands one piece of body to the ResponseWriter the given way.
func emit(w http.ResponseWriter, piece []byte, via string) (err error) {
	switch via {
	case ViaString:
		_, err = io.WriteString(w, string(piece))
	case ViaCopy:
		_, err = io.CopyBuffer(w, onlyReader{bytes.NewReader(piece)}, make([]byte, copyBuf))
	case ViaFprint:
		_, err = fmt.Fprint(w, string(piece))
	default:
		_, err = w.Write(piece)
	}
	return err
}

// Program is what the stub handler does for one request.
type Program struct {
	Header    []lab.KV `json:"header,omitempty"`     // Header().Add before the first op
	DeclareCL bool     `json:"declare_cl,omitempty"` // Header().Set("Content-Length", total)
	Ops       []Op     `json:"ops"`
	StopOnErr bool     `json:"stop_on_write_error,omitempty"` // a handler that stops at the first failed Write (as io.Copy does)
	Salt      byte     `json:"salt"`
}

func (p *Program) Total() int {
	n := 0
	for _, o := range p.Ops {
		if o.Op == "write" {
			n += o.N
		}
	}
	return n
}

func (p *Program) Writes() int {
	n := 0
	for _, o := range p.Ops {
		if o.Op == "write" {
			n++
		}
	}
	return n
}

// Explicit returns the status passed to WriteHeader, 0 if the handler never calls it.
func (p *Program) Explicit() int {
	for _, o := range p.Ops {
		if o.Op == "status" {
			return o.N
		}
	}
	return 0
}

// FirstVia returns the way the first piece of body is emitted (ViaWrite if there is none).
func (p *Program) FirstVia() string {
	for _, o := range p.Ops {
		if o.Op == "write" {
			return o.Via
		}
	}
	return ViaWrite
}

// Ways returns the set of ways the program emits body with, in emitWays order.
func (p *Program) Ways() []string {
	seen := map[string]bool{}
	for _, o := range p.Ops {
		if o.Op == "write" {
			seen[o.Via] = true
		}
	}
	var out []string
	for _, w := range emitWays {
		if seen[w] {
			out = append(out, w)
		}
	}
	return out
}

// UsesCopy reports whether some piece is emitted with io.Copy.
func (p *Program) UsesCopy() bool {
	for _, o := range p.Ops {
		if o.Op == "write" && o.Via == ViaCopy {
			return true
		}
	}
	return false
}

// FirstWrite returns the size of the first piece of body (-1 if none) and whether a Flush precedes it.
func (p *Program) FirstWrite() (n int, flushedBefore bool) {
	for _, o := range p.Ops {
		switch o.Op {
		case "flush":
			flushedBefore = true
		case "write":
			return o.N, flushedBefore
		}
	}
	return -1, flushedBefore
}

func (p *Program) String() string {
	var parts []string
	for _, kv := range p.Header {
		parts = append(parts, fmt.Sprintf("Header().Add(%q,%q)", kv.K, kv.V))
	}
	if p.DeclareCL {
		parts = append(parts, fmt.Sprintf("Header().Set(\"Content-Length\",\"%d\")", p.Total()))
	}
	for _, o := range p.Ops {
		switch o.Op {
		case "status":
			parts = append(parts, fmt.Sprintf("WriteHeader(%d)", o.N))
		case "write":
			switch o.Via {
			case ViaString:
				parts = append(parts, fmt.Sprintf("io.WriteString(w, %d bytes)", o.N))
			case ViaCopy:
				parts = append(parts, fmt.Sprintf("io.Copy(w, reader of %d bytes)", o.N))
			case ViaFprint:
				parts = append(parts, fmt.Sprintf("fmt.Fprint(w, %d bytes)", o.N))
			default:
				parts = append(parts, fmt.Sprintf("Write(%d bytes)", o.N))
			}
		case "flush":
			parts = append(parts, "Flush()")
		}
	}
	if len(parts) == 0 {
		return "(returns without touching the ResponseWriter)"
	}
	return strings.Join(parts, "; ")
}

const hijackHead = "HTTP/1.1 101 Switching Protocols\r\nUpgrade: verif\r\nConnection: Upgrade\r\n\r\n"

// Record is what the stub observed for one request.
type Record struct {
	invoked   atomic.Bool
	Got       []byte // request body bytes the handler could read
	ReadErr   string
	WriteErrs int
	Seen      http.Header
	done      chan struct{}
}

func (r *Record) Invoked() bool { return r.invoked.Load() }

// Stub is the terminal handler behind the plugin chain (it stands where the balancer stands).
type Stub struct {
	mu   sync.Mutex
	prog *Program
	rec  *Record
}

// Arm sets the program for the next request and returns its record.
func (s *Stub) Arm(p *Program) *Record {
	rec := &Record{done: make(chan struct{})}
	s.mu.Lock()
	s.prog, s.rec = p, rec
	s.mu.Unlock()
	return rec
}

func (s *Stub) ServeHTTP(w http.ResponseWriter, r *http.Request) {
	s.mu.Lock()
	p, rec := s.prog, s.rec
	s.prog, s.rec = nil, nil
	s.mu.Unlock()
	if p == nil {
		http.Error(w, "stub: no program armed", 599)
		return
	}
	defer close(rec.done)
	rec.invoked.Store(true)
	rec.Seen = r.Header.Clone()
	body, err := io.ReadAll(r.Body)
	rec.Got = body
	if err != nil {
		rec.ReadErr = err.Error()
	}
	for _, kv := range p.Header {
		w.Header().Add(kv.K, kv.V)
	}
	total := p.Total()
	if p.DeclareCL {
		w.Header().Set("Content-Length", fmt.Sprint(total))
	}
	data := payload(total, p.Salt)
	off := 0
	for _, o := range p.Ops {
		switch o.Op {
		case "status":
			w.WriteHeader(o.N)
		case "flush":
			if f, ok := w.(http.Flusher); ok {
				f.Flush()
			}
		case "hijack":
			// a protocol switch: take the connection over, answer 101 on the raw connection, send o.N bytes of
			// the new protocol and close
			hj, ok := w.(http.Hijacker)
			if !ok {
				http.Error(w, "stub: ResponseWriter is not a Hijacker", 500)
				return
			}
			c, brw, err := hj.Hijack()
			if err != nil {
				rec.WriteErrs++
				return
			}
			_, _ = brw.WriteString(hijackHead)
			_, _ = brw.Write(payload(o.N, p.Salt))
			_ = brw.Flush()
			_ = c.Close()
			return
		case "write":
			err := emit(w, data[off:off+o.N], o.Via)
			off += o.N
			if err != nil {
				rec.WriteErrs++
				if p.StopOnErr {
					return
				}
			}
		}
	}
}

// Client is a raw HTTP/1.1 client that keeps ONE connection per lab alive across exchanges (as real
// clients do) and closes it with an RST: tens of thousands of exchanges per run would otherwise leave as
// many TIME_WAIT sockets and exhaust the loopback port range of the machine. A connection is reused only
// after a response that was read completely and did not announce "Connection: close".
type Client struct {
	Addr string
	cc   *lab.ClientConn
}

func (c *Client) drop() {
	if c.cc != nil {
		if tc, ok := c.cc.C.(*net.TCPConn); ok {
			_ = tc.SetLinger(0)
		}
		c.cc.Close()
		c.cc = nil
	}
}

// Close closes the kept connection.
func (c *Client) Close() { c.drop() }

// Do performs one complete exchange. stale reports that the exchange failed on a REUSED connection before
// any response byte arrived: a server may close a kept-alive connection at any time (net/http does so
// silently after a handler wrote more than the declared Content-Length), so - like every real client - the
// caller re-runs such an exchange once on a fresh connection (re-arming the stub / backend script first).
func (c *Client) Do(r *lab.RawRequest, deadline time.Duration) (out *lab.RawResponse, err error, stale bool) {
	reused := c.cc != nil
	out, err = c.do(r, deadline)
	if err != nil && reused && out != nil && out.Status == 0 && !strings.HasPrefix(err.Error(), "harness:") {
		stale = true
	}
	return
}

func (c *Client) do(r *lab.RawRequest, deadline time.Duration) (*lab.RawResponse, error) {
	if c.cc == nil {
		cc, err := dialRetry(c.Addr)
		if err != nil {
			return nil, fmt.Errorf("harness: dial: %w", err)
		}
		c.cc = cc
	}
	cc := c.cc
	sendErr := make(chan error, 1)
	go func() { sendErr <- cc.Send(r) }()
	out, resp, err := cc.ReadHead(r.Method, deadline)
	if err != nil {
		c.drop()
		<-sendErr
		return out, err // out is non-nil: no response head could be read
	}
	cc.Finish(out, resp, nil, deadline)
	var serr error
	select {
	case serr = <-sendErr:
	case <-time.After(deadline):
		c.drop()
		return out, errors.New("harness: client: request upload did not finish")
	}
	closeAnnounced := false
	for _, kv := range r.Header {
		if strings.EqualFold(kv.K, "Connection") && strings.EqualFold(kv.V, "close") {
			closeAnnounced = true
		}
	}
	if out.Close || out.BodyErr != "" || serr != nil || closeAnnounced {
		c.drop()
	}
	return out, nil
}

// Inconclusive handles a harness-side failure of a rapid case: the run becomes inconclusive (exit 2) and
// the case is skipped - it is neither a pass nor a violation.
func Inconclusive(rt interface{ Skip(args ...any) }, sub, msg string) {
	lab.Problem("%s: %s", sub, msg)
	rt.Skip(msg)
}

// resourceError recognises the OS running out of loopback ports / descriptors (a harness budget
// problem, never a property violation).
func resourceError(err error) bool {
	if err == nil {
		return false
	}
	m := err.Error()
	return strings.Contains(m, "address already in use") || strings.Contains(m, "cannot assign requested address") || strings.Contains(m, "too many open files")
}

func dialRetry(addr string) (cc *lab.ClientConn, err error) {
	for try := 0; try < 6; try++ {
		if cc, err = lab.Dial(addr); err == nil || !resourceError(err) {
			return
		}
		time.Sleep(time.Duration(200*(try+1)) * time.Millisecond)
	}
	return
}

// labRetry builds a lab, waiting for ports to become free when the OS has none left.
func labRetry[T any](build func() (T, error)) (l T, err error) {
	for try := 0; try < 6; try++ {
		if l, err = build(); err == nil || !resourceError(err) {
			return
		}
		time.Sleep(time.Duration(500*(try+1)) * time.Millisecond)
	}
	return
}

// StubLab is a socket lab whose chain ends in the stub.
type StubLab struct {
	L    *lab.SocketLab
	Stub *Stub
	Cli  *Client
}

func NewStubLab(pc config.PluginsConfig) (*StubLab, error) {
	st := &Stub{}
	l, err := labRetry(func() (*lab.SocketLab, error) {
		return lab.NewSocketLab("round_robin", lab.SocketOpts{Backends: 0, Terminal: st, Mutate: func(cfg *config.Config) { cfg.Plugins = pc }})
	})
	if err != nil {
		return nil, err
	}
	return &StubLab{L: l, Stub: st, Cli: &Client{Addr: l.Addr}}, nil
}

// Close tears the lab down. The listener and connections are closed first: after a too-large chunked
// upload net/http's server lingers 500 ms on the connection (RST avoidance), which a graceful shutdown
// would wait for.
func (s *StubLab) Close() {
	s.Cli.Close()
	_ = s.L.Server.Close()
	s.L.Close()
}

// Reference labs (the same chain WITHOUT size_limit) depend only on the companion plugins, hold no state
// between exchanges, and are therefore shared by all cases of the process (this halves the number of
// listeners and sockets a run consumes).
var (
	refMu       sync.Mutex
	refStubLabs = map[string]*StubLab{}
)

// RefStubLab returns the shared reference lab for the companions of ch.
func RefStubLab(ch Chain) (*StubLab, error) {
	key := strings.Join(ch.Before, ",") + "|" + strings.Join(ch.After, ",")
	refMu.Lock()
	defer refMu.Unlock()
	if l := refStubLabs[key]; l != nil {
		return l, nil
	}
	pc, err := ch.Plugins(false)
	if err != nil {
		return nil, err
	}
	l, err := NewStubLab(pc)
	if err == nil {
		refStubLabs[key] = l
	}
	return l, err
}

// Run performs one exchange. The record is complete (handler returned) when Run returns.
func (s *StubLab) Run(req *lab.RawRequest, p *Program) (*lab.RawResponse, *Record, error) {
	out, rec, err, stale := s.run(req, p)
	if stale {
		out, rec, err, _ = s.run(req, p)
	}
	// The stub answers a request for which no program is armed with its own marker (599 "stub: no program armed").
	// If THIS exchange received the marker, a stray request - the first attempt of an earlier exchange on a
	// keep-alive connection that had gone stale, served late - took the program armed for it: a harness
	// artefact, never a verdict. The exchange is played again; if it keeps happening the case is inconclusive.
	for try := 0; try < 3 && strayTookProgram(out); try++ {
		time.Sleep(time.Duration(20<<try) * time.Millisecond)
		out, rec, err, _ = s.run(req, p)
	}
	if strayTookProgram(out) {
		return out, rec, fmt.Errorf("harness: the stub had no program armed when the request of this exchange arrived (a stray request consumed it) - 4 attempts")
	}
	return out, rec, err
}

func strayTookProgram(out *lab.RawResponse) bool {
	return out != nil && out.Status == 599 && strings.Contains(string(out.Body), "stub: no program armed")
}

func (s *StubLab) run(req *lab.RawRequest, p *Program) (*lab.RawResponse, *Record, error, bool) {
	rec := s.Stub.Arm(p)
	out, err, stale := s.Cli.Do(req, ioDeadline)
	// the handler is entered before any response byte can exist, so "never entered" is decided here
	s.Stub.mu.Lock()
	taken := s.Stub.rec != rec
	s.Stub.prog, s.Stub.rec = nil, nil
	s.Stub.mu.Unlock()
	if taken {
		select {
		case <-rec.done:
		case <-time.After(ioDeadline):
			return out, rec, fmt.Errorf("harness: stub handler did not return within %v (client error: %v)", ioDeadline, err), false
		}
	}
	return out, rec, err, stale
}

// ---------------------------------------------------------------------------------------------
// Comparison of the exchange with and without the plugin
// ---------------------------------------------------------------------------------------------

func headerMap(h http.Header) map[string][]string {
	out := map[string][]string{}
	for k, v := range h {
		if k == "Date" {
			continue
		}
		out[k] = append([]string(nil), v...)
	}
	return out
}

func fmtHeader(h http.Header) string {
	keys := make([]string, 0, len(h))
	for k := range h {
		if k != "Date" {
			keys = append(keys, k)
		}
	}
	sort.Strings(keys)
	var parts []string
	for _, k := range keys {
		parts = append(parts, fmt.Sprintf("%s: %q", k, h[k]))
	}
	return "{" + strings.Join(parts, ", ") + "}"
}

// DiffResponse describes the first difference between the response without the plugin (ref) and
// with it (got): status code, the complete header multimap except Date, framing, body.
//
// looseFraming: Content-Length vs chunked is not compared. It is set only for proxied responses whose
// backend sent no Content-Length: httputil.ReverseProxy then flushes the header from a timer goroutine
// that races with the end of the body copy, so net/http frames the same response either way - with or
// without the plugin.
func DiffResponse(ref, got *lab.RawResponse, looseFraming bool) string {
	if ref.Status != got.Status {
		return fmt.Sprintf("status: %d without size_limit, %d with it", ref.Status, got.Status)
	}
	rh, gh := headerMap(ref.Header), headerMap(got.Header)
	if looseFraming {
		for _, m := range []map[string][]string{rh, gh} {
			delete(m, "Content-Length")
			delete(m, "Transfer-Encoding")
		}
	}
	if d := lab.DiffHeaders(rh, gh, nil); d != "" {
		return "with size_limit vs without: " + strings.ReplaceAll(strings.ReplaceAll(d, "sent", "without"), "received", "with")
	}
	if !looseFraming && (ref.Chunked != got.Chunked || ref.DeclaredCL != got.DeclaredCL) {
		return fmt.Sprintf("framing: without size_limit chunked=%v content-length=%d, with it chunked=%v content-length=%d", ref.Chunked, ref.DeclaredCL, got.Chunked, got.DeclaredCL)
	}
	if got.BodyErr != ref.BodyErr {
		return fmt.Sprintf("body read: without size_limit %q, with it %q (%d of %d bytes)", ref.BodyErr, got.BodyErr, len(got.Body), len(ref.Body))
	}
	if !bytes.Equal(ref.Body, got.Body) {
		return fmt.Sprintf("body: %d bytes without size_limit, %d bytes with it (first difference at %d)", len(ref.Body), len(got.Body), firstDiff(ref.Body, got.Body))
	}
	if fmt.Sprint(ref.Interim) != fmt.Sprint(got.Interim) {
		return fmt.Sprintf("interim responses: %v without size_limit, %v with it", ref.Interim, got.Interim)
	}
	if d := lab.DiffHeaders(headerMap(ref.Trailer), headerMap(got.Trailer), nil); d != "" {
		return "trailer fields with size_limit vs without: " + strings.ReplaceAll(strings.ReplaceAll(d, "sent", "without"), "received", "with")
	}
	return ""
}

func firstDiff(a, b []byte) int {
	n := min(len(a), len(b))
	for i := 0; i < n; i++ {
		if a[i] != b[i] {
			return i
		}
	}
	return n
}

// deliveredLen is the number of response body bytes the client holds: the decoded length when the response
// is labelled Content-Encoding: gzip (a gzip plugin OUTSIDE size_limit re-codes what size_limit let through,
// the coding overhead is not body), else the bytes on the wire. A cut gzip stream counts what it decodes to.
func deliveredLen(r *lab.RawResponse) int64 {
	if !strings.EqualFold(r.Header.Get("Content-Encoding"), "gzip") {
		return int64(len(r.Body))
	}
	zr, err := gzip.NewReader(bytes.NewReader(r.Body))
	if err != nil {
		return int64(len(r.Body))
	}
	n, _ := io.Copy(io.Discard, zr)
	return n
}

func bodilessStatus(s int) bool { return s == 204 || s == 304 }

// sizeClass labels a length relative to its limit.
func sizeClass(side string, n, limit int64) string {
	switch {
	case n == 0 && limit != 1:
		return side + "=0"
	case n == limit-1:
		return side + "=limit-1"
	case n == limit:
		return side + "=limit"
	case n == limit+1:
		return side + "=limit+1"
	case n > limit:
		return side + ">>limit"
	}
	return side + "<<limit"
}

func nearLimit(n, limit int64) bool { return n >= limit-1 && n <= limit+1 }
