package c14

import (
	"os"
	"strings"
	"testing"

	"github.com/0xReLogic/Helios/verifharness/lab"
	"pgregory.net/rapid"
)

const gzipWrapSub = "gzip-wraps-size-limit"

// TestC14GzipWrapsSizeLimit: chain position with the gzip plugin as an OUTER companion (gzip listed before
// size_limit, so size_limit still counts the backend's own bytes). The limits and the 413 must not depend on
// whether the client offered gzip. VERIF_C14_SKIP_GZIP_WRAP=1 skips this sub-check (nothing else).
func TestC14GzipWrapsSizeLimit(t *testing.T) {
	if os.Getenv("VERIF_C14_SKIP_GZIP_WRAP") == "1" {
		t.Skip("VERIF_C14_SKIP_GZIP_WRAP=1")
	}
	sub := lab.Sub(gzipWrapSub, "rapid: chain [gzip (level 6, min_size 0 or 64, content_types text/), optionally logging/headers, size_limit] - gzip always OUTSIDE size_limit - in front of a stub terminal or the real balancer + raw backend; "+
		"limits as in the rapid sub-checks; 1-6 exchanges per lab; client sends 'Accept-Encoding: gzip' in 2 of 3 requests; response Content-Type text/plain (gzip buffers it and absorbs flushes) or application/octet-stream (passed through); "+
		"requests and response programs/scripts otherwise as in stub-terminal-rapid / real-balancer-rapid; oracle R1-R3, S1 (decoded length when the client received Content-Encoding: gzip), S2, U against the same chain without size_limit; "+
		"non-trivial = a body length within +-1 of its limit, a bodiless status, HEAD, or >= 2 writes")
	sub.NontrivialFloor(0.55)
	sub.Floor("client-offers-gzip", 0.40)
	sub.Floor("compressible-type", 0.30)
	sub.Floor("413-required", 0.03)
	sub.Floor("within-limits", 0.25)
	sub.Floor("terminal-stub", 0.30)
	sub.Floor("terminal-balancer", 0.30)
	lab.Check(t, sub, 700, 8000, func(rt *rapid.T) {
		ch := genChain(rt)
		gz := rapid.SampledFrom([]string{"gzip", "gzip", "gzip-min64"}).Draw(rt, "gzip-companion")
		// gzip goes in front of whatever else wraps size_limit, or directly around it
		if rapid.Bool().Draw(rt, "gzip-outermost") {
			ch.Before = append([]string{gz}, ch.Before...)
		} else {
			ch.Before = append(append([]string{}, ch.Before...), gz)
		}
		terminal := rapid.SampledFrom([]string{"stub", "balancer"}).Draw(rt, "terminal")
		pcWith, err := ch.Plugins(true)
		if err != nil {
			rt.Fatalf("harness: yaml: %v\n%s", err, ch.YAML(true))
		}
		var withS, refS *StubLab
		var withP, refP *ProxyLab
		if terminal == "stub" {
			if withS, err = NewStubLab(pcWith); err == nil {
				defer withS.Close()
				refS, err = RefStubLab(ch)
			}
		} else {
			if withP, err = NewProxyLab(pcWith, 1); err == nil {
				defer withP.Close()
				refP, err = RefProxyLab(ch, 1)
			}
		}
		if resourceError(err) {
			Inconclusive(rt, gzipWrapSub, err.Error())
		}
		if err != nil {
			rt.Fatalf("a valid plugin configuration was refused: %v\n%s", err, ch.YAML(true))
		}
		n := rapid.IntRange(1, 6).Draw(rt, "exchanges")
		var retries int
		for i := 0; i < n; i++ {
			req := genRequest(rt, ch, true)
			offers := rapid.IntRange(0, 2).Draw(rt, "accept-encoding") > 0
			if offers {
				req.Header = append(req.Header, lab.KV{K: "Accept-Encoding", V: rapid.SampledFrom([]string{"gzip", "gzip, deflate, br"}).Draw(rt, "ae")})
			}
			ctype := rapid.SampledFrom([]string{"text/plain", "text/plain", "application/octet-stream"}).Draw(rt, "content-type")
			setType := func(h []lab.KV) []lab.KV {
				var out []lab.KV
				for _, kv := range h {
					if !strings.EqualFold(kv.K, "Content-Type") {
						out = append(out, kv)
					}
				}
				return append(out, lab.KV{K: "Content-Type", V: ctype})
			}
			var v Verdict
			var rec any
			desc := ""
			if terminal == "stub" {
				c := StubCase{Chain: ch, Req: req}
				c.Prog = genProgram(rt, ch, req.Method)
				c.Prog.Header = setType(c.Prog.Header)
				v = JudgeStub(&c, withS, refS)
				rec, desc = c, c.describe()
			} else {
				c := ProxyCase{Chain: ch, Backends: 1, Req: req}
				c.Resp = genScript(rt, ch)
				c.Resp.Header = setType(c.Resp.Header)
				before := retries
				v = JudgeProxy(&c, withP, refP, false, &retries)
				for k := before; k < retries; k++ {
					sub.Excluded(keyRace)
				}
				rec, desc = c, c.describe()
			}
			if strings.HasPrefix(v.Viol, "harness:") {
				Inconclusive(rt, gzipWrapSub, v.Viol)
			}
			labels := append(v.Labels, "terminal-"+terminal)
			if offers {
				labels = append(labels, "client-offers-gzip")
			}
			if ctype == "text/plain" {
				labels = append(labels, "compressible-type")
			}
			if v.Excluded != "" {
				sub.Excluded(v.Excluded)
			}
			sub.Case(rec, v.Nontrivial, labels...)
			if v.Viol != "" {
				rt.Fatalf("%s\nrequest headers %v; response Content-Type %s\n=> %s", desc, req.Header, ctype, v.Viol)
			}
		}
		proxyRaceRetries += retries
	})
}
