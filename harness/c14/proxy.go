package c14

// Real-balancer variant: chain -> loadbalancer.LoadBalancer -> raw scripted TCP backend.

import (
	"bytes"
	"fmt"
	"strings"
	"time"

	"github.com/0xReLogic/Helios/internal/config"
	"github.com/0xReLogic/Helios/verifharness/lab"
)

// ProxyCase is one exchange through the real balancer.
type ProxyCase struct {
	Chain    Chain          `json:"chain"`
	Backends int            `json:"backends"`
	Req      lab.RawRequest `json:"req"`
	Resp     lab.RespScript `json:"resp"`
}

func (c *ProxyCase) describe() string {
	return fmt.Sprintf("chain before=%v [size_limit max_request_body=%d max_response_body=%d (%s; 0 = omitted)] after=%v -> balancer -> %d raw backend(s)\nrequest %s %s framing=%s body=%d parts=%v\nbackend response: %d headers %v framing=%s body=%d parts=%v",
		c.Chain.Before, c.Chain.L, c.Chain.M, c.Chain.Style, c.Chain.After, c.Backends, c.Req.Method, c.Req.Target, c.Req.Framing, len(c.Req.Body), c.Req.Parts,
		c.Resp.Status, c.Resp.Header, c.Resp.Framing, len(c.Resp.Body), c.Resp.Parts)
}

// ProxyLab wraps a socket lab with the real balancer.
type ProxyLab struct {
	L   *lab.SocketLab
	Cli *Client
}

func NewProxyLab(pc config.PluginsConfig, backends int) (*ProxyLab, error) {
	l, err := labRetry(func() (*lab.SocketLab, error) {
		return lab.NewSocketLab("round_robin", lab.SocketOpts{Backends: backends, Mutate: func(cfg *config.Config) { cfg.Plugins = pc }})
	})
	if err != nil {
		return nil, err
	}
	return &ProxyLab{L: l, Cli: &Client{Addr: l.Addr}}, nil
}

func (p *ProxyLab) Close() {
	p.Cli.Close()
	_ = p.L.Server.Close() // see StubLab.Close
	// The backends close their connections BEFORE the balancer's transports do: the TIME_WAIT sockets then
	// sit on the accepting side (SO_REUSEADDR, harmless for later listeners) instead of blocking one
	// ephemeral port per lab for 60 s on the dialling side.
	for _, b := range p.L.Backends {
		b.Close()
	}
	p.L.Close()
}

var refProxyLabs = map[string]*ProxyLab{}

// RefProxyLab returns the shared reference lab (balancer + raw backends, chain without size_limit) for the
// companions of ch and the given number of backends. The balancer runs without health checks, breaker or
// rate limiter, so it carries nothing from one exchange to the next but its round-robin position.
func RefProxyLab(ch Chain, backends int) (*ProxyLab, error) {
	key := fmt.Sprintf("%s|%s|%d", strings.Join(ch.Before, ","), strings.Join(ch.After, ","), backends)
	refMu.Lock()
	defer refMu.Unlock()
	if l := refProxyLabs[key]; l != nil {
		return l, nil
	}
	pc, err := ch.Plugins(false)
	if err != nil {
		return nil, err
	}
	l, err := NewProxyLab(pc, backends)
	if err == nil {
		refProxyLabs[key] = l
	}
	return l, err
}

type proxyResult struct {
	out     *lab.RawResponse
	err     error
	seen    []*lab.SeenRequest // what the backends recorded for this exchange
	accepts int64              // backend connections accepted during the exchange
}

func (p *ProxyLab) accepts() int64 {
	var n int64
	for _, b := range p.L.Backends {
		n += b.Accepts()
	}
	return n
}

// Run performs one exchange; when it returns the backends have finished handling it.
func (p *ProxyLab) Run(c *ProxyCase) proxyResult {
	r, stale := p.run(c)
	if stale {
		r, _ = p.run(c)
	}
	return r
}

func (p *ProxyLab) run(c *ProxyCase) (proxyResult, bool) {
	l := p.L
	caseID := l.NextCase()
	req := c.Req
	req.Header = append(append([]lab.KV{}, c.Req.Header...), lab.KV{K: "X-Verif-Case", V: caseID})
	script := c.Resp
	before := p.accepts()
	l.ExpectAll(caseID, &script)
	defer l.ForgetAll(caseID)
	var r proxyResult
	var stale bool
	r.out, r.err, stale = p.Cli.Do(&req, ioDeadline)
	// synchronisation only (not an oracle): let the backends finish reading an aborted upload
	deadline := time.Now().Add(5 * time.Second)
	for {
		busy := false
		for _, b := range l.Backends {
			if b.Inflight() != 0 {
				busy = true
			}
		}
		if !busy || time.Now().After(deadline) {
			break
		}
		time.Sleep(200 * time.Microsecond)
	}
	for _, b := range l.Backends {
		for _, s := range b.Seen() {
			if s.Header.Get("X-Verif-Case") == caseID {
				r.seen = append(r.seen, s)
			}
		}
	}
	r.accepts = p.accepts() - before
	return r, stale
}

func (c *ProxyCase) bodyAllowed() bool {
	return c.Req.Method != "HEAD" && !bodilessStatus(c.Resp.Status)
}

// proxyRegion returns the key of the known-finding region the exchange lies in ("" = none).
// Behind the balancer the handler is httputil.ReverseProxy: WriteHeader(status), then one Write per
// read of the backend body (none for an empty body); for a response without Content-Length it
// flushes the header at once from a timer goroutine, racing with the first Write.
func proxyRegion(c *ProxyCase) string {
	if c.Resp.Status == 200 {
		return ""
	}
	if !c.bodyAllowed() || len(c.Resp.Body) == 0 {
		return keyBodiless
	}
	if c.Resp.Framing == "chunked" || c.Resp.Framing == "close" {
		return keyFlush
	}
	return ""
}

func (c *ProxyCase) classify() (labels []string, nontrivial bool) {
	L, M := c.Chain.EffL(), c.Chain.EffM()
	n, total := int64(len(c.Req.Body)), int64(len(c.Resp.Body))
	if c.Req.Framing != "none" {
		labels = append(labels, sizeClass("req", n, L), "req-"+c.Req.Framing)
		if nearLimit(n, L) {
			nontrivial = true
		}
	} else {
		labels = append(labels, "req-bodiless")
	}
	st := c.Resp.Status
	labels = append(labels, fmt.Sprintf("status-%dxx", st/100), "resp-"+c.Resp.Framing)
	if bodilessStatus(st) {
		labels = append(labels, "bodiless-status")
		nontrivial = true
	} else {
		labels = append(labels, sizeClass("resp", total, M))
		if nearLimit(total, M) {
			nontrivial = true
		}
		if st != 200 && total == 0 {
			labels = append(labels, "empty-non200")
		}
	}
	if c.Req.Method == "HEAD" {
		labels = append(labels, "HEAD")
		nontrivial = true
	}
	if len(c.Resp.Parts) >= 2 {
		labels = append(labels, "writes>=2")
		nontrivial = true
	}
	if carriesUpgrade(c.Req.Header) {
		labels = append(labels, "req-carries-upgrade")
	}
	if len(c.Chain.Before) > 0 {
		labels = append(labels, "plugin-wrapped-by-others")
	}
	if len(c.Chain.After) > 0 {
		labels = append(labels, "plugin-wraps-others")
	}
	labels = append(labels, c.Chain.Style)
	return
}

// gzipBuffers: a gzip plugin wraps size_limit, the client offered gzip and the response type is one gzip
// buffers (text/...): the region of the finding keyGzip413, should it ever be listed as open.
func gzipBuffers(c *ProxyCase) bool {
	wrapped, offered, text := false, false, false
	for _, p := range c.Chain.Before {
		if strings.HasPrefix(p, "gzip") {
			wrapped = true
		}
	}
	for _, kv := range c.Req.Header {
		if strings.EqualFold(kv.K, "Accept-Encoding") && strings.Contains(kv.V, "gzip") {
			offered = true
		}
	}
	for _, kv := range c.Resp.Header {
		if strings.EqualFold(kv.K, "Content-Type") && strings.HasPrefix(kv.V, "text/") {
			text = true
		}
	}
	return wrapped && offered && text
}

func abortSignature(r *lab.RawResponse, err error) bool {
	return err != nil || (r != nil && r.BodyErr != "")
}

// JudgeProxy runs the case through the balancer with size_limit and, when the exchange is within
// both limits, through the reference lab (same chain without size_limit, own backends).
// raceRetries counts re-runs caused by the open net/http request-body-close race.
//
// fresh: this is the first exchange of the lab. Only then "no backend connection was accepted" is a sound
// reading of "never contacted": http.Transport may complete a dial it started for an EARLIER request in the
// background, so later accept counts do not belong to the current exchange.
func JudgeProxy(c *ProxyCase, with, without *ProxyLab, fresh bool, raceRetries *int) Verdict {
	v := Verdict{}
	v.Labels, v.Nontrivial = c.classify()
	L, M := c.Chain.EffL(), c.Chain.EffM()
	n := int64(len(c.Req.Body))
	hasBody := c.Req.Framing != "none"
	within := (!hasBody || n <= L) && (!c.bodyAllowed() || int64(len(c.Resp.Body)) <= M)
	r := with.Run(c)
	// Open finding of C01 (net/http, not Helios): an exchange WITH a request body whose only symptom is an
	// unreadable response head/body is re-run (up to 8 times, pausing longer each time) and must then pass.
	for try := 0; try < 8 && within && hasBody && n > 0 && abortSignature(r.out, r.err) && lab.Open(keyRace); try++ {
		*raceRetries++
		if try >= 2 { // on a heavily loaded machine the window of the race is wide: pause before trying again
			time.Sleep(time.Duration(10<<(try-2)) * time.Millisecond)
		}
		r = with.Run(c)
	}
	got, err := r.out, r.err
	if err != nil && (got == nil || strings.HasPrefix(err.Error(), "harness:")) {
		v.Viol = "harness: " + err.Error()
		return v
	}
	// R1
	for _, s := range r.seen {
		if int64(len(s.Body)) > L {
			v.Viol = fmt.Sprintf("R1: backend %d received %d request body bytes, max_request_body is %d", s.Backend, len(s.Body), L)
			return v
		}
	}
	// R2
	if hasBody && c.Req.Framing == "cl" && n > L {
		v.Labels = append(v.Labels, "declared-too-large")
		switch {
		case len(r.seen) > 0 || (fresh && r.accepts > 0):
			v.Viol = fmt.Sprintf("R2: request declares Content-Length %d > max_request_body %d but a backend was contacted (%d request(s) arrived, %d connection(s) accepted; client got %d)", n, L, len(r.seen), r.accepts, got.Status)
		case err != nil:
			v.Viol = fmt.Sprintf("R2: request declares Content-Length %d > max_request_body %d: client could not read a response (%v)", n, L, err)
		case got.Status != 413:
			v.Viol = fmt.Sprintf("R2: request declares Content-Length %d > max_request_body %d: client got status %d, not 413", n, L, got.Status)
		}
		return v
	}
	if hasBody && n > L {
		v.Labels = append(v.Labels, "chunked-too-large")
		if err == nil && deliveredLen(got) > M {
			v.Viol = fmt.Sprintf("S1: client received %d response body bytes, max_response_body is %d", deliveredLen(got), M)
		}
		return v
	}
	// R3
	if len(r.seen) != 1 {
		st := -1
		if got != nil {
			st = got.Status
		}
		v.Viol = fmt.Sprintf("R3: request body of %d bytes (limit %d) reached %d backends, expected exactly one (client got status %d, err %v)", n, L, len(r.seen), st, err)
		return v
	}
	if s := r.seen[0]; !bytes.Equal(s.Body, c.Req.Body) || s.BodyErr != "" {
		v.Viol = fmt.Sprintf("R3: request body of %d bytes (limit %d): backend read %d bytes, error %q (first difference at %d)", n, L, len(s.Body), s.BodyErr, firstDiff(s.Body, c.Req.Body))
		return v
	}
	total := int64(len(c.Resp.Body))
	over := c.bodyAllowed() && total > M
	if err != nil && !over {
		v.Viol = fmt.Sprintf("client could not read a response head: %v", err)
		return v
	}
	// S1 (an aborted connection without a readable response head delivered no body bytes)
	if err == nil && deliveredLen(got) > M {
		v.Viol = fmt.Sprintf("S1: client received %d response body bytes, max_response_body is %d", deliveredLen(got), M)
		return v
	}
	if over {
		v.Labels = append(v.Labels, "response-too-large")
		first := total
		if len(c.Resp.Parts) > 0 {
			first = int64(c.Resp.Parts[0])
		}
		// The proxy's first Write carries at least the first backend write (it travels in one segment with the
		// response head; the transport's 4 KiB read buffer caps it, hence M <= 1024). Without Content-Length the
		// proxy may flush the header before that Write, so 413 is then no longer possible.
		if c.Resp.Framing == "cl" && first > M && M <= 1024 {
			v.Labels = append(v.Labels, "413-required")
			if err != nil && lab.Open(key413) {
				v.Excluded = key413
			} else if err != nil && gzipBuffers(c) && lab.Open(keyGzip413) {
				v.Excluded = keyGzip413
			} else if err != nil {
				v.Viol = fmt.Sprintf("S2: the backend's first body write (%d bytes, Content-Length framing) alone exceeds max_response_body %d and nothing was sent before it, but the client got no response (%v), not 413", first, M, err)
			} else if got.Status != 413 {
				v.Viol = fmt.Sprintf("S2: the backend's first body write (%d bytes, Content-Length framing) alone exceeds max_response_body %d and nothing was sent before it, but the client got status %d, not 413", first, M, got.Status)
			}
		}
		return v
	}
	// U
	v.Labels = append(v.Labels, "within-limits")
	ref := without.Run(c)
	for try := 0; try < 8 && hasBody && n > 0 && abortSignature(ref.out, ref.err) && lab.Open(keyRace); try++ {
		*raceRetries++
		if try >= 2 {
			time.Sleep(time.Duration(10<<(try-2)) * time.Millisecond)
		}
		ref = without.Run(c)
	}
	if ref.err != nil || ref.out == nil || len(ref.seen) != 1 {
		v.Viol = fmt.Sprintf("harness: reference exchange without the plugin failed: %v (backends reached %d)", ref.err, len(ref.seen))
		return v
	}
	if d := DiffResponse(ref.out, got, c.Resp.Framing == "chunked" || c.Resp.Framing == "close"); d != "" {
		if key := proxyRegion(c); key != "" && lab.Open(key) && got.Status == 200 && ref.out.Status != 200 {
			v.Excluded = key
			return v
		}
		v.Viol = "U: exchange within both limits differs from the same exchange without size_limit: " + d +
			fmt.Sprintf("\n   without: %d %s body %d bytes %s\n   with:    %d %s body %d bytes %s", ref.out.Status, fmtHeader(ref.out.Header), len(ref.out.Body), ref.out.BodyErr, got.Status, fmtHeader(got.Header), len(got.Body), got.BodyErr)
	}
	// the request as the backend saw it must not depend on the plugin either (header multimap, framing)
	if v.Viol == "" {
		a, b := ref.seen[0], r.seen[0]
		if d := lab.DiffHeaders(lab.EndToEnd(lab.HeaderToLines(a.Header), "X-Verif-Case"), lab.EndToEnd(lab.HeaderToLines(b.Header), "X-Verif-Case"), nil); d != "" {
			v.Viol = "U: request at the backend differs with/without size_limit: " + strings.ReplaceAll(strings.ReplaceAll(d, "sent", "without"), "received", "with")
		} else if a.Chunked != b.Chunked || a.DeclaredCL != b.DeclaredCL {
			v.Viol = fmt.Sprintf("U: request framing at the backend differs: without size_limit chunked=%v content-length=%d, with it chunked=%v content-length=%d", a.Chunked, a.DeclaredCL, b.Chunked, b.DeclaredCL)
		}
	}
	return v
}
