package c14

import (
	"strings"
	"testing"

	"github.com/0xReLogic/Helios/verifharness/lab"
	"pgregory.net/rapid"
)

const stubRule = "rapid: size_limit at a drawn position among logging/headers, limits 1..64 (plus 100..65536 and omitted=default) written as YAML int, YAML float or int64 and loaded through yaml.v3; " +
	"1-6 (thorough 1-12) exchanges per lab (one kept-alive client connection) against a stub terminal handler: request (a quarter of them carrying an Upgrade: websocket / h2c offer, with and without Connection: Upgrade, that the terminal does not take up) GET/HEAD/DELETE without body or POST/PUT/PATCH with a body of 0, L-1, L, L+1, 3L or 100 KiB (1 MiB in thorough) in Content-Length or chunked framing (<=4 writes/chunks); " +
	"handler program = header set, optional declared Content-Length, implicit or explicit WriteHeader (15 statuses incl. 204/304/3xx/4xx/5xx), body of 0, M-1, M, M+1, 3M or 100 KiB split into <=4 pieces, each piece handed to the ResponseWriter by w.Write (half of the handlers use nothing else), io.WriteString, io.Copy or fmt.Fprint (one idiom throughout, or mixed piece by piece), Flush drawn before/between/after the pieces, stop or continue after a failed call; " +
	"oracle R1-R3, S1-S2 and differential U against the same chain without size_limit; non-trivial = a body length within +-1 of its limit, a bodiless status, HEAD, or >= 2 writes"

func TestC14StubRapid(t *testing.T) {
	sub := lab.Sub("stub-terminal-rapid", stubRule)
	sub.NontrivialFloor(0.60)
	sub.Floor("req=limit", 0.08)
	sub.Floor("req=limit+1", 0.05)
	sub.Floor("req=limit-1", 0.04)
	sub.Floor("req-chunked", 0.15)
	sub.Floor("declared-too-large", 0.04)
	sub.Floor("chunked-too-large", 0.04)
	sub.Floor("resp=limit", 0.10)
	sub.Floor("resp=limit+1", 0.06)
	sub.Floor("resp=limit-1", 0.05)
	sub.Floor("413-required", 0.03)
	sub.Floor("within-limits", 0.25)
	sub.Floor("bodiless-status", 0.03)
	sub.Floor("empty-non200", 0.05)
	sub.Floor("HEAD", 0.03)
	sub.Floor("writes>=2", 0.15)
	sub.Floor("flush-before-first-write", 0.05)
	sub.Floor("emit-other-than-Write", 0.18)
	sub.Floor("emit-string", 0.07)
	sub.Floor("emit-copy", 0.06)
	sub.Floor("emit-mixed", 0.06)
	sub.Floor("plugin-on-server-writer", 0.25)
	sub.Floor("req-carries-upgrade", 0.15)
	sub.Floor("plugin-wrapped-by-others", 0.15)
	sub.Floor("plugin-wraps-others", 0.15)
	sub.Floor("yaml-float", 0.10)
	lab.Assume("L2 with a stub terminal: the plugin chain is built by plugins.BuildChain from YAML-loaded configuration and served by a real http.Server on loopback exactly as cmd/helios/server.go composes it; the stub stands where the balancer stands. 'Unchanged' is decided against the same exchange through the same chain without size_limit (net/http's own additions - Date, computed Content-Length, sniffed Content-Type - are identical on both sides). The 413 text the plugin itself sends for a rejected request is not counted as response body.")
	lab.Check(t, sub, 8000, 200000, func(rt *rapid.T) {
		ch := genChain(rt)
		pcWith, err := ch.Plugins(true)
		if err != nil {
			rt.Fatalf("harness: yaml: %v\n%s", err, ch.YAML(true))
		}
		with, err := NewStubLab(pcWith)
		if resourceError(err) {
			Inconclusive(rt, "stub-terminal-rapid", err.Error())
		}
		if err != nil {
			rt.Fatalf("a valid size_limit configuration was refused: %v\n%s", err, ch.YAML(true))
		}
		defer with.Close()
		without, err := RefStubLab(ch)
		if err != nil {
			Inconclusive(rt, "stub-terminal-rapid", err.Error())
		}
		n := rapid.IntRange(1, lab.Scale(6, 12)).Draw(rt, "exchanges")
		for i := 0; i < n; i++ {
			c := StubCase{Chain: ch}
			c.Req = genRequest(rt, ch, true)
			c.Prog = genProgram(rt, ch, c.Req.Method)
			v := JudgeStub(&c, with, without)
			if strings.HasPrefix(v.Viol, "harness:") {
				Inconclusive(rt, "stub-terminal-rapid", v.Viol)
			}
			if v.Excluded != "" {
				sub.Excluded(v.Excluded)
			}
			sub.Case(c, v.Nontrivial, v.Labels...)
			if v.Viol != "" {
				rt.Fatalf("%s\n=> %s", c.describe(), v.Viol)
			}
		}
		if p := with.L.PanicLines(); len(p) > 0 {
			rt.Fatalf("handler panicked: %v", p)
		}
	})
}
