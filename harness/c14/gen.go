package c14

import (
	"github.com/0xReLogic/Helios/verifharness/lab"
	"pgregory.net/rapid"
	"strings"
)

// statuses a handler (or backend) may answer with - among them the ones the plugin itself produces (413) and Helios produces elsewhere
// (429, 502, 503, 504): a status coming from behind the plugin is relayed like any other
var statuses = []int{200, 201, 202, 204, 206, 301, 302, 304, 400, 404, 413, 413, 414, 418, 429, 431, 499, 500, 502, 503, 504, 507, 599}

func farSize(t *rapid.T, label string) int {
	if lab.Thorough() && rapid.IntRange(0, 7).Draw(t, label+"-1MiB") == 0 {
		return 1 << 20
	}
	return 100 << 10
}

// genLimit draws a limit: mostly 1..64, some buffer-sized values, sometimes omitted (0 = default).
func genLimit(t *rapid.T, label string) int64 {
	k := rapid.IntRange(0, 19).Draw(t, label+"-kind")
	switch {
	case k < 14:
		return int64(rapid.IntRange(1, 64).Draw(t, label))
	case k < 19:
		return int64(rapid.SampledFrom([]int{100, 1000, 4095, 4096, 4097, 32768, 65536}).Draw(t, label+"-big"))
	}
	return 0
}

func genChain(t *rapid.T) Chain {
	c := Chain{L: genLimit(t, "L"), M: genLimit(t, "M")}
	c.Style = rapid.SampledFrom([]string{"yaml-int", "yaml-int", "yaml-float", "go-int64"}).Draw(t, "style")
	var comp []string
	switch rapid.IntRange(0, 4).Draw(t, "companions") {
	case 1:
		comp = []string{"logging"}
	case 2:
		comp = []string{"headers"}
	case 3:
		comp = []string{"logging", "headers"}
	case 4:
		comp = []string{"headers", "logging"}
	}
	pos := rapid.IntRange(0, len(comp)).Draw(t, "position")
	c.Before = append(c.Before, comp[:pos]...)
	c.After = append(c.After, comp[pos:]...)
	return c
}

// partition splits n into up to k positive parts (drawn).
func partition(t *rapid.T, n, k int, label string) []int {
	if n == 0 {
		return nil
	}
	parts := rapid.IntRange(1, k).Draw(t, label+"-parts")
	if parts > n {
		parts = n
	}
	out := make([]int, 0, parts)
	rest := n
	for i := 0; i < parts-1; i++ {
		maxHere := rest - (parts - 1 - i)
		c := rapid.IntRange(1, maxHere).Draw(t, label+"-cut")
		out = append(out, c)
		rest -= c
	}
	return append(out, rest)
}

// genLen draws a body length relative to a limit: 0, limit-1, limit, limit+1, 3*limit, far beyond.
func genLen(t *rapid.T, limit int64, omitted bool, label string) int {
	if omitted {
		return rapid.SampledFrom([]int{0, 1, 4096, 70000}).Draw(t, label+"-len")
	}
	switch rapid.IntRange(0, 9).Draw(t, label+"-len") {
	case 0:
		return 0
	case 1, 2:
		return int(limit - 1)
	case 3, 4, 5:
		return int(limit)
	case 6, 7:
		return int(limit + 1)
	case 8:
		return int(3 * limit)
	}
	return farSize(t, label)
}

var reqExtra = [][]lab.KV{
	nil,
	{{K: "Accept", V: "*/*"}},
	{{K: "Content-Type", V: "application/octet-stream"}},
	{{K: "X-Multi", V: "a"}, {K: "X-Multi", V: "b"}},
	{{K: "Connection", V: "close"}},
}

// upgradeHeaders are header groups of ORDINARY requests that merely carry an Upgrade offer (a browser or
// client library that would accept WebSocket / h2c). The backend does not switch protocols, so the exchange
// is a plain HTTP exchange and both limits apply to it exactly as without these fields.
var upgradeHeaders = [][]lab.KV{
	{{K: "Upgrade", V: "websocket"}},
	{{K: "Connection", V: "Upgrade"}, {K: "Upgrade", V: "websocket"}},
	{{K: "Connection", V: "keep-alive, Upgrade"}, {K: "Upgrade", V: "websocket"}, {K: "Sec-WebSocket-Key", V: "dGhlIHNhbXBsZSBub25jZQ=="}, {K: "Sec-WebSocket-Version", V: "13"}},
	{{K: "Upgrade", V: "h2c"}},
	{{K: "Connection", V: "Upgrade, HTTP2-Settings"}, {K: "Upgrade", V: "h2c"}, {K: "HTTP2-Settings", V: "AAMAAABkAAQAAP__"}},
	{{K: "connection", V: "upgrade"}, {K: "upgrade", V: "WebSocket"}},
}

func carriesUpgrade(h []lab.KV) bool {
	for _, kv := range h {
		if strings.EqualFold(kv.K, "Upgrade") {
			return true
		}
	}
	return false
}

func genRequest(t *rapid.T, c Chain, allowHEAD bool) lab.RawRequest {
	r := lab.RawRequest{Target: rapid.SampledFrom([]string{"/", "/upload", "/a/b?x=1"}).Draw(t, "target"), Framing: "none"}
	r.Header = append([]lab.KV{{K: "Host", V: "helios.test"}}, rapid.SampledFrom(reqExtra).Draw(t, "reqhdr")...)
	if rapid.IntRange(0, 3).Draw(t, "upgrade-offer") == 3 {
		r.Header = append(r.Header, rapid.SampledFrom(upgradeHeaders).Draw(t, "upgrade-hdr")...)
	}
	if rapid.IntRange(0, 2).Draw(t, "withbody") == 0 {
		ms := []string{"GET", "GET", "DELETE"}
		if allowHEAD {
			ms = append(ms, "HEAD", "HEAD")
		}
		r.Method = rapid.SampledFrom(ms).Draw(t, "method")
		return r
	}
	// a request body is legal with every method; one body in four comes with a method that usually has none
	r.Method = rapid.SampledFrom([]string{"POST", "PUT", "PATCH", "POST", "PUT", "PATCH", "POST", "PUT", "PATCH", "DELETE", "GET", "OPTIONS"}).Draw(t, "method")
	n := genLen(t, c.EffL(), c.L == 0, "req")
	r.Body = payload(n, byte(rapid.IntRange(0, 255).Draw(t, "reqsalt")))
	r.BodyLen = n
	r.Framing = rapid.SampledFrom([]string{"cl", "chunked"}).Draw(t, "reqframing")
	r.Parts = partition(t, n, 4, "req")
	return r
}

var respExtra = [][]lab.KV{
	nil,
	{{K: "Content-Type", V: "text/plain; charset=utf-8"}},
	{{K: "Content-Type", V: "application/json"}, {K: "Cache-Control", V: "no-store"}},
	{{K: "Set-Cookie", V: "a=1; Path=/"}, {K: "Set-Cookie", V: "b=2; HttpOnly"}},
	{{K: "X-Resp", V: "v"}, {K: "ETag", V: "\"x1\""}},
}

func genStatus(t *rapid.T) int {
	switch rapid.IntRange(0, 9).Draw(t, "statuskind") {
	case 0, 1, 2:
		return 0 // implicit
	case 3:
		return 200
	}
	return rapid.SampledFrom(statuses).Draw(t, "status")
}

// genVias draws how each of n pieces of body is handed to the ResponseWriter: half of the handlers only
// call w.Write, one in six uses one other idiom throughout (io.WriteString, io.Copy, fmt.Fprint), a third
// mixes the four piece by piece (a string preamble followed by Writes, a copied tail, ...).
func genVias(t *rapid.T, n int) []string {
	out := make([]string, n)
	if n == 0 {
		return out
	}
	switch rapid.IntRange(0, 5).Draw(t, "emit-mode") {
	case 0, 1, 2:
	case 3:
		w := rapid.SampledFrom(emitWays[1:]).Draw(t, "emit-way")
		for i := range out {
			out[i] = w
		}
	default:
		for i := range out {
			out[i] = rapid.SampledFrom(emitWays).Draw(t, "emit-way")
		}
	}
	return out
}

func genProgram(t *rapid.T, c Chain, method string) Program {
	p := Program{Salt: byte(rapid.IntRange(0, 255).Draw(t, "respsalt"))}
	st := genStatus(t)
	p.Header = append(p.Header, rapid.SampledFrom(respExtra).Draw(t, "resphdr")...)
	if st == 301 || st == 302 {
		p.Header = append(p.Header, lab.KV{K: "Location", V: "/next?x=1"})
	}
	if st != 0 {
		p.Ops = append(p.Ops, Op{Op: "status", N: st})
	}
	total := 0
	if !bodilessStatus(st) {
		total = genLen(t, c.EffM(), c.M == 0, "resp")
		// empty redirects and errors are a class of their own
		if st >= 300 && rapid.IntRange(0, 2).Draw(t, "empty") == 2 {
			total = 0
		}
		p.DeclareCL = rapid.IntRange(0, 2).Draw(t, "declarecl") == 2
	}
	parts := partition(t, total, 4, "resp")
	flush := func(slot string) {
		if rapid.IntRange(0, 5).Draw(t, "flush-"+slot) == 5 {
			p.Ops = append(p.Ops, Op{Op: "flush"})
		}
	}
	flush("before")
	vias := genVias(t, len(parts))
	for i, n := range parts {
		p.Ops = append(p.Ops, Op{Op: "write", N: n, Via: vias[i]})
		if i < len(parts)-1 {
			flush("between")
		}
	}
	if len(parts) > 0 {
		flush("after")
	}
	p.StopOnErr = rapid.Bool().Draw(t, "stop-on-error")
	return p
}

func genScript(t *rapid.T, c Chain) lab.RespScript {
	r := lab.RespScript{BarrierAfter: -1}
	r.Status = rapid.SampledFrom(append([]int{200, 200, 200, 200}, statuses...)).Draw(t, "status")
	r.Header = append(r.Header, rapid.SampledFrom(respExtra).Draw(t, "resphdr")...)
	if r.Status == 301 || r.Status == 302 {
		r.Header = append(r.Header, lab.KV{K: "Location", V: "/next?x=1"})
	}
	if bodilessStatus(r.Status) {
		r.Framing = "none"
		return r
	}
	r.Framing = rapid.SampledFrom([]string{"cl", "cl", "chunked", "close"}).Draw(t, "framing")
	n := genLen(t, c.EffM(), c.M == 0, "resp")
	if r.Status >= 300 && rapid.IntRange(0, 2).Draw(t, "empty") == 2 {
		n = 0
	}
	r.Body = payload(n, byte(rapid.IntRange(0, 255).Draw(t, "respsalt")))
	r.BodyLen = n
	r.Parts = partition(t, n, 4, "resp")
	if rapid.IntRange(0, 5).Draw(t, "interim") == 0 {
		r.Interim, r.InterimCode = true, rapid.SampledFrom([]int{103, 103, 100, 102}).Draw(t, "interim_code")
	}
	if r.Framing == "chunked" && rapid.IntRange(0, 4).Draw(t, "trailers") == 0 {
		r.Trailer = []lab.KV{{K: "X-Checksum", V: "crc=77"}, {K: "Grpc-Status", V: "0"}}[:rapid.IntRange(1, 2).Draw(t, "ntrailers")]
		r.TrailerAnnounced = rapid.Bool().Draw(t, "trailer_announced")
	}
	return r
}
