package c12

import (
	"bytes"
	"encoding/json"
	"fmt"
	"math/rand"
	"net"
	"net/http"
	"net/http/httptest"
	"runtime"
	"strings"
	"sync"
	"sync/atomic"
	"syscall"
	"testing"
	"time"

	"github.com/0xReLogic/Helios/internal/adminapi"
	"github.com/0xReLogic/Helios/internal/config"
	"github.com/0xReLogic/Helios/verifharness/lab"
)

// C12: any concurrent mix of traffic, health transitions, breaker transitions, rate limiting,
// admin operations, metrics reads and shutdown runs without data races, panics or deadlocks.
// The package is compiled with -race: the oracle is the race detector's happens-before analysis
// of every executed workload, plus panic lines of the real http.Server, plus a no-progress watchdog.

type wcfg struct {
	Strategy string `json:"strategy"`
	Breaker  bool   `json:"breaker"`
	Limiter  bool   `json:"limiter"`
	Passive  bool   `json:"passive"`
	Active   bool   `json:"active"`
	WSPool   bool   `json:"wspool"`
	Plugins  bool   `json:"plugin_chain"`
	G        int    `json:"goroutines"`
	Ops      int    `json:"ops_per_goroutine"`
	LongRun  bool   `json:"spans_a_probe_tick"`
	Quiet    bool   `json:"quiet_period_then_traffic,omitempty"`
	Seed     int64  `json:"script_seed"`
}

var opKinds = []string{"req-good", "req-5xx", "req-abort", "req-hash-client", "add", "remove", "strategy", "list", "metrics", "health", "eject", "is-healthy", "pool", "stop",
	// reads whose client is gone: the ResponseWriter's Write fails after 0..n bytes (WriteHeader works), as
	// http.Server's writer does once the scraper has disconnected or its write deadline has passed
	"metrics-client-gone", "health-client-gone", "admin-metrics", "admin-metrics-client-gone", "list-client-gone",
	// admin calls the API refuses (operator typos, malformed bodies, unknown names): the error paths run
	// concurrently with everything else and must leave the balancer as usable as before
	"admin-refused"}

// refusedAdminCalls are admin requests Helios answers with an error status (or, for the unknown name, a no-op).
var refusedAdminCalls = []struct {
	method, path string
	body         string
}{
	{"POST", "/v1/backends/add", `{"name":"bad1","address":"http://10.0.0.7:808O","weight":1}`}, // letter O in the port: url.Parse refuses
	{"POST", "/v1/backends/add", `{"name":"bad2","address":"http://[::1","weight":1}`},
	{"POST", "/v1/backends/add", `{"name":"bad3","address":"http://h/%zz","weight":1}`},
	{"POST", "/v1/backends/add", `{"name":"bad4","address":"://nohost","weight":1}`},
	{"POST", "/v1/backends/add", `{"name":"bad5","address":"http://a b/","weight":1}`},
	{"POST", "/v1/backends/add", `{"name":"bad6","address":"","weight":1}`},
	{"POST", "/v1/backends/add", `{"name":"","address":"http://127.0.0.1:9","weight":1}`},
	{"POST", "/v1/backends/add", `{"name":"bad7","address":"http://127.0.0.1:9","weight":"heavy"}`},
	{"POST", "/v1/backends/add", `{"name":"bad8",`},
	{"POST", "/v1/backends/add", ``},
	{"GET", "/v1/backends/add", ``},
	{"POST", "/v1/backends/remove", `{"name":"never-added"}`},
	{"POST", "/v1/backends/remove", `{"nme":"x0"}`},
	{"POST", "/v1/backends/remove", `[1,2`},
	{"DELETE", "/v1/backends/remove", `{"name":"x0"}`},
	{"POST", "/v1/strategy", `{"strategy":"fastest"}`},
	{"POST", "/v1/strategy", `{"strategy":""}`},
	{"POST", "/v1/strategy", `{"strategy":7}`},
	{"PUT", "/v1/strategy", `{"strategy":"round_robin"}`},
	{"GET", "/v1/nothing-here", ``},
}

// goneWriter is an http.ResponseWriter whose connection breaks after `left` more body bytes: Write
// passes on what still fits and returns the error net/http reports for a vanished peer.
type goneWriter struct {
	hdr    http.Header
	code   int
	left   int
	wrote  int
	failed int
}

var errGone = &net.OpError{Op: "write", Net: "tcp", Err: syscall.EPIPE}

func newGoneWriter(left int) *goneWriter { return &goneWriter{hdr: http.Header{}, left: left} }

func (w *goneWriter) Header() http.Header { return w.hdr }
func (w *goneWriter) WriteHeader(code int) {
	if w.code == 0 {
		w.code = code
	}
}
func (w *goneWriter) Write(b []byte) (int, error) {
	if w.code == 0 {
		w.code = http.StatusOK
	}
	if len(b) <= w.left {
		w.left -= len(b)
		w.wrote += len(b)
		return len(b), nil
	}
	n := w.left
	w.left = 0
	w.wrote += n
	w.failed++
	return n, errGone
}

// goneAfter: how many body bytes still reach the client that disconnects (0 = none, up to about a full snapshot).
var goneAfter = []int{0, 0, 1, 16, 200, 1500}

type fakeConn struct {
	net.Conn
	closed atomic.Bool
}

func (f *fakeConn) Close() error { f.closed.Store(true); return nil }

func script(kind string) *lab.RespScript {
	s := &lab.RespScript{Status: 200, Framing: "cl", Body: []byte("ok"), BarrierAfter: -1, Header: []lab.KV{{K: "Content-Type", V: "text/plain"}}}
	switch kind {
	case "req-5xx":
		s.Status = 500
	case "req-abort":
		s.Body = make([]byte, 2000)
		s.Fault = "reset-after-headers"
	}
	return s
}

func runWorkload(t *testing.T, c wcfg, overlap *[lenKinds]int64) string {
	l, err := lab.NewSocketLab(c.Strategy, lab.SocketOpts{Backends: 3, Mutate: func(cfg *config.Config) {
		if c.Breaker {
			// thresholds vary with the workload: 1-3 successes needed to close, 2-4 trial requests admitted at a time (so trials overlap)
			cfg.CircuitBreaker = config.CircuitBreakerConfig{Enabled: true, FailureThreshold: 1 + int(c.Seed/3%3), SuccessThreshold: 1 + int(c.Seed%3), MaxRequests: 2 + int(c.Seed%3), IntervalSeconds: 60, TimeoutSeconds: 1}
			if c.Quiet {
				// the counting window is shorter than the quiet period; in half of these workloads the threshold is out of
				// reach, so that the breaker is still CLOSED with failures on record when the traffic resumes
				cfg.CircuitBreaker.IntervalSeconds = 1
				if c.Seed%2 == 0 {
					cfg.CircuitBreaker.FailureThreshold = 100000
				}
			}
		}
		if c.Limiter {
			cfg.RateLimit = config.RateLimitConfig{Enabled: true, MaxTokens: 5, RefillRate: 1}
		}
		if c.Passive {
			cfg.HealthChecks.Passive = config.PassiveHealthCheckConfig{Enabled: true, UnhealthyThreshold: 2, UnhealthyTimeout: 1}
		}
		if c.Active {
			cfg.HealthChecks.Active = config.ActiveHealthCheckConfig{Enabled: true, Interval: 2, Timeout: 1, Path: "/healthz"}
			if !c.Passive {
				cfg.HealthChecks.Passive.UnhealthyTimeout = 1
			}
		}
		if c.WSPool {
			cfg.LoadBalancer.WebSocketPool = config.WebSocketPoolConfig{Enabled: true, MaxIdle: 2, MaxActive: 8, IdleTimeoutSeconds: 1}
		}
		if c.Plugins {
			cfg.Plugins.Enabled = true
			cfg.Plugins.Chain = []config.PluginConfig{{Name: "logging"}, {Name: "request-id"},
				{Name: "size_limit", Config: map[string]interface{}{"max_request_body": 1 << 20, "max_response_body": 1 << 20}},
				{Name: "gzip", Config: map[string]interface{}{"level": 5, "min_size": 1, "content_types": []interface{}{"text/"}}},
				{Name: "headers", Config: map[string]interface{}{"set": map[string]interface{}{"X-App": "Helios"}, "request_set": map[string]interface{}{"X-From": "LB"}}}}
			cfg.Logging.RequestID.Enabled, cfg.Logging.Trace.Enabled = true, true
		}
		cfg.AdminAPI.Enabled, cfg.AdminAPI.Port = true, 9091
	}})
	if err != nil {
		return "harness: " + err.Error()
	}
	defer l.Close()
	l.Backends[2].Refuse(true) // one unreachable backend
	admin := adminapi.NewMux(l.LB, l.Cfg, l.LB.GetMetricsCollector())
	adminCall := func(method, path string, body any) {
		b, _ := json.Marshal(body)
		req := httptest.NewRequest(method, path, bytes.NewReader(b))
		req.RemoteAddr = "127.0.0.1:999"
		admin.ServeHTTP(httptest.NewRecorder(), req)
	}
	// client addresses: in half of the workloads every goroutine has its own four, in the other half all goroutines
	// share four, so that one client's bucket is drained, refused and refilled by several goroutines at once
	clientOf := func(g, k int) string {
		if (c.Seed/2)%2 == 1 {
			return fmt.Sprintf("10.3.0.%d", k%4)
		}
		return fmt.Sprintf("10.3.%d.%d", 1+g, k%4)
	}
	wd := lab.StartWatchdog(t.Name(), "concurrent-workloads", lab.NoProgress, func() any { return c })
	defer wd.Stop()
	var inflight [lenKinds]int32
	var ready, goFlag int32
	var wg sync.WaitGroup
	var extraSeq int32
	var annMu sync.Mutex
	announced := map[string]int{} // (name, address) -> weight of the latest announcement (harness bookkeeping for the evidence only)
	for g := 0; g < c.G; g++ {
		wg.Add(1)
		go func(g int) {
			defer wg.Done()
			rng := rand.New(rand.NewSource(c.Seed*1000 + int64(g)))
			atomic.AddInt32(&ready, 1)
			for atomic.LoadInt32(&goFlag) == 0 {
				runtime.Gosched()
			}
			for i := 0; i < c.Ops; i++ {
				k := rng.Intn(len(opKinds))
				kind := opKinds[k]
				if kind == "stop" && !(g == 0 && i == c.Ops-1) {
					kind = "metrics" // one Stop per workload, issued while the others are still busy
				}
				// which kinds overlap with which (measured, reported in the evidence)
				for j := range inflight {
					if atomic.LoadInt32(&inflight[j]) > 0 {
						atomic.AddInt64(&overlap[j], 1)
					}
				}
				atomic.AddInt32(&inflight[k], 1)
				switch kind {
				case "req-good", "req-5xx", "req-abort", "req-hash-client":
					id := l.NextCase()
					for _, b := range l.Backends {
						b.Expect(id, script(kind))
					}
					_, _ = lab.Do(l.Addr, &lab.RawRequest{Method: "GET", Target: "/w", Framing: "none", Header: []lab.KV{{K: "Host", V: "h"},
						{K: "X-Verif-Case", V: id}, {K: "Accept-Encoding", V: "gzip"}, {K: "X-Forwarded-For", V: clientOf(g, rng.Intn(4))}}}, 5*time.Second)
					l.ForgetAll(id)
				case "add":
					// name, address and weight are drawn independently of each other: the same (name, address) is announced
					// again and again - with the weight it had, with another one, under another address -, and one add in
					// three re-announces a backend of the configuration file under its own name and address (what a
					// registry sync does), so that every add path runs next to listings, picks, removals and reads
					atomic.AddInt32(&extraSeq, 1)
					name, ai := fmt.Sprintf("x%d", rng.Intn(3)), rng.Intn(2)
					if rng.Intn(3) == 0 {
						ai = rng.Intn(3)
						name = lab.BackendName(ai)
					}
					w := addWeights[rng.Intn(len(addWeights))]
					key := name + "@" + fmt.Sprint(ai)
					annMu.Lock()
					if prev, seen := announced[key]; seen && prev != w {
						atomic.AddInt64(&reannounced, 1)
					}
					announced[key] = w
					annMu.Unlock()
					adminCall("POST", "/v1/backends/add", map[string]any{"name": name, "address": l.Backends[ai].URL(), "weight": w})
				case "remove":
					adminCall("POST", "/v1/backends/remove", map[string]any{"name": fmt.Sprintf("x%d", rng.Intn(3))})
				case "strategy":
					adminCall("POST", "/v1/strategy", map[string]any{"strategy": lab.Strategies[rng.Intn(len(lab.Strategies))]})
				case "list":
					adminCall("GET", "/v1/backends", nil)
				case "metrics":
					rec := httptest.NewRecorder()
					l.LB.GetMetricsCollector().MetricsHandler()(rec, httptest.NewRequest("GET", "/metrics", nil))
				case "health":
					rec := httptest.NewRecorder()
					l.LB.GetMetricsCollector().HealthHandler()(rec, httptest.NewRequest("GET", "/health", nil))
				case "metrics-client-gone":
					l.LB.GetMetricsCollector().MetricsHandler()(newGoneWriter(goneAfter[rng.Intn(len(goneAfter))]), httptest.NewRequest("GET", "/metrics", nil))
				case "health-client-gone":
					l.LB.GetMetricsCollector().HealthHandler()(newGoneWriter(goneAfter[rng.Intn(len(goneAfter))]), httptest.NewRequest("GET", "/health", nil))
				case "admin-refused":
					rc := refusedAdminCalls[rng.Intn(len(refusedAdminCalls))]
					req := httptest.NewRequest(rc.method, rc.path, strings.NewReader(rc.body))
					req.RemoteAddr = "127.0.0.1:999"
					admin.ServeHTTP(httptest.NewRecorder(), req)
				case "admin-metrics":
					adminCall("GET", "/v1/metrics", nil)
				case "admin-metrics-client-gone", "list-client-gone":
					path := "/v1/metrics"
					if kind == "list-client-gone" {
						path = "/v1/backends"
					}
					req := httptest.NewRequest("GET", path, nil)
					req.RemoteAddr = "127.0.0.1:999"
					admin.ServeHTTP(newGoneWriter(goneAfter[rng.Intn(len(goneAfter))]), req)
				case "eject":
					bs := l.LB.VerifBackends()
					if len(bs) > 0 {
						l.LB.MarkBackendUnhealthy(bs[rng.Intn(len(bs))], time.Duration(rng.Intn(20))*time.Millisecond)
					}
				case "is-healthy":
					bs := l.LB.VerifBackends()
					if len(bs) > 0 {
						l.LB.IsBackendHealthy(bs[rng.Intn(len(bs))])
					}
				case "pool":
					if p := l.LB.VerifWebSocketPool(); p != nil {
						name := lab.BackendName(rng.Intn(2))
						switch rng.Intn(3) {
						case 0:
							p.Put(name, &fakeConn{})
						case 1:
							if cn := p.Get(name); cn != nil {
								p.Close(name, cn)
							}
						default:
							p.Stats(name)
						}
					}
				case "stop":
					l.LB.Stop()
				}
				atomic.AddInt32(&inflight[k], -1)
			}
		}(g)
	}
	for atomic.LoadInt32(&ready) < int32(c.G) {
		runtime.Gosched()
	}
	atomic.StoreInt32(&goFlag, 1)
	if c.LongRun {
		time.Sleep(2100 * time.Millisecond) // let Helios's own 2 s probe ticker fire while everything else runs
	}
	wg.Wait()
	if c.Quiet {
		// a quiet period longer than every configured interval (breaker interval and timeout, unhealthy
		// windows, limiter refill, pool idle timeout: 1 s each), then traffic again: the paths that
		// expire stale state run concurrently with requests, metrics reads and admin listings
		time.Sleep(1150 * time.Millisecond)
		var stuck atomic.Value
		var wg2 sync.WaitGroup
		for g := 0; g < 8; g++ {
			wg2.Add(1)
			go func(g int) {
				defer wg2.Done()
				for i := 0; i < 3; i++ {
					switch {
					case g == 7:
						rec := httptest.NewRecorder()
						l.LB.GetMetricsCollector().MetricsHandler()(rec, httptest.NewRequest("GET", "/metrics", nil))
						adminCall("GET", "/v1/backends", nil)
					case g == 6:
						l.LB.GetMetricsCollector().MetricsHandler()(newGoneWriter(goneAfter[(g+i)%len(goneAfter)]), httptest.NewRequest("GET", "/metrics", nil))
						rec := httptest.NewRecorder()
						l.LB.GetMetricsCollector().HealthHandler()(rec, httptest.NewRequest("GET", "/health", nil))
					default:
						id := l.NextCase()
						for _, b := range l.Backends {
							b.Expect(id, script([]string{"req-good", "req-good", "req-5xx"}[(g+i)%3]))
						}
						out, err := lab.Do(l.Addr, &lab.RawRequest{Method: "GET", Target: "/after-quiet", Framing: "none", Header: []lab.KV{{K: "Host", V: "h"},
							{K: "X-Verif-Case", V: id}, {K: "X-Forwarded-For", V: clientOf(g, i)}}}, 10*time.Second)
						l.ForgetAll(id)
						// every backend answers at once (or refuses): a request that gets no response at all within 10 s is stuck inside Helios
						if err != nil && (out == nil || out.Status == 0) && (strings.Contains(err.Error(), "timeout") || strings.Contains(err.Error(), "deadline")) {
							stuck.Store(fmt.Sprintf("after a quiet period of 1.15 s a request got no response within 10 s (%v): request processing is blocked", err))
						}
					}
				}
			}(g)
		}
		wg2.Wait()
		if v := stuck.Load(); v != nil {
			return v.(string)
		}
	}
	if p := l.PanicLines(); len(p) > 0 {
		return "handler panic: " + strings.Join(p, " | ")
	}
	return ""
}

const lenKinds = 20 // len(opKinds)

// addWeights: weights an admin add carries (0 = field left at its zero value, Helios defaults it to 1).
var addWeights = []int{0, 1, 2, 3, 5, 10}

// reannounced counts adds that named a (name, address) announced before in the same workload with another weight.
var reannounced int64

func TestC12ConcurrentWorkloads(t *testing.T) {
	sub := lab.Sub("concurrent-workloads", "all 5 strategies x 2^6 on/off combinations of breaker, limiter, passive checks, active checks, websocket pool, plugin chain (logging, request-id, size_limit, gzip, headers + request/trace IDs) are cycled (320 configurations); for each a workload of 8-64 goroutines x 6-20 operations over "+
		"{request to good/5xx/aborting/unreachable backend over real sockets, admin add (name, address and weight drawn independently from 3 extra names + the 3 configured backends x their addresses x weights {unset,1,2,3,5,10}: first adds, repeated announcements with the same or another weight, same name under another address)/remove/set_strategy/list, /metrics, /health and admin /v1/metrics reads through a recorder, the same reads (/metrics, /health, /v1/metrics, /v1/backends) by a client that is gone - the ResponseWriter's Write fails with EPIPE after 0/1/16/200/1500 body bytes -, MarkBackendUnhealthy, IsBackendHealthy, pool put/get/close/stats, Stop} with scripts derived from VERIF_SEED; one configuration in eight (with breaker, passive checks or limiter on; breaker interval 1 s there) continues after a quiet period of 1.15 s - longer than every configured interval - with a second wave of requests, metrics reads and listings; "+
		"binary built with -race; oracle: no race report with any frame, no handler panic, no fatal error, every workload returns (20 s no-progress watchdog); every workload is non-trivial (>=3 operation kinds incl. mutating ones); distinct = distinct (configuration, goroutines, ops, seed)")
	lab.Assume("the race detector decides only the interleavings that were executed (their happens-before class); L2 handler composition replicates cmd/helios/server.go")
	if lab.Replaying() {
		t.Skip()
	}
	var overlap [lenKinds]int64
	var firstViol string
	var firstCase wcfg
	perConfig := lab.Scale(1, 12)
	idx := 0
	for si, s := range lab.Strategies {
		for mask := 0; mask < 64; mask++ {
			for r := 0; r < perConfig; r++ {
				idx++
				if idx%lab.Shards() != lab.Shard() {
					continue
				}
				c := wcfg{Strategy: s, Breaker: mask&1 != 0, Limiter: mask&2 != 0, Passive: mask&4 != 0, Active: mask&8 != 0, WSPool: mask&16 != 0, Plugins: mask&32 != 0,
					G: []int{8, 16, 32, 64}[(idx+r)%4], Ops: 6 + (idx*7+r)%15, Seed: int64(lab.Seed()%1000003)*1000 + int64(idx)}
				c.LongRun = c.Active && (idx+si)%16 == 0
				c.Quiet = (c.Breaker || c.Passive || c.Limiter) && (idx+si)%8 == 3
				name := fmt.Sprintf("%s-m%02d-r%d", s, mask, r)
				var v string
				ok := t.Run(name, func(t *testing.T) { v = runWorkload(t, c, &overlap) })
				labels := []string{s}
				if c.LongRun {
					labels = append(labels, "spans-probe-tick")
				}
				if c.Quiet {
					labels = append(labels, "quiet-period-then-traffic")
				}
				sub.Case(c, true, labels...)
				// keep going after a failure: one run should show every distinct race
				if v != "" && firstViol == "" {
					firstViol, firstCase = v, c
				}
				if !ok && firstViol == "" {
					// the race detector failed the sub-test: its reports are in the output (kept as replay artefact)
					firstViol, firstCase = fmt.Sprintf("race detector / runtime reported a failure during workload %s (see the DATA RACE reports in the output)", name), c
				}
			}
		}
	}
	for k, n := range overlap {
		sub.Count("overlapped:"+opKinds[k], int(n))
	}
	sub.Count("adds:same-name-and-address-announced-again-with-another-weight", int(atomic.LoadInt64(&reannounced)))
	if firstViol != "" {
		lab.Violation(t, "concurrent-workloads", firstCase, "%s", firstViol)
	}
}
