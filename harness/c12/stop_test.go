package c12

import (
	"fmt"
	"sync"
	"testing"
	"time"

	"github.com/0xReLogic/Helios/internal/config"
	"github.com/0xReLogic/Helios/verifharness/lab"
)

// Stop racing the active health checker: the checker's goroutine registers probe goroutines
// (WaitGroup.Add) while Stop waits for them (WaitGroup.Wait). Stop is placed right after
// construction (initial probe round) and right around Helios's own 2 s tick.
func TestC12StopVsProbes(t *testing.T) {
	sub := lab.Sub("stop-vs-probe-scheduling", "-race build: balancer with active checks (interval 2 s) and 1-6 backends; Stop (1-3 concurrent callers) placed 0-300 us after construction (racing the initial probe round) "+
		"and, for a sample, 1.9995-2.0005 s after it (racing the first tick); oracle: no race report, no panic ('WaitGroup is reused/misuse'), Stop returns (20 s watchdog); every round is non-trivial; distinct = distinct (backends, stoppers, delay) cells")
	if lab.Replaying() {
		t.Skip()
	}
	rounds := lab.Share(lab.Scale(400, 6000))
	tickRounds := lab.Share(lab.Scale(8, 64))
	type rc struct {
		Backends, Stoppers int
		DelayUS            int
		AtTick             bool
	}
	run := func(c rc) {
		l, err := lab.NewSocketLab("round_robin", lab.SocketOpts{Backends: c.Backends, Mutate: func(cfg *config.Config) {
			cfg.HealthChecks.Active = config.ActiveHealthCheckConfig{Enabled: true, Interval: 2, Timeout: 1, Path: "/healthz"}
			cfg.HealthChecks.Passive.UnhealthyTimeout = 1
		}})
		if err != nil {
			t.Fatalf("harness: %v", err)
		}
		wd := lab.StartWatchdog(t.Name(), "stop-vs-probe-scheduling", lab.NoProgress, func() any { return c })
		if c.AtTick {
			time.Sleep(2*time.Second - 500*time.Microsecond + time.Duration(c.DelayUS)*time.Microsecond)
		} else {
			time.Sleep(time.Duration(c.DelayUS) * time.Microsecond)
		}
		var wg sync.WaitGroup
		for s := 0; s < c.Stoppers; s++ {
			wg.Add(1)
			go func() { defer wg.Done(); l.LB.Stop() }()
		}
		wg.Wait()
		wd.Stop()
		l.Close()
		labels := []string{fmt.Sprintf("stoppers-%d", c.Stoppers)}
		if c.AtTick {
			labels = append(labels, "at-tick")
		} else {
			labels = append(labels, "at-initial-round")
		}
		sub.Case(c, true, labels...)
	}
	for r := 0; r < rounds; r++ {
		k := r*lab.Shards() + lab.Shard() + int(lab.Seed()%97)
		run(rc{Backends: 1 + k%6, Stoppers: 1 + (k/6)%3, DelayUS: (k * 7) % 300})
	}
	var wg sync.WaitGroup
	var mu sync.Mutex
	_ = mu
	for r := 0; r < tickRounds; r++ {
		k := r*lab.Shards() + lab.Shard()
		wg.Add(1)
		go func(k int) { // the 2 s waits run in parallel
			defer wg.Done()
			run(rc{Backends: 1 + k%6, Stoppers: 1 + (k/6)%3, DelayUS: (k * 131) % 1000, AtTick: true})
		}(k)
	}
	wg.Wait()
}
