package c12

import (
	"fmt"
	"math/rand"
	"sync"
	"sync/atomic"
	"testing"
	"time"

	"github.com/0xReLogic/Helios/internal/config"
	"github.com/0xReLogic/Helios/internal/loadbalancer"
	"github.com/0xReLogic/Helios/verifharness/lab"
)

// Shutdown is one operation of the C12 mix and nothing restricts it to one caller (a signal handler next to a
// deferred Stop, an admin drain next to the process shutdown): 1-8 shutdown callers are released in the same
// instant by a spin barrier, through both paths that reach the shutdown code (LoadBalancer.Stop and the pool's
// own Shutdown), for balancers with the websocket pool and the active checker on and off, optionally next to
// pool users. Oracle (from the statement): no caller panics, every caller returns, no race report.
type shutCase struct {
	Level    string `json:"level"` // "pool": a WebSocketPool on its own; "balancer": a whole balancer
	WSPool   bool   `json:"wspool"`
	Active   bool   `json:"active_checks"`
	Callers  int    `json:"shutdown_callers"`
	Path     string `json:"path"` // stop | pool-shutdown | mixed
	Users    int    `json:"concurrent_pool_users"`
	Prefill  int    `json:"idle_connections_before"`
	ScriptID int64  `json:"script_seed"`
}

func runShutdown(t *testing.T, c shutCase) string {
	var pool *loadbalancer.WebSocketPool
	var stop func()
	if c.Level == "pool" {
		pool = loadbalancer.NewWebSocketPool(1+int(c.ScriptID%4), 4+int(c.ScriptID%13), time.Duration(1+c.ScriptID%3)*time.Second)
	} else {
		l, err := lab.NewSocketLab(lab.Strategies[int(c.ScriptID)%len(lab.Strategies)], lab.SocketOpts{Backends: 2, Mutate: func(cfg *config.Config) {
			if c.Active {
				cfg.HealthChecks.Active = config.ActiveHealthCheckConfig{Enabled: true, Interval: 2, Timeout: 1, Path: "/healthz"}
				cfg.HealthChecks.Passive.UnhealthyTimeout = 1
			}
			if c.WSPool {
				cfg.LoadBalancer.WebSocketPool = config.WebSocketPoolConfig{Enabled: true, MaxIdle: 2, MaxActive: 8, IdleTimeoutSeconds: 1}
			}
		}})
		if err != nil {
			return "harness: " + err.Error()
		}
		defer l.Close()
		pool = l.LB.VerifWebSocketPool()
		stop = l.LB.Stop
	}
	if pool != nil {
		for i := 0; i < c.Prefill; i++ {
			pool.Put(lab.BackendName(i%2), &fakeConn{})
		}
	}
	wd := lab.StartWatchdog(t.Name(), "overlapping-shutdown", lab.NoProgress, func() any { return c })
	defer wd.Stop()
	var firstPanic atomic.Value
	var ready int32
	total := int32(c.Callers + c.Users)
	var wg sync.WaitGroup
	barrier := func() {
		atomic.AddInt32(&ready, 1)
		for atomic.LoadInt32(&ready) < total { // spin: all parties leave in the same instant
		}
	}
	for g := 0; g < c.Callers; g++ {
		viaPool := pool != nil && (c.Path == "pool-shutdown" || (c.Path == "mixed" && g%2 == 1) || stop == nil)
		wg.Add(1)
		go func(g int) {
			defer wg.Done()
			defer func() {
				if r := recover(); r != nil {
					firstPanic.CompareAndSwap(nil, fmt.Sprintf("shutdown caller %d of %d panicked: %v", g+1, c.Callers, r))
				}
			}()
			barrier()
			if viaPool {
				pool.Shutdown()
			} else {
				stop()
			}
		}(g)
	}
	for u := 0; u < c.Users; u++ {
		wg.Add(1)
		go func(u int) {
			defer wg.Done()
			defer func() {
				if r := recover(); r != nil {
					firstPanic.CompareAndSwap(nil, fmt.Sprintf("pool user panicked next to %d shutdown callers: %v", c.Callers, r))
				}
			}()
			rng := rand.New(rand.NewSource(c.ScriptID*16 + int64(u)))
			barrier()
			if pool == nil {
				return
			}
			for i := 0; i < 4; i++ {
				name := lab.BackendName(rng.Intn(2))
				switch rng.Intn(3) {
				case 0:
					pool.Put(name, &fakeConn{})
				case 1:
					if cn := pool.Get(name); cn != nil {
						pool.Close(name, cn)
					}
				default:
					pool.Stats(name)
				}
			}
		}(u)
	}
	wg.Wait()
	if v := firstPanic.Load(); v != nil {
		return "overlapping shutdown (" + c.Level + ", path " + c.Path + "): " + v.(string)
	}
	return ""
}

func TestC12OverlappingShutdown(t *testing.T) {
	sub := lab.Sub("overlapping-shutdown", "-race build: 1-8 shutdown callers released in the same instant by a spin barrier, (a) on a WebSocketPool of its own (max idle 1-4, max active 4-16, 0-3 idle connections) and (b) on whole balancers for every on/off combination of websocket pool and active checks, all 5 strategies; "+
		"the callers go through LoadBalancer.Stop, through the pool's Shutdown, or half and half; 0-2 pool users (put/get/close/stats) run next to them; oracle: no caller or user panics, all return (20 s watchdog), no race report; "+
		"a round is non-trivial when at least two shutdown calls overlap; distinct = distinct (level, configuration, callers, path, users, prefill, seed)")
	if lab.Replaying() {
		t.Skip()
	}
	var firstViol string
	var firstCase shutCase
	paths := []string{"stop", "pool-shutdown", "mixed"}
	do := func(c shutCase) {
		v := runShutdown(t, c)
		labels := []string{c.Level, "path-" + c.Path, fmt.Sprintf("callers-%d", c.Callers)}
		if c.WSPool {
			labels = append(labels, "wspool-on")
		}
		if c.Users > 0 {
			labels = append(labels, "with-pool-users")
		}
		sub.Case(c, c.Callers >= 2, labels...)
		if v != "" && firstViol == "" {
			firstViol, firstCase = v, c
		}
	}
	base := int64(lab.Seed()%1000003) * 100000
	poolRounds := lab.Share(lab.Scale(2400, 12000))
	for r := 0; r < poolRounds && firstViol == ""; r++ {
		k := r*lab.Shards() + lab.Shard()
		do(shutCase{Level: "pool", WSPool: true, Callers: 1 + (k+int(lab.Seed()%8))%8, Path: "pool-shutdown", Users: (k / 8) % 3, Prefill: (k / 24) % 4, ScriptID: base + int64(k)})
	}
	lbRounds := lab.Share(lab.Scale(240, 3000))
	for r := 0; r < lbRounds && firstViol == ""; r++ {
		k := r*lab.Shards() + lab.Shard()
		c := shutCase{Level: "balancer", WSPool: k%4 != 3, Active: (k/4)%2 == 1, Callers: 1 + (k/8+int(lab.Seed()%8))%8, Path: paths[(k/64+k)%3], Users: (k / 3) % 3, Prefill: k % 3, ScriptID: base + 50000 + int64(k)}
		if !c.WSPool {
			c.Path, c.Prefill = "stop", 0
		}
		do(c)
	}
	if firstViol != "" {
		lab.Violation(t, "overlapping-shutdown", firstCase, "%s", firstViol)
	}
}
