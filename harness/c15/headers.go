package c15

// Companion response headers: the fields a backend sends NEXT TO a body that the gzip plugin may compress.
// The statement makes the round trip depend on five things only (Accept-Encoding, content type, length,
// the buffering cap, an existing Content-Encoding); every other field of the backend's response -
// download names, validators, caching directives, language, links, cookies, range descriptions, digests,
// security headers - is metadata that must not change what the client decodes. The generator draws them
// broadly (kinds and values), with the file name of Content-Disposition composed from a name pool (ASCII,
// Latin-1, beyond Latin-1, path parts, controls) and the spellings RFC 6266 / RFC 5987 allow for it.
//
// Hop-by-hop and framing fields (Connection, Transfer-Encoding, Trailer, Content-Length, Upgrade) are not
// drawn here: framing is a dimension of its own (Case.Framing / Program.DeclareCL), and Content-Encoding is
// the "already encoded" condition of the statement.

import (
	"fmt"
	"mime"
	"strings"
	"unicode/utf8"

	"github.com/0xReLogic/Helios/verifharness/lab"
	"pgregory.net/rapid"
)

// fileNames: download names as applications produce them.
var fileNames = []string{
	"report.csv", "export.json", "index.html", "annual report 2024.html", "a.b.c.tar.js", "x",
	"René.csv", "naïve café.txt", "Ærøskøbing.json", "año_2024.csv", "Größe.html", // ISO-8859-1
	"Łódź.csv", "İstanbul.json", "žluťoučký kůň.txt", // Latin Extended: outside ISO-8859-1
	"отчёт.csv", "Ελληνικά.html", "报告.csv", "レポート 2024.json", "보고서.csv", "تقرير.csv", "דוח.html", "रिपोर्ट.json", // other scripts
	"📄 summary.json", "résumé—final.txt", "€uro.csv", // astral plane, punctuation beyond Latin-1
	"../../etc/passwd", "/var/www/out/report.html", "C:\\Users\\me\\report.csv", "dir/", ".", "..", ".hidden", // path parts
	"quote\"inside.csv", "semi;colon=x.csv", "percent%41.csv", "tab\there.txt", // characters with a meaning in the header syntax
	strings.Repeat("long-name-", 30) + ".csv",
}

// latin1Bytes renders s in ISO-8859-1; ok = every rune fits.
func latin1Bytes(s string) (string, bool) {
	var b strings.Builder
	for _, r := range s {
		if r > 0xFF {
			return "", false
		}
		b.WriteByte(byte(r))
	}
	return b.String(), true
}

func pctEncode(s string) string {
	var b strings.Builder
	for i := 0; i < len(s); i++ {
		c := s[i]
		if c >= 'a' && c <= 'z' || c >= 'A' && c <= 'Z' || c >= '0' && c <= '9' || strings.IndexByte("!#$&+-.^_`|~", c) >= 0 {
			b.WriteByte(c)
		} else {
			fmt.Fprintf(&b, "%%%02X", c)
		}
	}
	return b.String()
}

func quoted(s string) string {
	s = strings.ReplaceAll(s, "\\", "\\\\")
	s = strings.ReplaceAll(s, "\"", "\\\"")
	s = strings.ReplaceAll(s, "\t", " ") // a raw control character is not a field value a backend can send through net/http
	return "\"" + s + "\""
}

func asciiFallback(s string) string {
	var b strings.Builder
	for _, r := range s {
		if r < 0x20 || r > 0x7E || r == '"' || r == '\\' {
			b.WriteByte('_')
		} else {
			b.WriteRune(r)
		}
	}
	return b.String()
}

// genContentDisposition composes a Content-Disposition value: disposition type x file name x spelling.
func genContentDisposition(t *rapid.T) string {
	typ := rapid.SampledFrom([]string{"attachment", "attachment", "attachment", "inline", "form-data; name=\"upload\"", "ATTACHMENT", "Attachment"}).Draw(t, "cd-type")
	name := rapid.SampledFrom(fileNames).Draw(t, "cd-name")
	l1, isL1 := latin1Bytes(name)
	switch rapid.SampledFrom([]string{"ext-utf8", "quoted-utf8", "both", "ext-utf8", "quoted-utf8", "both", "quoted-latin1", "ext-latin1", "ext-lang", "token", "none", "empty", "nul", "odd", "both-ext-first"}).Draw(t, "cd-spelling") {
	case "quoted-utf8": // raw UTF-8 inside a quoted string, as many frameworks send it
		return typ + "; filename=" + quoted(name)
	case "quoted-latin1": // RFC 2616 style: the quoted string holds ISO-8859-1 bytes
		if isL1 {
			return typ + "; filename=" + quoted(l1)
		}
		return typ + "; filename=" + quoted(name)
	case "ext-utf8": // RFC 5987 / 6266
		return typ + "; filename*=UTF-8''" + pctEncode(name)
	case "ext-lang":
		return typ + "; filename*=utf-8'en'" + pctEncode(name)
	case "ext-latin1":
		if isL1 {
			return typ + "; filename*=ISO-8859-1''" + pctEncode(l1)
		}
		return typ + "; filename*=UTF-8''" + pctEncode(name)
	case "both": // what RFC 6266 recommends: an ASCII fallback and the real name
		return typ + "; filename=" + quoted(asciiFallback(name)) + "; filename*=UTF-8''" + pctEncode(name)
	case "both-ext-first":
		return typ + "; filename*=UTF-8''" + pctEncode(name) + "; filename=" + quoted(asciiFallback(name))
	case "token":
		return typ + "; filename=" + strings.Map(func(r rune) rune {
			if r <= 0x20 || r > 0x7E || strings.ContainsRune("()<>@,;:\\\"/[]?=", r) {
				return '_'
			}
			return r
		}, name)
	case "empty":
		return typ + "; filename=\"\""
	case "nul": // a percent-encoded NUL inside the name (truncation attacks on download names look like this)
		return typ + "; filename*=UTF-8''" + pctEncode(name) + "%00.txt"
	case "odd": // values no parser is obliged to understand
		return rapid.SampledFrom([]string{typ + "; filename=", typ + "; filename*=UTF-8''%ZZ%", typ + "; filename=\"unterminated", typ + ";;; filename==x", "; filename=\"x\"",
			typ + "; filename*=UTF-16''" + pctEncode(name), typ + "; size=12345; creation-date=\"Wed, 12 Feb 1997 16:29:51 -0500\""}).Draw(t, "cd-odd")
	}
	return typ
}

// companionKinds: the field names drawn (a name listed more than once is drawn more often).
var companionKinds = []string{
	"Content-Disposition", "Content-Disposition", "Content-Disposition", "Content-Disposition",
	"ETag", "ETag", "ETag", "Last-Modified", "Cache-Control", "Cache-Control", "Vary", "Expires", "Age",
	"Content-Language", "Content-Location", "Content-Range", "Accept-Ranges", "Link", "Set-Cookie", "Set-Cookie",
	"Digest", "Location", "Retry-After", "WWW-Authenticate", "Allow", "Security", "CORS", "Server", "Via", "Timing", "Custom", "Long",
}

var companionValues = map[string][]string{
	"ETag":             {`"v1"`, `"5f3e1a2b-1c00"`, `"v1"`, `W/"v1"`, `W/"5f3e1a2b-1c00"`, `""`, `"a\"b"`, `v1`, `"33a64df551425fcc55e4d42a148795d9f25f89d4"`},
	"Last-Modified":    {"Mon, 02 Jan 2006 15:04:05 GMT", "Thu, 01 Jan 1970 00:00:00 GMT", "yesterday"},
	"Cache-Control":    {"no-store", "public, max-age=31536000, immutable", "private, no-cache", "no-transform", "max-age=0, must-revalidate", "s-maxage=60, stale-while-revalidate=30", "public,max-age=600,no-transform"},
	"Vary":             {"Accept-Encoding", "*", "Origin, Accept-Encoding", "Accept-Language", "accept-encoding"},
	"Expires":          {"Thu, 01 Dec 2044 16:00:00 GMT", "0", "-1"},
	"Age":              {"0", "3600"},
	"Content-Language": {"en", "de-CH, fr", "zh-Hant", "mi, en"},
	"Content-Location": {"/doc.json", "/files/report%20final.csv", "https://origin.example/a?b=c"},
	"Content-Range":    {"bytes 0-99/200", "bytes 0-4095/65536", "bytes 100-199/*", "bytes */1234", "items 0-9/100"},
	"Accept-Ranges":    {"bytes", "none"},
	"Link":             {"</style.css>; rel=preload; as=style", "<https://example.com/page/2>; rel=\"next\", <https://example.com/page/9>; rel=\"last\"", "</%E2%9C%93>; rel=\"alternate\"; title*=UTF-8''%e2%82%ac%20rates"},
	"Set-Cookie":       {"sid=abc123; Path=/; HttpOnly; Secure; SameSite=Lax", "theme=dark; Expires=Wed, 09 Jun 2044 10:18:14 GMT", "lang=zh-CN; Domain=helios.test; Max-Age=3600", "empty="},
	"Digest":           {"Digest: sha-256=X48E9qOokqqrvdts8nOJRJN3OWDUoyWxBf7kbu9DBPE=", "Repr-Digest: sha-256=:X48E9qOokqqrvdts8nOJRJN3OWDUoyWxBf7kbu9DBPE=:", "Content-Digest: sha-512=:WZDPaVn/7XgHaAy8pmojAkGWoRx2UFChF41A2svX+TaPm+AbwAAAAAAAAAAAAAAAAAAAAAAAAAAAAAAAAAAAAAAAAAAA==:", "Content-MD5: Q2hlY2sgSW50ZWdyaXR5IQ=="},
	"Location":         {"/elsewhere", "https://other.example/x?y=1#z"},
	"Retry-After":      {"120", "Fri, 31 Dec 2044 23:59:59 GMT"},
	"WWW-Authenticate": {"Basic realm=\"files\"", "Bearer realm=\"api\", error=\"invalid_token\""},
	"Allow":            {"GET, HEAD, OPTIONS"},
	"Security":         {"X-Content-Type-Options: nosniff", "Content-Security-Policy: default-src 'self'; img-src *", "Strict-Transport-Security: max-age=63072000; includeSubDomains", "X-Frame-Options: DENY", "Referrer-Policy: no-referrer"},
	"CORS":             {"Access-Control-Allow-Origin: *", "Access-Control-Expose-Headers: ETag, Content-Disposition, Content-Range", "Timing-Allow-Origin: *"},
	"Server":           {"Server: nginx/1.25.3", "X-Powered-By: Express", "Date: Tue, 15 Nov 1994 08:12:31 GMT"},
	"Via":              {"1.1 varnish, 1.1 cache-7 (squid/5.7)"},
	"Timing":           {"Server-Timing: db;dur=53.2, app;dur=47.2;desc=\"render\"", "X-Accel-Buffering: no", "X-Response-Time: 12ms"},
	"Custom":           {"X-Author: Zoë Ødegård", "X-Title: 报告", "Content-Transfer-Encoding: binary", "Content-Description: File Transfer", "X-Content-Encoding-Hint: gzip", "X-Original-Content-Length: 12345", "Pragma: no-cache"},
}

// kinds that name exactly one field which a response carries at most once
var singleField = map[string]bool{"Content-Disposition": true, "ETag": true, "Last-Modified": true, "Expires": true, "Age": true, "Content-Location": true, "Content-Range": true,
	"Accept-Ranges": true, "Location": true, "Retry-After": true, "Long": true}

// genCompanionHeaders draws 1..max companion fields; names listed in without are left out (the caller sets them itself).
func genCompanionHeaders(t *rapid.T, max int, without ...string) []lab.KV {
	n := rapid.IntRange(1, max).Draw(t, "companions")
	var out []lab.KV
	seen := map[string]bool{}
next:
	for i := 0; i < n; i++ {
		kind := rapid.SampledFrom(companionKinds).Draw(t, "companion")
		var kv lab.KV
		switch kind {
		case "Content-Disposition":
			kv = lab.KV{K: kind, V: genContentDisposition(t)}
		case "Long":
			kv = lab.KV{K: "X-Long", V: strings.Repeat("0123456789abcdef", rapid.SampledFrom([]int{16, 64, 256}).Draw(t, "long"))}
		default:
			v := rapid.SampledFrom(companionValues[kind]).Draw(t, "companion-value")
			if !isFieldName(kind) {
				k, val, _ := strings.Cut(v, ": ")
				kv = lab.KV{K: k, V: val}
			} else {
				kv = lab.KV{K: kind, V: v}
			}
		}
		for _, w := range without {
			if strings.EqualFold(w, kv.K) {
				continue next
			}
		}
		if singleField[kind] || kind == "Server" || kind == "Security" || kind == "CORS" || kind == "Digest" || kind == "Timing" || kind == "Custom" {
			if seen[strings.ToLower(kv.K)] {
				continue
			}
		}
		seen[strings.ToLower(kv.K)] = true
		out = append(out, kv)
	}
	return out
}

// isFieldName: the kind is itself the field name (its values are plain values); the other kinds are groups
// whose values are written "Name: value".
func isFieldName(kind string) bool {
	switch kind {
	case "Digest", "Security", "CORS", "Server", "Timing", "Custom":
		return false
	}
	return true
}

// companionLabels classifies the companion fields of a response for the coverage record.
func companionLabels(extra []lab.KV) []string {
	if len(extra) == 0 {
		return []string{"no-companion-headers"}
	}
	set := map[string]bool{"companion-headers": true}
	for _, kv := range extra {
		switch strings.ToLower(kv.K) {
		case "etag":
			switch {
			case strings.HasPrefix(kv.V, "W/"):
				set["etag-weak"] = true
			case len(kv.V) >= 2 && kv.V[0] == '"' && kv.V[len(kv.V)-1] == '"':
				set["etag-strong"] = true
			default:
				set["etag-malformed"] = true
			}
		case "content-range":
			set["content-range"] = true
		case "cache-control":
			set["cache-control"] = true
		case "set-cookie":
			set["set-cookie"] = true
		case "content-disposition":
			set["content-disposition"] = true
			if strings.Contains(strings.ToLower(kv.V), "filename*=") {
				set["filename-rfc5987"] = true
			}
			_, params, err := mime.ParseMediaType(kv.V)
			name := params["filename"]
			switch {
			case err != nil:
				set["content-disposition-odd"] = true
			case name == "":
				set["content-disposition-without-filename"] = true
			case !utf8.ValidString(name):
				set["filename-raw-latin1-bytes"] = true
			default:
				class := "filename-ascii"
				for _, r := range name {
					if r > 0xFF {
						class = "filename-beyond-latin1"
						break
					}
					if r > 0x7E || r < 0x20 {
						class = "filename-latin1"
					}
				}
				set[class] = true
			}
		}
	}
	out := make([]string, 0, len(set))
	for _, l := range []string{"companion-headers", "content-disposition", "filename-ascii", "filename-latin1", "filename-beyond-latin1", "filename-raw-latin1-bytes", "filename-rfc5987",
		"content-disposition-without-filename", "content-disposition-odd", "etag-strong", "etag-weak", "etag-malformed", "content-range", "cache-control", "set-cookie"} {
		if set[l] {
			out = append(out, l)
		}
	}
	return out
}

func describeKVs(kvs []lab.KV) string {
	if len(kvs) == 0 {
		return "none"
	}
	parts := make([]string, len(kvs))
	for i, kv := range kvs {
		v := kv.V
		if len(v) > 200 {
			v = fmt.Sprintf("%s... (%d bytes)", v[:40], len(v))
		}
		parts[i] = fmt.Sprintf("%s: %q", kv.K, v)
	}
	return strings.Join(parts, " | ")
}
