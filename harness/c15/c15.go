package c15

// Shared machinery of the C15 check: gzip chain description rendered as YAML text, the stub terminal
// handler, labs, the independent eligibility model and the round-trip oracle.
//
// Oracle (from the property statement only):
//
//	RT  the bytes on the client socket parse as an HTTP response that can be read to its end according to
//	    the Content-Length / chunked framing it carries; decoded according to the Content-Encoding it
//	    carries (absent/identity: as is; gzip: one complete gzip stream) the body equals the backend's body;
//	    the status equals the backend's status
//	OI  the response was compressed by Helios (Content-Encoding gzip at the client, none at the backend)
//	    ONLY IF the request listed gzip in Accept-Encoding, the content type matches a configured prefix,
//	    min_size <= length <= 10 MiB; an already encoded response is never touched
//	ID  every response not compressed by Helios is byte-identical: body bytes, Content-Encoding and the
//	    backend's declared Content-Length
//
// The model is deliberately permissive where the statement leaves room (codings and media types are
// compared case-insensitively, q-values other than 0 count as listed), so that OI can only fire on a
// response no reading of the statement allows to be compressed. Not compressing is never a violation.

import (
	"bytes"
	"compress/gzip"
	"errors"
	"fmt"
	"io"
	"net"
	"net/http"
	"strconv"
	"strings"
	"sync"
	"time"

	"github.com/0xReLogic/Helios/internal/config"
	"github.com/0xReLogic/Helios/verifharness/lab"
	"gopkg.in/yaml.v3"
)

const ioDeadline = 10 * time.Second // budget for a loopback exchange that normally takes < 5 ms

const bufferCap = 10 << 20 // documented: "10MB buffer limit and streaming fallback"

const (
	keyHeaderEarly = "gzip-header-sent-before-content-encoding" // compressed bytes reach the client labelled identity / with the stale Content-Length
	keyDouble      = "already-encoded-response-recompressed"    // a response that carries Content-Encoding is gzipped again
	keyTailDropped = "body-after-buffer-overflow-dropped"       // > 10 MiB: writes after the overflow are buffered again and never sent
)

// GzipCfg is the gzip plugin configuration of a case.
type GzipCfg struct {
	Level   int      `json:"level"`
	MinSize int      `json:"min_size"`
	Types   []string `json:"content_types"`
	Style   string   `json:"style"` // yaml-int | yaml-float  (how level and min_size are written)
}

// Chain says where gzip sits among `logging` and `headers`.
type Chain struct {
	Before []string `json:"before,omitempty"` // plugins listed before gzip (they wrap it)
	After  []string `json:"after,omitempty"`
	Gzip   GzipCfg  `json:"gzip"`
}

func companionYAML(name string) string {
	if name == "headers" {
		return "  - name: headers\n    config:\n      set:\n        X-Verif-Set: \"on\"\n"
	}
	return "  - name: " + name + "\n"
}

func num(v int, style string) string {
	if style == "yaml-float" {
		return fmt.Sprintf("%d.0", v)
	}
	return strconv.Itoa(v)
}

// YAML renders the `plugins:` section body as an operator writes it.
func (c Chain) YAML(style string) string {
	var sb strings.Builder
	sb.WriteString("enabled: true\nchain:\n")
	for _, p := range c.Before {
		sb.WriteString(companionYAML(p))
	}
	sb.WriteString("  - name: gzip\n    config:\n")
	sb.WriteString("      level: " + num(c.Gzip.Level, style) + "\n")
	sb.WriteString("      min_size: " + num(c.Gzip.MinSize, style) + " # bytes\n")
	if len(c.Gzip.Types) == 0 {
		sb.WriteString("      content_types: []\n")
	} else {
		sb.WriteString("      content_types:\n")
		for _, t := range c.Gzip.Types {
			sb.WriteString("        - " + strconv.Quote(t) + "\n")
		}
	}
	for _, p := range c.After {
		sb.WriteString(companionYAML(p))
	}
	return sb.String()
}

// Plugins loads the YAML text through yaml.v3 into config.PluginsConfig (ints stay int, 5.0 is float64).
func (c Chain) Plugins(style string) (config.PluginsConfig, error) {
	var pc config.PluginsConfig
	err := yaml.Unmarshal([]byte(c.YAML(style)), &pc)
	return pc, err
}

// ---------------------------------------------------------------------------------------------
// Payloads
// ---------------------------------------------------------------------------------------------

const lorem = "Helios is a light-weight, high-performance HTTP reverse proxy and load balancer. "

// makeBody builds n deterministic bytes: repeated text (compressible) or LCG noise (incompressible).
func makeBody(n int, compressible bool, salt byte) []byte {
	b := make([]byte, n)
	if compressible {
		off := int(salt) % len(lorem)
		for i := range b {
			b[i] = lorem[(i+off)%len(lorem)]
		}
		return b
	}
	x := uint32(salt)*2654435761 + 12345
	for i := range b {
		x = x*1664525 + 1013904223
		b[i] = byte(x >> 24)
	}
	return b
}

func gzipBytes(p []byte) []byte {
	var buf bytes.Buffer
	zw := gzip.NewWriter(&buf)
	_, _ = zw.Write(p)
	_ = zw.Close()
	return buf.Bytes()
}

// Payload describes the backend's body without carrying megabytes in the case record.
type Payload struct {
	Len          int    `json:"len"`          // length of the body the backend sends (after its own encoding)
	Compressible bool   `json:"compressible"` // repeated text vs pseudo-random bytes
	Salt         byte   `json:"salt"`
	Encoding     string `json:"content_encoding,omitempty"` // "" | gzip | br : the backend's own Content-Encoding
	PlainLen     int    `json:"plain_len,omitempty"`        // Encoding gzip: length of the text the backend gzipped
	// SliceOf > 0: the body is the byte range [SliceOff, SliceOff+Len) of a representation of SliceOf bytes
	// (same kind and salt) - what a backend sends in a 206 answer to a Range request
	SliceOf  int `json:"slice_of,omitempty"`
	SliceOff int `json:"slice_off,omitempty"`
}

// Bytes returns the body exactly as the backend sends it.
func (p Payload) Bytes() []byte {
	if p.Encoding == "gzip" {
		return gzipBytes(makeBody(p.PlainLen, p.Compressible, p.Salt))
	}
	if p.SliceOf > 0 {
		return makeBody(p.SliceOf, p.Compressible, p.Salt)[p.SliceOff : p.SliceOff+p.Len]
	}
	// "br" bodies are opaque to everybody here: pseudo-random or text bytes labelled br
	return makeBody(p.Len, p.Compressible, p.Salt)
}

// ---------------------------------------------------------------------------------------------
// Stub terminal handler
// ---------------------------------------------------------------------------------------------

// Program is what the stub handler does for one request.
type Program struct {
	Status      int      `json:"status"`                 // 0 = the handler never calls WriteHeader (implicit 200)
	ContentType string   `json:"content_type,omitempty"` // "" = not set
	DeclareCL   bool     `json:"declare_cl,omitempty"`
	Extra       []lab.KV `json:"extra,omitempty"`
	Body        Payload  `json:"body"`
	Parts       []int    `json:"parts,omitempty"` // Write partition (sums to Body.Len); empty = one Write (none when Len == 0)
	// Flush schedule of the handler (http.Flusher, as a streaming handler or a reverse proxy relaying a
	// response of unknown length uses it). The statement does not mention flushing: whatever the handler
	// flushes, what the client decodes must be the handler's body.
	FlushBefore bool  `json:"flush_before,omitempty"` // Flush after the header was set / WriteHeader was called, before the first Write
	FlushAfter  []int `json:"flush_after,omitempty"`  // 0-based indices of the Writes of Parts that are directly followed by Flush
	// WriteSize > 0: the body is written in Writes of WriteSize bytes (the last one shorter) instead of Parts
	// - the copy loop of a relay (httputil.ReverseProxy copies through a 32 KiB buffer); every FlushEvery-th
	// Write is followed by Flush (0 = none).
	WriteSize  int `json:"write_size,omitempty"`
	FlushEvery int `json:"flush_every,omitempty"`
}

// writes returns the lengths of the handler's Writes for a body of n bytes.
func (p *Program) writes(n int) []int {
	if n == 0 {
		return nil
	}
	if p.WriteSize > 0 {
		out := make([]int, 0, n/p.WriteSize+1)
		for off := 0; off < n; off += p.WriteSize {
			out = append(out, min(p.WriteSize, n-off))
		}
		return out
	}
	if len(p.Parts) == 0 {
		return []int{n}
	}
	return p.Parts
}

// flushedAfter reports whether Write #i (0-based) is directly followed by Flush.
func (p *Program) flushedAfter(i int) bool {
	if p.WriteSize > 0 {
		return p.FlushEvery > 0 && (i+1)%p.FlushEvery == 0
	}
	for _, k := range p.FlushAfter {
		if k == i {
			return true
		}
	}
	return false
}

// flushPoints returns, for a body of n bytes, the number of body bytes written so far at each Flush.
func (p *Program) flushPoints(n int) []int {
	var out []int
	if p.FlushBefore {
		out = append(out, 0)
	}
	off := 0
	for i, w := range p.writes(n) {
		off += w
		if p.flushedAfter(i) {
			out = append(out, off)
		}
	}
	return out
}

type armed struct {
	p    *Program
	body []byte
	done chan struct{}
}

// Stub is the terminal handler behind the plugin chain.
type Stub struct {
	mu  sync.Mutex
	cur *armed
}

func (s *Stub) ServeHTTP(w http.ResponseWriter, r *http.Request) {
	s.mu.Lock()
	a := s.cur
	s.cur = nil
	s.mu.Unlock()
	if a == nil {
		http.Error(w, "stub: no program armed", 599)
		return
	}
	defer close(a.done)
	_, _ = io.Copy(io.Discard, r.Body)
	p := a.p
	if p.ContentType != "" {
		w.Header().Set("Content-Type", p.ContentType)
	}
	if p.Body.Encoding != "" {
		w.Header().Set("Content-Encoding", p.Body.Encoding)
	}
	for _, kv := range p.Extra {
		w.Header().Add(kv.K, kv.V)
	}
	if p.DeclareCL {
		w.Header().Set("Content-Length", strconv.Itoa(len(a.body)))
	}
	if p.Status != 0 {
		w.WriteHeader(p.Status)
	}
	flush := func() {
		// a wrapper that does not offer http.Flusher leaves the handler nothing to call
		if f, ok := w.(http.Flusher); ok {
			f.Flush()
		}
	}
	if p.FlushBefore {
		flush()
	}
	off := 0
	for i, n := range p.writes(len(a.body)) {
		_, _ = w.Write(a.body[off : off+n])
		off += n
		if p.flushedAfter(i) {
			flush()
		}
	}
}

// Client is a raw HTTP/1.1 client that keeps ONE connection per lab alive across exchanges (as real
// clients do) and closes it with an RST: tens of thousands of exchanges per run would otherwise leave as
// many TIME_WAIT sockets and exhaust the loopback port range of the machine. A connection is reused only
// after a response that was read completely and did not announce "Connection: close".
type Client struct {
	Addr string
	cc   *lab.ClientConn
}

func (c *Client) drop() {
	if c.cc != nil {
		if tc, ok := c.cc.C.(*net.TCPConn); ok {
			_ = tc.SetLinger(0)
		}
		c.cc.Close()
		c.cc = nil
	}
}

// Close closes the kept connection.
func (c *Client) Close() { c.drop() }

// Do performs one complete exchange. stale reports that the exchange failed on a REUSED connection before
// any response byte arrived: a server may close a kept-alive connection at any time (net/http does so
// silently after a handler wrote more than the declared Content-Length), so - like every real client - the
// caller re-runs such an exchange once on a fresh connection (re-arming the stub / backend script first).
func (c *Client) Do(r *lab.RawRequest, deadline time.Duration) (out *lab.RawResponse, err error, stale bool) {
	reused := c.cc != nil
	out, err = c.do(r, deadline)
	if err != nil && reused && out != nil && out.Status == 0 && !strings.HasPrefix(err.Error(), "harness:") {
		stale = true
	}
	return
}

func (c *Client) do(r *lab.RawRequest, deadline time.Duration) (*lab.RawResponse, error) {
	if c.cc == nil {
		cc, err := dialRetry(c.Addr)
		if err != nil {
			return nil, fmt.Errorf("harness: dial: %w", err)
		}
		c.cc = cc
	}
	cc := c.cc
	sendErr := make(chan error, 1)
	go func() { sendErr <- cc.Send(r) }()
	out, resp, err := cc.ReadHead(r.Method, deadline)
	if err != nil {
		c.drop()
		<-sendErr
		return out, err // out is non-nil: no response head could be read
	}
	cc.Finish(out, resp, nil, deadline)
	var serr error
	select {
	case serr = <-sendErr:
	case <-time.After(deadline):
		c.drop()
		return out, errors.New("harness: client: request upload did not finish")
	}
	if out.Close || out.BodyErr != "" || serr != nil {
		c.drop()
	}
	return out, nil
}

// resourceError recognises the OS running out of loopback ports / descriptors (a harness budget
// problem, never a property violation).
func resourceError(err error) bool {
	if err == nil {
		return false
	}
	m := err.Error()
	return strings.Contains(m, "address already in use") || strings.Contains(m, "cannot assign requested address") || strings.Contains(m, "too many open files")
}

func dialRetry(addr string) (cc *lab.ClientConn, err error) {
	for try := 0; try < 6; try++ {
		if cc, err = lab.Dial(addr); err == nil || !resourceError(err) {
			return
		}
		time.Sleep(time.Duration(200*(try+1)) * time.Millisecond)
	}
	return
}

// labRetry builds a lab, waiting for ports to become free when the OS has none left.
func labRetry(build func() (*lab.SocketLab, error)) (l *lab.SocketLab, err error) {
	for try := 0; try < 6; try++ {
		if l, err = build(); err == nil || !resourceError(err) {
			return
		}
		time.Sleep(time.Duration(500*(try+1)) * time.Millisecond)
	}
	return
}

// Inconclusive handles a harness-side failure of a rapid case: the run becomes inconclusive (exit 2) and
// the case is skipped - it is neither a pass nor a violation.
func Inconclusive(rt interface{ Skip(args ...any) }, sub, msg string) {
	lab.Problem("%s: %s", sub, msg)
	rt.Skip(msg)
}

// StubLab is a socket lab whose chain ends in the stub.
type StubLab struct {
	L    *lab.SocketLab
	Stub *Stub
	Cli  *Client
}

func NewStubLab(pc config.PluginsConfig) (*StubLab, error) {
	st := &Stub{}
	l, err := labRetry(func() (*lab.SocketLab, error) {
		return lab.NewSocketLab("round_robin", lab.SocketOpts{Backends: 0, Terminal: st, Mutate: func(cfg *config.Config) { cfg.Plugins = pc }})
	})
	if err != nil {
		return nil, err
	}
	return &StubLab{L: l, Stub: st, Cli: &Client{Addr: l.Addr}}, nil
}

func (s *StubLab) Close() {
	s.Cli.Close()
	_ = s.L.Server.Close()
	s.L.Close()
}

// Run performs one exchange; the handler has returned when Run returns.
func (s *StubLab) Run(req *lab.RawRequest, p *Program, body []byte, deadline time.Duration) (*lab.RawResponse, error) {
	out, err, stale := s.run(req, p, body, deadline)
	if stale {
		out, err, _ = s.run(req, p, body, deadline)
	}
	// the stub's own marker (599 "stub: no program armed") as the answer of THIS exchange means a stray request -
	// the late first attempt of an earlier exchange on a stale keep-alive connection - took the program armed for
	// it: a harness artefact; the exchange is played again, and the case is inconclusive if it keeps happening
	for try := 0; try < 3 && strayTookProgram(out); try++ {
		time.Sleep(time.Duration(20<<try) * time.Millisecond)
		out, err, _ = s.run(req, p, body, deadline)
	}
	if strayTookProgram(out) {
		return out, fmt.Errorf("harness: the stub had no program armed when the request of this exchange arrived (a stray request consumed it) - 4 attempts")
	}
	return out, err
}

func strayTookProgram(out *lab.RawResponse) bool {
	return out != nil && out.Status == 599 && strings.Contains(string(out.Body), "stub: no program armed")
}

func (s *StubLab) run(req *lab.RawRequest, p *Program, body []byte, deadline time.Duration) (*lab.RawResponse, error, bool) {
	a := &armed{p: p, body: body, done: make(chan struct{})}
	s.Stub.mu.Lock()
	s.Stub.cur = a
	s.Stub.mu.Unlock()
	out, err, stale := s.Cli.Do(req, deadline)
	s.Stub.mu.Lock()
	taken := s.Stub.cur != a
	s.Stub.cur = nil
	s.Stub.mu.Unlock()
	if taken {
		select {
		case <-a.done:
		case <-time.After(deadline):
			return out, fmt.Errorf("harness: stub handler did not return within %v (client error: %v)", deadline, err), false
		}
	}
	return out, err, stale
}

// ProxyLab is a socket lab with the real balancer and raw backends.
type ProxyLab struct {
	L   *lab.SocketLab
	Cli *Client
}

func NewProxyLab(pc config.PluginsConfig, backends int) (*ProxyLab, error) {
	l, err := labRetry(func() (*lab.SocketLab, error) {
		return lab.NewSocketLab("round_robin", lab.SocketOpts{Backends: backends, Mutate: func(cfg *config.Config) { cfg.Plugins = pc }})
	})
	if err != nil {
		return nil, err
	}
	return &ProxyLab{L: l, Cli: &Client{Addr: l.Addr}}, nil
}

func (p *ProxyLab) Close() {
	p.Cli.Close()
	_ = p.L.Server.Close() // see StubLab.Close
	// The backends close their connections BEFORE the balancer's transports do: the TIME_WAIT sockets then
	// sit on the accepting side (SO_REUSEADDR, harmless for later listeners) instead of blocking one
	// ephemeral port per lab for 60 s on the dialling side.
	for _, b := range p.L.Backends {
		b.Close()
	}
	p.L.Close()
}

// Run plays script on whichever backend is picked and returns what the raw client read.
func (p *ProxyLab) Run(req *lab.RawRequest, script *lab.RespScript, deadline time.Duration) (*lab.RawResponse, error) {
	out, err, stale := p.run(req, script, deadline)
	if stale {
		out, err, _ = p.run(req, script, deadline)
	}
	return out, err
}

func (p *ProxyLab) run(req *lab.RawRequest, script *lab.RespScript, deadline time.Duration) (*lab.RawResponse, error, bool) {
	id := p.L.NextCase()
	r := *req
	r.Header = append(append([]lab.KV{}, req.Header...), lab.KV{K: "X-Verif-Case", V: id})
	p.L.ExpectAll(id, script)
	defer p.L.ForgetAll(id)
	out, err, stale := p.Cli.Do(&r, deadline)
	return out, err, stale
}

// ---------------------------------------------------------------------------------------------
// Model: eligibility (independent re-statement of the documented contract)
// ---------------------------------------------------------------------------------------------

// listsGzip: some Accept-Encoding element names the coding gzip (case-insensitive) with a q-value
// other than 0. "*", "x-gzip", "gzipx", "gzip;q=0" do not list gzip.
func listsGzip(values []string) bool {
	for _, v := range values {
		for _, el := range strings.Split(v, ",") {
			name, params, _ := strings.Cut(el, ";")
			if !strings.EqualFold(strings.TrimSpace(name), "gzip") {
				continue
			}
			q := 1.0
			for _, prm := range strings.Split(params, ";") {
				k, val, ok := strings.Cut(prm, "=")
				if ok && strings.EqualFold(strings.TrimSpace(k), "q") {
					if f, err := strconv.ParseFloat(strings.TrimSpace(val), 64); err == nil {
						q = f
					}
				}
			}
			if q > 0 {
				return true
			}
		}
	}
	return false
}

// typeMatches: the content type starts with a configured prefix (compared case-insensitively).
func typeMatches(ct string, prefixes []string) bool {
	for _, p := range prefixes {
		if strings.HasPrefix(strings.ToLower(ct), strings.ToLower(p)) {
			return true
		}
	}
	return false
}

// Facts are the inputs of the oracle for one exchange, whatever the terminal.
type Facts struct {
	Cfg            GzipCfg
	AcceptEncoding []string // Accept-Encoding field values as sent
	Status         int      // backend's status (200 for an implicit WriteHeader)
	ContentType    string
	Encoding       string // backend's Content-Encoding
	DeclaredCL     bool   // backend declared Content-Length
	Body           []byte
	Bodiless       bool // 204 / 304: no body on the wire
}

// Conditions evaluates the five eligibility conditions of the statement.
func (f *Facts) Conditions() (listed, typeOK, bigEnough, underCap, notEncoded bool) {
	return listsGzip(f.AcceptEncoding), typeMatches(f.ContentType, f.Cfg.Types), len(f.Body) >= f.Cfg.MinSize, len(f.Body) <= bufferCap, f.Encoding == ""
}

// Failing counts the eligibility conditions that do not hold.
func (f *Facts) Failing() int {
	n := 0
	a, b, c, d, e := f.Conditions()
	for _, ok := range []bool{a, b, c, d, e} {
		if !ok {
			n++
		}
	}
	return n
}

// gunzipAll decodes a complete gzip body (one or more members, nothing else), as a client does.
func gunzipAll(b []byte) ([]byte, error) {
	zr, err := gzip.NewReader(bytes.NewReader(b))
	if err != nil {
		return nil, err
	}
	return io.ReadAll(zr)
}

// isGzipOf: b is a gzip stream (possibly cut short) that decodes to want (to a prefix of want when cut).
// It is the signature shared by the two open findings: "the client holds gzip(backend body)".
func isGzipOf(b, want []byte) bool {
	zr, err := gzip.NewReader(bytes.NewReader(b))
	if err != nil {
		return false
	}
	out, err := io.ReadAll(zr)
	if err == nil {
		return bytes.Equal(out, want)
	}
	return len(out) < len(want) && bytes.HasPrefix(want, out)
}

// gzipSignature is the exact symptom the two open findings share: the client holds gzip(backend body)
// under headers that do not say so. With a declared backend Content-Length the stale length frames the
// gzip stream instead: net/http's server rejects every Write that would overshoot it, so the client reads
// a cut (possibly empty) gzip stream and then EOF.
func gzipSignature(f *Facts, got *lab.RawResponse) bool {
	if isGzipOf(got.Body, f.Body) {
		return true
	}
	magic := len(got.Body) >= 3 && got.Body[0] == 0x1f && got.Body[1] == 0x8b && got.Body[2] == 8
	return f.DeclaredCL && got.DeclaredCL == int64(len(f.Body)) && (len(got.Body) == 0 || magic) && !bytes.Equal(got.Body, f.Body)
}

// CompressedFloors declares generator-health floors on responses Helios actually compressed, so that the
// only-if clauses cannot hold vacuously. They apply only once the finding that breaks every compressed
// response is no longer open (with it open no compressed response can pass RT at all).
func CompressedFloors(sub *lab.SubCheck, compressed, atMin float64) {
	if lab.Open(keyHeaderEarly) {
		return
	}
	sub.Floor("helios-compressed", compressed)
	sub.Floor("compressed@len=min", atMin)
}

// Verdict is the outcome of judging one exchange.
type Verdict struct {
	Viol       string
	Excluded   string
	Labels     []string
	Nontrivial bool
	Compressed bool
	Decoded    []byte // what the client decoded (set when it could decode the response at all)
}

func ceOf(h http.Header) string { return strings.Join(h.Values("Content-Encoding"), ", ") }

// Judge applies RT, OI and ID to what the raw client read.
func Judge(f *Facts, got *lab.RawResponse, err error) Verdict {
	v := Verdict{}
	listed, typeOK, bigEnough, underCap, notEncoded := f.Conditions()
	failing := f.Failing()
	v.Nontrivial = failing <= 1
	switch failing {
	case 0:
		v.Labels = append(v.Labels, "all-conditions-hold")
	case 1:
		v.Labels = append(v.Labels, "exactly-one-condition-fails")
	default:
		v.Labels = append(v.Labels, "several-conditions-fail")
	}
	for _, c := range []struct {
		ok   bool
		name string
	}{{listed, "not-listed"}, {typeOK, "type-mismatch"}, {bigEnough, "below-min-size"}, {underCap, "over-buffer-cap"}, {notEncoded, "already-encoded"}} {
		if !c.ok {
			v.Labels = append(v.Labels, c.name)
		}
	}
	switch d := len(f.Body) - f.Cfg.MinSize; {
	case f.Bodiless:
	case d == -1:
		v.Labels = append(v.Labels, "len=min-1")
	case d == 0:
		v.Labels = append(v.Labels, "len=min")
	case d == 1:
		v.Labels = append(v.Labels, "len=min+1")
	}
	fail := func(format string, args ...any) Verdict {
		msg := fmt.Sprintf(format, args...)
		// open findings: only their exact signature is excused, and only inside their region
		if got != nil && !f.Bodiless {
			switch {
			case failing == 0 && lab.Open(keyHeaderEarly) && ceOf(got.Header) == "" && gzipSignature(f, got):
				v.Excluded = keyHeaderEarly
				return v
			case !notEncoded && listed && typeOK && bigEnough && underCap && lab.Open(keyDouble) && gzipSignature(f, got):
				v.Excluded = keyDouble
				return v
			case !underCap && listed && lab.Open(keyTailDropped) && ceOf(got.Header) == "" && len(got.Body) >= bufferCap && len(got.Body) < len(f.Body) && bytes.Equal(got.Body[:bufferCap], f.Body[:bufferCap]):
				v.Excluded = keyTailDropped
				return v
			}
		}
		v.Viol = msg
		return v
	}
	if err != nil || got == nil {
		return fail("RT: the client could not read a response head: %v", err)
	}
	gotCE := ceOf(got.Header)
	if got.Status != f.Status {
		return fail("RT: backend status %d, client received %d", f.Status, got.Status)
	}
	if f.Bodiless {
		if len(got.Body) != 0 || got.BodyErr != "" {
			return fail("RT: bodiless %d response arrived with %d body bytes (%s)", f.Status, len(got.Body), got.BodyErr)
		}
		if f.Encoding == "" && strings.EqualFold(gotCE, "gzip") && failing > 0 {
			return fail("OI: bodiless %d response labelled Content-Encoding: gzip although a condition fails (listed=%v type=%v min_size=%v)", f.Status, listed, typeOK, bigEnough)
		}
		return v
	}
	if got.BodyErr != "" {
		return fail("RT: the response body cannot be read to its end according to the framing the client received (Content-Length %d, chunked %v): %s after %d bytes; Content-Encoding %q; backend body %d bytes",
			got.DeclaredCL, got.Chunked, got.BodyErr, len(got.Body), gotCE, len(f.Body))
	}
	if !notEncoded {
		// an encoded entity is opaque: it must arrive byte for byte under its own label
		if gotCE != f.Encoding {
			return fail("ID: backend sent Content-Encoding %q, client received Content-Encoding %q (%d body bytes at the backend, %d at the client)", f.Encoding, gotCE, len(f.Body), len(got.Body))
		}
		if !bytes.Equal(got.Body, f.Body) {
			return fail("ID: already encoded (%s) backend body of %d bytes reached the client as %d different bytes (first difference at %d)", f.Encoding, len(f.Body), len(got.Body), firstDiff(f.Body, got.Body))
		}
		if f.DeclaredCL && got.DeclaredCL != int64(len(f.Body)) {
			return fail("ID: backend declared Content-Length %d, client received %d", len(f.Body), got.DeclaredCL)
		}
		return v
	}
	var content []byte
	switch strings.ToLower(gotCE) {
	case "", "identity":
		content = got.Body
	case "gzip":
		v.Compressed = true
		v.Labels = append(v.Labels, "helios-compressed")
		if len(f.Body) == f.Cfg.MinSize {
			v.Labels = append(v.Labels, "compressed@len=min")
		}
		dec, derr := gunzipAll(got.Body)
		if derr != nil {
			what := ""
			if bytes.Equal(got.Body, f.Body) {
				what = " - they are the backend's body itself, unmodified, delivered under a gzip label"
				if !underCap {
					what += fmt.Sprintf(" (the body is %d bytes over the %d-byte buffering cap and must not be announced as compressed)", len(f.Body)-bufferCap, bufferCap)
				}
			}
			return fail("RT: client received Content-Encoding: gzip but the %d body bytes are not one complete gzip stream: %v%s", len(got.Body), derr, what)
		}
		content = dec
	default:
		return fail("RT: client received Content-Encoding %q which the backend never sent", gotCE)
	}
	v.Decoded = content
	if !bytes.Equal(content, f.Body) {
		return fail("RT: decoding what the client received (Content-Encoding %q, Content-Length %d, chunked %v, %d bytes on the wire) yields %d bytes that differ from the backend's %d-byte body at offset %d%s",
			gotCE, got.DeclaredCL, got.Chunked, len(got.Body), len(content), len(f.Body), firstDiff(content, f.Body), hint(got, f))
	}
	if v.Compressed {
		switch {
		case !listed:
			return fail("OI: response compressed although Accept-Encoding %q does not list gzip", f.AcceptEncoding)
		case !typeOK:
			return fail("OI: response compressed although Content-Type %q matches none of the configured prefixes %q", f.ContentType, f.Cfg.Types)
		case !bigEnough:
			return fail("OI: response of %d bytes compressed although min_size is %d", len(f.Body), f.Cfg.MinSize)
		case !underCap:
			return fail("OI: response of %d bytes compressed although the buffering cap is %d", len(f.Body), bufferCap)
		}
		if got.DeclaredCL >= 0 && got.DeclaredCL != int64(len(got.Body)) {
			return fail("RT: Content-Length %d does not describe the %d compressed bytes", got.DeclaredCL, len(got.Body))
		}
		return v
	}
	// ID
	if f.DeclaredCL && got.DeclaredCL != int64(len(f.Body)) {
		return fail("ID: uncompressed response: backend declared Content-Length %d, client received Content-Length %d (chunked %v)", len(f.Body), got.DeclaredCL, got.Chunked)
	}
	return v
}

// JudgeAborted judges what the client read of an exchange whose backend (or terminal handler) broke off
// after its response head and before the end of its body. The round trip of the statement cannot be
// demanded of it - the complete body never existed on the proxy's side - and a client that is SHOWN the
// break (the connection ends early: no terminating chunk, fewer bytes than the Content-Length it was
// given, a gzip stream without its end) knows that it does not hold the backend's body. What the statement
// excludes is the opposite: bytes that the client's HTTP parser reads to a proper END (the announced
// Content-Length delivered in full, or chunked up to and including the terminating chunk), under the
// backend's own status, that decode cleanly according to the Content-Encoding received - and are not the
// backend's body, because that body was never there. Returns "" when nothing can be objected.
//
//	status     the backend's (handler's) status
//	backendCE  the backend's own Content-Encoding ("" = none): such an entity is opaque and not decoded
//	sent       the body bytes the backend really sent before it broke off
//	what       how it broke off (for the message)
func JudgeAborted(status int, backendCE string, sent []byte, what string, got *lab.RawResponse, err error) string {
	if err != nil || got == nil || got.Status == 0 {
		return "" // no response head at all: visibly failed
	}
	if got.Status != status {
		return "" // the proxy's own answer (502, 413 ...), not the backend's response
	}
	if got.BodyErr != "" {
		return "" // the message ends early by its own framing: visibly incomplete
	}
	if !got.Chunked && got.DeclaredCL < 0 {
		return "" // delimited by the end of the connection: a break cannot be presented as an end mark
	}
	content, gotCE := got.Body, ceOf(got.Header)
	if backendCE == "" && strings.EqualFold(gotCE, "gzip") {
		dec, derr := gunzipAll(got.Body)
		if derr != nil {
			return "" // the gzip stream has no proper end: visibly incomplete to a decoding client
		}
		content = dec
	}
	framing := fmt.Sprintf("Content-Length %d delivered in full", got.DeclaredCL)
	if got.Chunked {
		framing = "chunked, terminating chunk included"
	}
	rel := "that are not even a prefix of what the backend sent"
	if bytes.Equal(content, sent) {
		rel = "= exactly the part the backend had sent before it broke off"
	} else if bytes.HasPrefix(sent, content) {
		rel = "= a prefix of the part the backend had sent"
	}
	return fmt.Sprintf("RT: the backend broke off mid-response (%s; %d body bytes sent), but the client received a COMPLETE, well-formed response with the backend's status %d (%s, Content-Encoding %q, %d bytes on the wire) that decodes cleanly to %d bytes %s - a truncated body is presented as the backend's body",
		what, len(sent), got.Status, framing, gotCE, len(got.Body), len(content), rel)
}

func hint(got *lab.RawResponse, f *Facts) string {
	if isGzipOf(got.Body, f.Body) {
		return " - the bytes on the wire are gzip(backend body) but the headers do not say so"
	}
	return ""
}

func firstDiff(a, b []byte) int {
	n := min(len(a), len(b))
	for i := 0; i < n; i++ {
		if a[i] != b[i] {
			return i
		}
	}
	return n
}
