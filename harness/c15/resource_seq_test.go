package c15

import (
	"bytes"
	"fmt"
	"strings"
	"testing"

	"github.com/0xReLogic/Helios/verifharness/lab"
	"pgregory.net/rapid"
)

// SEQUENCES of exchanges about the SAME resource through one gzip plugin instance. The statement says
// "always": every exchange must round-trip on its own, whatever went through the plugin before. What real
// traffic shares between exchanges is the host, the request URI and the validator (ETag / Last-Modified) of
// the representation - while status, Range, body and Accept-Encoding differ: the complete document (200)
// and parts of it (206 + Content-Range), a revalidation (304), an unsatisfiable range (416), an error page
// under the same URI, a new version of the document (with a new validator, or - backends that derive their
// validators from mtime/size, or that personalise without saying so - under the old one), the same
// document asked for by a client that does not accept gzip.

const seqSub = "same-resource-sequences-rapid"

// seqResource is one URI of the backend and its current representation.
type seqResource struct {
	Host, Target string
	ETag         string // "" = the backend sends none
	LastModified string // "" = the backend sends none
	ContentType  string
	Rep          Payload
	etagSerial   int
}

var seqHosts = []string{"helios.test", "helios.test", "helios.test", "assets.helios.test", "helios.test:8080", "HELIOS.test"}
var seqTargets = []string{"/", "/", "/doc.json", "/doc.json?v=1", "/doc.json?v=2", "/files/report.csv", "/files/a%20b.html", "/doc.json"}
var seqETags = []string{`"v1"`, `"v1"`, `"5f3e1a2b-1c00"`, `"33a64df551425fcc55e4d42a148795d9f25f89d4"`, `"v1"`}

func genSeqResource(t *rapid.T, g GzipCfg) *seqResource {
	r := &seqResource{Host: rapid.SampledFrom(seqHosts).Draw(t, "host"), Target: rapid.SampledFrom(seqTargets).Draw(t, "target")}
	switch rapid.IntRange(0, 7).Draw(t, "validator") {
	case 0, 1, 2, 7: // (the ends of the range are drawn more often)
		r.ETag = rapid.SampledFrom(seqETags).Draw(t, "etag")
	case 3:
		r.ETag = rapid.SampledFrom(seqETags).Draw(t, "etag")
		r.LastModified = "Mon, 02 Jan 2006 15:04:05 GMT"
	case 4:
		r.ETag = "W/" + rapid.SampledFrom(seqETags).Draw(t, "etag")
	case 5:
		r.LastModified = "Mon, 02 Jan 2006 15:04:05 GMT"
	}
	r.ContentType = genContentType(t, g.Types, rapid.IntRange(0, 9).Draw(t, "type-matches") != 5)
	m := max(g.MinSize, 1)
	r.Rep = Payload{Len: rapid.SampledFrom([]int{4*m + 17, 2*m + 2, m + 1000, 32768 + m, 65536 + m, 3 * m}).Draw(t, "rep-len"),
		Compressible: rapid.Bool().Draw(t, "compressible"), Salt: byte(rapid.IntRange(0, 255).Draw(t, "salt"))}
	return r
}

// genSeqExchange draws the next exchange about r: possibly the representation changes first, then one of
// the views of it is requested.
func genSeqExchange(t *rapid.T, ch Chain, terminal string, r *seqResource) (c Case, view string) {
	c = Case{Terminal: terminal, Chain: ch, Host: r.Host, Target: r.Target}
	m := max(ch.Gzip.MinSize, 1)
	if rapid.IntRange(0, 5).Draw(t, "changes") == 0 {
		// a new version of the document: other bytes, possibly another length; the validator follows or not
		r.Rep.Salt += byte(rapid.IntRange(1, 200).Draw(t, "new-salt"))
		if rapid.Bool().Draw(t, "new-len") {
			r.Rep.Len = rapid.SampledFrom([]int{r.Rep.Len + 1, 2*m + 1, m + 999, 32768 + m + 1}).Draw(t, "rep-len")
		}
		if r.ETag != "" && rapid.Bool().Draw(t, "validator-follows") {
			r.etagSerial++
			weak := strings.HasPrefix(r.ETag, "W/")
			r.ETag = fmt.Sprintf(`"v1-%d"`, r.etagSerial)
			if weak {
				r.ETag = "W/" + r.ETag
			}
		}
	}
	if rapid.IntRange(0, 6).Draw(t, "ae") == 3 {
		c.AcceptEncoding = rapid.SampledFrom(aeNotListed).Draw(t, "ae-not-listed")
	} else {
		c.AcceptEncoding = rapid.SampledFrom(aeListed).Draw(t, "ae-listed")
	}
	p := &c.Prog
	p.ContentType = r.ContentType
	L := r.Rep.Len
	sendValidators := true
	view = rapid.SampledFrom([]string{"full", "partial", "full", "partial", "not-modified", "unsatisfiable", "error", "partial", "full"}).Draw(t, "view")
	switch view {
	case "full":
		p.Status = 200
		if terminal == "stub" && rapid.IntRange(0, 2).Draw(t, "implicit") == 0 {
			p.Status = 0
		}
		p.Body = r.Rep
		if rapid.Bool().Draw(t, "accept-ranges") {
			p.Extra = append(p.Extra, lab.KV{K: "Accept-Ranges", V: "bytes"})
		}
	case "partial":
		k := rapid.SampledFrom([]int{m, L / 2, m + 1, L - 1, L, m - 1, 1, L / 2, m}).Draw(t, "range-len")
		k = min(max(k, 1), L)
		off, spec := 0, ""
		switch rapid.SampledFrom([]string{"prefix", "suffix", "middle", "prefix", "suffix"}).Draw(t, "range-at") {
		case "prefix":
			spec = fmt.Sprintf("bytes=0-%d", k-1)
		case "suffix":
			off = L - k
			spec = rapid.SampledFrom([]string{fmt.Sprintf("bytes=-%d", k), fmt.Sprintf("bytes=%d-", off), fmt.Sprintf("bytes=%d-%d", off, L-1)}).Draw(t, "range-spelling")
		default:
			off = rapid.IntRange(0, L-k).Draw(t, "range-off")
			spec = fmt.Sprintf("bytes=%d-%d", off, off+k-1)
		}
		p.Status = 206
		p.Body = Payload{Len: k, Compressible: r.Rep.Compressible, Salt: r.Rep.Salt, SliceOf: L, SliceOff: off}
		total := fmt.Sprint(L)
		if rapid.IntRange(0, 5).Draw(t, "total-unknown") == 0 {
			total = "*"
		}
		p.Extra = append(p.Extra, lab.KV{K: "Content-Range", V: fmt.Sprintf("bytes %d-%d/%s", off, off+k-1, total)})
		c.ReqHeader = append(c.ReqHeader, lab.KV{K: "Range", V: spec})
		if r.ETag != "" && rapid.IntRange(0, 3).Draw(t, "if-range") == 0 {
			c.ReqHeader = append(c.ReqHeader, lab.KV{K: "If-Range", V: r.ETag})
		}
	case "not-modified":
		p.Status = 304
		switch {
		case r.ETag != "":
			c.ReqHeader = append(c.ReqHeader, lab.KV{K: "If-None-Match", V: r.ETag})
		default:
			c.ReqHeader = append(c.ReqHeader, lab.KV{K: "If-Modified-Since", V: "Mon, 02 Jan 2006 15:04:05 GMT"})
		}
	case "unsatisfiable":
		p.Status = 416
		p.Body = Payload{Len: rapid.SampledFrom([]int{m, m + 200, 0, m + 1}).Draw(t, "error-len"), Compressible: true, Salt: r.Rep.Salt + 1}
		p.Extra = append(p.Extra, lab.KV{K: "Content-Range", V: fmt.Sprintf("bytes */%d", L)})
		c.ReqHeader = append(c.ReqHeader, lab.KV{K: "Range", V: fmt.Sprintf("bytes=%d-", L+10)})
		sendValidators = rapid.Bool().Draw(t, "error-keeps-validators")
	case "error":
		p.Status = rapid.SampledFrom([]int{404, 500, 503, 403, 410}).Draw(t, "error-status")
		p.Body = Payload{Len: rapid.SampledFrom([]int{m, m + 300, 4*m + 1, L}).Draw(t, "error-len"), Compressible: rapid.Bool().Draw(t, "error-compressible"), Salt: r.Rep.Salt + 2}
		sendValidators = rapid.Bool().Draw(t, "error-keeps-validators")
	}
	if sendValidators {
		if r.ETag != "" {
			p.Extra = append(p.Extra, lab.KV{K: "ETag", V: r.ETag})
		}
		if r.LastModified != "" {
			p.Extra = append(p.Extra, lab.KV{K: "Last-Modified", V: r.LastModified})
		}
	}
	if rapid.IntRange(0, 3).Draw(t, "more-fields") == 0 {
		p.Extra = append(p.Extra, genCompanionHeaders(t, 3, "ETag", "Last-Modified", "Content-Range", "Accept-Ranges")...)
	}
	n := p.Body.Len
	p.Parts = partition(t, n, 3, "resp")
	if terminal == "stub" {
		p.DeclareCL = !c.bodiless() && rapid.Bool().Draw(t, "declarecl")
		if rapid.IntRange(0, 3).Draw(t, "may-flush") == 0 {
			genFlushes(t, p)
		}
	} else {
		c.Framing = rapid.SampledFrom([]string{"cl", "cl", "chunked", "close", "cl", "cl"}).Draw(t, "framing")
		if c.bodiless() {
			c.Framing = "none"
		}
	}
	return c, view
}

// seqSeen is an earlier exchange of the lab.
type seqSeen struct {
	idx      int
	view     string
	status   int
	etag     string
	body     []byte
	eligible bool // all conditions of the statement held
}

func (s seqSeen) String() string {
	return fmt.Sprintf("exchange #%d (%s): status %d, ETag %q, backend body %d bytes", s.idx, s.view, s.status, s.etag, len(s.body))
}

func etagOf(extra []lab.KV) string {
	for _, kv := range extra {
		if strings.EqualFold(kv.K, "ETag") {
			return kv.V
		}
	}
	return ""
}

func TestC15SameResourceSequences(t *testing.T) {
	sub := lab.Sub(seqSub, "rapid, one lab = one gzip plugin instance (chain layout, level, YAML int/float and content_types drawn as in the other sub-checks, min_size from {0,1,64,1000,1024,4096}), stub terminal or real balancer with a byte-exact raw backend, one kept-alive raw client: "+
		"1-3 resources (Host from {helios.test, assets.helios.test, helios.test:8080, HELIOS.test}, request target from {/, /doc.json, /doc.json?v=1, ?v=2, /files/report.csv, /files/a%20b.html}; two resources may share host, target and validator), each with a representation (repeated text or pseudo-random bytes, 2*min_size+2 .. min_size+64 KiB, content type matching in 9 of 10) "+
		"and a validator: strong ETag (from a pool of 3 values, so that resources share them), strong ETag + Last-Modified, weak ETag, Last-Modified only, none; 2-8 (thorough 2-14) exchanges, each about a drawn resource (the first one in half of them): "+
		"the complete representation (200, on the stub also implicit WriteHeader), a byte range of it (206 + Content-Range, request Range [+ If-Range]: prefix / suffix / middle of length min_size, min_size+-1, half, all but one byte, all, 1; total length given or *), "+
		"a revalidation (304, If-None-Match / If-Modified-Since), an unsatisfiable range (416 + Content-Range: bytes */len, small body), an error page under the same URI (404/500/503/403/410, own body, with or without the validators); "+
		"before one exchange in six the representation changes (other bytes, possibly other length) and its ETag follows in half of these changes and stays in the other half; Accept-Encoding lists gzip in 6 of 7 exchanges; a quarter of the exchanges carry 1-3 further drawn response fields (headers.go); "+
		"oracle RT, OI, ID on EVERY exchange by itself (the backend's status and exactly the bytes the backend sent in THIS exchange); "+
		"non-trivial = an exchange whose host + request target was asked for earlier in the lab with a different status or body, and at most one eligibility condition fails")
	sub.NontrivialFloor(0.30)
	sub.Floor("revisit-with-different-response", 0.35)
	sub.Floor("same-strong-etag-different-body", 0.12)
	sub.Floor("after-full:partial", 0.04)
	sub.Floor("after-partial:full", 0.04)
	sub.Floor("after-partial:partial", 0.03)
	sub.Floor("view-full", 0.20)
	sub.Floor("view-partial", 0.20)
	sub.Floor("terminal-stub", 0.25)
	sub.Floor("terminal-balancer", 0.25)
	if !lab.Open(keyHeaderEarly) {
		sub.Floor("helios-compressed", 0.30)
		sub.Floor("same-strong-etag-different-body-both-compressible", 0.06)
	}
	lab.Check(t, sub, 1000, 16000, func(rt *rapid.T) {
		terminal := rapid.SampledFrom([]string{"stub", "balancer"}).Draw(rt, "terminal")
		ch := genChain(rt)
		ch.Gzip.MinSize = rapid.SampledFrom([]int{0, 1, 64, 1000, 1024, 4096}).Draw(rt, "seq-min_size")
		l, err := BuildLab(ch, terminal, sub)
		if resourceError(err) {
			Inconclusive(rt, seqSub, err.Error())
		}
		if err != nil {
			rt.Fatalf("the float-typed gzip configuration was refused: %v\n%s", err, ch.YAML("yaml-float"))
		}
		defer l.Close()
		res := make([]*seqResource, rapid.IntRange(1, 3).Draw(rt, "resources"))
		for i := range res {
			res[i] = genSeqResource(rt, ch.Gzip)
		}
		n := rapid.IntRange(2, lab.Scale(8, 14)).Draw(rt, "exchanges")
		hist := map[string][]seqSeen{}
		for i := 0; i < n; i++ {
			ri := 0
			if len(res) > 1 && rapid.Bool().Draw(rt, "other-resource") {
				ri = rapid.IntRange(0, len(res)-1).Draw(rt, "resource")
			}
			c, view := genSeqExchange(rt, ch, terminal, res[ri])
			body := c.Prog.Body.Bytes()
			if c.bodiless() {
				body = nil
			}
			f := c.Facts(body)
			cur := seqSeen{idx: i, view: view, status: f.Status, etag: etagOf(c.Prog.Extra), body: body, eligible: f.Failing() == 0 && !f.Bodiless}
			key := strings.ToLower(c.host()) + " " + c.target()
			labels := []string{"view-" + view}
			revisitDiff := false
			var related []seqSeen
			for _, prev := range hist[key] {
				if prev.status == cur.status && bytes.Equal(prev.body, cur.body) {
					continue
				}
				revisitDiff = true
				related = append(related, prev)
				if cur.etag != "" && prev.etag == cur.etag && !bytes.Equal(prev.body, cur.body) {
					kind := "weak"
					if cur.etag[0] == '"' {
						kind = "strong"
					}
					labels = appendOnce(labels, "same-"+kind+"-etag-different-body")
					if prev.eligible && cur.eligible {
						labels = appendOnce(labels, "same-"+kind+"-etag-different-body-both-compressible")
					}
				}
			}
			if h := hist[key]; len(h) > 0 {
				labels = append(labels, "revisit")
				if last := h[len(h)-1]; last.status != cur.status || !bytes.Equal(last.body, cur.body) {
					labels = append(labels, "after-"+last.view+":"+view)
				}
			}
			if revisitDiff {
				labels = append(labels, "revisit-with-different-response")
			}
			hist[key] = append(hist[key], cur)

			v := c.Run(l, ioDeadline)
			if strings.HasPrefix(v.Viol, "harness:") {
				Inconclusive(rt, seqSub, v.Viol)
			}
			if v.Excluded != "" {
				sub.Excluded(v.Excluded)
			}
			sub.Case(c, v.Nontrivial && revisitDiff, append(labels, v.Labels...)...)
			if v.Viol != "" {
				var sb, hist strings.Builder
				hint := ""
				for _, prev := range related {
					rel := ""
					if v.Decoded != nil && len(prev.body) > 0 && bytes.Equal(v.Decoded, prev.body) {
						rel = "  <== what the client decoded NOW is exactly the body of THAT exchange"
						hint = fmt.Sprintf(" - the client was given the body of the earlier exchange #%d (%s, status %d, ETag %q) of the same host + request target", prev.idx, prev.view, prev.status, prev.etag)
					}
					fmt.Fprintf(&hist, "\nearlier through the same plugin instance, same host + request target: %s%s", prev, rel)
				}
				fmt.Fprintf(&sb, "exchange #%d of a sequence through one gzip plugin instance (%s, status %d, %d body bytes, response fields %s): %s%s\n%s%s", i, view, cur.status, len(cur.body), describeKVs(c.Prog.Extra), v.Viol, hint, c.describe(), hist.String())
				rt.Fatalf("%s", sb.String())
			}
		}
		if l.Stub != nil {
			if p := l.Stub.L.PanicLines(); len(p) > 0 {
				rt.Fatalf("handler panicked: %v", p)
			}
		} else if p := l.Proxy.L.PanicLines(); len(p) > 0 {
			rt.Fatalf("handler panicked: %v", p)
		}
	})
}

func appendOnce(list []string, s string) []string {
	for _, x := range list {
		if x == s {
			return list
		}
	}
	return append(list, s)
}
