package c15

import (
	"strings"
	"testing"

	"github.com/0xReLogic/Helios/verifharness/lab"
	"pgregory.net/rapid"
)

// Bodies AROUND THE 10 MiB BUFFERING CAP in both tiers, crossed with the way the body reaches the gzip
// plugin: the statement quantifies over "body sizes around min_size and around the 10MB buffer cap", and a
// body of that size is in practice a STREAMED one - written in many pieces, flushed by the handler (a
// reverse proxy flushes after every write of a response whose length it does not know). The enumeration in
// cap_test.go (thorough only) fixes every other condition; here they are drawn.

const capRapidSub = "around-buffer-cap-rapid"

// (rapid draws the ends of a list more often than its middle: sizes above the cap sit at both ends)
var capSizes = []int{bufferCap + 1, 11 << 20, bufferCap + 2, bufferCap - 65536, bufferCap - 1, bufferCap, bufferCap + 1000, bufferCap + 1, bufferCap + 32768 + 1, 12 << 20}

var capWriteSizes = []int{4096, 32 << 10, 32 << 10, 64 << 10, 1<<20 - 1, 1 << 20, 5 << 20, bufferCap}

func genCapCase(t *rapid.T) Case {
	terminal := rapid.SampledFrom([]string{"stub", "stub", "balancer"}).Draw(t, "terminal")
	ch := genChain(t)
	// half of the cases at the fastest level: 10 MiB at level 9 costs most of a second
	if rapid.Bool().Draw(t, "fast-level") {
		ch.Gzip.Level = 1
	}
	c := Case{Terminal: terminal, Chain: ch}
	g := ch.Gzip
	okAE, okType, okEnc := true, true, true
	switch rapid.IntRange(0, 11).Draw(t, "break") { // (the ends of the range are drawn more often than its middle)
	case 4:
		okAE = false
	case 5:
		okType = false
	case 6:
		okEnc = false
	}
	if okAE {
		c.AcceptEncoding = rapid.SampledFrom(aeListed).Draw(t, "ae")
	} else {
		c.AcceptEncoding = rapid.SampledFrom(aeNotListed).Draw(t, "ae")
	}
	p := &c.Prog
	p.ContentType = genContentType(t, g.Types, okType)
	if terminal == "stub" {
		p.Status = rapid.SampledFrom([]int{0, 0, 200, 200, 201, 404, 500}).Draw(t, "status")
	} else {
		p.Status = rapid.SampledFrom([]int{200, 200, 201, 404, 500}).Draw(t, "status")
	}
	n := rapid.SampledFrom(capSizes).Draw(t, "size")
	p.Body = Payload{Len: n, Compressible: rapid.Bool().Draw(t, "compressible"), Salt: byte(rapid.IntRange(0, 255).Draw(t, "salt"))}
	if !okEnc {
		p.Body.Encoding = rapid.SampledFrom([]string{"br", "zstd", "deflate"}).Draw(t, "backend-ce") // opaque bytes under that label
	}
	if terminal == "balancer" {
		c.Framing = rapid.SampledFrom([]string{"cl", "chunked", "chunked", "close"}).Draw(t, "framing")
		p.Parts = partition(t, n, 4, "resp")
		return c
	}
	p.DeclareCL = rapid.Bool().Draw(t, "declarecl")
	switch rapid.IntRange(0, 3).Draw(t, "write-mode") {
	case 0: // a few writes of any sizes, any of them flushed
		p.Parts = partition(t, n, 4, "resp")
		genFlushes(t, p)
	case 1: // the first write ends just under / at / just over the cap
		first := bufferCap + rapid.IntRange(-1, 1).Draw(t, "first-write")
		if first < n {
			p.Parts = []int{first, n - first}
		} else {
			p.Parts = []int{n - 1, 1}
		}
		genFlushes(t, p)
	default: // a relay's copy loop
		p.WriteSize = rapid.SampledFrom(capWriteSizes).Draw(t, "write-size")
		p.FlushEvery = rapid.SampledFrom([]int{0, 1, 1, 1, 2, 3, 50}).Draw(t, "flush-every")
		p.FlushBefore = rapid.IntRange(0, 3).Draw(t, "flush-before") == 0
	}
	return c
}

func TestC15AroundCapRapid(t *testing.T) {
	sub := lab.Sub(capRapidSub, "rapid, both tiers: body length from {10 MiB - 64 KiB, 10 MiB - 1, 10 MiB, 10 MiB + 1, + 2, + 1000, + 32 KiB + 1, 11 MiB, 12 MiB} as repeated text or pseudo-random bytes; chain layout, level (half of the cases at level 1, the others -1..9), YAML int/float, min_size and content_types drawn as in the other sub-checks; "+
		"Accept-Encoding spelling, content type and backend Content-Encoding hold in 3 of 4 cases (then the cap alone decides), otherwise exactly one of them fails; stub terminal (2 of 3): implicit / explicit WriteHeader, declared Content-Length or not, the body written in <= 4 drawn writes, or with the first write ending at cap-1 / cap / cap+1, "+
		"or in a relay's copy loop of 4 KiB / 32 KiB / 64 KiB / 1 MiB - 1 / 1 MiB / 5 MiB / 10 MiB writes; the handler calls http.Flusher.Flush before the first write and / or after a drawn subset of its writes (copy loop: after every 1st / 2nd / 3rd / 50th write, or never); "+
		"real balancer (1 of 3): backend framing Content-Length / chunked / close-delimited in <= 4 writes (the reverse proxy flushes after every write of a response of unknown length); oracle RT, OI (nothing above 10 MiB may arrive compressed), ID; "+
		"non-trivial = all eligibility conditions hold or exactly one fails")
	sub.NontrivialFloor(0.5)
	sub.Floor("over-buffer-cap", 0.45)
	sub.Floor("all-conditions-hold", 0.08)
	sub.Floor("handler-flushes", 0.25)
	sub.Floor("flushed-under-cap-then-outgrew-cap", 0.10)
	sub.Floor("flushed-by-reverse-proxy", 0.10)
	if !lab.Open(keyHeaderEarly) {
		sub.Floor("helios-compressed", 0.05)
	}
	lab.Check(t, sub, 48, 960, func(rt *rapid.T) {
		c := genCapCase(rt)
		l, err := BuildLab(c.Chain, c.Terminal, sub)
		if resourceError(err) {
			Inconclusive(rt, capRapidSub, err.Error())
		}
		if err != nil {
			rt.Fatalf("the float-typed gzip configuration was refused: %v\n%s", err, c.Chain.YAML("yaml-float"))
		}
		defer l.Close()
		v := c.Run(l, capDeadline)
		if strings.HasPrefix(v.Viol, "harness:") {
			Inconclusive(rt, capRapidSub, v.Viol)
		}
		if v.Excluded != "" {
			sub.Excluded(v.Excluded)
		}
		sub.Case(c, v.Nontrivial, v.Labels...)
		if v.Viol != "" {
			rt.Fatalf("%s\n=> %s", c.describe(), v.Viol)
		}
		if l.Stub != nil {
			if p := l.Stub.L.PanicLines(); len(p) > 0 {
				rt.Fatalf("handler panicked: %v", p)
			}
		} else if p := l.Proxy.L.PanicLines(); len(p) > 0 {
			rt.Fatalf("handler panicked: %v", p)
		}
	})
}
