package c15

import (
	"fmt"
	"strings"
	"testing"

	"github.com/0xReLogic/Helios/verifharness/lab"
	"pgregory.net/rapid"
)

const genRule = "gzip at a drawn position among logging/headers (alone, outermost, wrapped), level -1..9 and min_size written as YAML int or YAML float and loaded through yaml.v3, content_types from the README list / 'text/' / single prefixes / empty list / empty prefix; " +
	"GET with Accept-Encoding from 27 spellings (absent, gzip, lists in both orders, irregular spacing, q-values incl. q=0, GZIP, *, x-gzip, gzipx, identity, empty, two header lines); backend Content-Type = prefix itself, with parameters, with a longer subtype, or a near miss (x-<prefix>, prefix inside a parameter, upper case, other types, absent); " +
	"min_size from {0,1,64,1000,1024,2048,4096,200000}; 1-6 (thorough 1-12) exchanges per lab on one kept-alive connection; body length min_size-1, min_size, min_size+1, 0, min_size/2, +1000, x4, +32 KiB, +100 KiB (+1 MiB in thorough) as repeated text or pseudo-random bytes in <=4 writes; statuses 200,201,206,404,500,204,304; backend Content-Encoding none/gzip (real gzip)/br; " +
	"about half of the backend responses carry further fields next to the body (headers.go): the fixed pair Cache-Control + Vary, or 1-4 drawn from Content-Disposition (attachment / inline / form-data x a pool of 40 file names - ASCII, ISO-8859-1, Latin Extended, Cyrillic, Greek, CJK, Arabic, Hebrew, Devanagari, emoji, path parts, quotes and separators, 300 characters - x spellings: quoted raw UTF-8, quoted ISO-8859-1 bytes, RFC 5987 filename*=UTF-8''.. / ISO-8859-1''.. / with language, ASCII fallback + filename* in both orders, token, empty, %00, unparsable), " +
	"ETag (strong values from a small pool so that exchanges of one lab share them under the one request target, weak, empty, unquoted), Last-Modified, Cache-Control (incl. no-transform), Vary, Expires, Age, Content-Language, Content-Location, Content-Range, Accept-Ranges, Link, Set-Cookie, digests, Location, Retry-After, WWW-Authenticate, Allow, security / CORS / server / timing fields, non-ASCII custom values, a 0.25-4 KiB value - none of them is a condition of the statement, so none may change the round trip; " +
	"the generator breaks 0 (40%), 1 (45%) or several (15%) eligibility conditions; oracle RT (round trip through the received framing and Content-Encoding), OI (compressed only if all conditions hold), ID (otherwise byte-identical incl. declared Content-Length); " +
	"non-trivial = all eligibility conditions hold or exactly one fails"

func addFloors(sub *lab.SubCheck) {
	sub.NontrivialFloor(0.50)
	sub.Floor("all-conditions-hold", 0.20)
	sub.Floor("exactly-one-condition-fails", 0.25)
	sub.Floor("not-listed", 0.10)
	sub.Floor("type-mismatch", 0.10)
	sub.Floor("below-min-size", 0.10)
	sub.Floor("already-encoded", 0.08)
	sub.Floor("len=min", 0.10)
	sub.Floor("len=min-1", 0.04)
	sub.Floor("len=min+1", 0.04)
	sub.Floor("gzip-alone", 0.15)
	sub.Floor("gzip-outermost", 0.10)
	sub.Floor("gzip-wrapped-by-others", 0.15)
	sub.Floor("yaml-int", 0.25)
	sub.Floor("compressible", 0.25)
	sub.Floor("incompressible", 0.25)
	sub.Floor("bodiless-status", 0.03)
	sub.Floor("companion-headers", 0.20)
	sub.Floor("content-disposition", 0.08)
	sub.Floor("filename-beyond-latin1", 0.015)
	CompressedFloors(sub, 0.15, 0.04)
	for lvl := -1; lvl <= 9; lvl++ {
		sub.Floor(fmt.Sprintf("level%d", lvl), 0.03)
	}
}

func runRapid(t *testing.T, sub *lab.SubCheck, name, terminal string, quick, thorough int) {
	lab.Check(t, sub, quick, thorough, func(rt *rapid.T) {
		ch := genChain(rt)
		l, err := BuildLab(ch, terminal, sub)
		if resourceError(err) {
			Inconclusive(rt, name, err.Error())
		}
		if err != nil {
			rt.Fatalf("the float-typed gzip configuration was refused: %v\n%s", err, ch.YAML("yaml-float"))
		}
		defer l.Close()
		n := rapid.IntRange(1, lab.Scale(6, 12)).Draw(rt, "exchanges")
		for i := 0; i < n; i++ {
			c := genExchange(rt, ch, terminal)
			v := c.Run(l, ioDeadline)
			if strings.HasPrefix(v.Viol, "harness:") {
				Inconclusive(rt, name, v.Viol)
			}
			if v.Excluded != "" {
				sub.Excluded(v.Excluded)
			}
			if c.Interim != 0 {
				v.Labels = append(v.Labels, "backend-interim-response")
			}
			sub.Case(c, v.Nontrivial, v.Labels...)
			if v.Viol != "" {
				rt.Fatalf("%s\n(backend interim response: %d)\n=> %s", c.describe(), c.Interim, v.Viol)
			}
		}
		sl := l.Stub
		if sl != nil {
			if p := sl.L.PanicLines(); len(p) > 0 {
				rt.Fatalf("handler panicked: %v", p)
			}
		} else if p := l.Proxy.L.PanicLines(); len(p) > 0 {
			rt.Fatalf("handler panicked: %v", p)
		}
	})
}

func TestC15StubRapid(t *testing.T) {
	sub := lab.Sub("stub-terminal-rapid", "rapid, chain -> stub terminal handler (exact control of Header().Set / explicit or implicit WriteHeader / Write partition / declared Content-Length / http.Flusher.Flush calls: none in half of the exchanges, otherwise a drawn non-empty subset of {before the first Write, after Write #i}) behind a real http.Server, raw TCP client without auto-decoding: "+genRule)
	addFloors(sub)
	sub.Floor("implicit-writeheader", 0.20)
	sub.Floor("explicit-writeheader", 0.30)
	sub.Floor("declared-content-length", 0.25)
	sub.Floor("handler-flushes", 0.30)
	sub.Floor("handler-never-flushes", 0.30)
	lab.Assume("L2: the plugin chain is built by plugins.BuildChain from YAML-loaded configuration and served by a real http.Server on loopback as cmd/helios/server.go composes it; the client is a raw TCP client that decodes nothing by itself. Accept-Encoding 'lists gzip' = some element names the coding gzip (case-insensitive) with q != 0; content types are matched case-insensitively by prefix; both readings are the permissive ones, so OI fires only on responses no reading allows to be compressed. A YAML-int gzip configuration refused by BuildChain is the C18 matter (counted as gzip-int-config-rejected, the case runs with the float text).")
	runRapid(t, sub, "stub-terminal-rapid", "stub", 8000, 60000)
}

func TestC15ProxyRapid(t *testing.T) {
	sub := lab.Sub("real-balancer-rapid", "rapid, chain -> REAL balancer -> raw scripted TCP backend playing a byte-exact response (Content-Length / chunked / close-delimited framing, drawn write partition, in one exchange of six preceded by an interim 100 / 102 / 103 response), raw TCP client without auto-decoding: "+genRule+
		"; one exchange in eight (with a body) the backend BREAKS OFF after its response head: Content-Length announcing 100 bytes more than it sends (all / all but one / half / none of the body) and close, reset before the first body byte under Content-Length / chunked / close-delimited framing, or chunked with the chunks of a prefix and close without the terminating chunk; "+
		"such an exchange must not reach the client as a response complete by its own framing, with the backend's status, that decodes cleanly (a visibly broken response or the proxy's own error answer is fine)")
	addFloors(sub)
	sub.Floor("no-content-length", 0.25)
	sub.Floor("declared-content-length", 0.25)
	sub.Floor("backend-interim-response", 0.08)
	sub.Floor("backend-aborted-mid-response", 0.06)
	sub.Floor("abort-visible-to-client", 0.04)
	runRapid(t, sub, "real-balancer-rapid", "balancer", 5000, 30000)
}
