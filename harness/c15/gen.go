package c15

import (
	"fmt"
	"strings"
	"time"

	"github.com/0xReLogic/Helios/verifharness/lab"
	"pgregory.net/rapid"
)

// Case is one exchange of the C15 check (stub or real-balancer terminal).
type Case struct {
	Terminal       string   `json:"terminal"` // stub | balancer
	Chain          Chain    `json:"chain"`
	AcceptEncoding []string `json:"accept_encoding"` // field values, one per header line; nil = header absent
	Prog           Program  `json:"backend"`
	Framing        string   `json:"framing,omitempty"` // balancer only: cl | chunked | close | none
	// Interim (balancer only): the backend sends this interim response (100, 102 or 103) before its final one; 0 = none
	Interim int `json:"interim,omitempty"`
	// Abort (balancer only): the backend breaks off after its response head, before the end of its body
	// ("" = it does not): cl-short | cl-reset | chunked-reset | close-reset | chunked-cut (see abortScript)
	Abort string `json:"abort,omitempty"`
	// AbortSent: chunked-cut / cl-short: number of body bytes the backend sends before it breaks off
	AbortSent int `json:"abort_sent,omitempty"`
	// The request: Host ("" = helios.test), request target ("" = /) and further request fields (Range,
	// If-None-Match ...). The scripted backend answers what the case says whatever the request asks for.
	Host      string   `json:"host,omitempty"`
	Target    string   `json:"target,omitempty"`
	ReqHeader []lab.KV `json:"request_header,omitempty"`
}

var abortKinds = []string{"cl-short", "cl-short", "cl-reset", "chunked-reset", "close-reset", "chunked-cut", "chunked-cut"}

// abortScript renders the backend side of an aborted balancer exchange and returns the body bytes the
// backend really sends and a description of the break.
//
//	cl-short       Content-Length announces 100 bytes more than the backend sends (AbortSent bytes, in the drawn writes), then it closes
//	cl-reset       Content-Length: n, then the connection is reset before any body byte
//	chunked-reset  Transfer-Encoding: chunked, reset before the first chunk
//	close-reset    Connection: close (body delimited by the end of the connection), reset before any body byte
//	chunked-cut    Transfer-Encoding: chunked, the chunks of the first AbortSent bytes (one chunk per drawn write), then
//	               the backend closes the connection without the terminating chunk
func (c *Case) abortScript(body []byte) (s *lab.RespScript, sent []byte, what string) {
	s = c.Script(body)
	s.Interim, s.InterimCode = false, 0
	switch c.Abort {
	case "cl-short":
		sent = body[:c.AbortSent]
		s.Framing, s.Body, s.BodyLen, s.Parts, s.Fault = "cl", sent, len(sent), cutParts(c.Prog.Parts, len(sent)), "short-body"
		what = fmt.Sprintf("Content-Length %d announced, connection closed after %d body bytes", len(sent)+100, len(sent))
	case "cl-reset":
		s.Framing, s.Parts, s.Fault = "cl", nil, "reset-after-headers"
		what = fmt.Sprintf("Content-Length %d announced, connection reset before the first body byte", len(body))
	case "chunked-reset":
		s.Framing, s.Parts, s.Fault = "chunked", nil, "reset-after-headers"
		what = "chunked, connection reset before the first chunk"
	case "close-reset":
		s.Framing, s.Parts, s.Fault = "close", nil, "reset-after-headers"
		what = "close-delimited, connection reset before the first body byte"
	case "chunked-cut":
		sent = body[:c.AbortSent]
		var wire []byte
		off := 0
		for _, n := range cutParts(c.Prog.Parts, len(sent)) {
			wire = append(wire, fmt.Sprintf("%x\r\n", n)...)
			wire = append(wire, sent[off:off+n]...)
			wire = append(wire, "\r\n"...)
			off += n
		}
		// byte-exact: the framing header is written by hand, the body is the chunk-encoded prefix, and the
		// backend closes the connection where the next chunk (or the terminating one) would start
		s.Header = append(s.Header, lab.KV{K: "Transfer-Encoding", V: "chunked"})
		s.Framing, s.Body, s.BodyLen, s.Parts, s.Fault = "none", wire, len(wire), nil, "short-body"
		what = fmt.Sprintf("chunked, connection closed after the chunks of the first %d body bytes, no terminating chunk", len(sent))
	}
	return
}

// cutParts cuts a write partition down to its first n bytes.
func cutParts(parts []int, n int) []int {
	var out []int
	for _, p := range parts {
		if n <= 0 {
			break
		}
		if p > n {
			p = n
		}
		out = append(out, p)
		n -= p
	}
	if n > 0 {
		out = append(out, n)
	}
	return out
}

func (c *Case) describe() string {
	if c.Abort != "" {
		_, _, what := c.abortScript(c.Prog.Body.Bytes())
		return fmt.Sprintf("terminal=%s chain before=%v [gzip level=%d min_size=%d content_types=%q (%s)] after=%v\n%s\nbackend: status=%d Content-Type=%q Content-Encoding=%q further response fields: %s; body of %d bytes (compressible=%v, writes %v) that BREAKS OFF: %s",
			c.Terminal, c.Chain.Before, c.Chain.Gzip.Level, c.Chain.Gzip.MinSize, c.Chain.Gzip.Types, c.Chain.Gzip.Style, c.Chain.After, c.describeRequest(),
			c.Prog.Status, c.Prog.ContentType, c.Prog.Body.Encoding, describeKVs(c.Prog.Extra), c.Prog.Body.Len, c.Prog.Body.Compressible, c.Prog.Parts, what)
	}
	return fmt.Sprintf("terminal=%s chain before=%v [gzip level=%d min_size=%d content_types=%q (%s)] after=%v\n%s\nbackend: status=%d (0 = implicit WriteHeader) Content-Type=%q Content-Encoding=%q further response fields: %s; declares Content-Length=%v framing=%s body=%d bytes%s (compressible=%v) in writes %s%s",
		c.Terminal, c.Chain.Before, c.Chain.Gzip.Level, c.Chain.Gzip.MinSize, c.Chain.Gzip.Types, c.Chain.Gzip.Style, c.Chain.After, c.describeRequest(),
		c.Prog.Status, c.Prog.ContentType, c.Prog.Body.Encoding, describeKVs(c.Prog.Extra), c.declaresCL(), c.Framing, c.Prog.Body.Len, c.describeSlice(), c.Prog.Body.Compressible, c.describeWrites(), c.describeFlushes())
}

func (c *Case) describeSlice() string {
	if b := c.Prog.Body; b.SliceOf > 0 {
		return fmt.Sprintf(" = bytes %d-%d of a representation of %d bytes", b.SliceOff, b.SliceOff+b.Len-1, b.SliceOf)
	}
	return ""
}

func (c *Case) describeWrites() string {
	if c.Prog.WriteSize > 0 {
		return fmt.Sprintf("of %d bytes each (%d writes)", c.Prog.WriteSize, len(c.Prog.writes(c.Prog.Body.Len)))
	}
	return fmt.Sprint(c.Prog.Parts)
}

// describeFlushes says when the response is flushed on its way into the gzip plugin.
func (c *Case) describeFlushes() string {
	if c.Terminal != "stub" {
		if !c.bodiless() && (c.Framing == "chunked" || c.Framing == "close") {
			return "; length unknown to the reverse proxy, which therefore flushes after every write of its copy loop"
		}
		return ""
	}
	fp := c.Prog.flushPoints(c.Prog.Body.Len)
	switch {
	case len(fp) == 0:
		return "; the handler never calls Flush"
	case len(fp) <= 8:
		return fmt.Sprintf("; the handler calls Flush when it has written %v body bytes", fp)
	default:
		return fmt.Sprintf("; the handler calls Flush %d times: when it has written %v ... %v body bytes", len(fp), fp[:4], fp[len(fp)-2:])
	}
}

// flushLabels classifies the flush schedule of the exchange as the gzip plugin sees it.
func (c *Case) flushLabels() []string {
	if c.Terminal != "stub" {
		if !c.bodiless() && (c.Framing == "chunked" || c.Framing == "close") {
			return []string{"flushed-by-reverse-proxy"}
		}
		return nil
	}
	n := c.Prog.Body.Len
	fp := c.Prog.flushPoints(n)
	if len(fp) == 0 {
		return []string{"handler-never-flushes"}
	}
	labels := []string{"handler-flushes"}
	var before, mid, atMin, outgrew bool
	for _, at := range fp {
		before = before || at == 0
		mid = mid || (at > 0 && at < n)
		// a flush at a moment when the part written so far would by itself be long enough to compress,
		// while more of the body is still to come
		if at >= max(c.Chain.Gzip.MinSize, 1) && at < n {
			atMin = true
			outgrew = outgrew || (at <= bufferCap && n > bufferCap)
		}
	}
	if before {
		labels = append(labels, "flush-before-first-write")
	}
	if mid {
		labels = append(labels, "flush-mid-body")
	}
	if atMin {
		labels = append(labels, "flush-at>=min_size-then-more-body")
	}
	if outgrew {
		labels = append(labels, "flushed-under-cap-then-outgrew-cap")
	}
	return labels
}

func (c *Case) declaresCL() bool {
	if c.Terminal == "balancer" {
		return c.Framing == "cl"
	}
	return c.Prog.DeclareCL
}

func (c *Case) bodiless() bool { return c.Prog.Status == 204 || c.Prog.Status == 304 }

func (c *Case) host() string {
	if c.Host == "" {
		return "helios.test"
	}
	return c.Host
}

func (c *Case) target() string {
	if c.Target == "" {
		return "/"
	}
	return c.Target
}

// describeRequest renders the request line and the fields that vary.
func (c *Case) describeRequest() string {
	s := fmt.Sprintf("request GET %s Host=%s Accept-Encoding=%q", c.target(), c.host(), c.AcceptEncoding)
	if len(c.ReqHeader) > 0 {
		s += " " + describeKVs(c.ReqHeader)
	}
	return s
}

func (c *Case) request() *lab.RawRequest {
	r := &lab.RawRequest{Method: "GET", Target: c.target(), Framing: "none", Header: []lab.KV{{K: "Host", V: c.host()}, {K: "Accept", V: "*/*"}}}
	for _, v := range c.AcceptEncoding {
		r.Header = append(r.Header, lab.KV{K: "Accept-Encoding", V: v})
	}
	r.Header = append(r.Header, c.ReqHeader...)
	return r
}

// Facts derives the oracle's inputs; body is the backend's body as sent.
func (c *Case) Facts(body []byte) *Facts {
	f := &Facts{Cfg: c.Chain.Gzip, AcceptEncoding: c.AcceptEncoding, Status: c.Prog.Status, ContentType: c.Prog.ContentType,
		Encoding: c.Prog.Body.Encoding, DeclaredCL: c.declaresCL(), Body: body, Bodiless: c.bodiless()}
	if f.Status == 0 {
		f.Status = 200
	}
	if f.Bodiless {
		f.Body = nil
	}
	return f
}

// Script renders the backend side of a balancer case.
func (c *Case) Script(body []byte) *lab.RespScript {
	s := &lab.RespScript{Status: c.Prog.Status, Framing: c.Framing, Body: body, BodyLen: len(body), Parts: c.Prog.Parts, BarrierAfter: -1}
	s.Interim, s.InterimCode = c.Interim != 0, c.Interim
	if c.Prog.ContentType != "" {
		s.Header = append(s.Header, lab.KV{K: "Content-Type", V: c.Prog.ContentType})
	}
	if c.Prog.Body.Encoding != "" {
		s.Header = append(s.Header, lab.KV{K: "Content-Encoding", V: c.Prog.Body.Encoding})
	}
	s.Header = append(s.Header, c.Prog.Extra...)
	if c.bodiless() {
		s.Framing, s.Body, s.BodyLen, s.Parts = "none", nil, 0, nil
	}
	return s
}

// Labs is the pair of terminals of one chain.
type Labs struct {
	Stub  *StubLab
	Proxy *ProxyLab
}

func (l *Labs) Close() {
	if l.Stub != nil {
		l.Stub.Close()
	}
	if l.Proxy != nil {
		l.Proxy.Close()
	}
}

// BuildLab builds the lab for the case's chain and terminal. The numbers are written in the case's style;
// when the int-typed text is refused by plugins.BuildChain while the float-typed text of the SAME
// configuration is accepted, this is the C18 matter "gzip factory only accepts float64": the case is run
// with the float text instead and counted (never a C15 violation).
func BuildLab(ch Chain, terminal string, sub *lab.SubCheck) (*Labs, error) {
	build := func(style string) (*Labs, error) {
		pc, err := ch.Plugins(style)
		if err != nil {
			return nil, fmt.Errorf("harness: yaml: %v", err)
		}
		if terminal == "stub" {
			s, err := NewStubLab(pc)
			return &Labs{Stub: s}, err
		}
		p, err := NewProxyLab(pc, 1)
		return &Labs{Proxy: p}, err
	}
	l, err := build(ch.Gzip.Style)
	if err != nil && !resourceError(err) && ch.Gzip.Style == "yaml-int" {
		if l2, err2 := build("yaml-float"); err2 == nil {
			sub.Count("gzip-int-config-rejected", 1)
			return l2, nil
		}
	}
	return l, err
}

// Run performs the exchange of c on its lab and judges it.
func (c *Case) Run(l *Labs, deadline time.Duration) Verdict {
	body := c.Prog.Body.Bytes()
	var got *lab.RawResponse
	var err error
	if c.Terminal == "stub" {
		p := c.Prog
		b := body
		if c.bodiless() {
			b = nil
		}
		got, err = l.Stub.Run(c.request(), &p, b, deadline)
	} else if c.Abort != "" {
		script, sent, what := c.abortScript(body)
		got, err = l.Proxy.Run(c.request(), script, deadline)
		if err != nil && strings.HasPrefix(err.Error(), "harness:") {
			return Verdict{Viol: err.Error()}
		}
		f := c.Facts(body)
		v := Verdict{Nontrivial: f.Failing() <= 1, Labels: []string{"backend-aborted-mid-response", "abort-" + c.Abort}}
		if got != nil && got.Status == f.Status && got.BodyErr != "" {
			v.Labels = append(v.Labels, "abort-visible-to-client")
		}
		v.Viol = JudgeAborted(f.Status, c.Prog.Body.Encoding, sent, what, got, err)
		return v
	} else {
		got, err = l.Proxy.Run(c.request(), c.Script(body), deadline)
	}
	if err != nil && strings.HasPrefix(err.Error(), "harness:") {
		return Verdict{Viol: err.Error()}
	}
	v := Judge(c.Facts(body), got, err)
	v.Labels = append(v.Labels, "terminal-"+c.Terminal, c.Chain.Gzip.Style, fmt.Sprintf("level%d", c.Chain.Gzip.Level))
	switch {
	case len(c.Chain.Before) == 0 && len(c.Chain.After) == 0:
		v.Labels = append(v.Labels, "gzip-alone")
	case len(c.Chain.Before) == 0:
		v.Labels = append(v.Labels, "gzip-outermost")
	default:
		v.Labels = append(v.Labels, "gzip-wrapped-by-others")
	}
	if c.Prog.Status == 0 {
		v.Labels = append(v.Labels, "implicit-writeheader")
	} else {
		v.Labels = append(v.Labels, "explicit-writeheader")
	}
	if c.bodiless() {
		v.Labels = append(v.Labels, "bodiless-status")
	}
	if c.declaresCL() {
		v.Labels = append(v.Labels, "declared-content-length")
	} else {
		v.Labels = append(v.Labels, "no-content-length")
	}
	if c.Prog.Body.Compressible {
		v.Labels = append(v.Labels, "compressible")
	} else {
		v.Labels = append(v.Labels, "incompressible")
	}
	if len(c.Prog.Parts) >= 2 || (c.Prog.WriteSize > 0 && c.Prog.WriteSize < c.Prog.Body.Len) {
		v.Labels = append(v.Labels, "writes>=2")
	}
	v.Labels = append(v.Labels, c.flushLabels()...)
	v.Labels = append(v.Labels, companionLabels(c.Prog.Extra)...)
	return v
}

// ---------------------------------------------------------------------------------------------
// Generators
// ---------------------------------------------------------------------------------------------

var aeListed = [][]string{
	{"gzip"}, {"gzip"}, {"gzip"}, {"gzip"}, {"gzip, br"}, {"br, gzip"}, {"gzip,deflate"}, {"deflate ,  gzip"}, {"gzip, deflate, br, zstd"},
	{"br;q=1, gzip;q=0.5"}, {"GZIP"}, {"gzip;q=1.0"}, {"gzip", "identity"}, {"br", "gzip"},
}

var aeNotListed = [][]string{
	nil, nil, {"identity"}, {"br"}, {"*"}, {"x-gzip"}, {"gzipx"}, {"gzip;q=0"}, {"gzip; q=0.0"}, {"deflate, br"}, {""}, {"gzip;q=0, *"}, {"notgzip, br"},
}

var typeLists = [][]string{
	{"text/html", "text/css", "application/json", "application/javascript"}, // README example
	{"text/"},
	{"application/json"},
	{"text/html"},
}

func genTypes(t *rapid.T) []string {
	switch k := rapid.IntRange(0, 19).Draw(t, "typelist"); {
	case k == 0:
		return nil // nothing is ever compressed
	case k == 1:
		return []string{""} // the empty prefix matches everything
	default:
		return typeLists[k%len(typeLists)]
	}
}

func genContentType(t *rapid.T, prefixes []string, match bool) string {
	if match && len(prefixes) > 0 {
		p := rapid.SampledFrom(prefixes).Draw(t, "prefix")
		suffix := rapid.SampledFrom([]string{"", "", "; charset=utf-8", "x", ";q"}).Draw(t, "ctsuffix")
		if strings.HasSuffix(p, "/") {
			suffix = rapid.SampledFrom([]string{"plain", "html; charset=utf-8", "x-unknown"}).Draw(t, "ctsub")
		}
		if p == "" {
			return rapid.SampledFrom([]string{"", "image/png", "text/html"}).Draw(t, "ctany")
		}
		return p + suffix
	}
	near := []string{"", "image/png", "application/octet-stream", "video/mp4", "application/xml"}
	for _, p := range prefixes {
		if p != "" {
			near = append(near, "x-"+p, "multipart/mixed; boundary="+p, "application/x-"+strings.ReplaceAll(p, "/", "-"), strings.ToUpper(p))
		}
	}
	return rapid.SampledFrom(near).Draw(t, "ctnear")
}

func partition(t *rapid.T, n, k int, label string) []int {
	if n == 0 {
		return nil
	}
	parts := rapid.IntRange(1, k).Draw(t, label+"-parts")
	if parts > n {
		parts = n
	}
	out := make([]int, 0, parts)
	rest := n
	for i := 0; i < parts-1; i++ {
		maxHere := rest - (parts - 1 - i)
		c := rapid.IntRange(1, maxHere).Draw(t, label+"-cut")
		out = append(out, c)
		rest -= c
	}
	return append(out, rest)
}

// genFlushes draws the handler's flush schedule for the Writes of p.Parts: none (half of the exchanges),
// or any subset of {before the first Write, after Write #i}.
func genFlushes(t *rapid.T, p *Program) {
	if rapid.Bool().Draw(t, "flushes") {
		return
	}
	mask := rapid.IntRange(1, 1<<(len(p.Parts)+1)-1).Draw(t, "flushmask")
	p.FlushBefore = mask&1 != 0
	for i := range p.Parts {
		if mask&(2<<i) != 0 {
			p.FlushAfter = append(p.FlushAfter, i)
		}
	}
}

func genChainLayout(t *rapid.T) (before, after []string) {
	var comp []string
	switch rapid.IntRange(0, 5).Draw(t, "companions") {
	case 2:
		comp = []string{"logging"}
	case 3:
		comp = []string{"headers"}
	case 4:
		comp = []string{"logging", "headers"}
	case 5:
		comp = []string{"headers", "logging"}
	}
	pos := rapid.IntRange(0, len(comp)).Draw(t, "position")
	return append([]string{}, comp[:pos]...), append([]string{}, comp[pos:]...)
}

var minSizes = []int{0, 1, 64, 1000, 1024, 2048, 4096, 200000}

// genChain draws the lab-level part of a case: layout and gzip configuration.
func genChain(t *rapid.T) Chain {
	var ch Chain
	ch.Before, ch.After = genChainLayout(t)
	g := &ch.Gzip
	g.Types = genTypes(t)
	g.Level = int(rapid.Uint32().Draw(t, "level")%11) - 1 // uniform over -1..9 (rapid's IntRange favours the bounds)
	g.Style = rapid.SampledFrom([]string{"yaml-float", "yaml-int"}).Draw(t, "style")
	g.MinSize = rapid.SampledFrom(minSizes).Draw(t, "min_size")
	return ch
}

// genExchange draws one exchange for a chain, biased so that all eligibility conditions hold or exactly
// one fails: it breaks 0 (40%), 1 (45%) or several (15%) of {Accept-Encoding, content type, size, not encoded}.
func genExchange(t *rapid.T, ch Chain, terminal string) Case {
	c := Case{Terminal: terminal, Chain: ch}
	g := ch.Gzip
	okAE, okType, okSize, okEnc := true, true, true, true
	flags := []*bool{&okAE, &okType, &okSize, &okEnc}
	k := 0
	switch w := rapid.IntRange(0, 19).Draw(t, "breaks"); {
	case w < 8:
	case w < 17:
		k = 1
	default:
		k = rapid.IntRange(2, 4).Draw(t, "nbreak")
	}
	for i := 0; i < k; i++ {
		*flags[rapid.IntRange(0, 3).Draw(t, "break")] = false
	}
	if okAE {
		c.AcceptEncoding = rapid.SampledFrom(aeListed).Draw(t, "ae")
	} else {
		c.AcceptEncoding = rapid.SampledFrom(aeNotListed).Draw(t, "ae")
	}
	p := &c.Prog
	p.ContentType = genContentType(t, g.Types, okType)
	switch s := rapid.IntRange(0, 11).Draw(t, "status"); {
	case s < 4 && terminal == "stub":
		p.Status = 0
	case s < 7:
		p.Status = 200
	default:
		// every status a backend can put on the wire (three digits): the registered ones with a body, the two
		// bodiless ones, and unregistered codes up to 999 (net/http relays them; the statement says "with the
		// backend's status" without naming a range)
		p.Status = rapid.SampledFrom([]int{201, 206, 404, 500, 204, 304, 201, 206, 404, 500, 204, 304,
			202, 203, 226, 300, 301, 302, 307, 308, 400, 401, 403, 410, 418, 429, 451, 501, 502, 503, 504, 511,
			299, 499, 599, 600, 700, 999}).Draw(t, "status-other")
	}
	// body length relative to min_size
	m := g.MinSize
	var n int
	big := 100 << 10
	if lab.Thorough() && rapid.IntRange(0, 3).Draw(t, "1MiB") == 0 {
		big = 1 << 20
	}
	if okSize || m == 0 {
		n = rapid.SampledFrom([]int{m, m, m, m + 1, m + 1, m + 1000, 4*m + 17, 32768 + m, big + m}).Draw(t, "size")
	} else {
		n = rapid.SampledFrom([]int{m - 1, m - 1, m - 1, 0, m / 2}).Draw(t, "size")
	}
	p.Body.Compressible = rapid.Bool().Draw(t, "compressible")
	p.Body.Salt = byte(rapid.IntRange(0, 255).Draw(t, "salt"))
	if !okEnc {
		// any content coding makes the entity "already encoded": the registered ones, rarer ones, lists, odd case
		p.Body.Encoding = rapid.SampledFrom([]string{"br", "gzip", "br", "gzip", "deflate", "zstd", "aes128gcm", "dcb", "exi", "pack200-gzip", "bzip2", "x-custom-coding", "BR", "deflate, br"}).Draw(t, "backend-ce")
	}
	if c.bodiless() {
		n = 0
		p.Body.Encoding = ""
	}
	if p.Body.Encoding == "gzip" {
		p.Body.PlainLen = n
		n = len(gzipBytes(makeBody(n, p.Body.Compressible, p.Body.Salt)))
	}
	p.Body.Len = n
	p.Parts = partition(t, n, 4, "resp")
	if terminal == "stub" {
		p.DeclareCL = !c.bodiless() && rapid.Bool().Draw(t, "declarecl")
		genFlushes(t, p)
	} else {
		c.Framing = rapid.SampledFrom([]string{"cl", "cl", "chunked", "close"}).Draw(t, "framing")
		if rapid.IntRange(0, 5).Draw(t, "interim") == 0 {
			c.Interim = rapid.SampledFrom([]int{103, 103, 100, 102}).Draw(t, "interim_code")
		}
		if c.bodiless() {
			c.Framing = "none"
		}
		// one exchange in eight with a body: the backend dies after its response head, before the end of its body
		if !c.bodiless() && n > 0 && rapid.IntRange(0, 7).Draw(t, "backend-dies") == 7 {
			c.Abort = rapid.SampledFrom(abortKinds).Draw(t, "abort")
			c.Interim = 0
			switch c.Abort {
			case "cl-short":
				c.Framing, c.AbortSent = "cl", rapid.SampledFrom([]int{n, n, n - 1, n / 2, 0}).Draw(t, "abort-sent")
			case "chunked-cut":
				c.Framing, c.AbortSent = "chunked", rapid.SampledFrom([]int{n, n, n - 1, n / 2, 1}).Draw(t, "abort-sent")
			case "cl-reset":
				c.Framing = "cl"
			case "chunked-reset":
				c.Framing = "chunked"
			case "close-reset":
				c.Framing = "close"
			}
		}
	}
	// the other fields of the backend's response (see headers.go): none in about half of the exchanges
	switch rapid.IntRange(0, 7).Draw(t, "extra") {
	case 4:
		p.Extra = []lab.KV{{K: "Cache-Control", V: "no-store"}, {K: "Vary", V: "Accept-Encoding"}}
	case 5, 6, 7:
		p.Extra = genCompanionHeaders(t, 4)
	}
	return c
}
