package c15

import (
	"strings"
	"testing"

	"github.com/0xReLogic/Helios/verifharness/lab"
)

const gridSub = "levels-x-chain-positions-grid"

type layout struct{ before, after []string }

func allLayouts() []layout {
	ls := []layout{{nil, nil}, {[]string{"logging"}, nil}, {nil, []string{"logging"}}, {[]string{"headers"}, nil}, {nil, []string{"headers"}}}
	for _, perm := range [][]string{{"logging", "headers"}, {"headers", "logging"}} {
		for pos := 0; pos <= 2; pos++ {
			ls = append(ls, layout{append([]string{}, perm[:pos]...), append([]string{}, perm[pos:]...)})
		}
	}
	return ls
}

// gridCases enumerates the exchanges run against one (level, layout, style) lab.
func gridCases(ch Chain) []Case {
	var out []Case
	for _, ae := range [][]string{{"gzip"}, nil} {
		for _, status := range []int{0, 200} {
			for _, compressible := range []bool{true, false} {
				for _, n := range []int{ch.Gzip.MinSize - 1, ch.Gzip.MinSize, ch.Gzip.MinSize + 1} {
					for _, declare := range []bool{false, true} {
						c := Case{Terminal: "stub", Chain: ch, AcceptEncoding: ae}
						c.Prog = Program{Status: status, ContentType: "text/html; charset=utf-8", DeclareCL: declare,
							Body: Payload{Len: n, Compressible: compressible, Salt: byte(n)}, Parts: []int{n}}
						out = append(out, c)
					}
				}
			}
		}
	}
	return out
}

func TestC15LevelsAndPositions(t *testing.T) {
	sub := lab.Sub(gridSub, "complete enumeration: every compression level -1..9 x every position of gzip in every chain built from logging/headers (alone, 4 two-plugin chains, 6 three-plugin chains = 11 layouts) x numbers written as YAML int / YAML float "+
		"x Accept-Encoding {gzip, absent} x {implicit, explicit WriteHeader(200)} x {compressible, incompressible} x body length {min_size-1, min_size, min_size+1} (min_size 64) x declared Content-Length yes/no; text/html through the stub terminal over a real connection; "+
		"oracle RT, OI, ID; non-trivial = all eligibility conditions hold or exactly one fails (all but 'Accept-Encoding absent and length min_size-1'); exhaustive for this finite grid (shards split it by lab)")
	sub.NontrivialFloor(0.8)
	sub.Floor("all-conditions-hold", 0.30)
	sub.Floor("len=min", 0.30)
	CompressedFloors(sub, 0.25, 0.08)
	var rc Case
	if lab.ReplayCase(gridSub, &rc) {
		l, err := BuildLab(rc.Chain, "stub", sub)
		if err != nil {
			t.Fatal(err)
		}
		defer l.Close()
		if v := rc.Run(l, ioDeadline); v.Viol != "" {
			lab.Violation(t, gridSub, rc, "%s\n=> %s", rc.describe(), v.Viol)
		}
		return
	}
	if lab.Replaying() {
		t.Skip("replay of another sub-check")
	}
	type labKey struct {
		level int
		lay   layout
		style string
	}
	var keys []labKey
	for level := -1; level <= 9; level++ {
		for _, lay := range allLayouts() {
			for _, style := range []string{"yaml-float", "yaml-int"} {
				keys = append(keys, labKey{level, lay, style})
			}
		}
	}
	for i := lab.Shard(); i < len(keys); i += lab.Shards() {
		k := keys[i]
		ch := Chain{Before: k.lay.before, After: k.lay.after, Gzip: GzipCfg{Level: k.level, MinSize: 64, Types: []string{"text/html"}, Style: k.style}}
		l, err := BuildLab(ch, "stub", sub)
		if resourceError(err) {
			lab.Problem("%s: %v", gridSub, err)
		}
		if err != nil {
			t.Fatalf("the float-typed gzip configuration was refused: %v\n%s", err, ch.YAML("yaml-float"))
		}
		for _, c := range gridCases(ch) {
			v := c.Run(l, ioDeadline)
			if strings.HasPrefix(v.Viol, "harness:") {
				lab.Problem("%s: %s", gridSub, v.Viol)
				t.Fatalf("inconclusive: %s", v.Viol)
			}
			if v.Excluded != "" {
				sub.Excluded(v.Excluded)
			}
			sub.Case(c, v.Nontrivial, v.Labels...)
			if v.Viol != "" {
				l.Close()
				lab.Violation(t, gridSub, c, "%s\n=> %s", c.describe(), v.Viol)
			}
		}
		l.Close()
	}
	sub.Exhaustive()
}
