package c15

import (
	"strings"
	"testing"
	"time"

	"github.com/0xReLogic/Helios/verifharness/lab"
)

const capSub = "buffer-cap-10MiB"

const capDeadline = 60 * time.Second // budget for a 12 MiB loopback exchange that normally takes < 1 s

// capParts returns the write partitions used for a body of n bytes: k equal writes for k = 1..4, and the
// partitions whose first write ends exactly at / one byte before / one byte after the cap.
func capParts(n int) [][]int {
	var out [][]int
	for k := 1; k <= 4; k++ {
		p := make([]int, k)
		rest := n
		for i := 0; i < k-1; i++ {
			p[i] = n / k
			rest -= p[i]
		}
		p[k-1] = rest
		out = append(out, p)
	}
	for _, first := range []int{bufferCap - 1, bufferCap, bufferCap + 1} {
		if first < n {
			out = append(out, []int{first, n - first})
			if n-first >= 2 {
				out = append(out, []int{first, 1, n - first - 1})
			}
		}
	}
	return out
}

func capCases() []Case {
	var out []Case
	i := 0
	for _, n := range []int{bufferCap - 1, bufferCap, bufferCap + 1, 12 << 20} {
		for _, parts := range capParts(n) {
			for _, compressible := range []bool{true, false} {
				for _, terminal := range []string{"stub", "balancer"} {
					i++
					c := Case{Terminal: terminal, AcceptEncoding: []string{"gzip"}}
					// levels and styles rotate through the grid (level 1 and -1 are the fast ones for 10 MiB)
					c.Chain.Gzip = GzipCfg{Level: []int{1, -1, 1, 0}[i%4], MinSize: 1024, Types: []string{"text/"}, Style: []string{"yaml-float", "yaml-int"}[i%2]}
					if i%3 == 0 {
						c.Chain.Before = []string{"logging"}
					}
					c.Prog = Program{Status: []int{0, 200, 201, 500}[(i/2)%4], ContentType: "text/plain", DeclareCL: i%4 < 2,
						Body: Payload{Len: n, Compressible: compressible, Salt: byte(i)}, Parts: parts}
					if terminal == "balancer" {
						c.Prog.Status = []int{200, 201, 404}[(i/2)%3]
						c.Framing = []string{"cl", "chunked", "close"}[i%3]
					}
					out = append(out, c)
					if terminal == "stub" {
						// the same exchange with every Write followed by Flush (and, in every other one, a Flush before the first Write)
						f := c
						f.Prog.FlushBefore = i%4 < 2
						for k := range parts {
							f.Prog.FlushAfter = append(f.Prog.FlushAfter, k)
						}
						out = append(out, f)
					}
				}
			}
		}
	}
	return out
}

// TestC15BufferCap runs only in the thorough tier (no 10 MiB bodies in quick).
func TestC15BufferCap(t *testing.T) {
	var rc Case
	replay := lab.ReplayCase(capSub, &rc)
	if !replay && (lab.Replaying() || !lab.Thorough()) {
		t.Skip("thorough tier only")
	}
	sub := lab.Sub(capSub, "enumeration around the 10 MiB buffering cap: body length {10 MiB - 1, 10 MiB, 10 MiB + 1, 12 MiB} x write partitions {1, 2, 3, 4 equal writes; first write ending at cap-1 / cap / cap+1, followed by the rest or by 1 byte + the rest} "+
		"x {compressible text, incompressible bytes} x terminal {stub whose handler never flushes / flushes after every write, real balancer with Content-Length / chunked / close-delimited backend framing}; levels 1, -1, 0, YAML int/float, implicit/explicit WriteHeader, statuses 200/201/404/500, declared Content-Length and logging-wrapped chains rotate through the grid; "+
		"all other eligibility conditions hold (Accept-Encoding: gzip, text/plain vs prefix text/, min_size 1024), so the cap is the only deciding condition; oracle RT, OI (nothing above 10 MiB may be compressed), ID; every case is non-trivial")
	sub.NontrivialFloor(0.9)
	sub.Floor("over-buffer-cap", 0.30)
	sub.Floor("all-conditions-hold", 0.30)
	if !lab.Open(keyHeaderEarly) {
		sub.Floor("helios-compressed", 0.25)
	}
	run := func(c Case) {
		l, err := BuildLab(c.Chain, c.Terminal, sub)
		if resourceError(err) {
			lab.Problem("%s: %v", capSub, err)
		}
		if err != nil {
			t.Fatalf("the float-typed gzip configuration was refused: %v", err)
		}
		defer l.Close()
		v := c.Run(l, capDeadline)
		if strings.HasPrefix(v.Viol, "harness:") {
			lab.Problem("%s: %s", capSub, v.Viol)
			t.Fatalf("inconclusive: %s", v.Viol)
		}
		if v.Excluded != "" {
			sub.Excluded(v.Excluded)
		}
		if !replay {
			sub.Case(c, v.Nontrivial, v.Labels...)
		}
		if v.Viol != "" {
			lab.Violation(t, capSub, c, "%s\n=> %s", c.describe(), v.Viol)
		}
	}
	if replay {
		run(rc)
		return
	}
	cases := capCases()
	for i := lab.Shard(); i < len(cases); i += lab.Shards() {
		run(cases[i])
	}
	// not marked exhaustive: levels, styles, statuses and framings rotate through the grid instead of being crossed
}
