package c15

import (
	"fmt"
	"testing"

	"github.com/0xReLogic/Helios/verifharness/lab"
)

// TestC15KnownFindings re-runs the fixed reproduction of every finding of C15. While an entry is open and
// its reproduction still fails the KNOWN-FINDING line is printed; once an entry is no longer open the
// reproduction is a plain regression case (a failure is a violation).
func TestC15KnownFindings(t *testing.T) {
	if lab.Replaying() || lab.Shard() != 0 {
		t.Skip()
	}
	scratch := lab.Sub("known-finding-reproductions", "fixed reproductions of the findings listed for C15 in known_findings.json (one exchange each, stub and balancer terminals); not part of the search")
	run := func(c Case) (Verdict, *lab.RawResponse) {
		l, err := BuildLab(c.Chain, c.Terminal, scratch)
		if err != nil {
			lab.Problem("known-finding-reproductions: %v", err)
			t.Fatalf("inconclusive: %v", err)
		}
		defer l.Close()
		v := c.Run(l, capDeadline)
		// observe the raw outcome once more for the message
		body := c.Prog.Body.Bytes()
		var got *lab.RawResponse
		if c.Terminal == "stub" {
			p := c.Prog
			got, _ = l.Stub.Run(c.request(), &p, body, capDeadline)
		} else {
			got, _ = l.Proxy.Run(c.request(), c.Script(body), capDeadline)
		}
		scratch.Case(c, true, "reproduction")
		return v, got
	}
	report := func(key string, c Case, v Verdict, what string) {
		if v.Viol == "" && v.Excluded == "" {
			return // the reproduction passes: fixed in the tree
		}
		if lab.Open(key) {
			lab.KnownFinding(key, what)
			return
		}
		lab.Violation(t, "known-finding-regression", c, "%s: %s\n%s\n=> %s", key, what, c.describe(), v.Viol)
	}
	show := func(r *lab.RawResponse) string {
		if r == nil {
			return "no response"
		}
		return fmt.Sprintf("status %d, Content-Encoding %q, Content-Length %d, chunked %v, %d body bytes %s", r.Status, ceOf(r.Header), r.DeclaredCL, r.Chunked, len(r.Body), r.BodyErr)
	}
	gz := GzipCfg{Level: 6, MinSize: 0, Types: []string{"text/html"}, Style: "yaml-float"}

	// gzip-header-sent-before-content-encoding
	{
		c := Case{Terminal: "stub", Chain: Chain{Gzip: gz}, AcceptEncoding: []string{"gzip"},
			Prog: Program{ContentType: "text/html", Body: Payload{Len: 1000, Compressible: true, Salt: 1}, Parts: []int{1000}}}
		v, got := run(c)
		c2 := c
		c2.Prog.DeclareCL = true
		v2, got2 := run(c2)
		c3 := Case{Terminal: "balancer", Chain: Chain{Gzip: gz}, AcceptEncoding: []string{"gzip"}, Framing: "cl",
			Prog: Program{Status: 200, ContentType: "text/html", Body: Payload{Len: 1000, Compressible: true, Salt: 1}, Parts: []int{1000}}}
		v3, got3 := run(c3)
		if v.Viol != "" || v.Excluded != "" {
			report(keyHeaderEarly, c, v, "chain [gzip level=6 min_size=0 content_types=[text/html]], 'Accept-Encoding: gzip', handler sets Content-Type text/html and writes 1000 bytes of text: client receives "+show(got)+
				" - a gzip stream without Content-Encoding; with a declared Content-Length: "+show(got2)+"; through the real balancer (backend Content-Length 1000): "+show(got3))
		} else {
			report(keyHeaderEarly, c2, v2, "declared Content-Length variant: "+show(got2))
			report(keyHeaderEarly, c3, v3, "real balancer variant: "+show(got3))
		}
	}

	// already-encoded-response-recompressed
	{
		c := Case{Terminal: "stub", Chain: Chain{Gzip: gz}, AcceptEncoding: []string{"gzip"},
			Prog: Program{Status: 200, ContentType: "text/html", Body: Payload{Len: 300, Compressible: false, Salt: 2, Encoding: "br"}, Parts: []int{300}}}
		v, got := run(c)
		report(keyDouble, c, v, "chain [gzip level=6 min_size=0 content_types=[text/html]], 'Accept-Encoding: gzip', backend sends Content-Type text/html, 'Content-Encoding: br' and 300 opaque bytes: client receives "+show(got)+" - the already encoded body was gzipped again")
	}

	// body-after-buffer-overflow-dropped (one 12 MiB exchange, ~0.1 s)
	{
		n := 12 << 20
		c := Case{Terminal: "stub", Chain: Chain{Gzip: GzipCfg{Level: 1, MinSize: 1024, Types: []string{"text/"}, Style: "yaml-float"}}, AcceptEncoding: []string{"gzip"},
			Prog: Program{Status: 200, ContentType: "text/plain", Body: Payload{Len: n, Compressible: true, Salt: 3}, Parts: []int{bufferCap + 1, 1, n - bufferCap - 2}}}
		v, got := run(c)
		report(keyTailDropped, c, v, fmt.Sprintf("chain [gzip level=1 min_size=1024 content_types=[text/]], 'Accept-Encoding: gzip', handler writes %d + 1 + %d bytes of text/plain (12 MiB, above the 10 MiB cap): client receives %s - the writes after the overflow were buffered again and never sent", bufferCap+1, n-bufferCap-2, show(got)))
	}
}
