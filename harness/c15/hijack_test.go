package c15

import (
	"bytes"
	"compress/gzip"
	"fmt"
	"io"
	"net/http"
	"testing"
	"time"

	"github.com/0xReLogic/Helios/internal/config"
	"github.com/0xReLogic/Helios/verifharness/lab"
	"pgregory.net/rapid"
)

// Upgraded (hijacked) exchanges interleaved with ordinary ones through the same gzip chain: state
// that the plugin keeps per response (buffers, flags) must not leak from a hijacked exchange into
// the next response, whatever is recycled internally.
func TestC15AfterHijackedExchange(t *testing.T) {
	sub := lab.Sub("round-trip-after-hijacked-exchange", "rapid: gzip alone or wrapped by logging/size_limit, level/min_size drawn; 5-40 exchanges mixing Upgrade requests (the terminal handler hijacks, answers 101 and closes; client sent Accept-Encoding: gzip), "+
		"ABORTED exchanges (the handler is producing a body of size+tail bytes, tail in {1,100,4096}: it writes the head - with or without that Content-Length declared - and the first size bytes in 1..3 writes, then panics with http.ErrAbortHandler as the reverse proxy does when a backend dies mid-body) "+
		"and ordinary responses (status 200/404/500, text/plain, 0-5000 bytes, 1-3 writes, explicit or implicit WriteHeader; every exchange has its own body text); oracle: every ordinary response decodes (per received Content-Encoding/framing) to exactly the handler's body with its status; an aborted exchange must not reach the client as a response that is complete by its own framing (Content-Length delivered in full / terminating chunk present), carries the handler's status and decodes cleanly - a visibly broken one (connection closed early, gzip stream without end) is fine; "+
		"non-trivial = an ordinary compressible response directly after a hijacked or aborted exchange")
	sub.Floor("after-aborted-exchange", 0.5)
	sub.Floor("after-hijacked-exchange", 0.5)
	sub.Floor("aborted-exchange-judged", 0.6)
	lab.Check(t, sub, 150, 4000, func(rt *rapid.T) {
		chain := rapid.SampledFrom([][]string{{"gzip"}, {"logging", "gzip"}, {"gzip", "logging"}, {"size_limit", "gzip"}}).Draw(rt, "chain")
		level := rapid.IntRange(-1, 9).Draw(rt, "level")
		minSize := rapid.SampledFrom([]int{0, 1, 64, 1000}).Draw(rt, "min")
		n := rapid.IntRange(5, 40).Draw(rt, "n")
		type plan struct {
			hijack   bool
			abort    bool
			declare  bool
			tail     int // abort: number of body bytes the handler still had to write when it broke off
			status   int
			size     int
			writes   int
			explicit bool
		}
		plans := make([]plan, n)
		for i := range plans {
			kind := rapid.IntRange(0, 5).Draw(rt, "kind")
			plans[i] = plan{hijack: kind == 0, abort: kind == 1, declare: rapid.Bool().Draw(rt, "declare"), status: rapid.SampledFrom([]int{200, 200, 404, 500}).Draw(rt, "status"),
				size: rapid.SampledFrom([]int{0, 1, 63, 64, 700, 5000}).Draw(rt, "size"), writes: rapid.IntRange(1, 3).Draw(rt, "writes"), explicit: rapid.Bool().Draw(rt, "explicit"),
				tail: rapid.SampledFrom([]int{1, 100, 4096}).Draw(rt, "tail")}
		}
		type job struct {
			plan
			idx int
		}
		cur := make(chan job, 1)
		terminal := http.HandlerFunc(func(w http.ResponseWriter, r *http.Request) {
			p := <-cur
			if p.hijack {
				hj, ok := w.(http.Hijacker)
				if !ok {
					http.Error(w, "no hijacker", 500)
					return
				}
				c, brw, err := hj.Hijack()
				if err != nil {
					return
				}
				_, _ = brw.WriteString("HTTP/1.1 101 Switching Protocols\r\nUpgrade: verif\r\nConnection: Upgrade\r\n\r\n")
				_ = brw.Flush()
				_ = c.Close()
				return
			}
			w.Header().Set("Content-Type", "text/plain")
			body := bodyOfExchange(p.size, p.idx)
			if p.abort {
				// the handler is producing a body of size+tail bytes (announced as Content-Length or not): head,
				// the first size bytes in 1..3 writes, then the abort
				if p.declare {
					w.Header().Set("Content-Length", fmt.Sprint(len(body)+p.tail))
				}
				w.WriteHeader(p.status)
				per := (len(body) + p.writes - 1) / p.writes
				for off := 0; off < len(body); off += per {
					_, _ = w.Write(body[off:min(off+per, len(body))])
				}
				panic(http.ErrAbortHandler)
			}
			if p.explicit {
				w.WriteHeader(p.status)
			}
			per := (len(body) + p.writes - 1) / p.writes
			for off := 0; off < len(body); off += per {
				end := off + per
				if end > len(body) {
					end = len(body)
				}
				_, _ = w.Write(body[off:end])
			}
		})
		l, err := lab.NewSocketLab("round_robin", lab.SocketOpts{Terminal: terminal, Mutate: func(cfg *config.Config) {
			cfg.Plugins.Enabled = true
			for _, name := range chain {
				pc := config.PluginConfig{Name: name}
				if name == "gzip" {
					pc.Config = map[string]interface{}{"level": level, "min_size": minSize, "content_types": []interface{}{"text/"}}
				}
				cfg.Plugins.Chain = append(cfg.Plugins.Chain, pc)
			}
		}})
		if err != nil {
			rt.Fatalf("harness: %v", err)
		}
		defer l.Close()
		afterHijack, afterAbort, nt := false, false, false
		sawHijack, sawAbort, sawAbortJudged := false, false, false
		var viol string
		for i, p := range plans {
			cur <- job{p, i}
			hdr := []lab.KV{{K: "Host", V: "h"}, {K: "Accept-Encoding", V: "gzip"}}
			if p.hijack {
				hdr = append(hdr, lab.KV{K: "Connection", V: "Upgrade"}, lab.KV{K: "Upgrade", V: "verif"})
				cc, err := lab.Dial(l.Addr)
				if err != nil {
					rt.Fatalf("harness: %v", err)
				}
				_ = cc.Send(&lab.RawRequest{Method: "GET", Target: "/up", Framing: "none", Header: hdr})
				_ = cc.C.SetReadDeadline(time.Now().Add(5 * time.Second))
				_, _ = io.ReadAll(cc.BR)
				cc.Close()
				afterHijack = true
				continue
			}
			if p.abort {
				// The complete body never existed, so no round trip can be demanded; but the client must not be
				// handed a complete, cleanly decoding response under the handler's status (JudgeAborted)
				out, err := lab.Do(l.Addr, &lab.RawRequest{Method: "GET", Target: "/a", Framing: "none", Header: hdr}, 10*time.Second)
				sawAbortJudged = true
				what := fmt.Sprintf("handler wrote the head and %d of %d body bytes (Content-Length declared: %v), then panicked with http.ErrAbortHandler", p.size, p.size+p.tail, p.declare)
				if v := JudgeAborted(p.status, "", bodyOfExchange(p.size, i), what, out, err); v != "" {
					viol = fmt.Sprintf("exchange #%d (chain %v, level %d, min_size %d): %s", i, chain, level, minSize, v)
					break
				}
				afterAbort = true
				continue
			}
			out, err := lab.Do(l.Addr, &lab.RawRequest{Method: "GET", Target: "/n", Framing: "none", Header: hdr}, 10*time.Second)
			want := bodyOfExchange(p.size, i)
			wantStatus := p.status
			if !p.explicit {
				wantStatus = 200
			}
			if (afterHijack || afterAbort) && p.size >= minSize && p.size > 0 {
				nt = true
				sawHijack, sawAbort = sawHijack || afterHijack, sawAbort || afterAbort
			}
			afterHijack, afterAbort = false, false
			if err != nil || out.BodyErr != "" {
				viol = fmt.Sprintf("exchange #%d: response could not be read: %v %s", i, err, out.BodyErr)
				break
			}
			got := out.Body
			if out.Header.Get("Content-Encoding") == "gzip" {
				zr, zerr := gzip.NewReader(bytes.NewReader(out.Body))
				if zerr == nil {
					got, zerr = io.ReadAll(zr)
				}
				if zerr != nil {
					viol = fmt.Sprintf("exchange #%d: body labelled gzip does not decode: %v", i, zerr)
					break
				}
			}
			if out.Status != wantStatus || !bytes.Equal(got, want) {
				viol = fmt.Sprintf("exchange #%d (chain %v, level %d, min_size %d): handler sent status %d with %d bytes, client decoded status %d with %d bytes (Content-Encoding %q)",
					i, chain, level, minSize, wantStatus, len(want), out.Status, len(got), out.Header.Get("Content-Encoding"))
				break
			}
		}
		var labels []string
		if sawHijack {
			labels = append(labels, "after-hijacked-exchange")
		}
		if sawAbort {
			labels = append(labels, "after-aborted-exchange")
		}
		if sawAbortJudged {
			labels = append(labels, "aborted-exchange-judged")
		}
		sub.Case(map[string]any{"chain": chain, "level": level, "min_size": minSize, "exchanges": n}, nt, labels...)
		if viol != "" {
			rt.Fatalf("%s", viol)
		}
	})
}

// bodyOfExchange is a body of n bytes whose text names the exchange it belongs to, so that bytes of
// one response showing up in another are recognised whatever their length.
func bodyOfExchange(n, idx int) []byte {
	unit := fmt.Sprintf("exchange %d says: the quick brown fox jumps over the lazy dog\n", idx)
	b := make([]byte, n)
	for i := range b {
		b[i] = unit[i%len(unit)]
	}
	return b
}

func bodyOf(n int) []byte {
	b := make([]byte, n)
	for i := range b {
		b[i] = "the quick brown fox jumps over the lazy dog\n"[i%44]
	}
	return b
}
