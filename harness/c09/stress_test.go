package c09

import (
	"fmt"
	"runtime"
	"sync"
	"sync/atomic"
	"testing"
	"time"

	"github.com/0xReLogic/Helios/internal/loadbalancer"
	"github.com/0xReLogic/Helios/internal/ratelimiter"
	"github.com/0xReLogic/Helios/verifharness/lab"
)

type stressCase struct {
	G     int    `json:"goroutines"`
	Max   int    `json:"max_tokens"`
	Phase string `json:"phase"`                  // bucket | balancer | refill-due
	Idle  int    `json:"idle_periods,omitempty"` // refill-due: whole refill periods the drained client stays idle before the burst
	Round int    `json:"round,omitempty"`
}

// barrier releases G goroutines at (as nearly as real threads allow) one instant and waits for them.
func barrier(g int, body func(i int)) {
	var ready, goFlag int32
	var wg sync.WaitGroup
	for i := 0; i < g; i++ {
		wg.Add(1)
		go func(i int) {
			defer wg.Done()
			atomic.AddInt32(&ready, 1)
			for atomic.LoadInt32(&goFlag) == 0 {
				runtime.Gosched()
			}
			body(i)
		}(i)
	}
	for atomic.LoadInt32(&ready) < int32(g) {
		runtime.Gosched()
	}
	atomic.StoreInt32(&goFlag, 1)
	wg.Wait()
}

// stressRound: G goroutines hit ONE fresh bucket at once; refill is one hour, so nothing is refilled
// during the round and the statement pins the result: at most max (burst bound B1), at least max
// (fresh client B2, G >= max is not required: then min(G,max)).
func stressRound(c stressCase) (admitted, forwarded int, err string) {
	var adm int32
	switch c.Phase {
	case "bucket":
		rl := ratelimiter.NewTokenBucketRateLimiter(c.Max, time.Hour)
		barrier(c.G, func(int) {
			if rl.Allow("10.0.0.1") {
				atomic.AddInt32(&adm, 1)
			}
		})
		return int(adm), int(adm), ""
	default:
		cfg := lab.BaseConfig("round_robin", lab.Ones(2))
		cfg.RateLimit.Enabled, cfg.RateLimit.MaxTokens, cfg.RateLimit.RefillRate = true, c.Max, 3600
		lb, e := loadbalancer.NewLoadBalancer(cfg)
		if e != nil {
			return 0, 0, "harness: " + e.Error()
		}
		defer lb.Stop()
		fn := lab.NewFakeNet()
		fn.Install(lb)
		var odd int32
		barrier(c.G, func(i int) {
			// same client address, a different source port per connection
			st, _, _, _ := lab.Serve(lb, lab.Request("GET", "/x", fmt.Sprintf("10.0.0.1:%d", 20000+i), nil))
			switch st {
			case 200:
				atomic.AddInt32(&adm, 1)
			case 429:
			default:
				atomic.StoreInt32(&odd, int32(st))
			}
		})
		if odd != 0 {
			return int(adm), fn.Arrivals(), fmt.Sprintf("unexpected status %d (backends answer 200, the limiter 429)", odd)
		}
		return int(adm), fn.Arrivals(), ""
	}
}

// refillDueRound: one client drains its bucket, stays idle for at least c.Idle refill periods (3 ms
// each, real time), then G goroutines hit the bucket at once - the instant at which the refill that
// has become due is credited. The statement pins the burst from both sides: at most max_tokens (+
// what the interval clause grants for the time the burst took) and at most floor(T/r)+1 beyond the first max_tokens within the whole round of length T
// (measured generously: to the end of the burst); at least min(idle periods, max_tokens, G).
func refillDueRound(c stressCase) string {
	const r = 3 * time.Millisecond
	rl := ratelimiter.NewTokenBucketRateLimiter(c.Max, r)
	start := time.Now()
	for i := 0; i < c.Max; i++ {
		if !rl.Allow("10.0.0.9") {
			if time.Since(start) < r {
				return fmt.Sprintf("fresh client: call %d of its first burst of max_tokens=%d was refused", i+1, c.Max)
			}
			return "" // the machine stalled for a whole period in the middle of the drain: nothing to conclude
		}
	}
	drained := time.Now()
	time.Sleep(time.Duration(c.Idle)*r + 200*time.Microsecond)
	idle := time.Since(drained)
	burstStart := time.Now()
	var adm int32
	barrier(c.G, func(int) {
		if rl.Allow("10.0.0.9") {
			atomic.AddInt32(&adm, 1)
		}
	})
	T := time.Since(start)
	a := int(adm)
	// the G calls are not one instant: over the D they took, the interval clause allows
	// max_tokens + floor(D/r) + 1 (equal to the burst clause + 1 when D < r)
	D := time.Since(burstStart)
	if hi := c.Max + int(D/r) + 1; a > hi {
		return fmt.Sprintf("a drained client that had been idle for %v (refill %v) got %d of %d requests admitted that were made within %v; max_tokens is %d, the bound for an interval of that length is %d", idle, r, a, c.G, D, c.Max, hi)
	}
	if hi := int(T/r) + 1; a > hi {
		return fmt.Sprintf("%d requests admitted beyond the first max_tokens=%d within %v (refill %v): the bound is floor(T/r)+1 = %d", a, c.Max, T, r, hi)
	}
	if lo := min(int(idle/r), c.Max, c.G); a < lo {
		return fmt.Sprintf("a client idle for %v (= %d whole refill periods of %v) got only %d of %d simultaneous requests admitted; min(k, max_tokens=%d, G) = %d", idle, int(idle/r), r, a, c.G, c.Max, lo)
	}
	return ""
}

func TestC09ConcurrentBurst(t *testing.T) {
	const name = "limiter-concurrent-burst"
	sub := lab.Sub(name, "spin-barrier stress on real threads: G in {2,3,4,8,16,32,64} goroutines hit one fresh bucket at once, max_tokens 1..5, refill 1h; "+
		"phase 'bucket': TokenBucketRateLimiter.Allow directly; phase 'balancer': G requests of one client address (distinct ports) through the real LoadBalancer.ServeHTTP with scripted backends; "+
		"phase 'refill-due': the client drains its bucket (refill 3 ms), stays idle for 1..max_tokens+1 periods of real time, then the G goroutines hit it at once, i.e. at the instant the due refill is credited: admitted <= max_tokens + floor(D/r) + 1 for the D the burst took, <= floor(T/r)+1 beyond the first max_tokens over the whole round, >= min(idle periods, max_tokens, G); "+
		"oracle (other phases): exactly min(G,max_tokens) admitted (<= by the burst bound, >= by the fresh-client clause), and through the balancer exactly that many requests reach a backend (429 <=> not forwarded); "+
		"non-trivial = more contenders than tokens; distinct = distinct (G,max_tokens,phase) cells (rounds repeat cells to sample schedules)")
	lab.Assume("C09 concurrency: interleavings are sampled by real parallelism behind a spin barrier, not enumerated")
	check := func(c stressCase) string {
		if c.Phase == "refill-due" {
			return refillDueRound(c)
		}
		a, f, e := stressRound(c)
		want := min(c.G, c.Max)
		switch {
		case e != "":
			return e
		case a != want:
			return fmt.Sprintf("%d of %d simultaneous requests of one client were admitted, max_tokens is %d (fresh bucket, no refill within the round): expected exactly %d", a, c.G, c.Max, want)
		case f != a:
			return fmt.Sprintf("%d requests were admitted (not 429) but %d reached a backend", a, f)
		}
		return ""
	}
	var rc stressCase
	if lab.ReplayCase(name, &rc) {
		for i := 0; i < 3000; i++ {
			if v := check(rc); v != "" {
				lab.Violation(t, name, rc, "replay round %d: %s", i, v)
			}
		}
		return
	}
	if lab.Replaying() {
		t.Skip("replay of another sub-check")
	}
	gs := []int{2, 3, 4, 8, 16, 32, 64}
	run := func(phase string, rounds int) {
		for r := 0; r < rounds; r++ {
			k := r + lab.Shard()*7919 + int(lab.Seed()%1000)
			c := stressCase{G: gs[k%len(gs)], Max: 1 + (k/7)%5, Phase: phase, Round: r}
			if phase == "refill-due" {
				c.Idle = 1 + (k/35)%(c.Max+1)
			}
			v := check(c)
			sub.Case(stressCase{G: c.G, Max: c.Max, Phase: phase, Idle: c.Idle}, c.G > c.Max, fmt.Sprintf("G%d", c.G), "phase-"+phase, fmt.Sprintf("max%d", c.Max))
			if v != "" {
				lab.Violation(t, name, c, "%s", v)
			}
		}
	}
	run("bucket", lab.Share(lab.Scale(20000, 400000)))
	run("balancer", lab.Share(lab.Scale(4000, 80000)))
	run("refill-due", lab.Share(lab.Scale(2400, 48000)))
}
