package c09

import (
	"fmt"
	"runtime"
	"sync"
	"sync/atomic"
	"testing"
	"time"

	"github.com/0xReLogic/Helios/internal/loadbalancer"
	"github.com/0xReLogic/Helios/internal/ratelimiter"
	"github.com/0xReLogic/Helios/verifharness/lab"
)

type stressCase struct {
	G     int    `json:"goroutines"`
	Max   int    `json:"max_tokens"`
	Phase string `json:"phase"` // bucket | balancer
	Round int    `json:"round,omitempty"`
}

// barrier releases G goroutines at (as nearly as real threads allow) one instant and waits for them.
func barrier(g int, body func(i int)) {
	var ready, goFlag int32
	var wg sync.WaitGroup
	for i := 0; i < g; i++ {
		wg.Add(1)
		go func(i int) {
			defer wg.Done()
			atomic.AddInt32(&ready, 1)
			for atomic.LoadInt32(&goFlag) == 0 {
				runtime.Gosched()
			}
			body(i)
		}(i)
	}
	for atomic.LoadInt32(&ready) < int32(g) {
		runtime.Gosched()
	}
	atomic.StoreInt32(&goFlag, 1)
	wg.Wait()
}

// stressRound: G goroutines hit ONE fresh bucket at once; refill is one hour, so nothing is refilled
// during the round and the statement pins the result: at most max (burst bound B1), at least max
// (fresh client B2, G >= max is not required: then min(G,max)).
func stressRound(c stressCase) (admitted, forwarded int, err string) {
	var adm int32
	switch c.Phase {
	case "bucket":
		rl := ratelimiter.NewTokenBucketRateLimiter(c.Max, time.Hour)
		barrier(c.G, func(int) {
			if rl.Allow("10.0.0.1") {
				atomic.AddInt32(&adm, 1)
			}
		})
		return int(adm), int(adm), ""
	default:
		cfg := lab.BaseConfig("round_robin", lab.Ones(2))
		cfg.RateLimit.Enabled, cfg.RateLimit.MaxTokens, cfg.RateLimit.RefillRate = true, c.Max, 3600
		lb, e := loadbalancer.NewLoadBalancer(cfg)
		if e != nil {
			return 0, 0, "harness: " + e.Error()
		}
		defer lb.Stop()
		fn := lab.NewFakeNet()
		fn.Install(lb)
		var odd int32
		barrier(c.G, func(i int) {
			// same client address, a different source port per connection
			st, _, _, _ := lab.Serve(lb, lab.Request("GET", "/x", fmt.Sprintf("10.0.0.1:%d", 20000+i), nil))
			switch st {
			case 200:
				atomic.AddInt32(&adm, 1)
			case 429:
			default:
				atomic.StoreInt32(&odd, int32(st))
			}
		})
		if odd != 0 {
			return int(adm), fn.Arrivals(), fmt.Sprintf("unexpected status %d (backends answer 200, the limiter 429)", odd)
		}
		return int(adm), fn.Arrivals(), ""
	}
}

func TestC09ConcurrentBurst(t *testing.T) {
	const name = "limiter-concurrent-burst"
	sub := lab.Sub(name, "spin-barrier stress on real threads: G in {2,3,4,8,16,32,64} goroutines hit one fresh bucket at once, max_tokens 1..5, refill 1h; "+
		"phase 'bucket': TokenBucketRateLimiter.Allow directly; phase 'balancer': G requests of one client address (distinct ports) through the real LoadBalancer.ServeHTTP with scripted backends; "+
		"oracle: exactly min(G,max_tokens) admitted (<= by the burst bound, >= by the fresh-client clause), and through the balancer exactly that many requests reach a backend (429 <=> not forwarded); "+
		"non-trivial = more contenders than tokens; distinct = distinct (G,max_tokens,phase) cells (rounds repeat cells to sample schedules)")
	lab.Assume("C09 concurrency: interleavings are sampled by real parallelism behind a spin barrier, not enumerated")
	check := func(c stressCase) string {
		a, f, e := stressRound(c)
		want := min(c.G, c.Max)
		switch {
		case e != "":
			return e
		case a != want:
			return fmt.Sprintf("%d of %d simultaneous requests of one client were admitted, max_tokens is %d (fresh bucket, no refill within the round): expected exactly %d", a, c.G, c.Max, want)
		case f != a:
			return fmt.Sprintf("%d requests were admitted (not 429) but %d reached a backend", a, f)
		}
		return ""
	}
	var rc stressCase
	if lab.ReplayCase(name, &rc) {
		for i := 0; i < 3000; i++ {
			if v := check(rc); v != "" {
				lab.Violation(t, name, rc, "replay round %d: %s", i, v)
			}
		}
		return
	}
	if lab.Replaying() {
		t.Skip("replay of another sub-check")
	}
	gs := []int{2, 3, 4, 8, 16, 32, 64}
	run := func(phase string, rounds int) {
		for r := 0; r < rounds; r++ {
			k := r + lab.Shard()*7919 + int(lab.Seed()%1000)
			c := stressCase{G: gs[k%len(gs)], Max: 1 + (k/7)%5, Phase: phase, Round: r}
			v := check(c)
			sub.Case(stressCase{G: c.G, Max: c.Max, Phase: phase}, c.G > c.Max, fmt.Sprintf("G%d", c.G), "phase-"+phase, fmt.Sprintf("max%d", c.Max))
			if v != "" {
				lab.Violation(t, name, c, "%s", v)
			}
		}
	}
	run("bucket", lab.Share(lab.Scale(20000, 400000)))
	run("balancer", lab.Share(lab.Scale(4000, 80000)))
}
