package c09

import (
	"fmt"
	"net/netip"
	"strings"

	"pgregory.net/rapid"
)

// Address-like strings as they can arrive in a client-address header (through the HTTP parser: no
// leading/trailing whitespace, no control characters) or as a limiter key.

var junkAddrs = []string{"unknown", "localhost", "-", "1.2.3", "999.1.1.1", "<script>alert(1)</script>", "a b", "10.0.0.1 ",
	"クライアント", "10.0.0.1;drop", "_hidden", "for=192.0.2.60;proto=http", "0x7f.1", "1.2.3.4:80", "[2001:db8::1]:443",
	"fe80::1%eth0", "10.0.0.01", "2001:DB8:0:0::1", strings.Repeat("9", 300), "%00", "null", "\"10.0.0.1\""}

func genIPv4(t *rapid.T) string {
	if rapid.IntRange(0, 2).Draw(t, "v4pool") > 0 {
		return fmt.Sprintf("10.0.0.%d", rapid.IntRange(1, 6).Draw(t, "v4low"))
	}
	return fmt.Sprintf("%d.%d.%d.%d", rapid.IntRange(1, 223).Draw(t, "a"), rapid.IntRange(0, 255).Draw(t, "b"),
		rapid.IntRange(0, 255).Draw(t, "c"), rapid.IntRange(0, 255).Draw(t, "d"))
}

func genIPv6(t *rapid.T) string {
	switch rapid.IntRange(0, 3).Draw(t, "v6kind") {
	case 0:
		return "::1"
	case 1:
		return fmt.Sprintf("2001:db8::%x", rapid.IntRange(1, 0xffff).Draw(t, "v6low"))
	case 2:
		return fmt.Sprintf("fd00:%x:%x::%x", rapid.IntRange(0, 0xffff).Draw(t, "h1"), rapid.IntRange(0, 0xffff).Draw(t, "h2"), rapid.IntRange(1, 0xffff).Draw(t, "h3"))
	}
	return "::ffff:" + genIPv4(t) // IPv4-mapped, as some proxies write it
}

// genAddr draws an address-like string; class says what it is.
func genAddr(t *rapid.T) (s string, class string) {
	k := rapid.IntRange(0, 99).Draw(t, "addrkind")
	switch {
	case k < 45:
		return genIPv4(t), "ipv4"
	case k < 70:
		s = genIPv6(t)
		if strings.HasPrefix(s, "::ffff:") {
			return s, "ipv4-mapped"
		}
		return s, "ipv6"
	case k < 92:
		return rapid.SampledFrom(junkAddrs).Draw(t, "junk"), "junk"
	}
	// free-form printable string (no comma, no leading/trailing blank)
	raw := rapid.StringOfN(rapid.RuneFrom([]rune("abcXYZ019.:-_/[]%@ é")), 1, 12, -1).Draw(t, "free")
	raw = strings.TrimSpace(raw)
	if raw == "" {
		raw = "x"
	}
	return raw, "junk"
}

// headerSafe reports whether s can be the value of a header field line as delivered by net/http's
// parser (it strips optional whitespace around the value and refuses control characters).
func headerSafe(s string) bool {
	if s != strings.Trim(s, " \t") {
		return false
	}
	for i := 0; i < len(s); i++ {
		if s[i] < 0x20 && s[i] != '\t' || s[i] == 0x7f {
			return false
		}
	}
	return true
}

// canonicalIP reports whether s is what net/http would put into RemoteAddr (before the port) for some
// TCP peer: the canonical text of an IPv4 or (zone-less, not IPv4-mapped) IPv6 address.
func canonicalIP(s string) bool {
	a, err := netip.ParseAddr(s)
	if err != nil || a.Zone() != "" || a.Is4In6() {
		return false
	}
	return a.String() == s
}

func hostPort(host string, port int) string {
	if strings.Contains(host, ":") {
		return fmt.Sprintf("[%s]:%d", host, port)
	}
	return fmt.Sprintf("%s:%d", host, port)
}

// Representation preferences: what the client says about the answer it would like (media type, language,
// charset, coding) and what kind of client it says it is. The property statement quantifies over "any
// arrival pattern" of requests of a client address and makes the refusal ("429 and not forwarded")
// depend on the bucket alone; these headers are therefore varied on admitted AND refused requests and
// the oracles stay exactly the same.
type negotiation struct {
	Name string
	Hdr  [][2]string // field lines in order; a repeated name is sent as a second field line
}

var negotiations = []negotiation{
	{Name: "accept-json", Hdr: [][2]string{{"Accept", "application/json"}}},
	{Name: "accept-json-axios", Hdr: [][2]string{{"Accept", "application/json, text/plain, */*"}, {"User-Agent", "axios/1.6.7"}}},
	{Name: "accept-json-mixed-case", Hdr: [][2]string{{"Accept", "Application/JSON; charset=UTF-8"}}},
	{Name: "accept-json-low-q", Hdr: [][2]string{{"Accept", "text/html;q=0.9, application/json;q=0.1"}}},
	{Name: "accept-problem-json", Hdr: [][2]string{{"Accept", "application/problem+json, application/json;q=0.5"}}},
	{Name: "accept-json-xhr", Hdr: [][2]string{{"Accept", "application/json, text/javascript, */*; q=0.01"}, {"X-Requested-With", "XMLHttpRequest"}}},
	{Name: "accept-two-lines", Hdr: [][2]string{{"Accept", "text/html"}, {"Accept", "application/json"}}},
	{Name: "accept-two-lines-json-first", Hdr: [][2]string{{"Accept", "application/json"}, {"Accept", "text/html"}}},
	{Name: "accept-xml", Hdr: [][2]string{{"Accept", "application/xml, text/xml;q=0.9"}}},
	{Name: "accept-html", Hdr: [][2]string{{"Accept", "text/html"}}},
	{Name: "accept-browser", Hdr: [][2]string{{"Accept", "text/html,application/xhtml+xml,application/xml;q=0.9,image/avif,image/webp,*/*;q=0.8"}, {"Accept-Language", "en-US,en;q=0.5"}, {"User-Agent", "Mozilla/5.0 (X11; Linux x86_64; rv:128.0) Gecko/20100101 Firefox/128.0"}, {"Upgrade-Insecure-Requests", "1"}}},
	{Name: "accept-any", Hdr: [][2]string{{"Accept", "*/*"}}},
	{Name: "accept-curl", Hdr: [][2]string{{"Accept", "*/*"}, {"User-Agent", "curl/8.5.0"}}},
	{Name: "accept-text", Hdr: [][2]string{{"Accept", "text/plain"}}},
	{Name: "accept-image", Hdr: [][2]string{{"Accept", "image/avif,image/webp,image/*;q=0.8"}}},
	{Name: "accept-empty", Hdr: [][2]string{{"Accept", ""}}},
	{Name: "accept-nothing-acceptable", Hdr: [][2]string{{"Accept", "application/x-no-such-type"}}},
	{Name: "accept-msgpack-grpc-web", Hdr: [][2]string{{"Accept", "application/grpc-web-text, application/msgpack"}}},
	{Name: "accept-yaml-json", Hdr: [][2]string{{"Accept", "application/yaml, application/json"}, {"User-Agent", "kubectl/v1.30.0"}}},
	{Name: "accept-malformed", Hdr: [][2]string{{"Accept", ";;q=, /"}}},
	{Name: "language-charset", Hdr: [][2]string{{"Accept-Language", "de-DE, de;q=0.8, *;q=0.1"}, {"Accept-Charset", "utf-8, iso-8859-1;q=0.5"}}},
	{Name: "coding-identity-only", Hdr: [][2]string{{"Accept-Encoding", "identity, *;q=0"}}},
	{Name: "content-type-json-no-accept", Hdr: [][2]string{{"Content-Type", "application/json"}}},
	{Name: "prefer-minimal", Hdr: [][2]string{{"Prefer", "return=minimal"}, {"Accept", "application/json"}}},
	{Name: "user-agent-go", Hdr: [][2]string{{"User-Agent", "Go-http-client/1.1"}}},
	{Name: "user-agent-empty", Hdr: [][2]string{{"User-Agent", ""}}},
}

// negotiationPlan says what the requests of one case say about the answer they want: nothing (mode 0),
// every client identity is one kind of client and sends the same preferences on each of its requests
// (mode 1), or every request draws its own (mode 2, 0 = none).
type negotiationPlan struct {
	Mode  int   `json:"mode"`
	PerID []int `json:"per_identity,omitempty"` // 1 + index into negotiations, 0 = none
}

func drawNegotiationPlan(t *rapid.T, identities int) negotiationPlan {
	p := negotiationPlan{Mode: rapid.IntRange(0, 3).Draw(t, "negotiation_mode")}
	if p.Mode == 3 {
		p.Mode = 2
	}
	if p.Mode == 1 {
		for i := 0; i < identities; i++ {
			p.PerID = append(p.PerID, rapid.IntRange(0, len(negotiations)).Draw(t, "negotiation_of_identity"))
		}
	}
	return p
}

// draw returns the preferences (1 + index, 0 = none) of the next request of identity id (-1 = none).
func (p negotiationPlan) draw(t *rapid.T, id int) int {
	switch p.Mode {
	case 1:
		if id >= 0 && id < len(p.PerID) {
			return p.PerID[id]
		}
		return rapid.IntRange(0, len(negotiations)).Draw(t, "negotiation")
	case 2:
		if rapid.IntRange(0, 3).Draw(t, "negotiates") == 0 {
			return 0
		}
		return rapid.IntRange(1, len(negotiations)).Draw(t, "negotiation")
	}
	return 0
}

// apply puts the preferences n (1 + index) on top of whatever the request wears already.
func applyNegotiation(h interface {
	Set(string, string)
	Add(string, string)
}, n int) {
	if n <= 0 {
		return
	}
	set := map[string]bool{}
	for _, kv := range negotiations[n-1].Hdr {
		if set[kv[0]] {
			h.Add(kv[0], kv[1])
		} else {
			h.Set(kv[0], kv[1])
			set[kv[0]] = true
		}
	}
}

func (p negotiationPlan) Label() string {
	return [...]string{"negotiation=none", "negotiation=per-client", "negotiation=per-request"}[p.Mode]
}
