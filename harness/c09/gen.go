package c09

import (
	"fmt"
	"net/netip"
	"strings"

	"pgregory.net/rapid"
)

// Address-like strings as they can arrive in a client-address header (through the HTTP parser: no
// leading/trailing whitespace, no control characters) or as a limiter key.

var junkAddrs = []string{"unknown", "localhost", "-", "1.2.3", "999.1.1.1", "<script>alert(1)</script>", "a b", "10.0.0.1 ",
	"クライアント", "10.0.0.1;drop", "_hidden", "for=192.0.2.60;proto=http", "0x7f.1", "1.2.3.4:80", "[2001:db8::1]:443",
	"fe80::1%eth0", "10.0.0.01", "2001:DB8:0:0::1", strings.Repeat("9", 300), "%00", "null", "\"10.0.0.1\""}

func genIPv4(t *rapid.T) string {
	if rapid.IntRange(0, 2).Draw(t, "v4pool") > 0 {
		return fmt.Sprintf("10.0.0.%d", rapid.IntRange(1, 6).Draw(t, "v4low"))
	}
	return fmt.Sprintf("%d.%d.%d.%d", rapid.IntRange(1, 223).Draw(t, "a"), rapid.IntRange(0, 255).Draw(t, "b"),
		rapid.IntRange(0, 255).Draw(t, "c"), rapid.IntRange(0, 255).Draw(t, "d"))
}

func genIPv6(t *rapid.T) string {
	switch rapid.IntRange(0, 3).Draw(t, "v6kind") {
	case 0:
		return "::1"
	case 1:
		return fmt.Sprintf("2001:db8::%x", rapid.IntRange(1, 0xffff).Draw(t, "v6low"))
	case 2:
		return fmt.Sprintf("fd00:%x:%x::%x", rapid.IntRange(0, 0xffff).Draw(t, "h1"), rapid.IntRange(0, 0xffff).Draw(t, "h2"), rapid.IntRange(1, 0xffff).Draw(t, "h3"))
	}
	return "::ffff:" + genIPv4(t) // IPv4-mapped, as some proxies write it
}

// genAddr draws an address-like string; class says what it is.
func genAddr(t *rapid.T) (s string, class string) {
	k := rapid.IntRange(0, 99).Draw(t, "addrkind")
	switch {
	case k < 45:
		return genIPv4(t), "ipv4"
	case k < 70:
		s = genIPv6(t)
		if strings.HasPrefix(s, "::ffff:") {
			return s, "ipv4-mapped"
		}
		return s, "ipv6"
	case k < 92:
		return rapid.SampledFrom(junkAddrs).Draw(t, "junk"), "junk"
	}
	// free-form printable string (no comma, no leading/trailing blank)
	raw := rapid.StringOfN(rapid.RuneFrom([]rune("abcXYZ019.:-_/[]%@ é")), 1, 12, -1).Draw(t, "free")
	raw = strings.TrimSpace(raw)
	if raw == "" {
		raw = "x"
	}
	return raw, "junk"
}

// headerSafe reports whether s can be the value of a header field line as delivered by net/http's
// parser (it strips optional whitespace around the value and refuses control characters).
func headerSafe(s string) bool {
	if s != strings.Trim(s, " \t") {
		return false
	}
	for i := 0; i < len(s); i++ {
		if s[i] < 0x20 && s[i] != '\t' || s[i] == 0x7f {
			return false
		}
	}
	return true
}

// canonicalIP reports whether s is what net/http would put into RemoteAddr (before the port) for some
// TCP peer: the canonical text of an IPv4 or (zone-less, not IPv4-mapped) IPv6 address.
func canonicalIP(s string) bool {
	a, err := netip.ParseAddr(s)
	if err != nil || a.Zone() != "" || a.Is4In6() {
		return false
	}
	return a.String() == s
}

func hostPort(host string, port int) string {
	if strings.Contains(host, ":") {
		return fmt.Sprintf("[%s]:%d", host, port)
	}
	return fmt.Sprintf("%s:%d", host, port)
}
