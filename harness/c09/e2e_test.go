//go:build go1.25

package c09

import (
	"encoding/json"
	"fmt"
	"sort"
	"strings"
	"testing"
	"time"

	"github.com/0xReLogic/Helios/internal/loadbalancer"
	"github.com/0xReLogic/Helios/verifharness/lab"
	"pgregory.net/rapid"
)

// End-to-end clause: the real LoadBalancer with rate_limit enabled through configuration, scripted
// backends (L1), virtual time. Observed: the client's status code and whether a backend was reached.
// The limiter's decision is *defined* by what a client sees (429 or not); the clause "excess requests
// get 429 and are not forwarded" is checked per request, and the bucket bounds B1-B3 are checked per
// ATTRIBUTED client address, where the attribution is the harness's own re-statement of the documented
// rule (Attributed in model.go). Sharing a bucket between different addresses breaks B2/B3, not
// sharing one between equal addresses breaks B1.

type identity struct {
	Addr      string `json:"addr"`
	Class     string `json:"class"`
	CanRemote bool   `json:"can_be_tcp_peer"`
	NoComma   bool   `json:"-"`
}

type e2eReq struct {
	ID     int      `json:"id"` // identity index, -1 = request whose attribution the rule leaves open
	How    string   `json:"how"`
	Remote string   `json:"remote"`
	XFF    []string `json:"xff,omitempty"`
	XRI    string   `json:"xri,omitempty"`
	Status int      `json:"status,omitempty"`
	Fwd    int      `json:"forwarded"`
	At     string   `json:"t"`
}

type e2eEvent struct {
	Adv string  `json:"adv,omitempty"`
	Req *e2eReq `json:"req,omitempty"`
}

const proxyHost = "192.0.2.1"

var ambiguousXFF = []string{"", ",", ", 10.0.0.1", ",10.0.0.2", ", ,10.0.0.3"}

func TestC09EndToEnd(t *testing.T) {
	sub := lab.Sub("limiter-end-to-end", "rapid histories of 6..40 (quick) / 6..60 (thorough) events over {request, burst of requests, advance} against the real LoadBalancer.ServeHTTP with rate_limit enabled by configuration "+
		"(max_tokens 1..5, refill 1..3 s, all five strategies, 1-3 scripted backends answering 200/404/500), virtual time, balancer built outside the bubble; "+
		"1..4 client identities whose address is an arbitrary header-safe string, each request conveys its identity by a drawn presentation: TCP peer with a drawn port, X-Real-IP, "+
		"X-Forwarded-For alone / as first element of a list with irregular spacing / on two field lines / together with a contradicting X-Real-IP, behind a shared or colliding peer address; "+
		"oracle: status 429 <=> no backend was reached, otherwise exactly one; B1/B2/B3 per attributed address (reference re-statement of 'first X-Forwarded-For element trimmed, else X-Real-IP, else RemoteAddr host'); "+
		"requests with an empty first X-Forwarded-For element (rule silent) are only checked for 429 <=> not forwarded; "+
		"non-trivial = some identity was refused and admitted again after an advance AND was presented in at least two different ways")
	sub.NontrivialFloor(0.30)
	sub.Floor("multi-identity", 0.40)
	lab.Assume("L1: a scripted http.RoundTripper stands in for http.Transport; limiter on + active health checks on is not hosted in L1 (the balancer is built outside the bubble)")
	lab.Assume("C09: a client address is the string the documented rule yields (X-Forwarded-For first element trimmed > X-Real-IP > RemoteAddr host); textual variants of one IP are different addresses")
	maxLen := lab.Scale(40, 60)
	lab.Check(t, sub, 12000, 300000, func(rt *rapid.T) {
		p := Params{Max: rapid.IntRange(1, 5).Draw(rt, "max")}
		rs := rapid.IntRange(1, 3).Draw(rt, "refill_s")
		p.R = time.Duration(rs) * time.Second
		strategy := rapid.SampledFrom(lab.Strategies).Draw(rt, "strategy")
		nb := rapid.IntRange(1, 3).Draw(rt, "backends")
		ni := rapid.IntRange(1, 4).Draw(rt, "identities")
		ids := make([]identity, 0, ni)
		seen := map[string]bool{proxyHost: true}
		for len(ids) < ni {
			a, class := genAddr(rt)
			if !headerSafe(a) || a == "" || seen[a] || strings.HasPrefix(a, "198.18.") {
				a = fmt.Sprintf("10.77.0.%d", len(ids)+1)
				class = "ipv4"
				if seen[a] {
					continue
				}
			}
			seen[a] = true
			ids = append(ids, identity{Addr: a, Class: class, CanRemote: canonicalIP(a), NoComma: !containsComma(a)})
		}
		n := rapid.IntRange(6, maxLen).Draw(rt, "n")

		cfg := lab.BaseConfig(strategy, lab.Ones(nb))
		cfg.RateLimit.Enabled, cfg.RateLimit.MaxTokens, cfg.RateLimit.RefillRate = true, p.Max, rs
		if err := cfg.Validate(); err != nil {
			rt.Fatalf("harness: generated config rejected: %v", err)
		}
		// the limiter owns a never-ending janitor goroutine: build the balancer outside the bubble
		lb, err := loadbalancer.NewLoadBalancer(cfg)
		if err != nil {
			rt.Fatalf("harness: NewLoadBalancer: %v", err)
		}
		defer lb.Stop()
		fn := lab.NewFakeNet()
		fn.Install(lb)
		for bi := 0; bi < nb; bi++ {
			fn.Set(lab.BackendHost(bi), rapid.SampledFrom([]lab.Behaviour{lab.Good, lab.Good, lab.Status4xx, lab.Status5xx}).Draw(rt, "behaviour"))
		}

		var evs []e2eEvent
		hist := make([][]Call, ni)
		hows := make([]map[string]bool, ni)
		for i := range hows {
			hows[i] = map[string]bool{}
		}
		var viol string
		ambiguous, uniq := 0, 0
		rapid.SyncTest(rt, func(rt *rapid.T) {
			start := time.Now()
			refused := false
			pending := -1
			for i := 0; i < n && viol == ""; i++ {
				kind := rapid.IntRange(0, 99).Draw(rt, "kind")
				pAdv := 20
				if refused {
					pAdv = 55
				}
				if kind < pAdv {
					d := genAdvance(rt, p)
					time.Sleep(d)
					evs = append(evs, e2eEvent{Adv: d.String()})
					refused = false
					continue
				}
				cnt := 1
				if kind >= 60 {
					cnt = rapid.IntRange(1, p.Max+2).Draw(rt, "burst")
				}
				id := rapid.IntRange(0, ni-1).Draw(rt, "id")
				if pending >= 0 && rapid.IntRange(0, 2).Draw(rt, "back") > 0 {
					id = pending
				}
				pending = -1
				if rapid.IntRange(0, 24).Draw(rt, "ambiguous") == 0 {
					id = -1
				}
				for q := 0; q < cnt && viol == ""; q++ {
					r := &e2eReq{ID: id}
					port := rapid.IntRange(1024, 65535).Draw(rt, "port")
					// peer address used when the identity travels in a header: the shared proxy, or — to
					// show that headers dominate — the address of some identity that is also a TCP peer
					via := proxyHost
					if c := rapid.IntRange(-1, ni-1).Draw(rt, "via"); c >= 0 && ids[c].CanRemote {
						via = ids[c].Addr
					}
					if id < 0 {
						uniq++
						r.How = "xff-first-element-empty"
						r.Remote = hostPort(fmt.Sprintf("198.18.%d.%d", uniq/250, 1+uniq%250), port)
						r.XFF = []string{rapid.SampledFrom(ambiguousXFF).Draw(rt, "axff")}
					} else {
						a := ids[id].Addr
						other := "203.0.113.9"
						if o := rapid.IntRange(0, ni-1).Draw(rt, "other"); o != id {
							other = ids[o].Addr
						}
						var options []string
						if ids[id].CanRemote {
							options = append(options, "peer", "peer")
						}
						options = append(options, "xri")
						if ids[id].NoComma {
							options = append(options, "xff", "xff-list", "xff-list-odd-spacing", "xff-two-lines", "xff-beats-xri")
						}
						r.How = rapid.SampledFrom(options).Draw(rt, "how")
						r.Remote = hostPort(via, port)
						switch r.How {
						case "peer":
							r.Remote = hostPort(a, port)
						case "xri":
							r.XRI = a
						case "xff":
							r.XFF = []string{a}
						case "xff-list":
							r.XFF = []string{a + ", " + other + ", 10.9.9.9"}
						case "xff-list-odd-spacing":
							r.XFF = []string{a + rapid.SampledFrom([]string{",", " ,", "  ,  ", ",\t", " , ,"}).Draw(rt, "sep") + other}
						case "xff-two-lines":
							r.XFF = []string{a, other}
						case "xff-beats-xri":
							r.XFF = []string{a}
							r.XRI = other
						}
					}
					// the reference attribution must agree with the intended identity (harness self-check)
					if got, ok := Attributed(r.XFF, r.XRI, r.Remote); id >= 0 && (!ok || got != ids[id].Addr) || id < 0 && ok {
						rt.Fatalf("harness: presentation %+v attributed to %q/%v, intended identity %d", r, got, ok, id)
					}
					req := lab.Request("GET", "/x", r.Remote, nil)
					for _, l := range r.XFF {
						req.Header.Add("X-Forwarded-For", l)
					}
					if r.XRI != "" {
						req.Header.Set("X-Real-IP", r.XRI)
					}
					before := fn.Arrivals()
					status, _, _, _ := lab.Serve(lb, req)
					r.Status, r.Fwd, r.At = status, fn.Arrivals()-before, time.Since(start).String()
					evs = append(evs, e2eEvent{Req: r})
					switch {
					case status == 429 && r.Fwd != 0:
						viol = fmt.Sprintf("request answered 429 was forwarded to a backend %d time(s)", r.Fwd)
					case status != 429 && r.Fwd != 1:
						viol = fmt.Sprintf("request answered %d (not 429) reached a backend %d times, expected exactly once", status, r.Fwd)
					}
					if id < 0 {
						ambiguous++
						continue
					}
					hows[id][r.How] = true
					hist[id] = append(hist[id], Call{T: time.Since(start), Admitted: status != 429})
					if status == 429 {
						refused, pending = true, id
					}
				}
			}
		})
		nt := false
		labels := []string{strategy, fmt.Sprintf("max%d", p.Max)}
		if ni > 1 {
			labels = append(labels, "multi-identity")
		}
		if ambiguous > 0 {
			labels = append(labels, "has-xff-first-element-empty")
		}
		anyRefused, idle := false, false
		howSeen := map[string]bool{}
		for i := range hist {
			v, st := CheckClient(p, hist[i])
			if v != "" && viol == "" {
				viol = fmt.Sprintf("attributed address %q (identity %d, presented as %v): %s", ids[i].Addr, i, keysOf(hows[i]), v)
			}
			if st.ReadmittedAfterAdvance && len(hows[i]) >= 2 {
				nt = true
			}
			anyRefused = anyRefused || st.Refused > 0
			idle = idle || st.IdleClause > 0
			for h := range hows[i] {
				howSeen[h] = true
			}
			labels = append(labels, "addr-"+ids[i].Class)
		}
		labels = dedup(labels)
		for _, h := range keysOf(howSeen) {
			labels = append(labels, "how-"+h)
		}
		if anyRefused {
			labels = append(labels, "refused")
		}
		if idle {
			labels = append(labels, "idle-clause-exercised")
		}
		sub.Case(map[string]any{"p": p, "strategy": strategy, "backends": nb, "identities": ids, "events": evs}, nt, labels...)
		if viol != "" {
			rt.Fatalf("max_tokens=%d refill=%v strategy=%s identities=%+v\nevents=%s\n%s", p.Max, p.R, strategy, ids, showEvents(evs), viol)
		}
	})
}

func containsComma(s string) bool {
	for i := 0; i < len(s); i++ {
		if s[i] == ',' {
			return true
		}
	}
	return false
}

func keysOf(m map[string]bool) []string {
	out := make([]string, 0, len(m))
	for k := range m {
		out = append(out, k)
	}
	sort.Strings(out)
	return out
}

func dedup(in []string) []string {
	seen := map[string]bool{}
	var out []string
	for _, s := range in {
		if !seen[s] {
			seen[s] = true
			out = append(out, s)
		}
	}
	return out
}

func showEvents(evs []e2eEvent) string {
	b, _ := json.Marshal(evs)
	return string(b)
}
