//go:build go1.25

package c09

import (
	"encoding/json"
	"fmt"
	"sort"
	"strings"
	"sync"
	"testing"
	"time"

	"github.com/0xReLogic/Helios/internal/loadbalancer"
	"github.com/0xReLogic/Helios/verifharness/lab"
	"pgregory.net/rapid"
)

// End-to-end clause: the real LoadBalancer with rate_limit enabled through configuration, scripted
// backends (L1), virtual time. Observed: the client's status code and whether a backend was reached.
// The limiter's decision is *defined* by what a client sees (429 or not); the clause "excess requests
// get 429 and are not forwarded" is checked per request, and the bucket bounds B1-B3 are checked per
// ATTRIBUTED client address, where the attribution is the harness's own re-statement of the documented
// rule (Attributed in model.go). Sharing a bucket between different addresses breaks B2/B3, not
// sharing one between equal addresses breaks B1.

type identity struct {
	Addr      string `json:"addr"`
	Class     string `json:"class"`
	CanRemote bool   `json:"can_be_tcp_peer"`
	NoComma   bool   `json:"-"`
}

type e2eReq struct {
	ID       int      `json:"id"` // identity index, -1 = request whose attribution the rule leaves open
	How      string   `json:"how"`
	Remote   string   `json:"remote"`
	XFF      []string `json:"xff,omitempty"`
	Amb      int      `json:"-"` // 1 + index into ambiguousXFF for requests whose first X-Forwarded-For element is empty
	XRI      string   `json:"xri,omitempty"`
	Status   int      `json:"status,omitempty"`
	Aborted  bool     `json:"aborted,omitempty"`  // the response broke off after its head
	Fwd      int      `json:"forwarded"`          // how often the request was handed to a backend
	Backend  string   `json:"backend,omitempty"`  // behaviour of the backend that got it
	Parallel bool     `json:"parallel,omitempty"` // part of a burst issued all at once
	At       string   `json:"t"`
	Dress    string   `json:"dress,omitempty"` // method/headers the request wears (lab.Dresses); the limiter takes no notice of them
	Wants    string   `json:"wants,omitempty"` // representation preferences the request states (negotiations in gen.go); the limiter takes no notice of them
	neg      int
	at       time.Duration
	rid      string
	k        int
}

type e2eEvent struct {
	Adv  string  `json:"adv,omitempty"`
	Flip string  `json:"backend_now,omitempty"`
	Req  *e2eReq `json:"req,omitempty"`
}

const proxyHost = "192.0.2.1"

var ambiguousXFF = []string{"", ",", ", 10.0.0.1", ",10.0.0.2", ", ,10.0.0.3"}

func drawBackendKind(rt *rapid.T, label string) backendKind {
	total := 0
	for _, w := range backendKindWeights {
		total += w
	}
	x := rapid.IntRange(0, total-1).Draw(rt, label)
	for i, w := range backendKindWeights {
		if x < w {
			return backendKinds[i]
		}
		x -= w
	}
	return backendKinds[0]
}

func TestC09EndToEnd(t *testing.T) {
	sub := lab.Sub("limiter-end-to-end", "rapid histories of 6..40 (quick) / 6..60 (thorough) events over {request, burst of requests issued one after the other or all at once (concurrently), advance, backend changes behaviour} "+
		"against the real LoadBalancer.ServeHTTP with rate_limit enabled by configuration (max_tokens 1..5, refill 1..3 s, handler timeout 1/2/4 s, passive health checks on in a quarter of the cases, all five strategies), virtual time, balancer built outside the bubble; "+
		"1-3 scripted backends, each with a drawn behaviour that can change during the history: answers 200/404/500, 103 then 200/500, connection refused, takes the request and then resets / closes without a response / stays silent until the response-header timeout / "+
		"hangs until the handler timeout, aborts mid-body, stalls after the head or mid-body until the handler timeout; "+
		"1..4 client identities whose address is an arbitrary header-safe string, each request conveys its identity by a drawn presentation: TCP peer with a drawn port, X-Real-IP, "+
		"X-Forwarded-For alone / as first element of a list with irregular spacing / on two field lines / together with a contradicting X-Real-IP, behind a shared or colliding peer address; "+
		"oracle per request: answered 429 => handed to no backend, otherwise to exactly one (none only for the balancer's own 503 when passive checks ejected every backend); "+
		"per attributed address (reference re-statement of 'first X-Forwarded-For element trimmed, else X-Real-IP, else RemoteAddr host') TWO histories: the requests not answered 429 (B1/B2/B3, whatever the backend then did) and the requests that reached a backend (B1); "+
		"requests with an empty first X-Forwarded-For element (rule silent on the address) are checked per request and, per identical header value from one peer host, against the upper bound B1 (one client under every reading); "+
		"on top of the dress, representation preferences (Accept in 20 shapes: JSON / axios / mixed case / q-values / two field lines / XML / HTML / browser / */* / empty / malformed, Accept-Language/-Charset/-Encoding, User-Agent, X-Requested-With, Prefer) stated by none / per client identity / per request, on admitted and refused requests alike - the oracles take no notice of them; "+
		"non-trivial = some identity was refused and admitted again after an advance AND was presented in at least two different ways")
	sub.NontrivialFloor(0.30)
	sub.Floor("multi-identity", 0.40)
	sub.Floor("refused-after-failed-exchange", 0.10)
	sub.Floor("not-forwarded-request-stated-preferences", 0.25)
	lab.Assume("L1: a scripted http.RoundTripper stands in for http.Transport (transport errors after the request was handed over are the error values http.Transport reports: ECONNRESET read error, EOF, response-header timeout, context deadline); limiter on + active health checks on is not hosted in L1 (the balancer is built outside the bubble)")
	lab.Assume("C09: a client address is the string the documented rule yields (X-Forwarded-For first element trimmed > X-Real-IP > RemoteAddr host); textual variants of one IP are different addresses")
	lab.Assume("C09: 'admitted' is read off the client's side: a request is admitted iff it is not answered 429 (the circuit breaker, whose half-open refusal is also a 429, stays off)")
	maxLen := lab.Scale(40, 60)
	lab.Check(t, sub, 12000, 300000, func(rt *rapid.T) {
		p := Params{Max: rapid.IntRange(1, 5).Draw(rt, "max")}
		rs := rapid.IntRange(1, 3).Draw(rt, "refill_s")
		p.R = time.Duration(rs) * time.Second
		strategy := rapid.SampledFrom(lab.Strategies).Draw(rt, "strategy")
		dress := lab.DrawDressPlan(rt)
		nb := rapid.IntRange(1, 3).Draw(rt, "backends")
		ni := rapid.IntRange(1, 4).Draw(rt, "identities")
		neg := drawNegotiationPlan(rt, ni)
		ids := make([]identity, 0, ni)
		seen := map[string]bool{proxyHost: true}
		for len(ids) < ni {
			a, class := genAddr(rt)
			if !headerSafe(a) || a == "" || seen[a] || strings.HasPrefix(a, "198.18.") {
				a = fmt.Sprintf("10.77.0.%d", len(ids)+1)
				class = "ipv4"
				if seen[a] {
					continue
				}
			}
			seen[a] = true
			ids = append(ids, identity{Addr: a, Class: class, CanRemote: canonicalIP(a), NoComma: !containsComma(a)})
		}
		n := rapid.IntRange(6, maxLen).Draw(rt, "n")
		handlerS := rapid.SampledFrom([]int{1, 2, 4}).Draw(rt, "handler_timeout_s")
		passive := rapid.IntRange(0, 3).Draw(rt, "passive") == 0

		cfg := lab.BaseConfig(strategy, lab.Ones(nb))
		cfg.RateLimit.Enabled, cfg.RateLimit.MaxTokens, cfg.RateLimit.RefillRate = true, p.Max, rs
		cfg.Server.Timeouts.Handler = handlerS
		if passive {
			cfg.HealthChecks.Passive.Enabled = true
			cfg.HealthChecks.Passive.UnhealthyThreshold = rapid.IntRange(1, 3).Draw(rt, "passive_threshold")
			cfg.HealthChecks.Passive.UnhealthyTimeout = rapid.IntRange(1, 4).Draw(rt, "passive_timeout_s")
		}
		if err := cfg.Validate(); err != nil {
			rt.Fatalf("harness: generated config rejected: %v", err)
		}
		// the limiter owns a never-ending janitor goroutine: build the balancer outside the bubble
		lb, err := loadbalancer.NewLoadBalancer(cfg)
		if err != nil {
			rt.Fatalf("harness: NewLoadBalancer: %v", err)
		}
		defer lb.Stop()
		fnet := newFaultNet(lb)
		kindsSeen := map[string]bool{}
		var setup []string
		for bi := 0; bi < nb; bi++ {
			k := drawBackendKind(rt, "behaviour")
			fnet.set(lab.BackendHost(bi), k)
			setup = append(setup, k.Name)
		}

		var evs []e2eEvent
		hist := make([][]Call, ni)
		fwdAt := make([][]time.Duration, ni)
		failedExchange := make([]bool, ni) // an admitted request of this identity was handed to a backend and got no response head
		refusedAfterFail := false
		hows := make([]map[string]bool, ni)
		for i := range hows {
			hows[i] = map[string]bool{}
		}
		var viol string
		ambiguous, uniq, rid := 0, 0, 0
		ambAdmitted := map[int][]time.Duration{} // by ambiguous X-Forwarded-For value (+1): instants of requests not answered 429
		parallelBursts := 0
		wantsSeen, wantsRefused := map[string]bool{}, false // representation preferences stated; some request stating any was handed to no backend
		rapid.SyncTest(rt, func(rt *rapid.T) {
			start := time.Now()
			refused := false
			pending := -1
			for i := 0; i < n && viol == ""; i++ {
				kind := rapid.IntRange(0, 99).Draw(rt, "kind")
				pAdv := 20
				if refused {
					pAdv = 55
				}
				if kind < pAdv {
					d := genAdvance(rt, p)
					time.Sleep(d)
					evs = append(evs, e2eEvent{Adv: d.String()})
					refused = false
					continue
				}
				if kind >= 93 {
					bi := rapid.IntRange(0, nb-1).Draw(rt, "flip_backend")
					k := drawBackendKind(rt, "flip_to")
					fnet.set(lab.BackendHost(bi), k)
					evs = append(evs, e2eEvent{Flip: fmt.Sprintf("%s:=%s", lab.BackendName(bi), k.Name)})
					continue
				}
				cnt := 1
				parallel := false
				if kind >= 60 {
					cnt = rapid.IntRange(1, p.Max+2).Draw(rt, "burst")
					parallel = cnt > 1 && rapid.IntRange(0, 2).Draw(rt, "parallel") == 0
				}
				id := rapid.IntRange(0, ni-1).Draw(rt, "id")
				if pending >= 0 && rapid.IntRange(0, 2).Draw(rt, "back") > 0 {
					id = pending
				}
				pending = -1
				axBurst := 0
				if rapid.IntRange(0, 11).Draw(rt, "ambiguous") == 0 {
					id = -1
					axBurst = rapid.IntRange(0, len(ambiguousXFF)-1).Draw(rt, "axff") // one value for the whole burst
				}
				// all draws of the burst first: the requests of a concurrent burst are built before any runs
				batch := make([]*e2eReq, 0, cnt)
				for q := 0; q < cnt; q++ {
					r := &e2eReq{ID: id}
					port := rapid.IntRange(1024, 65535).Draw(rt, "port")
					// peer address used when the identity travels in a header: the shared proxy, or — to
					// show that headers dominate — the address of some identity that is also a TCP peer
					via := proxyHost
					if c := rapid.IntRange(-1, ni-1).Draw(rt, "via"); c >= 0 && ids[c].CanRemote {
						via = ids[c].Addr
					}
					if id < 0 {
						uniq++
						r.How = "xff-first-element-empty"
						// The rule is silent on WHICH address such a request is attributed to, but whatever reading
						// is applied it is a function of these three inputs: requests that repeat the same header
						// value from the same peer host belong to one client, so the upper bound applies to them.
						ax := axBurst
						r.Remote = hostPort(fmt.Sprintf("198.18.7.%d", 1+ax), port)
						r.XFF = []string{ambiguousXFF[ax]}
						r.Amb = ax + 1
					} else {
						a := ids[id].Addr
						other := "203.0.113.9"
						if o := rapid.IntRange(0, ni-1).Draw(rt, "other"); o != id {
							other = ids[o].Addr
						}
						var options []string
						if ids[id].CanRemote {
							options = append(options, "peer", "peer")
						}
						options = append(options, "xri")
						if ids[id].NoComma {
							options = append(options, "xff", "xff-list", "xff-list-odd-spacing", "xff-two-lines", "xff-beats-xri")
						}
						r.How = rapid.SampledFrom(options).Draw(rt, "how")
						r.Remote = hostPort(via, port)
						switch r.How {
						case "peer":
							r.Remote = hostPort(a, port)
						case "xri":
							r.XRI = a
						case "xff":
							r.XFF = []string{a}
						case "xff-list":
							r.XFF = []string{a + ", " + other + ", 10.9.9.9"}
						case "xff-list-odd-spacing":
							r.XFF = []string{a + rapid.SampledFrom([]string{",", " ,", "  ,  ", ",\t", " , ,"}).Draw(rt, "sep") + other}
						case "xff-two-lines":
							r.XFF = []string{a, other}
						case "xff-beats-xri":
							r.XFF = []string{a}
							r.XRI = other
						}
					}
					// the reference attribution must agree with the intended identity (harness self-check)
					if got, ok := Attributed(r.XFF, r.XRI, r.Remote); id >= 0 && (!ok || got != ids[id].Addr) || id < 0 && ok {
						rt.Fatalf("harness: presentation %+v attributed to %q/%v, intended identity %d", r, got, ok, id)
					}
					rid++
					r.rid = fmt.Sprintf("r%d", rid)
					r.k = rid
					if d := dress.At(rid); d.Name != "plain-get" {
						r.Dress = d.Name
					}
					if r.neg = neg.draw(rt, id); r.neg > 0 {
						r.Wants = negotiations[r.neg-1].Name
					}
					batch = append(batch, r)
				}
				run := func(r *e2eReq) {
					req := dress.At(r.k).Request("/x", r.Remote)
					for _, l := range r.XFF {
						req.Header.Add("X-Forwarded-For", l)
					}
					if r.XRI != "" {
						req.Header.Set("X-Real-IP", r.XRI)
					}
					applyNegotiation(req.Header, r.neg)
					req.Header.Set(ridHeader, r.rid)
					r.at = time.Since(start) // the limiter decides when the request arrives
					r.At = r.at.String()
					r.Status, _, _, r.Aborted = lab.Serve(lb, req)
					r.Fwd, r.Backend = fnet.arrivals(r.rid)
				}
				if parallel {
					parallelBursts++
					var wg sync.WaitGroup
					for _, r := range batch {
						wg.Add(1)
						go func(r *e2eReq) { defer wg.Done(); run(r) }(r)
					}
					wg.Wait()
					// the requests of a concurrent burst reach the limiter in an order the client does not
					// control: read in the order most favourable to the proxy (admitted ones first)
					sort.SliceStable(batch, func(a, b int) bool { return batch[a].Status != 429 && batch[b].Status == 429 })
				} else {
					for _, r := range batch {
						run(r)
					}
				}
				for _, r := range batch {
					r.Parallel = parallel
					evs = append(evs, e2eEvent{Req: r})
					if r.Backend != "" {
						kindsSeen[r.Backend] = true
					}
					if r.neg > 0 {
						wantsSeen[r.Wants] = true
						if r.Fwd == 0 {
							wantsRefused = true
						}
					}
					if viol != "" {
						continue
					}
					switch {
					case r.Status == 429 && r.Fwd != 0:
						viol = fmt.Sprintf("request %s answered 429 was forwarded to a backend %d time(s)", r.rid, r.Fwd)
					case r.Status != 429 && r.Fwd > 1:
						viol = fmt.Sprintf("request %s answered %d (not 429) reached a backend %d times, expected exactly once", r.rid, r.Status, r.Fwd)
					case r.Status != 429 && r.Fwd == 0 && !(passive && r.Status == 503):
						viol = fmt.Sprintf("request %s (dress %q, stated preferences %q) answered %d (not 429) reached no backend: an excess request must be answered 429, an admitted one is handed to exactly one backend", r.rid, r.Dress, r.Wants, r.Status)
					}
					if id < 0 {
						ambiguous++
						if r.Status != 429 {
							ambAdmitted[r.Amb] = append(ambAdmitted[r.Amb], r.at)
						}
						continue
					}
					hows[id][r.How] = true
					hist[id] = append(hist[id], Call{T: r.at, Admitted: r.Status != 429})
					if r.Fwd > 0 {
						fwdAt[id] = append(fwdAt[id], r.at)
						for _, k := range backendKinds {
							if k.Name == r.Backend && k.NoHead {
								failedExchange[id] = true
							}
						}
					}
					if r.Status == 429 {
						refused, pending = true, id
						if failedExchange[id] {
							refusedAfterFail = true
						}
					}
				}
			}
			fnet.fn.ReleaseAll()
		})
		if viol == "" && fnet.total != fnet.fn.Arrivals() {
			rt.Fatalf("harness: fault layer saw %d arrivals, the fake network %d", fnet.total, fnet.fn.Arrivals())
		}
		nt := false
		labels := []string{strategy, fmt.Sprintf("max%d", p.Max)}
		if ni > 1 {
			labels = append(labels, "multi-identity")
		}
		if ambiguous > 0 {
			labels = append(labels, "has-xff-first-element-empty")
		}
		if passive {
			labels = append(labels, "passive-health-checks")
		}
		if parallelBursts > 0 {
			labels = append(labels, "concurrent-burst")
		}
		if refusedAfterFail {
			labels = append(labels, "refused-after-failed-exchange")
		}
		if wantsRefused {
			labels = append(labels, "not-forwarded-request-stated-preferences")
		}
		for _, w := range keysOf(wantsSeen) {
			labels = append(labels, "wants-"+w)
		}
		for _, k := range keysOf(kindsSeen) {
			labels = append(labels, "backend-"+k)
		}
		for ax, at := range ambAdmitted {
			sort.Slice(at, func(i, j int) bool { return at[i] < at[j] })
			if v := checkB1(p, at, "not answered 429", nil); v != "" && viol == "" {
				viol = fmt.Sprintf("requests that all carry X-Forwarded-For: %q from one peer host (one client under every reading of the address rule): %s", ambiguousXFF[ax-1], v)
			}
		}
		anyRefused, idle := false, false
		howSeen := map[string]bool{}
		for i := range hist {
			v, st := CheckClient(p, hist[i])
			if v != "" && viol == "" {
				viol = fmt.Sprintf("attributed address %q (identity %d, presented as %v), requests not answered 429: %s", ids[i].Addr, i, keysOf(hows[i]), v)
			}
			if v := CheckForwarded(p, fwdAt[i]); v != "" && viol == "" {
				viol = fmt.Sprintf("attributed address %q (identity %d, presented as %v), requests that reached a backend: %s", ids[i].Addr, i, keysOf(hows[i]), v)
			}
			if st.ReadmittedAfterAdvance && len(hows[i]) >= 2 {
				nt = true
			}
			anyRefused = anyRefused || st.Refused > 0
			idle = idle || st.IdleClause > 0
			for h := range hows[i] {
				howSeen[h] = true
			}
			labels = append(labels, "addr-"+ids[i].Class)
		}
		labels = dedup(labels)
		for _, h := range keysOf(howSeen) {
			labels = append(labels, "how-"+h)
		}
		if anyRefused {
			labels = append(labels, "refused")
		}
		if idle {
			labels = append(labels, "idle-clause-exercised")
		}
		sub.Case(map[string]any{"p": p, "strategy": strategy, "backends": setup, "handler_timeout_s": handlerS, "passive": passive, "identities": ids, "events": evs, "dress": dress, "negotiation": neg}, nt, append(labels, dress.Label(), neg.Label())...)
		if viol != "" {
			rt.Fatalf("%s\nmax_tokens=%d refill=%v handler_timeout=%ds passive=%v strategy=%s backends=%v identities=%+v\nevents=%s", viol, p.Max, p.R, handlerS, passive, strategy, setup, ids, showEvents(evs))
		}
	})
}

func containsComma(s string) bool {
	for i := 0; i < len(s); i++ {
		if s[i] == ',' {
			return true
		}
	}
	return false
}

func keysOf(m map[string]bool) []string {
	out := make([]string, 0, len(m))
	for k := range m {
		out = append(out, k)
	}
	sort.Strings(out)
	return out
}

func dedup(in []string) []string {
	seen := map[string]bool{}
	var out []string
	for _, s := range in {
		if !seen[s] {
			seen[s] = true
			out = append(out, s)
		}
	}
	return out
}

func showEvents(evs []e2eEvent) string {
	b, _ := json.Marshal(evs)
	return string(b)
}
