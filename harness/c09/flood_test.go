//go:build go1.25

package c09

import (
	"fmt"
	"reflect"
	"strings"
	"sync"
	"testing"
	"time"
	"unsafe"

	"github.com/0xReLogic/Helios/internal/loadbalancer"
	"github.com/0xReLogic/Helios/internal/ratelimiter"
	"github.com/0xReLogic/Helios/verifharness/lab"
	"pgregory.net/rapid"
)

// Large client populations. The statement quantifies over all arrival histories of ALL clients; the
// other sub-checks use a handful of addresses, so nothing in them depends on how many buckets the
// limiter holds. Here a few OBSERVED clients are followed exactly (monitor B1-B3 over their whole
// history) while, between their calls, FLOODS of N other distinct addresses (IPv4 and IPv6 mixed)
// make one or two calls each. Isolation ("one client's traffic never changes another's allowance")
// is the metamorphic relation B4: every observed client's calls, replayed alone at the same offsets
// on a fresh limiter that never sees the flood, must get the same decisions.

var floodSizes = []int{100, 5000, 10001, 12000, 50000}

const floodTableSize = 1 << 18

var (
	floodTableOnce sync.Once
	floodTable     []string
)

// floodAddr is the i-th address of the flood population: even i = IPv4 in 100.64.0.0/10, odd i = IPv6
// in 2001:db8:f10d::/48, both in canonical text form (what a TCP peer address looks like).
func floodAddr(i int) string {
	floodTableOnce.Do(func() {
		floodTable = make([]string, floodTableSize)
		for k := range floodTable {
			j := k / 2
			if k%2 == 0 {
				floodTable[k] = fmt.Sprintf("100.%d.%d.%d", 64+(j>>16)&63, (j>>8)&255, j&255)
			} else {
				floodTable[k] = fmt.Sprintf("2001:db8:f10d:%x::%x", 1+j>>16, 1+j&0xffff)
			}
		}
	})
	return floodTable[i%floodTableSize]
}

func isFloodSpace(a string) bool {
	return strings.HasPrefix(a, "100.") || strings.HasPrefix(a, "2001:db8:f10d:")
}

type floodSpec struct {
	N      int             `json:"n"`
	Calls  string          `json:"calls"` // one | two | mixed (every third address calls twice)
	Reuse  bool            `json:"reuse"` // the addresses of the previous flood come back instead of new ones
	Chunks int             `json:"chunks"`
	Gaps   []time.Duration `json:"gaps,omitempty"` // advance between chunks
	first  int             // index of the first address in the flood population
}

func (f floodSpec) String() string {
	who := "new"
	if f.Reuse {
		who = "returning"
	}
	return fmt.Sprintf("flood(%d %s addresses, calls=%s, chunks=%d %v)", f.N, who, f.Calls, f.Chunks, f.Gaps)
}

func genFlood(rt *rapid.T, p Params, sizes []int, prev *floodSpec, next *int) floodSpec {
	f := floodSpec{N: rapid.SampledFrom(sizes).Draw(rt, "flood_n"), Calls: rapid.SampledFrom([]string{"one", "one", "two", "mixed"}).Draw(rt, "flood_calls")}
	f.Chunks = rapid.SampledFrom([]int{1, 1, 2, 3}).Draw(rt, "flood_chunks")
	for i := 1; i < f.Chunks; i++ {
		f.Gaps = append(f.Gaps, rapid.SampledFrom([]time.Duration{eps, p.R / 3, p.R + eps}).Draw(rt, "flood_gap"))
	}
	if prev != nil && rapid.IntRange(0, 3).Draw(rt, "flood_reuse") == 0 {
		f.Reuse, f.first = true, prev.first
		f.N = min(f.N, prev.N)
		return f
	}
	f.first = *next
	*next += f.N
	return f
}

// callsOf says how many calls the k-th address of the flood makes.
func (f floodSpec) callsOf(k int) int {
	switch f.Calls {
	case "two":
		return 2
	case "mixed":
		if k%3 == 0 {
			return 2
		}
	}
	return 1
}

// run plays the flood: call(addr) is one request of that address and returns whether it was admitted;
// pause(d) lets time pass. fresh addresses (never seen in this case) are checked against B2 / B1:
// the first call of a never-seen client is admitted; its second call at the same instant is admitted
// when max_tokens >= 2 and refused when max_tokens is 1.
func (f floodSpec) run(p Params, call func(addr string) bool, pause func(time.Duration)) string {
	per := (f.N + f.Chunks - 1) / f.Chunks
	for k := 0; k < f.N; k++ {
		if k > 0 && k%per == 0 {
			pause(f.Gaps[k/per-1])
		}
		a := floodAddr(f.first + k)
		for q := 0; q < f.callsOf(k); q++ {
			ok := call(a)
			if f.Reuse {
				continue
			}
			switch {
			case !ok && q < p.Max:
				return fmt.Sprintf("B2 fresh client: call #%d of the never-seen address %s (address #%d of a flood of %d new addresses) was refused, max_tokens is %d", q+1, a, k+1, f.N, p.Max)
			case ok && q >= p.Max:
				return fmt.Sprintf("B1 burst: %d requests of address %s (address #%d of a flood) admitted at one instant, max_tokens is %d", q+1, a, k+1, p.Max)
			}
		}
	}
	return ""
}

// floodPlan draws where in a history of n events the floods happen (at most maxFloods of them).
func floodPlan(rt *rapid.T, n, maxFloods int) map[int]bool {
	at := map[int]bool{}
	for i := rapid.IntRange(1, maxFloods).Draw(rt, "floods"); i > 0; i-- {
		at[rapid.IntRange(1, n-2).Draw(rt, "flood_at")] = true
	}
	return at
}

// observedKeys draws distinct keys outside the flood population.
func observedKeys(rt *rapid.T, nc int, onlyIPs bool) ([]string, map[string]bool) {
	keys := make([]string, 0, nc)
	classes := map[string]bool{}
	seen := map[string]bool{proxyHost: true}
	for len(keys) < nc {
		k, class := genAddr(rt)
		if seen[k] || isFloodSpace(k) || k == "" || onlyIPs && !canonicalIP(k) {
			if rapid.Bool().Draw(rt, "fallback_v6") {
				k, class = fmt.Sprintf("2001:db8:0:1::%x", len(keys)+1), "ipv6"
			} else {
				k, class = fmt.Sprintf("192.0.2.%d", 10+len(keys)), "ipv4"
			}
			if seen[k] {
				continue
			}
		}
		seen[k] = true
		keys = append(keys, k)
		classes[class] = true
	}
	return keys, classes
}

// carried reports whether the history of an observed client shows that its allowance survived a flood:
// one of the first max calls it made after the flood ended was refused (a bucket that had been
// forgotten during the flood would have admitted it).
func carried(p Params, calls []Call, callsBefore int) bool {
	if callsBefore == 0 {
		return false
	}
	for i := callsBefore; i < len(calls) && i < callsBefore+p.Max; i++ {
		if !calls[i].Admitted {
			return true
		}
	}
	return false
}

func TestC09LargePopulation(t *testing.T) {
	sub := lab.Sub("limiter-large-population", "rapid histories of 8..30 events on ratelimiter.TokenBucketRateLimiter.Allow in virtual time: 1-3 OBSERVED clients (keys: arbitrary address-like strings) make calls and bursts, time advances (as in limiter-model; refill in {500ms,1s,2s,1m,10m}, max_tokens 1..5), "+
		"and 1-3 times per history a FLOOD of N other distinct addresses, N drawn from {100, 5000, 10001, 12000, 50000}, IPv4 and IPv6 alternating, each making one or two calls, in 1-3 chunks with pauses, new addresses or the previous flood's addresses coming back; "+
		"the generator tends to drain an observed client right before a flood and to bring it back right after; the limiter's janitor pass runs at every 10-minute grid instant crossed (as in limiter-janitor-long-horizon); "+
		"oracle: B1/B2/B3 of the monitor over every observed client's whole history, B4 isolation: every observed client's calls replayed alone at the same offsets on a fresh limiter that never sees a flood get the same decisions, "+
		"B2/B1 for every never-seen flood address (first call admitted; second call at the same instant admitted iff max_tokens >= 2); "+
		"non-trivial = a flood of >= 10001 addresses ran between two calls of an observed client and one of that client's first max_tokens calls after it was refused (its used-up allowance demonstrably survived the flood)")
	sub.NontrivialFloor(0.20)
	sub.Floor("flood>=10001", 0.50)
	lab.Assume("large populations: flood addresses are generated from a counter (distinct by construction), not drawn one by one; population sizes above 50000 per flood (150000 per history) are not explored")
	refillsPop := []time.Duration{500 * time.Millisecond, time.Second, 2 * time.Second, time.Minute, 10 * time.Minute}
	lab.Check(t, sub, 480, 12000, func(rt *rapid.T) {
		p := Params{Max: rapid.IntRange(1, 5).Draw(rt, "max"), R: rapid.SampledFrom(refillsPop).Draw(rt, "refill")}
		nc := rapid.IntRange(1, 3).Draw(rt, "observed")
		keys, classes := observedKeys(rt, nc, false)
		n := rapid.IntRange(8, 30).Draw(rt, "n")
		floodAt := floodPlan(rt, n, 3)
		next := rapid.IntRange(0, 4000).Draw(rt, "flood_base")

		// limiters own a never-ending janitor goroutine: construct them outside the bubble
		mixed := ratelimiter.NewTokenBucketRateLimiter(p.Max, p.R)
		alone := make([]*ratelimiter.TokenBucketRateLimiter, nc)
		for c := range alone {
			alone[c] = ratelimiter.NewTokenBucketRateLimiter(p.Max, p.R)
		}

		var evs []string
		hist := make([][]Call, nc)
		var viol string
		nt := false
		biggest, floodCalls := 0, 0
		rapid.SyncTest(rt, func(rt *rapid.T) {
			start := time.Now()
			nextTick := janitorTick
			advanceOn := func(rl *ratelimiter.TokenBucketRateLimiter, origin time.Time, tick *time.Duration, d time.Duration) {
				target := time.Since(origin) + d
				for *tick <= target {
					time.Sleep(*tick - time.Since(origin))
					rl.VerifCleanup()
					*tick += janitorTick
				}
				time.Sleep(target - time.Since(origin))
			}
			advance := func(d time.Duration) { advanceOn(mixed, start, &nextTick, d) }
			burst := func(c, cnt int) (refused bool) {
				evs = append(evs, fmt.Sprintf("burst(c%d,%d)", c, cnt))
				for q := 0; q < cnt; q++ {
					ok := mixed.Allow(keys[c])
					hist[c] = append(hist[c], Call{T: time.Since(start), Admitted: ok})
					refused = refused || !ok
				}
				return refused
			}
			var prev *floodSpec
			lastRefused, pending := -1, -1
			type mark struct {
				before []int
				big    bool
			}
			var marks []mark
			for i := 0; i < n && viol == ""; i++ {
				if floodAt[i] {
					f := genFlood(rt, p, floodSizes, prev, &next)
					victim := -1
					if rapid.IntRange(0, 2).Draw(rt, "drain") > 0 {
						victim = rapid.IntRange(0, nc-1).Draw(rt, "victim")
						burst(victim, rapid.IntRange(1, p.Max+1).Draw(rt, "drain_n"))
					}
					evs = append(evs, f.String())
					viol = f.run(p, func(a string) bool { floodCalls++; return mixed.Allow(a) }, advance)
					prev = &f
					biggest = max(biggest, f.N)
					m := mark{big: f.N >= 10001}
					for c := range hist {
						m.before = append(m.before, len(hist[c]))
					}
					marks = append(marks, m)
					if victim >= 0 && viol == "" && rapid.IntRange(0, 2).Draw(rt, "return") > 0 {
						burst(victim, rapid.IntRange(1, p.Max+1).Draw(rt, "return_n"))
					}
					continue
				}
				kind := rapid.IntRange(0, 99).Draw(rt, "kind")
				pAdv := 22
				if lastRefused >= 0 {
					pAdv = 50
				}
				if kind < pAdv {
					d := genAdvance(rt, p)
					evs = append(evs, "adv("+d.String()+")")
					advance(d)
					if lastRefused >= 0 {
						pending, lastRefused = lastRefused, -1
					}
					continue
				}
				c := rapid.IntRange(0, nc-1).Draw(rt, "c")
				if pending >= 0 && rapid.IntRange(0, 2).Draw(rt, "back") > 0 {
					c = pending
				}
				pending = -1
				cnt := 1
				if kind >= 55 {
					cnt = rapid.IntRange(1, p.Max+2).Draw(rt, "burst")
				}
				if burst(c, cnt) {
					lastRefused = c
				}
			}
			for _, m := range marks {
				for c := range hist {
					if m.big && carried(p, hist[c], m.before[c]) {
						nt = true
					}
				}
			}
			// B4: every observed client alone, same offsets, on a limiter that never sees a flood
			for c := 0; c < nc && viol == ""; c++ {
				origin := time.Now()
				tick := janitorTick
				for i, call := range hist[c] {
					if g := call.T - time.Since(origin); g > 0 {
						advanceOn(alone[c], origin, &tick, g)
					}
					if got := alone[c].Allow(keys[c]); got != call.Admitted {
						viol = fmt.Sprintf("B4 isolation: observed client c%d (key %q): call #%d at t=%v was %s in the history with the floods but %s when the same calls are made at the same times on a limiter no other client ever used",
							c, keys[c], i+1, call.T, word(call.Admitted), word(got))
						break
					}
				}
			}
			// let the janitor forget everything (all buckets idle and full): the limiter's goroutine
			// keeps the table reachable for the rest of the process
			time.Sleep(2*time.Hour + time.Duration(p.Max+1)*p.R)
			mixed.VerifCleanup()
		})
		labels := []string{fmt.Sprintf("max%d", p.Max), "refill-" + p.R.String(), fmt.Sprintf("observed%d", nc), fmt.Sprintf("biggest-flood-%d", biggest)}
		if biggest >= 10001 {
			labels = append(labels, "flood>=10001")
		}
		for _, cl := range []string{"ipv4", "ipv6", "ipv4-mapped", "junk"} {
			if classes[cl] {
				labels = append(labels, "key-"+cl)
			}
		}
		for c := range hist {
			v, st := CheckClient(p, hist[c])
			if v != "" && viol == "" {
				viol = fmt.Sprintf("observed client c%d (key %q): %s", c, keys[c], v)
			}
			if st.Refused > 0 {
				labels = append(labels, "refused")
			}
			if st.IdleClause > 0 {
				labels = append(labels, "idle-clause-exercised")
			}
		}
		sub.Case(map[string]any{"p": p, "keys": keys, "events": evs, "flood_calls": floodCalls}, nt, dedup(labels)...)
		if viol != "" {
			rt.Fatalf("max_tokens=%d refill=%v observed keys=%q events %v: %s", p.Max, p.R, keys, evs, viol)
		}
	})
}

// limiterOf digs the balancer's limiter out of its unexported field. Used for memory hygiene ONLY (no
// observation, no oracle goes through it): the limiter's janitor goroutine never ends, so the bucket
// table of every balancer a case built stays reachable for the rest of the process, and the tables of
// these cases are large. At the end of a case the janitor pass is run once, far enough in the (virtual)
// future that every bucket is idle and full. nil when the field is not there any more (then nothing is freed).
func limiterOf(lb *loadbalancer.LoadBalancer) *ratelimiter.TokenBucketRateLimiter {
	f := reflect.ValueOf(lb).Elem().FieldByName("rateLimiter")
	if !f.IsValid() || !f.CanAddr() || f.Kind() != reflect.Interface {
		return nil
	}
	rl, _ := reflect.NewAt(f.Type(), unsafe.Pointer(f.UnsafeAddr())).Elem().Interface().(*ratelimiter.TokenBucketRateLimiter)
	return rl
}

// The same through the real LoadBalancer: observed identities and flood addresses arrive as TCP peers
// or in X-Forwarded-For behind a shared front proxy; backends answer 200.
func TestC09LargePopulationEndToEnd(t *testing.T) {
	sub := lab.Sub("limiter-large-population-end-to-end", "rapid histories of 6..16 events through the real LoadBalancer.ServeHTTP (rate_limit by configuration, max_tokens 1..5, refill 1..3 s, drawn strategy, 2 backends answering 200), virtual time: 1-2 OBSERVED client addresses (IP addresses, presented as TCP peer or as X-Forwarded-For behind a front proxy) "+
		"make requests and bursts, time advances, and 1-2 times a FLOOD of N other distinct addresses (N from {100, 5000, 10001, 12000}, thorough also 50000, the first flood of a history always >= 10001; IPv4/IPv6 alternating; every address presented as peer or in X-Forwarded-For) makes one or two requests each; "+
		"oracle: 429 <=> not forwarded for every request (flood requests in total), B1/B2/B3 per observed address, B2/B1 for never-seen flood addresses, B4 isolation: the observed clients' requests replayed at the same offsets through a second balancer of the same configuration that never sees a flood get the same answers; "+
		"non-trivial = as in limiter-large-population")
	sub.NontrivialFloor(0.15)
	sizes := []int{100, 5000, 10001, 12000}
	if lab.Thorough() {
		sizes = append(sizes, 50000)
	}
	lab.Check(t, sub, 24, 400, func(rt *rapid.T) {
		p := Params{Max: rapid.IntRange(1, 5).Draw(rt, "max")}
		rs := rapid.IntRange(1, 3).Draw(rt, "refill_s")
		p.R = time.Duration(rs) * time.Second
		strategy := rapid.SampledFrom(lab.Strategies).Draw(rt, "strategy")
		nc := rapid.IntRange(1, 2).Draw(rt, "observed")
		keys, _ := observedKeys(rt, nc, true)
		n := rapid.IntRange(6, 16).Draw(rt, "n")
		floodAt := floodPlan(rt, n, 2)
		next := rapid.IntRange(0, 4000).Draw(rt, "flood_base")
		floodVia := rapid.SampledFrom([]string{"peer", "xff", "alternating"}).Draw(rt, "flood_via")

		mk := func() (*loadbalancer.LoadBalancer, *lab.FakeNet) {
			cfg := lab.BaseConfig(strategy, lab.Ones(2))
			cfg.RateLimit.Enabled, cfg.RateLimit.MaxTokens, cfg.RateLimit.RefillRate = true, p.Max, rs
			if err := cfg.Validate(); err != nil {
				rt.Fatalf("harness: generated config rejected: %v", err)
			}
			lb, err := loadbalancer.NewLoadBalancer(cfg) // outside the bubble (limiter janitor)
			if err != nil {
				rt.Fatalf("harness: NewLoadBalancer: %v", err)
			}
			fn := lab.NewFakeNet()
			fn.Install(lb)
			return lb, fn
		}
		lb, fn := mk()
		defer lb.Stop()
		lbAlone, _ := mk()
		defer lbAlone.Stop()

		type obsReq struct {
			c   int
			xff bool
			at  time.Duration
		}
		serve := func(lb *loadbalancer.LoadBalancer, addr string, xff bool, port int) int {
			var req = lab.Request("GET", "/x", hostPort(addr, port), nil)
			if xff {
				req = lab.Request("GET", "/x", hostPort(proxyHost, port), nil)
				req.Header.Set("X-Forwarded-For", addr)
			}
			status, _, _, _ := lab.Serve(lb, req)
			return status
		}
		var evs []string
		var reqs []obsReq
		hist := make([][]Call, nc)
		var viol string
		nt := false
		biggest := 0
		rapid.SyncTest(rt, func(rt *rapid.T) {
			start := time.Now()
			burst := func(c, cnt int) (refused bool) {
				evs = append(evs, fmt.Sprintf("burst(c%d,%d)", c, cnt))
				for q := 0; q < cnt && viol == ""; q++ {
					r := obsReq{c: c, xff: rapid.Bool().Draw(rt, "xff"), at: time.Since(start)}
					before := fn.Arrivals()
					status := serve(lb, keys[c], r.xff, 2000+len(reqs))
					fwd := fn.Arrivals() - before
					reqs = append(reqs, r)
					hist[c] = append(hist[c], Call{T: r.at, Admitted: status != 429})
					if status == 429 && fwd != 0 || status != 429 && fwd != 1 {
						viol = fmt.Sprintf("request of observed client c%d (%s) answered %d reached a backend %d time(s)", c, keys[c], status, fwd)
					}
					refused = refused || status == 429
				}
				return refused
			}
			var prev *floodSpec
			lastRefused := -1
			type mark struct {
				before []int
				big    bool
			}
			var marks []mark
			for i := 0; i < n && viol == ""; i++ {
				if floodAt[i] {
					fs := sizes
					if prev == nil {
						fs = sizes[2:] // the few histories run here all contain a flood that is large
					}
					f := genFlood(rt, p, fs, prev, &next)
					victim := -1
					if rapid.IntRange(0, 3).Draw(rt, "drain") > 0 {
						victim = rapid.IntRange(0, nc-1).Draw(rt, "victim")
						burst(victim, rapid.IntRange(1, p.Max+1).Draw(rt, "drain_n"))
					}
					evs = append(evs, f.String()+" via "+floodVia)
					before := fn.Arrivals()
					admitted, k := 0, 0
					if viol == "" {
						viol = f.run(p, func(a string) bool {
							k++
							xff := floodVia == "xff" || floodVia == "alternating" && k%2 == 0
							ok := serve(lb, a, xff, 1024+k%60000) != 429
							if ok {
								admitted++
							}
							return ok
						}, func(d time.Duration) { time.Sleep(d) })
					}
					if fwd := fn.Arrivals() - before; viol == "" && fwd != admitted {
						viol = fmt.Sprintf("flood of %d addresses: %d requests were not answered 429 but %d reached a backend", f.N, admitted, fwd)
					}
					prev = &f
					biggest = max(biggest, f.N)
					m := mark{big: f.N >= 10001}
					for c := range hist {
						m.before = append(m.before, len(hist[c]))
					}
					marks = append(marks, m)
					if victim >= 0 && viol == "" && rapid.IntRange(0, 3).Draw(rt, "return") > 0 {
						burst(victim, rapid.IntRange(1, p.Max+1).Draw(rt, "return_n"))
					}
					continue
				}
				kind := rapid.IntRange(0, 99).Draw(rt, "kind")
				pAdv := 22
				if lastRefused >= 0 {
					pAdv = 50
				}
				if kind < pAdv {
					d := genAdvance(rt, p)
					evs = append(evs, "adv("+d.String()+")")
					time.Sleep(d)
					lastRefused = -1
					continue
				}
				c := rapid.IntRange(0, nc-1).Draw(rt, "c")
				cnt := 1
				if kind >= 55 {
					cnt = rapid.IntRange(1, p.Max+2).Draw(rt, "burst")
				}
				if burst(c, cnt) {
					lastRefused = c
				}
			}
			for _, m := range marks {
				for c := range hist {
					if m.big && carried(p, hist[c], m.before[c]) {
						nt = true
					}
				}
			}
			// B4: the observed clients' requests alone, same offsets, through the second balancer
			origin := time.Now()
			idx := make([]int, nc)
			for i, r := range reqs {
				if viol != "" {
					break
				}
				if g := r.at - time.Since(origin); g > 0 {
					time.Sleep(g)
				}
				status := serve(lbAlone, keys[r.c], r.xff, 2000+i)
				want := hist[r.c][idx[r.c]]
				idx[r.c]++
				if (status != 429) != want.Admitted {
					viol = fmt.Sprintf("B4 isolation: observed client c%d (%s): its request #%d at t=%v was %s in the history with the floods but %s when the observed clients' requests are made at the same times through a balancer no other client ever used",
						r.c, keys[r.c], idx[r.c], r.at, word(want.Admitted), word(status != 429))
				}
			}
			time.Sleep(2*time.Hour + time.Duration(p.Max+1)*p.R)
			for _, b := range []*loadbalancer.LoadBalancer{lb, lbAlone} {
				if rl := limiterOf(b); rl != nil {
					rl.VerifCleanup()
				}
			}
		})
		labels := []string{strategy, fmt.Sprintf("max%d", p.Max), fmt.Sprintf("observed%d", nc), fmt.Sprintf("biggest-flood-%d", biggest), "flood-via-" + floodVia}
		if biggest >= 10001 {
			labels = append(labels, "flood>=10001")
		}
		for c := range hist {
			v, st := CheckClient(p, hist[c])
			if v != "" && viol == "" {
				viol = fmt.Sprintf("observed client c%d (address %s): %s", c, keys[c], v)
			}
			if st.Refused > 0 {
				labels = append(labels, "refused")
			}
		}
		sub.Case(map[string]any{"p": p, "strategy": strategy, "keys": keys, "events": evs}, nt, dedup(labels)...)
		if viol != "" {
			rt.Fatalf("max_tokens=%d refill=%v strategy=%s observed addresses=%q events %v: %s", p.Max, p.R, strategy, keys, evs, viol)
		}
	})
}
