//go:build go1.25

package c09

import (
	"fmt"
	"testing"
	"time"

	"github.com/0xReLogic/Helios/internal/ratelimiter"
	"github.com/0xReLogic/Helios/verifharness/lab"
	"pgregory.net/rapid"
)

const eps = time.Millisecond

var refills = []time.Duration{500 * time.Millisecond, time.Second, 2 * time.Second}

type mEvent struct {
	K string        `json:"k"`           // call | burst | adv
	C int           `json:"c,omitempty"` // client index
	N int           `json:"n,omitempty"` // burst size
	D time.Duration `json:"d,omitempty"` // advance
}

func (e mEvent) String() string {
	switch e.K {
	case "adv":
		return "adv(" + e.D.String() + ")"
	case "burst":
		return fmt.Sprintf("burst(c%d,%d)", e.C, e.N)
	}
	return fmt.Sprintf("call(c%d)", e.C)
}

// advances never land exactly on a multiple of r by themselves; sums of them can (r/2 + r/2), which
// the monitor then reads in the weaker way (see CheckClient B3).
func genAdvance(t *rapid.T, p Params) time.Duration {
	r := p.R
	k := time.Duration(rapid.IntRange(2, p.Max+2).Draw(t, "k"))
	pool := []time.Duration{eps, r / 3, r / 2, r - eps, r + eps, r + r/2, k*r - eps, k*r + eps, time.Duration(p.Max+3)*r + eps}
	return rapid.SampledFrom(pool).Draw(t, "d")
}

func TestC09Model(t *testing.T) {
	sub := lab.Sub("limiter-model", "rapid histories of 6..40 (quick) / 6..60 (thorough) events over {call(c), burst(c,n<=max+2), advance d in {1ms, r/3, r/2, r-1ms, r+1ms, 1.5r, k*r-1ms, k*r+1ms, (max+3)r+1ms}} "+
		"on ratelimiter.TokenBucketRateLimiter.Allow inside a synctest bubble (virtual time; the limiter and its janitor are built outside the bubble), "+
		"max_tokens 1..5, refill in {500ms,1s,2s}, 1..4 clients whose keys are arbitrary address-like strings (IPv4, IPv6, IPv4-mapped, junk, empty); "+
		"oracle per client over the WHOLE history: B1 burst<=max and every pair i<=j of admission times n<=max+floor(T/r)+1, B2 fresh client gets a full burst, "+
		"B3 no call for g => next min(floor(g/r),max) calls at one instant admitted, B4 isolation: one drawn client's calls replayed alone with the same gaps on a fresh limiter give the same decisions; "+
		"non-trivial = some client was refused and admitted again after an advance")
	sub.NontrivialFloor(0.40)
	sub.Floor("idle-clause-exercised", 0.40)
	sub.Floor("multi-client", 0.40)
	maxLen := lab.Scale(40, 60)
	lab.Check(t, sub, 40000, 800000, func(rt *rapid.T) {
		p := Params{Max: rapid.IntRange(1, 5).Draw(rt, "max"), R: rapid.SampledFrom(refills).Draw(rt, "refill")}
		nc := rapid.IntRange(1, 4).Draw(rt, "clients")
		keys := make([]string, 0, nc)
		classes := map[string]bool{}
		seen := map[string]bool{}
		for len(keys) < nc {
			k, class := genAddr(rt)
			if rapid.IntRange(0, 39).Draw(rt, "emptykey") == 0 {
				k, class = "", "junk"
			}
			if seen[k] {
				k = fmt.Sprintf("%s#%d", k, len(keys)) // keep keys distinct by construction
			}
			seen[k] = true
			keys = append(keys, k)
			classes[class] = true
		}
		solo := rapid.IntRange(0, nc-1).Draw(rt, "solo")
		n := rapid.IntRange(6, maxLen).Draw(rt, "n")

		// both limiters own a never-ending janitor goroutine: construct them outside the bubble
		mixed := ratelimiter.NewTokenBucketRateLimiter(p.Max, p.R)
		alone := ratelimiter.NewTokenBucketRateLimiter(p.Max, p.R)

		var evs []mEvent
		hist := make([][]Call, nc)
		var viol string
		rapid.SyncTest(rt, func(rt *rapid.T) {
			start := time.Now()
			lastRefused, pending := -1, -1 // pending: a client that was refused and has seen time pass since
			for i := 0; i < n; i++ {
				kind := rapid.IntRange(0, 99).Draw(rt, "kind")
				pAdv := 22
				if lastRefused >= 0 {
					pAdv = 60 // construction: after a refusal time tends to pass
				}
				switch {
				case kind < pAdv:
					d := genAdvance(rt, p)
					evs = append(evs, mEvent{K: "adv", D: d})
					time.Sleep(d)
					if lastRefused >= 0 {
						pending, lastRefused = lastRefused, -1
					}
				default:
					c := rapid.IntRange(0, nc-1).Draw(rt, "c")
					if pending >= 0 && rapid.IntRange(0, 2).Draw(rt, "back") > 0 {
						c = pending // ... and the refused client tends to come back
					}
					pending = -1
					cnt := 1
					if kind >= 55 {
						cnt = rapid.IntRange(1, p.Max+2).Draw(rt, "burst")
						evs = append(evs, mEvent{K: "burst", C: c, N: cnt})
					} else {
						evs = append(evs, mEvent{K: "call", C: c})
					}
					for q := 0; q < cnt; q++ {
						ok := mixed.Allow(keys[c])
						hist[c] = append(hist[c], Call{T: time.Since(start), Admitted: ok})
						if !ok {
							lastRefused = c
						}
					}
				}
			}
			// B4: replay the drawn client's calls alone, same gaps, on the fresh limiter
			for i, c := range hist[solo] {
				if i > 0 {
					if g := c.T - hist[solo][i-1].T; g > 0 {
						time.Sleep(g)
					}
				}
				if got := alone.Allow(keys[solo]); got != c.Admitted {
					viol = fmt.Sprintf("B4 isolation: client c%d (key %q): call #%d at t=%v was %s in the mixed history but %s when the same calls are made alone on a fresh limiter",
						solo, keys[solo], i+1, c.T, word(c.Admitted), word(got))
					return
				}
			}
		})
		nt := false
		labels := []string{fmt.Sprintf("max%d", p.Max), fmt.Sprintf("clients%d", nc)}
		if nc > 1 {
			labels = append(labels, "multi-client")
		}
		for cl := range map[string]bool{"ipv4": true, "ipv6": true, "ipv4-mapped": true, "junk": true} {
			if classes[cl] {
				labels = append(labels, "key-"+cl)
			}
		}
		var agg Stats
		for c := range hist {
			v, st := CheckClient(p, hist[c])
			if v != "" && viol == "" {
				viol = fmt.Sprintf("client c%d (key %q): %s", c, keys[c], v)
			}
			nt = nt || st.ReadmittedAfterAdvance
			agg.Refused += st.Refused
			agg.IdleClause += st.IdleClause
			agg.IdleClauseFull += st.IdleClauseFull
			agg.ExactMultipleGap += st.ExactMultipleGap
			agg.FreshBurstFull = agg.FreshBurstFull || st.FreshBurstFull
			if st.MaxWindowSlack <= 1 {
				agg.MaxWindowSlack = 1
			}
		}
		if agg.Refused > 0 {
			labels = append(labels, "refused")
		}
		if agg.IdleClause > 0 {
			labels = append(labels, "idle-clause-exercised")
		}
		if agg.IdleClauseFull > 0 {
			labels = append(labels, "idle-full-refill")
		}
		if agg.FreshBurstFull {
			labels = append(labels, "fresh-full-burst")
		}
		if agg.ExactMultipleGap > 0 {
			labels = append(labels, "gap-exact-multiple-of-r")
		}
		if agg.MaxWindowSlack == 1 {
			labels = append(labels, "window-within-1-of-bound")
		}
		sub.Case(map[string]any{"p": p, "keys": keys, "solo": solo, "events": fmt.Sprint(evs)}, nt, labels...)
		if viol != "" {
			rt.Fatalf("max_tokens=%d refill=%v keys=%q events %v: %s", p.Max, p.R, keys, evs, viol)
		}
	})
}

func word(admitted bool) string {
	if admitted {
		return "admitted"
	}
	return "refused"
}
