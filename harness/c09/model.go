package c09

import (
	"fmt"
	"strings"
	"time"
)

// Reference monitor for the per-client token bucket, written from the statement of C09 only.
//
// The statement gives an upper bound (burst and sliding window), and two lower bounds (a fresh client
// gets a full burst, k idle refill periods are worth min(k, max_tokens) admissions). Between the two
// the implementation is free, so the monitor never predicts a decision: it only rejects admission
// histories the statement forbids.

// Params of one limiter.
type Params struct {
	Max int           `json:"max_tokens"`
	R   time.Duration `json:"refill"`
}

// Call is one limiter decision for one client: T is the (virtual) time since the start of the history.
type Call struct {
	T        time.Duration
	Admitted bool
}

// Stats says which clauses a client's history actually exercised.
type Stats struct {
	Calls, Admitted, Refused int
	ReadmittedAfterAdvance   bool // a refusal, later time passes, later an admission
	IdleClause               int  // how often B3 had something to guarantee (k >= 1)
	IdleClauseFull           int  // ... with k >= max (full refill guaranteed)
	FreshBurstFull           bool // the first instant had >= max calls (B2 fully exercised)
	ExactMultipleGap         int  // idle gaps that are an exact multiple of r (weaker reading used)
	MaxWindowSlack           int  // smallest (bound - admitted) over all windows
}

// CheckClient checks B1 (burst + all sliding windows), B2 (fresh client) and B3 (idle refill) over the
// complete call history of ONE client. Returns "" or a description of the violated clause.
func CheckClient(p Params, calls []Call) (string, Stats) {
	st := Stats{MaxWindowSlack: 1 << 30}
	if len(calls) == 0 {
		return "", st
	}
	var adm []time.Duration
	refusedAt := time.Duration(-1)
	for i, c := range calls {
		if i > 0 && c.T < calls[i-1].T {
			return "harness: call times not monotone", st
		}
		st.Calls++
		if c.Admitted {
			st.Admitted++
			adm = append(adm, c.T)
			if refusedAt >= 0 && c.T > refusedAt {
				st.ReadmittedAfterAdvance = true
			}
		} else {
			st.Refused++
			if refusedAt < 0 {
				refusedAt = c.T
			}
		}
	}
	if v := checkB1(p, adm, "admitted", &st); v != "" {
		return v, st
	}
	// B2: the calls a never-seen client makes at its first instant: the first max of them are admitted.
	n0 := 0
	for n0 < len(calls) && calls[n0].T == calls[0].T {
		n0++
	}
	if n0 >= p.Max {
		st.FreshBurstFull = true
	}
	for i := 0; i < n0 && i < p.Max; i++ {
		if !calls[i].Admitted {
			return fmt.Sprintf("B2 fresh client: call #%d of a never-seen client's first burst (t=%v) was refused, max_tokens is %d", i+1, calls[0].T, p.Max), st
		}
	}
	// B3: no call at all by this client for g >= k*r  =>  its next min(k,max) calls at one instant are admitted.
	// When g is an exact multiple of r the weaker reading (k-1 complete periods strictly inside) is used.
	for m := 1; m < len(calls); m++ {
		g := calls[m].T - calls[m-1].T
		if g <= 0 {
			continue
		}
		if g%p.R == 0 {
			st.ExactMultipleGap++
		}
		k := int((g - 1) / p.R)
		if k < 1 {
			continue
		}
		st.IdleClause++
		if k >= p.Max {
			st.IdleClauseFull++
		}
		guaranteed := min(k, p.Max)
		for q := m; q < len(calls) && calls[q].T == calls[m].T && q-m < guaranteed; q++ {
			if !calls[q].Admitted {
				return fmt.Sprintf("B3 idle refill: client made no call for %v (k=%d refill periods of %v), so min(k,max_tokens)=%d more admissions are due, but call #%d after the pause (t=%v) was refused",
					g, k, p.R, guaranteed, q-m+1, calls[m].T), st
			}
		}
	}
	return "", st
}

// checkB1 is the upper bound of the statement over the instants at which something happened to one
// client's requests (what = "admitted" / "forwarded to a backend"): at most max at one instant, and for
// every pair i <= j at most max + floor(T/refill) + 1 in the interval they span.
func checkB1(p Params, adm []time.Duration, what string, st *Stats) string {
	for i := range adm {
		for j := i; j < len(adm); j++ {
			n := j - i + 1
			span := adm[j] - adm[i]
			if span == 0 {
				if n > p.Max {
					return fmt.Sprintf("B1 burst: %d requests %s at one instant (t=%v), max_tokens is %d", n, what, adm[i], p.Max)
				}
				continue
			}
			bound := p.Max + int(span/p.R) + 1
			if n > bound {
				return fmt.Sprintf("B1 window: %d requests %s in the interval [%v,%v] of length T=%v, bound max_tokens+floor(T/refill)+1 = %d+%d+1 = %d",
					n, what, adm[i], adm[j], span, p.Max, int(span/p.R), bound)
			}
			if st != nil && bound-n < st.MaxWindowSlack {
				st.MaxWindowSlack = bound - n
			}
		}
	}
	return ""
}

// CheckForwarded applies the upper bound B1 alone to the instants at which one client's requests
// reached a backend (times must be monotone): a request that is forwarded was admitted, so the
// forwarded requests of a client obey the same burst and window bound as its admissions, whatever
// the backend does with them afterwards. The lower bounds B2/B3 say nothing about forwarding.
func CheckForwarded(p Params, at []time.Duration) string {
	for i := 1; i < len(at); i++ {
		if at[i] < at[i-1] {
			return "harness: forward times not monotone"
		}
	}
	return checkB1(p, at, "forwarded to a backend", nil)
}

// ---------------------------------------------------------------------------------------------
// Reference re-statement of the documented client-address rule (docs / utils.GetClientIP comment):
// "X-Forwarded-For (first element, trimmed) > X-Real-IP > RemoteAddr without the port".
// ok=false when the rule does not determine an address (first X-Forwarded-For element empty).
// ---------------------------------------------------------------------------------------------

func Attributed(xffLines []string, xRealIP string, remoteAddr string) (addr string, ok bool) {
	if len(xffLines) > 0 {
		// several field lines are one comma-separated list (RFC 9110 5.3)
		first := strings.Join(xffLines, ",")
		if i := strings.IndexByte(first, ','); i >= 0 {
			first = first[:i]
		}
		first = strings.Trim(first, " \t")
		if first != "" {
			return first, true
		}
		// "X-Forwarded-For: , 1.2.3.4" or an empty field line: the documented rule does not say
		// whether the header counts as absent; such requests are not attributed by the reference.
		return "", false
	}
	if xRealIP != "" {
		return xRealIP, true
	}
	return remoteHost(remoteAddr), true
}

// remoteHost strips the port of a "host:port" / "[v6]:port" peer address.
func remoteHost(ra string) string {
	if strings.HasPrefix(ra, "[") {
		if i := strings.IndexByte(ra, ']'); i > 0 {
			return ra[1:i]
		}
		return ra
	}
	if i := strings.LastIndexByte(ra, ':'); i >= 0 && strings.Count(ra, ":") == 1 {
		return ra[:i]
	}
	return ra
}
