package c09

import (
	"io"
	"net"
	"net/http"
	"os"
	"sync"
	"syscall"
	"time"

	"github.com/0xReLogic/Helios/internal/loadbalancer"
	"github.com/0xReLogic/Helios/verifharness/lab"
)

// Backend behaviours of the end-to-end histories. The statement bounds the requests of a client that
// are ADMITTED (answered anything but 429) and says that refused ones are not forwarded; it makes no
// exception for what the backend then does with an admitted request. So every way a backend can treat a
// request it was handed belongs to the domain: answer (2xx/4xx/5xx, with or without an interim
// response), refuse the connection, take the whole request and then reset / close without a response /
// stay silent until the proxy's response-header or end-to-end timeout, break off mid-body, stall after
// the head or mid-body.
//
// lab.FakeNet scripts the behaviours that exist there; the three "the backend received the request and
// then failed before any response head" transport outcomes that FakeNet does not have are added by
// faultNet, a RoundTripper in front of it: the request is handed to FakeNet (recorded as an arrival,
// request body consumed), the answer is thrown away and the error http.Transport reports in that
// situation is returned instead.
type backendKind struct {
	Name string
	Lab  lab.Behaviour
	Mode string // "", "reset", "eof", "header-timeout" (faultNet)
	// NoHead: the exchange with the backend ends without a response head although the request was
	// handed to the transport (the proxy answers 502/504 itself)
	NoHead bool
	// Hangs: the backend goes quiet until the end-to-end handler timeout cuts the exchange
	Hangs bool
}

var backendKinds = []backendKind{
	{Name: "good", Lab: lab.Good},
	{Name: "4xx", Lab: lab.Status4xx},
	{Name: "5xx", Lab: lab.Status5xx},
	{Name: "unreachable", Lab: lab.Unreachable, NoHead: true},
	{Name: "reset-after-request", Lab: lab.Good, Mode: "reset", NoHead: true},
	{Name: "closed-without-response", Lab: lab.Good, Mode: "eof", NoHead: true},
	{Name: "response-header-timeout", Lab: lab.Good, Mode: "header-timeout", NoHead: true},
	{Name: "hang-until-handler-timeout", Lab: lab.Park, NoHead: true, Hangs: true},
	{Name: "abort-mid-body", Lab: lab.AbortBody},
	{Name: "103-then-500", Lab: lab.Interim5xx},
	{Name: "103-then-200", Lab: lab.InterimGood},
	{Name: "head-then-hang", Lab: lab.ParkHead, Hangs: true},
	{Name: "part-of-body-then-hang", Lab: lab.ParkMidBody, Hangs: true},
}

// backendKindWeights: how often each kind is drawn (same order as backendKinds); a good third of the
// backends simply answer, so that the limiter's ordinary behaviour stays well covered.
var backendKindWeights = []int{30, 5, 7, 8, 10, 8, 6, 8, 5, 3, 3, 4, 3}

// headerTimeoutAfter is how long a "response-header-timeout" backend stays silent before the
// (emulated) transport gives up; shorter than every handler timeout used.
const headerTimeoutAfter = 300 * time.Millisecond

const ridHeader = "X-Verif-Rid"

type timeoutError struct{}

func (timeoutError) Error() string   { return "net/http: timeout awaiting response headers" }
func (timeoutError) Timeout() bool   { return true }
func (timeoutError) Temporary() bool { return true }

// faultNet stands between the balancer's reverse proxies and a lab.FakeNet. It counts, per request id
// (header X-Verif-Rid, copied by the reverse proxy like any end-to-end header), how often the request was
// handed to a backend transport - also for requests that run concurrently, where FakeNet.Arrivals
// before/after cannot attribute an arrival to a request.
type faultNet struct {
	fn     *lab.FakeNet
	mu     sync.Mutex
	kind   map[string]backendKind // by host
	byReq  map[string]int         // request id -> arrivals
	kindOf map[string]string      // request id -> behaviour of the backend that received it (last arrival)
	total  int
}

func newFaultNet(lb *loadbalancer.LoadBalancer) *faultNet {
	w := &faultNet{fn: lab.NewFakeNet(), kind: map[string]backendKind{}, byReq: map[string]int{}, kindOf: map[string]string{}}
	w.fn.Install(lb)
	for _, b := range lb.VerifBackends() {
		b.ReverseProxy.Transport = w
	}
	return w
}

func (w *faultNet) set(host string, k backendKind) {
	w.mu.Lock()
	w.kind[host] = k
	w.mu.Unlock()
	w.fn.Set(host, k.Lab)
}

func (w *faultNet) arrivals(rid string) (int, string) {
	w.mu.Lock()
	defer w.mu.Unlock()
	return w.byReq[rid], w.kindOf[rid]
}

func (w *faultNet) RoundTrip(req *http.Request) (*http.Response, error) {
	rid := req.Header.Get(ridHeader)
	host := req.URL.Host
	w.mu.Lock()
	k := w.kind[host]
	w.byReq[rid]++
	w.kindOf[rid] = k.Name
	w.total++
	w.mu.Unlock()
	resp, err := w.fn.RoundTrip(req)
	if k.Mode == "" || err != nil {
		return resp, err
	}
	// the backend has the request; what it says is never seen
	_, _ = io.Copy(io.Discard, resp.Body)
	_ = resp.Body.Close()
	switch k.Mode {
	case "reset":
		return nil, &net.OpError{Op: "read", Net: "tcp", Err: os.NewSyscallError("read", syscall.ECONNRESET)}
	case "eof":
		return nil, io.EOF // what http.Transport returns when the server closes a fresh connection without answering
	default: // header-timeout
		select {
		case <-time.After(headerTimeoutAfter):
			return nil, timeoutError{}
		case <-req.Context().Done():
			return nil, req.Context().Err()
		}
	}
}
