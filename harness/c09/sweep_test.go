package c09

import (
	"fmt"
	"testing"
	"time"

	"github.com/0xReLogic/Helios/internal/ratelimiter"
	"github.com/0xReLogic/Helios/verifharness/lab"
)

// Isolation over a large population, one instant: "clients are isolated; a new client starts with a
// full burst". N distinct client addresses of many textual shapes each spend their whole allowance at
// one instant on one limiter (refill period one hour, so nothing refills meanwhile): EVERY address gets
// exactly max_tokens admissions and the next call refused, however many other addresses the limiter
// has seen before. Whatever makes two addresses share state (a truncated or hashed key, a bounded
// table that recycles entries) shows as an address that is refused early or admitted too often.

// sweepAddr: the k-th address of family f. Families differ in shape and length so that no fixed-size
// digest or prefix of the text can tell them all apart by construction.
func sweepAddr(f, k int) string {
	j := uint32(k)*2654435761 + uint32(f)*40503 // a stride through the space instead of consecutive numbers
	switch f % 6 {
	case 0:
		return fmt.Sprintf("10.%d.%d.%d", (j>>16)&255, (j>>8)&255, j&255)
	case 1:
		return fmt.Sprintf("%d.%d.%d.%d", 11+(j>>24)%200, (j>>16)&255, (j>>8)&255, j&255)
	case 2:
		return fmt.Sprintf("2001:db8:%x:%x::%x", (j>>20)&0xfff, (j>>8)&0xfff, j&0xff)
	case 3:
		return fmt.Sprintf("fd00::%x:%x", j>>16, j&0xffff)
	case 4:
		return fmt.Sprintf("::ffff:172.%d.%d.%d", 16+(j>>16)&15, (j>>8)&255, j&255)
	}
	return fmt.Sprintf("client-%d.internal.example", j)
}

type sweepCase struct {
	Max      int `json:"max_tokens"`
	N        int `json:"clients"`
	Families int `json:"address_families"`
	Offset   int `json:"offset"`
}

func runSweep(c sweepCase) string {
	rl := ratelimiter.NewTokenBucketRateLimiter(c.Max, time.Hour)
	seen := make(map[string]bool, c.N)
	for k := 0; k < c.N; k++ {
		a := sweepAddr(k%c.Families, c.Offset+k/c.Families)
		if seen[a] {
			continue // the same text twice is the same client
		}
		seen[a] = true
		for q := 0; q <= c.Max; q++ {
			ok := rl.Allow(a)
			switch {
			case !ok && q < c.Max:
				return fmt.Sprintf("client %q (the %d-th distinct address this limiter has seen) was refused at its call #%d; max_tokens is %d and it has never called before: a new client starts with a full burst, whatever other clients did", a, len(seen), q+1, c.Max)
			case ok && q == c.Max:
				return fmt.Sprintf("client %q was admitted %d times at one instant; max_tokens is %d", a, q+1, c.Max)
			}
		}
	}
	return ""
}

func TestC09FreshClientSweep(t *testing.T) {
	const name = "limiter-fresh-client-sweep"
	sub := lab.Sub(name, "deterministic sweep on ratelimiter.TokenBucketRateLimiter (refill 1 h): 150 000 (thorough: 1 500 000) distinct client addresses per case - IPv4 in two ranges, IPv6 in two shapes, IPv4-mapped, host-name-like; walked with a multiplicative stride - "+
		"each spends max_tokens+1 calls at one instant; oracle: every address gets exactly max_tokens admissions and then a refusal (isolation: nothing other clients did can shorten or lengthen a new client's burst); "+
		"cases = max_tokens 1..3 x offsets derived from the seed and shard; every case is non-trivial; distinct = distinct (max_tokens, offset)")
	var rc sweepCase
	if lab.ReplayCase(name, &rc) {
		if v := runSweep(rc); v != "" {
			lab.Violation(t, name, rc, "%s", v)
		}
		return
	}
	if lab.Replaying() {
		t.Skip()
	}
	cases := lab.Share(lab.Scale(6, 24))
	n := lab.Scale(150000, 1500000)
	for i := 0; i < max(cases, 1); i++ {
		k := i*lab.Shards() + lab.Shard()
		c := sweepCase{Max: 1 + k%3, N: n, Families: 6, Offset: int((lab.Seed()%1000)*1000003+uint64(k)*7919) % 1000000}
		v := runSweep(c)
		sub.Case(c, true, fmt.Sprintf("max%d", c.Max))
		sub.Count("client-addresses", c.N)
		if v != "" {
			lab.Violation(t, name, c, "%+v: %s", c, v)
			return
		}
	}
}
