//go:build go1.25

package c09

import (
	"fmt"
	"testing"
	"time"

	"github.com/0xReLogic/Helios/internal/ratelimiter"
	"github.com/0xReLogic/Helios/verifharness/lab"
	"pgregory.net/rapid"
)

// Long-horizon histories with the bucket janitor. The limiter's cleanup goroutine ticks every
// 10 minutes and drops buckets it considers stale. Dropping a bucket is only unobservable if the
// client would have had a full bucket anyway; otherwise the next call creates a fresh FULL bucket
// and the client exceeds max_tokens + floor(T/refill) + 1. The limiter is built outside the bubble
// (its own ticker never fires there); the harness plays the janitor exactly: one cleanup pass
// (hook VerifCleanup, build tag verif) at every 10-minute grid instant since construction.

const janitorTick = 10 * time.Minute

func TestC09JanitorLongHorizon(t *testing.T) {
	sub := lab.Sub("limiter-janitor-long-horizon", "rapid histories on the hour scale: max_tokens 1..100, refill in {1s,30s,60s,10m,1h,2h}, 1-3 clients, events {call, burst, advance 1s..3h}; the harness runs the limiter's janitor pass at every 10-minute "+
		"grid instant crossed by an advance (exactly what the real cleanup goroutine does); oracle B1/B2/B3 of the monitor over each client's whole history; "+
		"non-trivial = a client was refused, stayed away for more than an hour (janitor cut-off) and came back")
	sub.NontrivialFloor(0.25)
	lab.Assume("janitor emulated through the verif hook at the real 10-minute period; its phase relative to limiter construction is exact because both start at the bubble's time zero")
	refillsLong := []time.Duration{time.Second, 30 * time.Second, time.Minute, 10 * time.Minute, time.Hour, 2 * time.Hour}
	lab.Check(t, sub, 4000, 80000, func(rt *rapid.T) {
		p := Params{Max: rapid.SampledFrom([]int{1, 2, 3, 5, 10, 100}).Draw(rt, "max"), R: rapid.SampledFrom(refillsLong).Draw(rt, "refill")}
		nc := rapid.IntRange(1, 3).Draw(rt, "clients")
		n := rapid.IntRange(4, 30).Draw(rt, "n")
		rl := ratelimiter.NewTokenBucketRateLimiter(p.Max, p.R)
		hist := make([][]Call, nc)
		var evs []string
		var viol string
		longAway := false
		rapid.SyncTest(rt, func(rt *rapid.T) {
			start := time.Now()
			nextTick := janitorTick
			refusedAt := make([]time.Duration, nc)
			for i := range refusedAt {
				refusedAt[i] = -1
			}
			advance := func(d time.Duration) {
				target := time.Since(start) + d
				for nextTick <= target {
					time.Sleep(nextTick - time.Since(start))
					rl.VerifCleanup()
					nextTick += janitorTick
				}
				time.Sleep(target - time.Since(start))
			}
			for i := 0; i < n; i++ {
				k := rapid.IntRange(0, 99).Draw(rt, "kind")
				switch {
				case k < 35:
					d := rapid.SampledFrom([]time.Duration{time.Second + eps, 59*time.Second + eps, 9*time.Minute + eps, 31*time.Minute + eps, 61*time.Minute + eps,
						71*time.Minute + eps, 2*time.Hour + time.Minute + eps, 3*time.Hour + eps, p.R + eps, p.R/2 + eps}).Draw(rt, "d")
					advance(d)
					evs = append(evs, "adv("+d.String()+")")
				default:
					c := rapid.IntRange(0, nc-1).Draw(rt, "c")
					cnt := 1
					if k >= 60 {
						cnt = rapid.SampledFrom([]int{p.Max, p.Max + 1, 2}).Draw(rt, "burst")
					}
					evs = append(evs, fmt.Sprintf("burst(c%d,%d)", c, cnt))
					for q := 0; q < cnt; q++ {
						now := time.Since(start)
						ok := rl.Allow(fmt.Sprintf("192.0.2.%d", c+1))
						hist[c] = append(hist[c], Call{T: now, Admitted: ok})
						if !ok {
							refusedAt[c] = now
						} else if refusedAt[c] >= 0 && now-refusedAt[c] > time.Hour+janitorTick {
							longAway = true
						}
					}
				}
			}
		})
		for c := 0; c < nc && viol == ""; c++ {
			if v, _ := CheckClient(p, hist[c]); v != "" {
				viol = fmt.Sprintf("client c%d: %s", c, v)
			}
		}
		labels := []string{fmt.Sprintf("max%d", p.Max), "refill-" + p.R.String()}
		if time.Duration(p.Max)*p.R > time.Hour {
			labels = append(labels, "full-refill-takes-over-an-hour")
		}
		sub.Case(map[string]any{"params": p, "clients": nc, "events": evs}, longAway, labels...)
		if viol != "" {
			rt.Fatalf("params %+v clients %d events %v: %s", p, nc, evs, viol)
		}
	})
}
