//go:build go1.25

package c09

import (
	"fmt"
	"testing"
	"testing/synctest"
	"time"

	"github.com/0xReLogic/Helios/internal/ratelimiter"
	"github.com/0xReLogic/Helios/verifharness/lab"
)

// Exhaustive complement of the rapid model check: EVERY single-client history of exactly enumDepth
// events over a 4-letter alphabet, for every max_tokens 1..5 (refill fixed at 1s). Words are prefix
// closed under the whole-history oracle, so all shorter histories are covered as well.
//
//	c  one call              h  advance r/2            l  advance r+1ms
//	F  advance (max+1)*r+1ms (a pause after which a full burst is due)

const enumAlphabet = "chlF"

type enumCase struct {
	Max  int    `json:"max_tokens"`
	Word string `json:"word"`
}

func enumWord(idx, depth int) string {
	b := make([]byte, depth)
	for i := depth - 1; i >= 0; i-- {
		b[i] = enumAlphabet[idx%len(enumAlphabet)]
		idx /= len(enumAlphabet)
	}
	return string(b)
}

// runWord plays one word on a fresh limiter (constructed by the caller outside the bubble).
func runWord(rl *ratelimiter.TokenBucketRateLimiter, p Params, w string) []Call {
	var calls []Call
	start := time.Now()
	for i := 0; i < len(w); i++ {
		switch w[i] {
		case 'c':
			calls = append(calls, Call{T: time.Since(start), Admitted: rl.Allow("10.0.0.1")})
		case 'h':
			time.Sleep(p.R / 2)
		case 'l':
			time.Sleep(p.R + eps)
		case 'F':
			time.Sleep(time.Duration(p.Max+1)*p.R + eps)
		}
	}
	return calls
}

func TestC09SmallHistories(t *testing.T) {
	depth := lab.Scale(8, 9)
	sub := lab.Sub("limiter-small-histories-exhaustive", fmt.Sprintf("complete enumeration of all 4^%d single-client histories of %d events over {call, advance r/2, advance r+1ms, advance (max+1)r+1ms} "+
		"for each max_tokens 1..5 (refill 1s), each on a fresh limiter in virtual time; oracle B1 (burst, all windows), B2, B3 over the whole history; "+
		"non-trivial = the client was refused and admitted again after an advance; exhaustive for this finite space (shards split it by index)", depth, depth))
	var rc enumCase
	if lab.ReplayCase("limiter-small-histories-exhaustive", &rc) {
		p := Params{Max: rc.Max, R: time.Second}
		rl := ratelimiter.NewTokenBucketRateLimiter(p.Max, p.R)
		var calls []Call
		synctest.Test(t, func(t *testing.T) { calls = runWord(rl, p, rc.Word) })
		if v, _ := CheckClient(p, calls); v != "" {
			lab.Violation(t, "limiter-small-histories-exhaustive", rc, "max_tokens=%d word %s: %s", rc.Max, rc.Word, v)
		}
		return
	}
	if lab.Replaying() {
		t.Skip("replay of another sub-check")
	}
	total := 1
	for i := 0; i < depth; i++ {
		total *= len(enumAlphabet)
	}
	const batch = 512
	for max := 1; max <= 5; max++ {
		p := Params{Max: max, R: time.Second}
		var idxs []int
		for idx := lab.Shard(); idx < total; idx += lab.Shards() {
			idxs = append(idxs, idx)
		}
		for lo := 0; lo < len(idxs); lo += batch {
			hi := min(lo+batch, len(idxs))
			// limiters own a janitor goroutine: one fresh limiter per history, built outside the bubble
			rls := make([]*ratelimiter.TokenBucketRateLimiter, hi-lo)
			for i := range rls {
				rls[i] = ratelimiter.NewTokenBucketRateLimiter(p.Max, p.R)
			}
			results := make([][]Call, hi-lo)
			synctest.Test(t, func(t *testing.T) {
				for i := range rls {
					results[i] = runWord(rls[i], p, enumWord(idxs[lo+i], depth))
				}
			})
			for i := range results {
				w := enumWord(idxs[lo+i], depth)
				v, st := CheckClient(p, results[i])
				labels := []string{fmt.Sprintf("max%d", max)}
				if st.Refused > 0 {
					labels = append(labels, "refused")
				}
				if st.IdleClause > 0 {
					labels = append(labels, "idle-clause-exercised")
				}
				if st.FreshBurstFull {
					labels = append(labels, "fresh-full-burst")
				}
				c := enumCase{Max: max, Word: w}
				sub.Case(c, st.ReadmittedAfterAdvance, labels...)
				if v != "" {
					lab.Violation(t, "limiter-small-histories-exhaustive", c, "max_tokens=%d word %s (c=call h=adv r/2 l=adv r+1ms F=adv (max+1)r+1ms): %s", max, w, v)
				}
			}
		}
	}
	sub.Exhaustive()
}
