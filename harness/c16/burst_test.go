package c16

import (
	"fmt"
	"net/http"
	"net/http/httptest"
	"runtime"
	"sync"
	"sync/atomic"
	"testing"
	"time"

	"github.com/0xReLogic/Helios/internal/config"
	"github.com/0xReLogic/Helios/internal/logging"
	"github.com/0xReLogic/Helios/verifharness/lab"
	"pgregory.net/rapid"
)

// nopWriter is the cheapest possible http.ResponseWriter: the burst must be limited by the
// generator under test, not by the harness.
type nopWriter struct{ h http.Header }

func (w *nopWriter) Header() http.Header         { return w.h }
func (w *nopWriter) Write(b []byte) (int, error) { return len(b), nil }
func (w *nopWriter) WriteHeader(int)             {}

// TestC16UniquenessBurst generates identifiers as fast as the machine allows: uniqueness must
// not depend on the generation rate (e.g. a sequence number that wraps within one clock tick).
func TestC16UniquenessBurst(t *testing.T) {
	sub := lab.Sub("id-uniqueness-burst", "real threads: 32 goroutines generate request and trace IDs through logging.RequestContextMiddleware in tight loops (no barriers, no recorder), "+
		"4x10^5 (quick) / 4x10^6 (thorough) identifiers per shard in bursts started just after a wall-clock second boundary; oracle: no identifier occurs twice within a burst; "+
		"one case = one burst; non-trivial = always; the achieved rate is reported as a class")
	if lab.Replaying() {
		t.Skip()
	}
	cfg := config.LoggingConfig{}
	cfg.RequestID.Enabled, cfg.Trace.Enabled = true, true
	var sink atomic.Pointer[[]string]
	_ = sink
	bursts := lab.Scale(2, 20)
	perBurst := 200000 // requests; two identifiers each
	const G = 32
	for b := 0; b < bursts; b++ {
		ids := make([][]string, G)
		h := logging.RequestContextMiddleware(cfg)(http.HandlerFunc(func(w http.ResponseWriter, r *http.Request) {}))
		for time.Now().Nanosecond() > 40_000_000 { // harness scheduling only: start early in a second
			time.Sleep(5 * time.Millisecond)
		}
		start := time.Now()
		var wg sync.WaitGroup
		for g := 0; g < G; g++ {
			wg.Add(1)
			go func(g int) {
				defer wg.Done()
				n := perBurst / G
				out := make([]string, 0, 2*n)
				req := httptest.NewRequest("GET", "/", nil)
				for i := 0; i < n; i++ {
					req.Header = http.Header{}
					w := &nopWriter{h: http.Header{}}
					h.ServeHTTP(w, req)
					out = append(out, w.h.Get("X-Request-Id"), w.h.Get("X-Trace-Id"))
				}
				ids[g] = out
				runtime.Gosched()
			}(g)
		}
		wg.Wait()
		el := time.Since(start)
		seen := make(map[string]struct{}, 2*perBurst)
		dup := ""
		total := 0
		for _, l := range ids {
			for _, id := range l {
				total++
				if id == "" {
					lab.Violation(t, "id-uniqueness-burst", map[string]int{"burst": b}, "a response carried no generated identifier")
				}
				if _, ok := seen[id]; ok && dup == "" {
					dup = id
				}
				seen[id] = struct{}{}
			}
		}
		rate := float64(total) / el.Seconds()
		label := "rate<100k/s"
		switch {
		case rate >= 1e6:
			label = "rate>=1M/s"
		case rate >= 3e5:
			label = "rate>=300k/s"
		case rate >= 1e5:
			label = "rate>=100k/s"
		}
		sub.Case(map[string]any{"burst": b, "shard": lab.Shard(), "identifiers": total, "seconds": fmt.Sprintf("%.3f", el.Seconds())}, true, label)
		if dup != "" {
			lab.Violation(t, "id-uniqueness-burst", map[string]any{"burst": b, "identifiers": total}, "identifier %q was generated twice within one burst of %d identifiers (%.0f per second)", dup, total, rate)
		}
	}
}

// TestC16Response413 covers the response-side 413 of size_limit (backend response larger than
// max_response_body): like every other response path it must carry the configured ID headers.
func TestC16Response413(t *testing.T) {
	sub := lab.Sub("id-on-response-side-413", "rapid: request_id/trace enabled (default or custom header names), chain [size_limit max_response_body 8..64] optionally behind logging/headers, backend answers 200 with a declared Content-Length above the limit; "+
		"client-supplied IDs or none; oracle: the 413 (or whatever status reaches the client) carries exactly one value per enabled ID header, equal to the client's value if supplied and equal to what the backend saw; non-trivial = always (non-proxied response path)")
	lab.Check(t, sub, 300, 8000, func(rt *rapid.T) {
		custom := rapid.Bool().Draw(rt, "custom")
		reqH, trH := "X-Request-Id", "X-Trace-Id"
		limit := rapid.IntRange(8, 64).Draw(rt, "limit")
		chain := rapid.SampledFrom([][]string{{"size_limit"}, {"logging", "size_limit"}, {"size_limit", "logging"}, {"headers", "size_limit"}}).Draw(rt, "chain")
		supplied := rapid.Bool().Draw(rt, "supplied")
		l, err := lab.NewSocketLab("round_robin", lab.SocketOpts{Backends: 1, Mutate: func(cfg *config.Config) {
			cfg.Logging.RequestID.Enabled, cfg.Logging.Trace.Enabled = true, true
			if custom {
				cfg.Logging.RequestID.Header, cfg.Logging.Trace.Header = "X-Correlation-Id", "X-B3-Traceid"
			}
			cfg.Plugins.Enabled = true
			for _, n := range chain {
				pc := config.PluginConfig{Name: n}
				switch n {
				case "size_limit":
					pc.Config = map[string]interface{}{"max_response_body": limit}
				case "headers":
					pc.Config = map[string]interface{}{"set": map[string]interface{}{"X-App": "h"}}
				}
				cfg.Plugins.Chain = append(cfg.Plugins.Chain, pc)
			}
		}})
		if err != nil {
			rt.Fatalf("harness: %v", err)
		}
		defer l.Close()
		if custom {
			reqH, trH = "X-Correlation-Id", "X-B3-Traceid"
		}
		id := l.NextCase()
		body := make([]byte, limit+1+rapid.IntRange(0, 200).Draw(rt, "extra"))
		exs := l.ExpectAll(id, &lab.RespScript{Status: 200, Framing: "cl", Body: body, BarrierAfter: -1, Header: []lab.KV{{K: "Content-Type", V: "text/plain"}}})
		hdr := []lab.KV{{K: "Host", V: "h"}, {K: "X-Verif-Case", V: id}}
		if supplied {
			hdr = append(hdr, lab.KV{K: reqH, V: "client-req-77"}, lab.KV{K: trH, V: "client trace 78"})
		}
		out, derr := lab.Do(l.Addr, &lab.RawRequest{Method: "GET", Target: "/big", Framing: "none", Header: hdr}, 10*time.Second)
		seen := lab.SeenOf(exs[0])
		sub.Case(map[string]any{"custom": custom, "limit": limit, "chain": chain, "supplied": supplied, "body": len(body)}, true)
		if derr != nil || out == nil || out.Status == 0 {
			rt.Fatalf("no response reached the client (%v) for a backend response of %d bytes behind size_limit %d", derr, len(body), limit)
		}
		for _, hn := range []string{reqH, trH} {
			vals := out.Header.Values(hn)
			if len(vals) != 1 || vals[0] == "" {
				rt.Fatalf("chain %v limit %d: status %d response carries %d value(s) %q for %s, want exactly one", chain, limit, out.Status, len(vals), vals, hn)
			}
			if seen != nil && seen.Header.Get(hn) != vals[0] {
				rt.Fatalf("chain %v: %s at the backend %q differs from what the client got %q", chain, hn, seen.Header.Get(hn), vals[0])
			}
		}
		if supplied && (out.Header.Get(reqH) != "client-req-77" || out.Header.Get(trH) != "client trace 78") {
			rt.Fatalf("client-supplied IDs not echoed on status %d: got %q / %q", out.Status, out.Header.Get(reqH), out.Header.Get(trH))
		}
	})
}
