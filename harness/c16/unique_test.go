package c16

import (
	"fmt"
	"net/http"
	"net/http/httptest"
	"runtime"
	"sync"
	"sync/atomic"
	"testing"

	"github.com/0xReLogic/Helios/internal/config"
	"github.com/0xReLogic/Helios/internal/logging"
	"github.com/0xReLogic/Helios/verifharness/lab"
	"pgregory.net/rapid"
)

type uniqCase struct {
	Round      int    `json:"round"`
	Goroutines int    `json:"goroutines"`
	PerG       int    `json:"requests_per_goroutine"`
	ReqHdr     string `json:"request_id_header"`
	TraceHdr   string `json:"trace_header"`
	Which      string `json:"enabled"` // both | request_id | trace
}

type genRec struct{ req, trace, seenReq, seenTrace string }

// uniqRound releases G goroutines at once (spin barrier); each sends PerG requests without ID headers
// through logging.RequestContextMiddleware over a stub handler and records the identifiers it was given
// on the response and the ones the stub (= the rest of the chain, the backend) saw on the request.
func uniqRound(c uniqCase) [][]genRec {
	cfg := config.LoggingConfig{}
	cfg.RequestID.Enabled = c.Which != "trace"
	cfg.Trace.Enabled = c.Which != "request_id"
	cfg.RequestID.Header, cfg.Trace.Header = c.ReqHdr, c.TraceHdr
	lc := labCfg{ReqHdr: c.ReqHdr, TraceHdr: c.TraceHdr}
	rn, tn := lc.names()
	stub := http.HandlerFunc(func(w http.ResponseWriter, r *http.Request) {
		w.Header().Set("X-Stub-Req", r.Header.Get(rn))
		w.Header().Set("X-Stub-Trace", r.Header.Get(tn))
		w.WriteHeader(204)
	})
	h := logging.RequestContextMiddleware(cfg)(stub)
	out := make([][]genRec, c.Goroutines)
	var ready, goFlag int32
	var wg sync.WaitGroup
	for g := 0; g < c.Goroutines; g++ {
		wg.Add(1)
		go func(g int) {
			defer wg.Done()
			recs := make([]genRec, 0, c.PerG)
			atomic.AddInt32(&ready, 1)
			for atomic.LoadInt32(&goFlag) == 0 {
				runtime.Gosched()
			}
			for i := 0; i < c.PerG; i++ {
				req := httptest.NewRequest("GET", "/u", nil)
				rec := httptest.NewRecorder()
				h.ServeHTTP(rec, req)
				hd := rec.Header()
				recs = append(recs, genRec{req: hd.Get(rn), trace: hd.Get(tn), seenReq: hd.Get("X-Stub-Req"), seenTrace: hd.Get("X-Stub-Trace")})
			}
			out[g] = recs
		}(g)
	}
	for atomic.LoadInt32(&ready) < int32(c.Goroutines) {
		runtime.Gosched()
	}
	atomic.StoreInt32(&goFlag, 1)
	wg.Wait()
	return out
}

func checkUniqRound(c uniqCase, out [][]genRec) (generations int, viol string) {
	for g, recs := range out {
		for i, r := range recs {
			where := fmt.Sprintf("uniqueness round %d goroutine %d request %d (shard %d)", c.Round, g, i, lab.Shard())
			ids := []struct {
				on             bool
				kind, id, seen string
			}{{c.Which != "trace", "request_id", r.req, r.seenReq}, {c.Which != "request_id", "trace", r.trace, r.seenTrace}}
			for _, x := range ids {
				if !x.on {
					if x.id != "" || x.seen != "" {
						return generations, fmt.Sprintf("%s: %s disabled but an identifier appeared (response %q, request %q)", where, x.kind, x.id, x.seen)
					}
					continue
				}
				if x.id == "" {
					return generations, fmt.Sprintf("%s: no %s identifier on the response", where, x.kind)
				}
				if x.id != x.seen {
					return generations, fmt.Sprintf("%s: %s on the response is %q, the next handler saw %q", where, x.kind, x.id, x.seen)
				}
				generations++
				if w, dup := noteGenerated(x.id, where); dup {
					return generations, fmt.Sprintf("generated identifier %q is not unique: %s and %s", x.id, w, where)
				}
			}
		}
	}
	return generations, ""
}

func TestC16Uniqueness(t *testing.T) {
	const name = "id-uniqueness-concurrent-generation"
	sub := lab.Sub(name, "stress, real threads: rounds of 64 goroutines released by a spin barrier, each sending requests without ID headers through logging.RequestContextMiddleware over a stub handler (in process); "+
		"10^5 (quick) / 10^6 (thorough) generated identifiers per process, header names and enabled features vary per round; oracle: every identifier is non-empty, equals what the next handler sees, and no identifier "+
		"(request or trace, this sub-check and every L2 sub-check of the same process) occurs twice; one case = one round; non-trivial = always (>= 2 concurrent generators); distinct = distinct rounds")
	lab.Assume("uniqueness stress drives the middleware with net/http/httptest recorders (no socket); the 64 generators run on real threads, schedules are sampled")
	var rc uniqCase
	if lab.ReplayCase(name, &rc) {
		for i := 0; i < 20; i++ {
			if _, v := checkUniqRound(rc, uniqRound(rc)); v != "" {
				lab.Violation(t, name, rc, "%s", v)
			}
		}
		return
	}
	if lab.Replaying() {
		t.Skip("replay of another sub-check")
	}
	total := lab.Scale(100000, 1000000) // per process: the set is only meaningful within one process
	rounds := 100
	k := int(lab.Seed()%1000) + lab.Shard()*7919
	gens := 0
	for r := 0; r < rounds; r++ {
		c := uniqCase{Round: r, Goroutines: 64, Which: []string{"both", "both", "request_id", "trace"}[(r+k)%4],
			ReqHdr: reqNames[(r+k)%len(reqNames)], TraceHdr: traceNames[(r/3+k)%len(traceNames)]}
		per := 2
		if c.Which != "both" {
			per = 1
		}
		// identifiers still to generate, spread over the remaining rounds
		want := (total - gens + (rounds - r) - 1) / (rounds - r)
		c.PerG = (want + 64*per - 1) / (64 * per)
		n, v := checkUniqRound(c, uniqRound(c))
		gens += n
		sub.Case(map[string]any{"case": c, "shard": lab.Shard(), "seed": lab.Seed()}, true, "enabled-"+c.Which)
		if v != "" {
			lab.Violation(t, name, c, "%s", v)
		}
	}
	sub.Count("identifiers-generated", gens)
	sub.Count("identifiers-in-process-set", generatedCount())
	if gens < total {
		lab.Problem("%s: only %d of %d identifiers were generated", name, gens, total)
	}
}

// ---------------------------------------------------------------------------------------------
// Concurrent exchanges over real sockets: IDs must not leak between requests in flight together.
// ---------------------------------------------------------------------------------------------

type batchCase struct {
	Lab     labCfg `json:"lab"`
	Clients int    `json:"clients"`
	PerConn int    `json:"requests_per_connection"`
}

func TestC16ConcurrentExchanges(t *testing.T) {
	sub := lab.Sub("id-propagation-concurrent", "rapid: lab (strategy x 1-3 raw backends x request_id/trace on/off x default/custom names x optional logging/headers/gzip plugins) and a batch of 2-16 client connections released together, "+
		"each sending 1-4 proxied requests (keep-alive) with drawn client values; all backends hold every request until the whole first wave has arrived, so the requests are in flight inside Helios at the same time; "+
		"oracle: the per-exchange statement (exactly one value, echo/fresh, backend-seen = client-got) for every exchange and run-wide uniqueness; one case = one batch; non-trivial = >= 2 clients and an enabled feature")
	sub.NontrivialFloor(0.70)
	assumptions()
	lab.Check(t, sub, 150, 3000, func(rt *rapid.T) {
		lc := genLab(rt, false, 1)
		lc.RateLimit, lc.EjectAt = false, -1
		var chain []string
		for _, p := range lc.Chain {
			if p != "custom-auth" && p != "size_limit" {
				chain = append(chain, p)
			}
		}
		lc.Chain = chain
		bc := batchCase{Lab: lc, Clients: rapid.IntRange(2, 16).Draw(rt, "clients"), PerConn: rapid.IntRange(1, 4).Draw(rt, "perconn")}
		type planned struct {
			ec exchangeCase
		}
		plan := make([][]planned, bc.Clients)
		st := &labState{usedClients: map[string]bool{}}
		for ci := range plan {
			for j := 0; j < bc.PerConn; j++ {
				ec := genExchange(rt, lc, st)
				ec.Path, ec.Reuse = "proxied", true
				if ec.Method == "POST" || ec.Method == "PUT" || ec.Method == "PATCH" {
					ec.Method = "GET"
				}
				applyOpenFindings(sub, lc, &ec)
				plan[ci] = append(plan[ci], planned{ec})
			}
		}
		l, err := lab.NewSocketLab(lc.Strategy, lab.SocketOpts{Backends: lc.Backends, Mutate: lc.mutate})
		if err != nil {
			rt.Fatalf("harness: %v", err)
		}
		defer l.Close()
		// wave 0 is held inside the backends until all of it has arrived
		var arrived int32
		release := make(chan struct{})
		type result struct {
			ci, j int
			viol  string
		}
		results := make(chan result, bc.Clients*bc.PerConn)
		var wg sync.WaitGroup
		for ci := range plan {
			wg.Add(1)
			go func(ci int) {
				defer wg.Done()
				c := &conn{}
				defer c.drop()
				for j := range plan[ci] {
					ec := &plan[ci][j].ec
					ob, herr := runExchangeHeld(l, lc, ec, c, j == 0, &arrived, int32(bc.Clients), release)
					v := herr
					if v == "" && ob.path != "proxied" {
						v = fmt.Sprintf("harness: expected a proxied exchange, observed %s (status %d)", ob.path, ob.out.Status)
					}
					if v == "" {
						v = checkExchange(lc, ec, ob, fmt.Sprintf("L2 concurrent batch client %d request %d shard %d", ci, j, lab.Shard()))
					}
					results <- result{ci, j, v}
					if v != "" {
						return
					}
				}
			}(ci)
		}
		wg.Wait()
		close(results)
		safeClose(release)
		viol := ""
		for r := range results {
			if r.viol != "" && viol == "" {
				ec := plan[r.ci][r.j].ec
				viol = fmt.Sprintf("client %d request %d (%s %s, %s: %s, %s: %s): %s", r.ci, r.j, ec.Method, ec.Target, ec.Req.Name, sentText(ec.Req), ec.Trace.Name, sentText(ec.Trace), r.viol)
			}
		}
		labels := []string{fmt.Sprintf("clients-%d", bc.Clients)}
		if lc.custom() {
			labels = append(labels, "custom-header-name")
		}
		exs := make([][]exchangeCase, len(plan))
		for i := range plan {
			for _, p := range plan[i] {
				exs[i] = append(exs[i], p.ec)
			}
		}
		sub.Case(map[string]any{"batch": bc, "exchanges": exs}, lc.ReqID || lc.Trace, labels...)
		if viol != "" {
			rt.Fatalf("lab %+v, %d clients x %d requests\n=> %s", lc, bc.Clients, bc.PerConn, viol)
		}
		if p := l.PanicLines(); len(p) > 0 {
			rt.Fatalf("handler panicked: %v", p)
		}
	})
}

func safeClose(ch chan struct{}) {
	defer func() { _ = recover() }()
	close(ch)
}
