package c16

import (
	"bytes"
	"fmt"
	"net/http"
	"os"
	"strings"
	"sync/atomic"
	"testing"
	"time"

	"github.com/0xReLogic/Helios/verifharness/lab"
	"pgregory.net/rapid"
)

const ioDeadline = 10 * time.Second // budget for a loopback exchange that normally takes < 5 ms

type conn struct{ cc *lab.ClientConn }

func (c *conn) drop() {
	if c.cc != nil {
		c.cc.Close()
		c.cc = nil
	}
}

// observed is what the two wires showed for one exchange.
type observed struct {
	out  *lab.RawResponse
	seen *lab.SeenRequest // nil: the request never reached a backend
	path string           // proxied | 429 | 503 | 413 | 401 | other
	// what the scripted backend put into its own response under the ID header names
	backendMode  string
	backendNames []string
}

func ownValue(name string) string { return "backend-own-" + strings.ToLower(name) }

// backendSent lists the field lines the backend's response itself carried under `name` (a service that
// echoes the correlation ID it was handed, or numbers its responses itself). They are the backend's
// end-to-end response headers, which the proxy relays (C01); the statement is about the value Helios
// reports, which must come first.
func (ob observed) backendSent(name string) []string {
	if ob.seen == nil {
		return nil
	}
	mine := false
	for _, n := range ob.backendNames {
		mine = mine || n == http.CanonicalHeaderKey(name)
	}
	if !mine {
		return nil
	}
	switch ob.backendMode {
	case "echo":
		return ob.seen.Header.Values(name)
	case "own":
		return []string{ownValue(name)}
	}
	return nil
}

// subLines: a is a sub-multiset of b
func subLines(a, b []string) bool {
	left := map[string]int{}
	for _, v := range b {
		left[v]++
	}
	for _, v := range a {
		if left[v] == 0 {
			return false
		}
		left[v]--
	}
	return true
}

func sameLines(a, b []string) bool {
	if len(a) != len(b) {
		return false
	}
	for i := range a {
		if a[i] != b[i] {
			return false
		}
	}
	return true
}

func buildRequest(lc labCfg, ec *exchangeCase, caseID string) *lab.RawRequest {
	req := &lab.RawRequest{Method: ec.Method, Target: ec.Target, Framing: "none"}
	req.Header = append(req.Header, lab.KV{K: "Host", V: "helios.test"}, lab.KV{K: "X-Verif-Case", V: caseID}, lab.KV{K: "Accept", V: "*/*"})
	if lc.has("gzip") {
		req.Header = append(req.Header, lab.KV{K: "Accept-Encoding", V: "gzip"})
	}
	if lc.has("custom-auth") && ec.Path != "401" {
		req.Header = append(req.Header, lab.KV{K: "X-API-Key", V: apiKey})
	}
	if ec.Client != "" {
		req.Header = append(req.Header, lab.KV{K: "X-Forwarded-For", V: ec.Client})
	}
	if ec.Req.present() {
		for _, l := range ec.Req.lines() {
			req.Header = append(req.Header, lab.KV{K: ec.Req.Name, V: l})
		}
	}
	if ec.Trace.present() {
		for _, l := range ec.Trace.lines() {
			req.Header = append(req.Header, lab.KV{K: ec.Trace.Name, V: l})
		}
	}
	if ec.Path == "413" {
		req.Framing = "cl"
		req.Body = bytes.Repeat([]byte("B"), bigBodyBytes)
		req.BodyLen = bigBodyBytes
	}
	return req
}

// runExchange performs one exchange. err != "" is a harness-level failure description.
func runExchange(l *lab.SocketLab, lc labCfg, ec *exchangeCase, c *conn) (observed, string) {
	return runExchangeOpt(l, lc, ec, c, nil)
}

// holdCtl makes the backends park the request until `total` requests of the wave have arrived.
type holdCtl struct {
	arrived *int32
	total   int32
	release chan struct{}
}

func runExchangeHeld(l *lab.SocketLab, lc labCfg, ec *exchangeCase, c *conn, hold bool, arrived *int32, total int32, release chan struct{}) (observed, string) {
	if !hold {
		return runExchangeOpt(l, lc, ec, c, nil)
	}
	return runExchangeOpt(l, lc, ec, c, &holdCtl{arrived, total, release})
}

func runExchangeOpt(l *lab.SocketLab, lc labCfg, ec *exchangeCase, c *conn, hold *holdCtl) (observed, string) {
	var ob observed
	caseID := l.NextCase()
	req := buildRequest(lc, ec, caseID)
	script := &lab.RespScript{Status: ec.Status, Framing: "cl", BarrierAfter: -1, Header: []lab.KV{{K: "Content-Type", V: "text/plain"}, {K: "X-Backend", V: "raw"}}}
	if ec.Status != 204 {
		script.Body = []byte("hello from the backend, hello from the backend\n")
		script.BodyLen = len(script.Body)
	} else {
		script.Framing = "none"
	}
	script.Hold = hold != nil
	script.Interim, script.InterimCode = ec.Interim, ec.InterimCode
	rn, tn := lc.names()
	switch ec.Backend {
	case "echo":
		script.Echo = []string{rn, tn}
	case "own":
		script.Header = append(script.Header, lab.KV{K: rn, V: ownValue(rn)}, lab.KV{K: tn, V: ownValue(tn)})
	}
	ob.backendMode = ec.Backend
	ob.backendNames = []string{rn, tn}
	exs := l.ExpectAll(caseID, script)
	defer l.ForgetAll(caseID)
	if hold != nil {
		defer func() {
			for _, ex := range exs {
				lab.ReleaseHold(ex)
			}
		}()
		any := make(chan struct{}, len(exs))
		for _, ex := range exs {
			go func(ex *lab.Exchange) {
				select {
				case <-lab.Arrived(ex):
					any <- struct{}{}
				case <-hold.release:
				}
			}(ex)
		}
		go func() {
			select {
			case <-any:
				if atomic.AddInt32(hold.arrived, 1) >= hold.total {
					safeClose(hold.release)
				}
			case <-time.After(ioDeadline / 2): // budget: a request that never arrives must not wedge the wave
				safeClose(hold.release)
			case <-hold.release:
			}
			<-hold.release
			for _, ex := range exs {
				lab.ReleaseHold(ex)
			}
		}()
	}
	if c.cc == nil || !ec.Reuse {
		c.drop()
		cc, err := lab.Dial(l.Addr)
		if err != nil {
			return ob, "harness: dial: " + err.Error()
		}
		c.cc = cc
	}
	cc := c.cc
	sendErr := make(chan error, 1)
	go func() { sendErr <- cc.Send(req) }()
	out, resp, err := cc.ReadHead(req.Method, ioDeadline)
	if err != nil {
		c.drop()
		return ob, fmt.Sprintf("client could not read a response head: %v", err)
	}
	cc.Finish(out, resp, nil, ioDeadline)
	select {
	case <-sendErr:
	case <-time.After(ioDeadline):
		c.drop()
		return ob, "harness: request upload did not finish"
	}
	if out.Close || out.BodyErr != "" || ec.Path == "413" {
		c.drop()
	}
	ob.out = out
	for _, ex := range exs {
		if s := lab.SeenOf(ex); s != nil {
			if ob.seen != nil {
				return ob, "request was delivered to two backends"
			}
			ob.seen = s
		}
	}
	switch {
	case ob.seen != nil:
		ob.path = "proxied"
	case out.Status == 429 || out.Status == 503 || out.Status == 413 || out.Status == 401:
		ob.path = fmt.Sprint(out.Status)
	default:
		ob.path = "other"
	}
	return ob, ""
}

// oneID decides the statement for one of the two features on one exchange.
//
//	enabled:  exactly one field line in the response; = the client's value if it supplied a non-empty one,
//	          else a fresh non-empty value; when the request reached a backend, the backend saw exactly one
//	          field line with the value the client got.
//	disabled: the response does not carry the header; the backend sees the client's field lines unchanged.
//
// transformer: the chain contains the documented `request-id` plugin and this is its header: only
// "exactly one, backend sees = client gets" applies (the plugin replaces any value by design).
func oneID(feature string, enabled, transformer bool, name string, v idVal, ob observed) (viol string, generated string) {
	got := ob.out.Header.Values(name)
	if !enabled && !transformer {
		if sent := ob.backendSent(name); !sameLines(got, sent) {
			return fmt.Sprintf("%s disabled, but the response carries %s: %s (the backend's own response carried %s)", feature, name, quoteAll(got), quoteAll(sent)), ""
		}
		if ob.seen != nil {
			bs := ob.seen.Header.Values(name)
			switch {
			case !v.present() && len(bs) != 0:
				return fmt.Sprintf("%s disabled and the client sent no %s, but the backend received %s: %s", feature, name, name, quoteAll(bs)), ""
			case v.present() && !sameLines(bs, v.lines()):
				return fmt.Sprintf("%s disabled: client sent %s: %s, backend received %s", feature, name, quoteAll(v.lines()), quoteAll(bs)), ""
			}
		}
		return "", ""
	}
	if transformer && !enabled && ob.seen == nil && len(got) == 0 {
		return "", "" // the plugin sits behind the element of the chain that answered; nothing ran that could add it
	}
	// further field lines are tolerated only if they are the backend's own (the proxy may as well
	// drop them in favour of the value it reports)
	if sent := ob.backendSent(name); len(got) < 1 || !subLines(got[1:], sent) {
		return fmt.Sprintf("%s enabled: the response (status %d, path %s) carries %d field lines for %s: %s; want the reported value first, followed at most by what the backend's own response carried (%s)", feature, ob.out.Status, ob.path, len(got), name, quoteAll(got), quoteAll(sent)), ""
	}
	id := got[0]
	if id == "" {
		return fmt.Sprintf("%s enabled: the response (status %d) carries an empty %s", feature, ob.out.Status, name), ""
	}
	if len(v.More) > 0 && !transformer {
		// The client sent the identifier as several field lines. "Passed to the backend and echoed unchanged; the
		// value the backend sees equals the value the client gets" then leaves the implementation a choice of which
		// line is THE identifier (or the lines combined with ", ", which HTTP defines as equivalent), but the choice
		// must be the same on both sides: the value reported to the client is what a backend reading the header
		// gets - the first (or only) field line it receives, or the combination when all lines were passed on.
		all := v.lines()
		joined := strings.Join(all, ", ")
		okID := id == joined
		for _, l := range all {
			okID = okID || id == l
		}
		if !okID {
			return fmt.Sprintf("%s: client supplied %s as field lines %s, the response (status %d, path %s) echoes %s, which is none of them", feature, name, quoteAll(all), ob.out.Status, ob.path, quote(id)), ""
		}
		if ob.seen != nil {
			bs := ob.seen.Header.Values(name)
			if !(len(bs) >= 1 && bs[0] == id) && !(id == joined && sameLines(bs, all)) {
				return fmt.Sprintf("%s: client supplied %s as field lines %s and was told %s, but the backend received %s - a backend reading the header sees %s", feature, name, quoteAll(all), quote(id), quoteAll(bs), quote(first(bs))), ""
			}
		}
		return "", ""
	}
	if ob.seen != nil {
		bs := ob.seen.Header.Values(name)
		if len(bs) != 1 || bs[0] != id {
			return fmt.Sprintf("%s: client got %s: %s but the backend saw %s (client had sent %s)", feature, name, quote(id), quoteAll(bs), sentText(v)), ""
		}
	}
	if transformer {
		if !v.supplied() || id != v.v {
			generated = id
		}
		return "", generated
	}
	if v.supplied() {
		if id != v.v {
			return fmt.Sprintf("%s: client supplied %s: %s, the response (status %d, path %s) echoes %s", feature, name, quote(v.v), ob.out.Status, ob.path, quote(id)), ""
		}
		return "", ""
	}
	return "", id
}

func first(vs []string) string {
	if len(vs) == 0 {
		return ""
	}
	return vs[0]
}

func sentText(v idVal) string {
	if !v.present() {
		return "no such header"
	}
	if len(v.More) > 0 {
		return quoteAll(v.lines())
	}
	return quote(v.v)
}

func quoteAll(vs []string) string {
	q := make([]string, len(vs))
	for i, v := range vs {
		q[i] = quote(v)
	}
	return "[" + strings.Join(q, " ") + "]"
}

// checkExchange applies the statement to one observed exchange; it returns the first violation.
func checkExchange(lc labCfg, ec *exchangeCase, ob observed, where string) string {
	rn, tn := lc.names()
	plug := lc.has("request-id") // plugin header is fixed: X-Request-ID
	pluginHdr := http.CanonicalHeaderKey("X-Request-ID")
	var gens []string
	v, g := oneID("request_id", lc.ReqID, plug && rn == pluginHdr, rn, ec.Req, ob)
	if v != "" {
		return v
	}
	if g != "" {
		gens = append(gens, g)
	}
	v, g = oneID("trace", lc.Trace, false, tn, ec.Trace, ob)
	if v != "" {
		return v
	}
	if g != "" {
		gens = append(gens, g)
	}
	if plug && rn != pluginHdr {
		// the plugin's own header next to a custom-named request_id header
		if got := ob.out.Header.Values(pluginHdr); ob.seen != nil || len(got) > 0 {
			v, g = oneID("request-id plugin", true, true, pluginHdr, idVal{Class: "absent"}, ob)
			if v != "" {
				return v
			}
			if g != "" {
				gens = append(gens, g)
			}
		}
	}
	for _, id := range gens {
		if ec.Req.supplied() && id == ec.Req.v || ec.Trace.supplied() && id == ec.Trace.v {
			return fmt.Sprintf("an identifier that should be fresh (%s) equals a value the client supplied in another header of the same request", quote(id))
		}
		if w, dup := noteGenerated(id, where); dup {
			return fmt.Sprintf("generated identifier %s is not unique: seen at %s and again at %s", quote(id), w, where)
		}
	}
	return ""
}

var excludedEdge int

// applyOpenFindings rewrites the region of an open finding out of the exchange (counted).
func applyOpenFindings(sub *lab.SubCheck, lc labCfg, ec *exchangeCase) {
	if !lab.Open("unicode-space-trimmed") {
		return
	}
	fix := func(enabled bool, v *idVal) {
		if enabled && v.present() && edgeUnicodeSpace(v.v) {
			v.v = "~" + v.v + "~" // same characters, no longer at the edge
			v.Quoted = quote(v.v)
			v.Class = "unicode-space-interior(excluded-edge)"
			sub.Excluded("unicode-space-trimmed")
			excludedEdge++
		}
	}
	fix(lc.ReqID, &ec.Req)
	fix(lc.Trace, &ec.Trace)
}

func labelsFor(lc labCfg, ec *exchangeCase, ob observed) (labels []string, nontrivial bool) {
	labels = append(labels, "path-"+ob.path)
	if ob.path == "proxied" {
		labels = append(labels, fmt.Sprintf("proxied-%dxx", ec.Status/100))
	}
	switch {
	case lc.ReqID && lc.Trace:
		labels = append(labels, "both-enabled")
	case lc.ReqID:
		labels = append(labels, "only-request_id")
	case lc.Trace:
		labels = append(labels, "only-trace")
	default:
		labels = append(labels, "both-disabled")
	}
	if lc.custom() {
		labels = append(labels, "custom-header-name")
	}
	labels = append(labels, "reqval-"+ec.Req.Class, "traceval-"+ec.Trace.Class)
	supplied := ec.Req.supplied() || ec.Trace.supplied()
	if supplied {
		labels = append(labels, "client-supplied")
	}
	if len(ec.Req.More)+len(ec.Trace.More) > 0 {
		labels = append(labels, "client-supplied-as-several-field-lines")
	}
	if ec.Reuse {
		labels = append(labels, "keep-alive")
	}
	return labels, ob.path != "proxied" || ec.Req.present() || ec.Trace.present() || lc.custom()
}

func runLabCase(rt *rapid.T, sub *lab.SubCheck, withPlugin bool) {
	n := rapid.IntRange(1, 6).Draw(rt, "exchanges")
	lc := genLab(rt, withPlugin, n)
	// one lab in eight (of those that do not eject backends by hand) has the real helios binary as
	// its front: cmd/helios's own composition, where the ID middleware is put outermost
	binary := os.Getenv("VERIF_HELIOS") != "" && lc.EjectAt < 0 && rapid.IntRange(0, 7).Draw(rt, "binary_front") == 0
	l, err := lab.NewSocketLab(lc.Strategy, lab.SocketOpts{Backends: lc.Backends, Mutate: lc.mutate, Binary: binary})
	if err != nil {
		rt.Fatalf("harness: %v", err)
	}
	defer l.Close()
	if binary {
		sub.Count("labs-with-helios-binary-front", 1)
	}
	c := &conn{}
	defer c.drop()
	st := &labState{usedClients: map[string]bool{}}
	for i := 0; i < n; i++ {
		if i == lc.EjectAt {
			for _, b := range l.LB.VerifBackends() {
				l.LB.MarkBackendUnhealthy(b, time.Hour)
			}
			st.ejected = true
		}
		ec := genExchange(rt, lc, st)
		applyOpenFindings(sub, lc, &ec)
		want := ec.Path
		if want == "proxied" && st.ejected {
			want = "503"
		}
		ob, herr := runExchange(l, lc, &ec, c)
		if herr == "" && ec.Client != "" && (ob.path == "proxied" || ob.path == "503" || ob.path == "429") {
			st.usedClients[ec.Client] = true
		}
		var viol string
		var labels []string
		nt := false
		if herr != "" {
			labels = []string{"path-none"}
			viol = herr
		} else {
			labels, nt = labelsFor(lc, &ec, ob)
			if ob.path != want {
				viol = fmt.Sprintf("harness: expected this request to take the %s path, observed %s (status %d)", want, ob.path, ob.out.Status)
			} else {
				// (the status a proxied response arrives with is C01/C14's subject, not compared here)
				viol = checkExchange(lc, &ec, ob, fmt.Sprintf("L2 %s shard %d", rt.Name(), lab.Shard()))
			}
		}
		sub.Case(map[string]any{"lab": lc, "i": i, "exchange": ec}, nt, labels...)
		if viol != "" {
			rt.Fatalf("lab %+v\nexchange #%d: %s %s path=%s client=%q  %s: %s  %s: %s  backend status %d reuse=%v\n=> %s",
				lc, i, ec.Method, ec.Target, ec.Path, ec.Client, ec.Req.Name, sentText(ec.Req), ec.Trace.Name, sentText(ec.Trace), ec.Status, ec.Reuse, viol)
		}
	}
	if p := l.PanicLines(); len(p) > 0 {
		rt.Fatalf("handler panicked: %v", p)
	}
}

const ruleCommon = "rapid: lab (5 strategies x 1-3 raw TCP backends x request_id/trace on/off x default/custom header names (9+9 spellings incl. non-canonical case, token punctuation, padded) x a drawn permutation of " +
	"{custom-auth, size_limit(16 B), logging, headers, gzip} x rate limit max 1 x all backends ejected from a drawn exchange on) and 1-6 wire-level exchanges, each with a drawn response path " +
	"{proxied 2xx/3xx/4xx/5xx, 429, 503, 413, 401} and per ID header a client value in {absent, empty, plain, interior SP/HTAB, punctuation, obs-text >=0x80, Unicode, looks-generated req_/trace_+24 hex, 1-2 KiB} sent under a drawn spelling of the name, fresh or kept-alive connection; "

func TestC16Propagation(t *testing.T) {
	sub := lab.Sub("id-propagation", ruleCommon+"oracle per enabled feature: exactly one field line on every response; client value echoed and forwarded unchanged, else one fresh non-empty value, backend-seen = client-got, fresh values unique run-wide and different from any client value of the request; "+
		"per disabled feature: absent from the response, client field lines reach the backend unchanged; non-trivial = non-proxied path, or an ID header present in the request, or a custom header name")
	sub.NontrivialFloor(0.60)
	sub.Floor("path-429", 0.03)
	sub.Floor("path-503", 0.05)
	sub.Floor("path-413", 0.04)
	sub.Floor("path-401", 0.04)
	sub.Floor("proxied-5xx", 0.05)
	sub.Floor("client-supplied", 0.25)
	sub.Floor("custom-header-name", 0.30)
	sub.Floor("both-disabled", 0.04)
	assumptions()
	lab.Check(t, sub, 1500, 30000, func(rt *rapid.T) { runLabCase(rt, sub, false) })
}

func TestC16PluginTransformer(t *testing.T) {
	sub := lab.Sub("id-propagation-with-request-id-plugin", ruleCommon+"the chain additionally contains the documented transformer plugin `request-id` (always generates X-Request-ID) at a drawn position; "+
		"oracle for X-Request-ID: exactly one non-empty value on the response, backend-seen = client-got, values the plugin/middleware generated are unique run-wide (preservation of a client value is NOT required for this header); the trace header and a custom-named request_id header keep the full oracle; "+
		"non-trivial = as above")
	sub.NontrivialFloor(0.60)
	sub.Floor("path-proxied", 0.30)
	lab.Check(t, sub, 400, 8000, func(rt *rapid.T) { runLabCase(rt, sub, true) })
}

func assumptions() {
	lab.Assume("L2: handler composition and server timeouts replicate cmd/helios/server.go (lab.BuildHandler, lab.NewSocketLab); HTTP/1.1 over loopback only; the binary itself (L3) is not started by this check")
	lab.Assume("client ID values are exactly what net/http's request parser delivers: no CR/LF/NUL/CTL bytes, no leading/trailing SP/HTAB (stripped by the parser before Helios sees the value); one field line per ID header (repeated ID field lines are not explored)")
	lab.Assume("an empty client value counts as 'not supplied' (a fresh identifier is expected)")
	lab.Assume("scripted backends never emit the ID header names themselves: which value should win then is not stated and not explored")
	lab.Assume("request bodies are kept out of the proxied exchanges (only the 413 request has one) because of the open finding C01/request-body-close-race")
	lab.Assume("uniqueness is decided per test process (shard): identifiers are not compared across shards")
}
