package c16

import (
	"fmt"
	"testing"

	"github.com/0xReLogic/Helios/verifharness/lab"
)

// reproUnicodeTrim is the fixed minimal reproduction of the open finding "unicode-space-trimmed":
// request_id enabled (default header), one backend, GET / with "X-Request-ID: <U+00A0>abc".
// The HTTP parser does not strip U+00A0 (it is obs-text, not optional whitespace), the middleware's
// strings.TrimSpace does: the client is given "abc", the backend receives "<U+00A0>abc".
func reproUnicodeTrim() (clientGot, backendSaw string, err error) {
	lc := labCfg{Strategy: "round_robin", Backends: 1, ReqID: true, EjectAt: -1}
	l, err := lab.NewSocketLab(lc.Strategy, lab.SocketOpts{Backends: 1, Mutate: lc.mutate})
	if err != nil {
		return "", "", err
	}
	defer l.Close()
	ec := exchangeCase{Path: "proxied", Method: "GET", Target: "/", Status: 200,
		Req: idVal{Class: "unicode-space-edge", Name: "X-Request-ID", v: "\u00a0abc"}, Trace: idVal{Class: "absent"}}
	c := &conn{}
	defer c.drop()
	ob, herr := runExchange(l, lc, &ec, c)
	if herr != "" {
		return "", "", fmt.Errorf("%s", herr)
	}
	if ob.seen == nil {
		return "", "", fmt.Errorf("request did not reach the backend (status %d)", ob.out.Status)
	}
	return ob.out.Header.Get("X-Request-Id"), ob.seen.Header.Get("X-Request-Id"), nil
}

// TestC16KnownFindings re-runs the fixed reproduction of every open finding of C16 and prints its
// KNOWN-FINDING line while it still fails.
func TestC16KnownFindings(t *testing.T) {
	if lab.Replaying() || lab.Shard() != 0 {
		t.Skip()
	}
	if lab.Open("unicode-space-trimmed") {
		got, saw, err := reproUnicodeTrim()
		if err != nil {
			t.Fatalf("harness: %v", err)
		}
		if got != "\u00a0abc" || saw != got {
			lab.KnownFinding("unicode-space-trimmed", fmt.Sprintf("request_id enabled, client sends 'X-Request-ID: <U+00A0>abc' (bytes c2 a0 61 62 63): the response carries X-Request-Id %s, the backend received %s "+
				"(the middleware strings.TrimSpace()s Unicode white space the HTTP parser does not treat as whitespace; a value made only of such characters is replaced by a generated one); %d generated exchange(s) of this run were moved out of the region",
				quote(got), quote(saw), excludedEdge))
		}
	}
}
