package c16

import (
	"fmt"
	"net/http"
	"strconv"
	"strings"
	"sync"
	"unicode"
	"unicode/utf8"

	"github.com/0xReLogic/Helios/internal/config"
	"github.com/0xReLogic/Helios/verifharness/lab"
	"pgregory.net/rapid"
)

// ---------------------------------------------------------------------------------------------
// Lab configuration
// ---------------------------------------------------------------------------------------------

const (
	apiKey       = "k-3c9f"
	maxReqBody   = 16 // size_limit max_request_body (bytes); the 413 request declares 64
	bigBodyBytes = 64
)

type labCfg struct {
	Strategy  string   `json:"strategy"`
	Backends  int      `json:"backends"`
	ReqID     bool     `json:"request_id"`
	Trace     bool     `json:"trace"`
	ReqHdr    string   `json:"request_id_header"` // as configured ("" = default X-Request-ID)
	TraceHdr  string   `json:"trace_header"`      // as configured ("" = default X-Trace-ID)
	Chain     []string `json:"chain"`
	RateLimit bool     `json:"rate_limit_max1"`
	EjectAt   int      `json:"eject_all_before_exchange"` // -1: never
}

// configured names are drawn from two disjoint pools, so the two features never share a header
var reqNames = []string{"", "", "", "X-Correlation-Id", "x-correlation-id", "REQUEST_ID", "x.req~id", " X-Req-Token ", "Request-Id"}
var traceNames = []string{"", "", "", "x-b3-traceid", "traceparent", "X-Amzn-Trace-Id", "TRACE_ID", "x-trace!id", "X-Cloud-Trace-Context"}

// effective header names: the documented defaults, configured value trimmed (README: "header: name of
// the header"), compared case-insensitively as every HTTP field name is
func (c labCfg) names() (req, trace string) {
	req, trace = "X-Request-ID", "X-Trace-ID"
	if s := strings.TrimSpace(c.ReqHdr); s != "" {
		req = s
	}
	if s := strings.TrimSpace(c.TraceHdr); s != "" {
		trace = s
	}
	return http.CanonicalHeaderKey(req), http.CanonicalHeaderKey(trace)
}

func (c labCfg) has(plugin string) bool {
	for _, p := range c.Chain {
		if p == plugin {
			return true
		}
	}
	return false
}

func (c labCfg) custom() bool {
	return strings.TrimSpace(c.ReqHdr) != "" && c.ReqID || strings.TrimSpace(c.TraceHdr) != "" && c.Trace
}

func pluginConfig(name string) config.PluginConfig {
	switch name {
	case "custom-auth":
		return config.PluginConfig{Name: name, Config: map[string]interface{}{"apiKey": apiKey}}
	case "size_limit":
		return config.PluginConfig{Name: name, Config: map[string]interface{}{"max_request_body": maxReqBody}}
	case "headers":
		return config.PluginConfig{Name: name, Config: map[string]interface{}{
			"set":         map[string]interface{}{"X-App": "Helios"},
			"request_set": map[string]interface{}{"X-From": "LB"}}}
	case "gzip":
		return config.PluginConfig{Name: name, Config: map[string]interface{}{"level": 5.0, "min_size": 1.0,
			"content_types": []interface{}{"text/", "application/"}}}
	}
	return config.PluginConfig{Name: name}
}

func (c labCfg) mutate(cfg *config.Config) {
	cfg.Logging.RequestID.Enabled, cfg.Logging.Trace.Enabled = c.ReqID, c.Trace
	cfg.Logging.RequestID.Header, cfg.Logging.Trace.Header = c.ReqHdr, c.TraceHdr
	if len(c.Chain) > 0 {
		cfg.Plugins.Enabled = true
		for _, p := range c.Chain {
			cfg.Plugins.Chain = append(cfg.Plugins.Chain, pluginConfig(p))
		}
	}
	if c.RateLimit {
		cfg.RateLimit.Enabled, cfg.RateLimit.MaxTokens, cfg.RateLimit.RefillRate = true, 1, 3600
	}
}

// genLab draws a lab. withPlugin forces the `request-id` plugin into the chain (transformer sub-check).
func genLab(t *rapid.T, withPlugin bool, exchanges int) labCfg {
	c := labCfg{Strategy: rapid.SampledFrom(lab.Strategies).Draw(t, "strategy"), Backends: rapid.IntRange(1, 3).Draw(t, "backends"), EjectAt: -1}
	switch rapid.IntRange(0, 9).Draw(t, "features") {
	case 0:
		c.ReqID = true
	case 1:
		c.Trace = true
	case 2:
	default:
		c.ReqID, c.Trace = true, true
	}
	c.ReqHdr = rapid.SampledFrom(reqNames).Draw(t, "reqhdr")
	c.TraceHdr = rapid.SampledFrom(traceNames).Draw(t, "tracehdr")
	var pool []string
	if rapid.Bool().Draw(t, "auth") {
		pool = append(pool, "custom-auth")
	}
	if rapid.Bool().Draw(t, "sizelimit") {
		pool = append(pool, "size_limit")
	}
	if rapid.IntRange(0, 2).Draw(t, "logplugin") == 0 {
		pool = append(pool, "logging")
	}
	if rapid.IntRange(0, 2).Draw(t, "hdrplugin") == 0 {
		pool = append(pool, "headers")
	}
	if rapid.IntRange(0, 3).Draw(t, "gzipplugin") == 0 {
		pool = append(pool, "gzip")
	}
	if withPlugin {
		pool = append(pool, "request-id")
	}
	c.Chain = rapid.Permutation(pool).Draw(t, "order")
	if len(pool) == 0 {
		c.Chain = nil
	}
	c.RateLimit = rapid.IntRange(0, 2).Draw(t, "ratelimit") == 0
	if rapid.IntRange(0, 2).Draw(t, "eject") == 0 {
		c.EjectAt = rapid.IntRange(0, exchanges-1).Draw(t, "ejectat")
	}
	return c
}

// ---------------------------------------------------------------------------------------------
// Client-supplied ID values: only what arrives through net/http's request parser — no CR/LF/NUL/CTL,
// no leading/trailing SP/HTAB (the parser strips optional whitespace itself).
// ---------------------------------------------------------------------------------------------

type idVal struct {
	Class  string   `json:"class"` // absent | empty | plain | interior-ws | punct | obs-text | unicode | unicode-space-edge | looks-generated | long
	Quoted string   `json:"value,omitempty"`
	Name   string   `json:"sent_as,omitempty"`             // field name spelling the client used
	More   []string `json:"further_field_lines,omitempty"` // the client (or an egress proxy in front of it) sent the header as several field lines: these follow the first
	v      string
}

// lines are all field lines the client sent for this header, in order.
func (v idVal) lines() []string { return append([]string{v.v}, v.More...) }

func (v idVal) supplied() bool { return v.Class != "absent" && v.v != "" }
func (v idVal) present() bool  { return v.Class != "absent" }

var words = []string{"a", "Z9", "client-req-1", "7f3a", "id", "0", "trace", "abc.def", "A_B", "00-4bf92f3577b34da6a3ce929d0e0e4736-00f067aa0ba902b7-01"}
var puncts = []string{"\"", "(", ")", ",", "/", ":", ";", "<", "=", ">", "?", "@", "[", "\\", "]", "{", "}", "!#$%&'*+-.^_`|~", ",,", "\"quoted, text\"", "a=b;c=d", "%0d%0a", "..//"}
var obs = []string{"\x80", "\xff", "\xfe\xfd", "\xc3", "\xa0", "\x85", "\xe2\x80", "\x80\x81\x82\xfe"}
var unis = []string{"\u00e9", "\u65e5\u672c", "\U0001F600", "\u00df", "\u0131", "\u200b", "\ufeff"}

// Unicode White_Space characters as UTF-8: legal header-value bytes (obs-text), not HTTP whitespace
var unispaces = []string{"\u00a0", "\u0085", "\u3000", "\u2028", "\u2003", "\u1680"}

func hex24(t *rapid.T) string {
	const hexd = "0123456789abcdef"
	b := make([]byte, 24)
	for i := range b {
		b[i] = hexd[rapid.IntRange(0, 15).Draw(t, "hex")]
	}
	return string(b)
}

func genIDVal(t *rapid.T, prefix, name string) idVal {
	v := idVal{}
	switch k := rapid.IntRange(0, 19).Draw(t, "valclass"); {
	case k < 6:
		v.Class = "absent"
		return v
	case k < 8:
		v.Class = "empty"
	case k < 9:
		v.Class, v.v = "plain", rapid.SampledFrom(words).Draw(t, "word")
	case k < 11:
		v.Class = "looks-generated"
		v.v = prefix + "_" + hex24(t)
	case k < 13:
		v.Class = "long"
		n := rapid.IntRange(1024, 2048).Draw(t, "len")
		unit := rapid.SampledFrom([]string{"x", "ab ", "9f", "é", "\xff-", "a,b;"}).Draw(t, "unit")
		s := strings.Repeat(unit, n/len(unit)+1)[:n]
		s = strings.Trim(s, " \t")
		v.v = "L" + s + "E"
	case k < 14:
		v.Class = "interior-ws"
		v.v = rapid.SampledFrom(words).Draw(t, "word") + rapid.SampledFrom([]string{" ", "\t", "  ", " \t ", "\t\t"}).Draw(t, "ws") + rapid.SampledFrom(words).Draw(t, "word2")
	default:
		// a drawn sequence of pieces; the class is what the sequence contains
		n := rapid.IntRange(1, 6).Draw(t, "pieces")
		var sb strings.Builder
		for i := 0; i < n; i++ {
			switch rapid.IntRange(0, 5).Draw(t, "piece") {
			case 0:
				sb.WriteString(rapid.SampledFrom(words).Draw(t, "word"))
			case 1:
				sb.WriteString(rapid.SampledFrom([]string{" ", "\t", "  ", " \t "}).Draw(t, "ws"))
			case 2:
				sb.WriteString(rapid.SampledFrom(puncts).Draw(t, "punct"))
			case 3:
				sb.WriteString(rapid.SampledFrom(obs).Draw(t, "obs"))
			case 4:
				sb.WriteString(rapid.SampledFrom(unis).Draw(t, "uni"))
			case 5:
				sb.WriteString(rapid.SampledFrom(unispaces).Draw(t, "unispace"))
			}
		}
		v.v = strings.Trim(sb.String(), " \t") // what the parser would hand to Helios anyway
		v.Class = classify(v.v)
	}
	spell := rapid.IntRange(0, 3).Draw(t, "spelling")
	switch spell {
	case 0:
		v.Name = name
	case 1:
		v.Name = strings.ToLower(name)
	case 2:
		v.Name = strings.ToUpper(name)
	default:
		v.Name = http.CanonicalHeaderKey(name)
	}
	v.Quoted = quote(v.v)
	// one supplied identifier in ten arrives as two or three field lines (legal HTTP; typical when an egress
	// proxy adds its own identifier to the client's)
	if v.v != "" && rapid.IntRange(0, 9).Draw(t, "multiline") == 0 {
		for i, n := 0, rapid.IntRange(1, 2).Draw(t, "morelines"); i < n; i++ {
			v.More = append(v.More, rapid.SampledFrom([]string{"egress-proxy-id-9", "B", "second", prefix + "_" + "0123456789abcdef01234567", "x y"}).Draw(t, "moreline"))
		}
	}
	return v
}

func quote(s string) string {
	if len(s) > 96 {
		return strconv.QuoteToASCII(s[:48]) + fmt.Sprintf("…(%d bytes)…", len(s)) + strconv.QuoteToASCII(s[len(s)-16:])
	}
	return strconv.QuoteToASCII(s)
}

// edgeUnicodeSpace: the value begins or ends with a Unicode White_Space character that is not HTTP
// optional whitespace (independent re-statement; used only to key the open finding).
func edgeUnicodeSpace(s string) bool {
	if s == "" {
		return false
	}
	r, _ := utf8.DecodeRuneInString(s)
	l, _ := utf8.DecodeLastRuneInString(s)
	return r != utf8.RuneError && unicode.IsSpace(r) && r > 0x7f || l != utf8.RuneError && unicode.IsSpace(l) && l > 0x7f
}

func classify(s string) string {
	switch {
	case s == "":
		return "empty"
	case edgeUnicodeSpace(s):
		return "unicode-space-edge"
	case !utf8.ValidString(s):
		return "obs-text"
	case strings.ContainsAny(s, " \t"):
		return "interior-ws"
	}
	for _, r := range s {
		if r > 0x7f {
			return "unicode"
		}
	}
	if strings.ContainsAny(s, "\"(),/:;<=>?@[\\]{}") {
		return "punct"
	}
	return "plain"
}

// ---------------------------------------------------------------------------------------------
// Exchanges
// ---------------------------------------------------------------------------------------------

type exchangeCase struct {
	Path        string `json:"path"` // proxied | 429 | 503 | 413 | 401
	Method      string `json:"method"`
	Target      string `json:"target"`
	Req         idVal  `json:"request_id_value"`
	Trace       idVal  `json:"trace_value"`
	Status      int    `json:"backend_status,omitempty"`
	Client      string `json:"x_forwarded_for,omitempty"`
	Reuse       bool   `json:"reuse_conn,omitempty"`
	Interim     bool   `json:"backend_interim,omitempty"` // the backend sends an interim response (InterimCode: 100 Continue, 102 Processing, 103 Early Hints) before its final one
	InterimCode int    `json:"backend_interim_code,omitempty"`
	Backend     string `json:"backend_id_headers,omitempty"` // "": none; "echo": the backend copies the ID headers it received into its response; "own": it sends values of its own under those names
	Excluded    string `json:"-"`
}

var proxiedStatuses = []int{200, 200, 201, 204, 302, 404, 500, 502, 503}
var targets = []string{"/", "/api/v1/items?x=1", "/a%20b", "/health", "/x/y/z?q=%C3%A9"}

// labState is what the harness must remember to predict which response path a request takes.
type labState struct {
	usedClients map[string]bool
	ejected     bool
	nextClient  int
}

func genExchange(t *rapid.T, lc labCfg, st *labState) exchangeCase {
	var ec exchangeCase
	// intended path among the ones this lab can produce now
	paths := []string{"proxied", "proxied", "proxied"}
	if lc.has("custom-auth") {
		paths = append(paths, "401", "401")
	}
	if lc.has("size_limit") {
		paths = append(paths, "413", "413")
	}
	if lc.RateLimit && len(st.usedClients) > 0 {
		paths = append(paths, "429", "429", "429")
	}
	ec.Path = rapid.SampledFrom(paths).Draw(t, "path")
	ec.Method = rapid.SampledFrom([]string{"GET", "GET", "HEAD", "DELETE", "OPTIONS"}).Draw(t, "method")
	if ec.Path == "413" {
		ec.Method = rapid.SampledFrom([]string{"POST", "PUT", "PATCH"}).Draw(t, "method-body")
	}
	ec.Target = rapid.SampledFrom(targets).Draw(t, "target")
	// the client spells the name as configured or in another case; names are case-insensitive
	rs, ts := strings.TrimSpace(lc.ReqHdr), strings.TrimSpace(lc.TraceHdr)
	if rs == "" {
		rs = "X-Request-ID"
	}
	if ts == "" {
		ts = "X-Trace-ID"
	}
	ec.Req = genIDVal(t, "req", rs)
	ec.Trace = genIDVal(t, "trace", ts)
	ec.Status = rapid.SampledFrom(proxiedStatuses).Draw(t, "status")
	ec.Reuse = rapid.Bool().Draw(t, "reuse")
	ec.Interim = rapid.IntRange(0, 4).Draw(t, "interim") == 0
	ec.InterimCode = rapid.SampledFrom([]int{103, 103, 100, 102}).Draw(t, "interim_code")
	ec.Backend = rapid.SampledFrom([]string{"", "", "", "", "", "", "echo", "own"}).Draw(t, "backend-ids")
	if lc.RateLimit {
		// the limiter attributes a request to the first X-Forwarded-For element (documented), so a
		// client address is chosen per exchange: a used one for the 429 path, a fresh one otherwise
		if ec.Path == "429" {
			used := make([]string, 0, len(st.usedClients))
			for i := 0; i < st.nextClient; i++ {
				if a := clientAddr(i); st.usedClients[a] {
					used = append(used, a)
				}
			}
			ec.Client = rapid.SampledFrom(used).Draw(t, "usedclient")
		} else {
			ec.Client = clientAddr(st.nextClient)
			st.nextClient++
		}
	}
	return ec
}

func clientAddr(i int) string { return fmt.Sprintf("10.%d.%d.%d", 1+i/65536, (i/256)%256, i%256) }

// ---------------------------------------------------------------------------------------------
// Run-wide set of generated identifiers (uniqueness across requests, L2 and in-process together)
// ---------------------------------------------------------------------------------------------

var (
	genMu   sync.Mutex
	genSeen = map[string]string{} // id -> where it was first seen
)

// noteGenerated records an identifier Helios generated; it returns the earlier sighting if the same
// identifier was generated before in this process.
func noteGenerated(id, where string) (dupOf string, dup bool) {
	genMu.Lock()
	defer genMu.Unlock()
	if w, ok := genSeen[id]; ok {
		return w, true
	}
	genSeen[id] = where
	return "", false
}

func generatedCount() int { genMu.Lock(); defer genMu.Unlock(); return len(genSeen) }
