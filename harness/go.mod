module github.com/0xReLogic/Helios/verifharness

go 1.23

require (
	github.com/0xReLogic/Helios v0.0.0
	github.com/anishathalye/porcupine v1.3.0
	github.com/gorilla/websocket v1.5.3
	gopkg.in/yaml.v3 v3.0.1
	pgregory.net/rapid v1.3.0
)

require (
	github.com/mattn/go-colorable v0.1.13 // indirect
	github.com/mattn/go-isatty v0.0.19 // indirect
	github.com/rs/zerolog v1.34.0 // indirect
	golang.org/x/sys v0.12.0 // indirect
)

replace github.com/0xReLogic/Helios => /repo
