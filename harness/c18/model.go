package c18

// Configuration model of C18: an abstract description of what the operator wrote (including what
// was omitted), a renderer to YAML text, and — in ref.go — the reference validity predicate written
// from the documented constraints. Nothing here calls into internal/config.

import (
	"fmt"
	"regexp"
	"strconv"
	"strings"
)

// Feature mode: how a feature block is written.
const (
	Omitted   = "omitted"              // block absent
	Disabled  = "disabled"             // enabled: false, no other fields
	DisabledV = "disabled-with-values" // enabled: false plus valid values (as the shipped file does for TLS)
	Enabled   = "enabled"              // enabled: true with every field written explicitly
)

type Backend struct {
	Name    *string `json:"name"`    // nil = key omitted
	Address *string `json:"address"` // nil = key omitted
	Weight  *int    `json:"weight"`  // nil = key omitted
}

type TLS struct {
	Mode string `json:"mode"` // omitted | disabled | disabled-with-values | enabled
	Cert string `json:"cert"` // "" = key omitted
	Key  string `json:"key"`
}

type Pool struct {
	Mode                        string `json:"mode"`
	MaxIdle, MaxActive, IdleSec int
}

type Active struct {
	Mode              string `json:"mode"`
	Interval, Timeout int
	Path              string `json:"path"` // written explicitly (possibly "") when enabled
}

type Passive struct {
	Mode               string `json:"mode"`
	Threshold, Timeout int
}

type Rate struct {
	Mode              string `json:"mode"`
	MaxTokens, Refill int
}

type Breaker struct {
	Mode                                string `json:"mode"`
	MaxRequests                         *int   `json:"max_requests"` // nil = omitted (no documented constraint)
	Interval, Timeout, Failure, Success int
}

type Metrics struct {
	Mode string `json:"mode"`
	Port int
	Path string
}

type Admin struct {
	Mode  string `json:"mode"`
	Port  int
	Token string `json:"token"` // "" = omitted
	Lists int    `json:"lists"` // 0 none, 1 allow list (docs example), 2 allow+deny (docs example), 3 deny only
}

type Logging struct {
	Mode          string  `json:"mode"`   // omitted | enabled (= block present)
	Level         *string `json:"level"`  // nil = omitted
	Format        *string `json:"format"` // nil = omitted
	IncludeCaller *bool   `json:"include_caller"`
	IDs           int     `json:"ids"` // 0 omitted, 1 request_id+trace enabled with headers, 2 disabled
}

// PluginElem is a documented plugin with its numeric options typed as YAML int / float / string.
type PluginElem struct {
	Name string `json:"name"`
	Typ  string `json:"typ,omitempty"`  // int | float | string  (size_limit, gzip)
	Bare string `json:"bare,omitempty"` // "" = documented payload; otherwise the entry has no usable config: absent | null | null-explicit | tilde | empty
	A    int    `json:"a,omitempty"`    // size_limit: max_request_body; gzip: level
	B    int    `json:"b,omitempty"`    // size_limit: max_response_body; gzip: min_size
}

type Plugins struct {
	Mode  string       `json:"mode"` // omitted | disabled | enabled
	Chain []PluginElem `json:"chain"`
	// string options of the chain's plugins ("" = the value of the documentation's example)
	Key    string `json:"api_key,omitempty"`     // apiKey of every custom-auth entry (default VerifAPIKey)
	SetVal string `json:"set_value,omitempty"`   // headers: value of set.X-App (default Helios)
	ReqVal string `json:"req_set_val,omitempty"` // headers: value of request_set.X-From (default LB)
}

// APIKey is the apiKey every custom-auth entry of the chain is written with.
func (p Plugins) APIKey() string {
	if p.Key != "" {
		return p.Key
	}
	return VerifAPIKey
}

func (p Plugins) setVal() string {
	if p.SetVal != "" {
		return p.SetVal
	}
	return "Helios"
}

func (p Plugins) reqVal() string {
	if p.ReqVal != "" {
		return p.ReqVal
	}
	return "LB"
}

// Model is one generated configuration file.
type Model struct {
	Port         int            `json:"port"`
	TLS          TLS            `json:"tls"`
	Timeouts     map[string]int `json:"timeouts"`      // nil = block omitted; only the listed keys are written
	BackendsMode string         `json:"backends_mode"` // list | omitted | empty
	Backends     []Backend      `json:"backends"`
	Strategy     *string        `json:"strategy"` // nil = omitted
	Pool         Pool           `json:"pool"`
	Active       Active         `json:"active"`
	Passive      Passive        `json:"passive"`
	Rate         Rate           `json:"rate"`
	Breaker      Breaker        `json:"breaker"`
	Metrics      Metrics        `json:"metrics"`
	Admin        Admin          `json:"admin"`
	Logging      Logging        `json:"logging"`
	Plugins      Plugins        `json:"plugins"`
	Order        []int          `json:"order"`            // order of the top-level sections in the file
	Quote        bool           `json:"quote"`            // strings double-quoted (as the shipped file) or plain
	Single       bool           `json:"single,omitempty"` // quoted strings are written in single quotes where YAML allows it
	Comments     bool           `json:"comments"`
}

// VerifAPIKey is the default apiKey of the generated custom-auth entries (Plugins.APIKey).
const VerifAPIKey = "verif-key"

// BareForms are the ways a chain entry can come without a usable config.
var BareForms = []string{"absent", "null", "null-explicit", "tilde", "empty"}

// BuiltinPlugins are all plugin names Helios registers.
var BuiltinPlugins = []string{"logging", "headers", "size_limit", "gzip", "custom-auth", "request-id"}

// needsConfig: plugins whose factory cannot work without options (a bare entry must end in an
// error, never in a panic); for the others a bare entry is the documented `- name: logging` form
// or documented defaults (size_limit).
func needsConfig(name string) bool { return name == "gzip" || name == "custom-auth" }

var TimeoutKeys = []string{"read", "write", "idle", "handler", "shutdown", "backend_dial", "backend_read", "backend_idle"}

func sp(s string) *string { return &s }
func ip(i int) *int       { return &i }

// ---------------------------------------------------------------------------------------------
// YAML rendering
// ---------------------------------------------------------------------------------------------

type yw struct {
	b        strings.Builder
	quote    bool
	single   bool
	comments bool
}

func (w *yw) line(indent int, format string, a ...any) {
	w.b.WriteString(strings.Repeat("  ", indent))
	fmt.Fprintf(&w.b, format, a...)
	w.b.WriteByte('\n')
}

// plainOK: strings that are written as a plain (unquoted) YAML scalar when the model does not ask for
// quotes: they start with a letter or '/', contain no YAML indicator and no white space - '$', '=',
// '+', '^' are ordinary characters of a plain scalar.
var plainOK = regexp.MustCompile(`^[A-Za-z/][A-Za-z0-9_./$=+^-]*$`)

var yamlWords = map[string]bool{"true": true, "false": true, "null": true, "yes": true, "no": true, "on": true, "off": true, "y": true, "n": true}

// str renders a string value as a YAML scalar that reads back as exactly that string: plain where
// that is possible and the model does not ask for quotes; otherwise single-quoted (” for a quote,
// everything else - $ % # \ : { } - literal) or double-quoted (\\ and \" escaped, everything else
// literal). Values never contain control characters or line breaks.
func (w *yw) str(s string) string {
	if !w.quote && plainOK.MatchString(s) && !yamlWords[strings.ToLower(s)] {
		return s
	}
	if w.single {
		return "'" + strings.ReplaceAll(s, "'", "''") + "'"
	}
	return `"` + strings.NewReplacer(`\`, `\\`, `"`, `\"`).Replace(s) + `"`
}

func (w *yw) c(text string) string {
	if w.comments {
		return " # " + text
	}
	return ""
}

func typed(n int, typ string) string {
	switch typ {
	case "float":
		return fmt.Sprintf("%d.0", n)
	case "float-exp":
		return strconv.FormatFloat(float64(n), 'e', -1, 64)
	case "string":
		return fmt.Sprintf("\"%d\"", n)
	}
	return fmt.Sprintf("%d", n)
}

func (m *Model) sectionServer(w *yw) {
	w.line(0, "server:")
	w.line(1, "port: %d%s", m.Port, w.c("Port for the proxy server"))
	switch m.TLS.Mode {
	case Disabled:
		w.line(1, "tls:")
		w.line(2, "enabled: false")
	case DisabledV, Enabled:
		w.line(1, "tls:")
		w.line(2, "enabled: %v", m.TLS.Mode == Enabled)
		if m.TLS.Cert != "" {
			w.line(2, "certFile: %s", w.str(m.TLS.Cert))
		}
		if m.TLS.Key != "" {
			w.line(2, "keyFile: %s", w.str(m.TLS.Key))
		}
	}
	if m.Timeouts != nil {
		w.line(1, "timeouts:")
		for _, k := range TimeoutKeys {
			if v, ok := m.Timeouts[k]; ok {
				w.line(2, "%s: %d%s", k, v, w.c("seconds"))
			}
		}
	}
}

func (m *Model) sectionBackends(w *yw) {
	switch m.BackendsMode {
	case "omitted":
		return
	case "empty":
		w.line(0, "backends: []")
		return
	}
	w.line(0, "backends:")
	for _, b := range m.Backends {
		first := true
		item := func(format string, a ...any) {
			prefix := "    "
			if first {
				prefix = "  - "
				first = false
			}
			w.b.WriteString(prefix + fmt.Sprintf(format, a...) + "\n")
		}
		if b.Name != nil {
			item("name: %s", w.str(*b.Name))
		}
		if b.Address != nil {
			item("address: %s", w.str(*b.Address))
		}
		if b.Weight != nil {
			item("weight: %d", *b.Weight)
		}
		if first {
			w.b.WriteString("  - {}\n")
		}
	}
}

func (m *Model) sectionLB(w *yw) {
	if m.Strategy == nil && m.Pool.Mode == Omitted {
		return
	}
	w.line(0, "load_balancer:")
	if m.Strategy != nil {
		w.line(1, "strategy: %s%s", w.str(*m.Strategy), w.c("round_robin, least_connections, weighted_round_robin, ip_hash, ip_hash_consistent"))
	}
	switch m.Pool.Mode {
	case Disabled:
		w.line(1, "websocket_pool:")
		w.line(2, "enabled: false")
	case DisabledV, Enabled:
		w.line(1, "websocket_pool:")
		w.line(2, "enabled: %v", m.Pool.Mode == Enabled)
		w.line(2, "max_idle: %d", m.Pool.MaxIdle)
		w.line(2, "max_active: %d%s", m.Pool.MaxActive, w.c("0 = unlimited"))
		w.line(2, "idle_timeout_seconds: %d", m.Pool.IdleSec)
	}
}

func (m *Model) sectionHealth(w *yw) {
	if m.Active.Mode == Omitted && m.Passive.Mode == Omitted {
		return
	}
	w.line(0, "health_checks:")
	switch m.Active.Mode {
	case Disabled:
		w.line(1, "active:")
		w.line(2, "enabled: false")
	case DisabledV, Enabled:
		w.line(1, "active:")
		w.line(2, "enabled: %v", m.Active.Mode == Enabled)
		w.line(2, "interval: %d%s", m.Active.Interval, w.c("Interval in seconds"))
		w.line(2, "timeout: %d", m.Active.Timeout)
		w.line(2, "path: %s", w.str(m.Active.Path))
	}
	switch m.Passive.Mode {
	case Disabled:
		w.line(1, "passive:")
		w.line(2, "enabled: false")
	case DisabledV, Enabled:
		w.line(1, "passive:")
		w.line(2, "enabled: %v", m.Passive.Mode == Enabled)
		w.line(2, "unhealthy_threshold: %d", m.Passive.Threshold)
		w.line(2, "unhealthy_timeout: %d", m.Passive.Timeout)
	}
}

func (m *Model) sectionRate(w *yw) {
	switch m.Rate.Mode {
	case Disabled:
		w.line(0, "rate_limit:")
		w.line(1, "enabled: false")
	case DisabledV, Enabled:
		w.line(0, "rate_limit:")
		w.line(1, "enabled: %v", m.Rate.Mode == Enabled)
		w.line(1, "max_tokens: %d%s", m.Rate.MaxTokens, w.c("Maximum tokens in bucket"))
		w.line(1, "refill_rate_seconds: %d", m.Rate.Refill)
	}
}

func (m *Model) sectionBreaker(w *yw) {
	switch m.Breaker.Mode {
	case Disabled:
		w.line(0, "circuit_breaker:")
		w.line(1, "enabled: false")
	case DisabledV, Enabled:
		w.line(0, "circuit_breaker:")
		w.line(1, "enabled: %v", m.Breaker.Mode == Enabled)
		if m.Breaker.MaxRequests != nil {
			w.line(1, "max_requests: %d", *m.Breaker.MaxRequests)
		}
		w.line(1, "interval_seconds: %d", m.Breaker.Interval)
		w.line(1, "timeout_seconds: %d", m.Breaker.Timeout)
		w.line(1, "failure_threshold: %d", m.Breaker.Failure)
		w.line(1, "success_threshold: %d", m.Breaker.Success)
	}
}

func (m *Model) sectionMetrics(w *yw) {
	switch m.Metrics.Mode {
	case Disabled:
		w.line(0, "metrics:")
		w.line(1, "enabled: false")
	case DisabledV, Enabled:
		w.line(0, "metrics:")
		w.line(1, "enabled: %v", m.Metrics.Mode == Enabled)
		w.line(1, "port: %d%s", m.Metrics.Port, w.c("Port for metrics server"))
		w.line(1, "path: %s", w.str(m.Metrics.Path))
	}
}

func (m *Model) sectionAdmin(w *yw) {
	switch m.Admin.Mode {
	case Omitted:
		return
	case Disabled:
		w.line(0, "admin_api:")
		w.line(1, "enabled: false")
		return
	}
	w.line(0, "admin_api:")
	w.line(1, "enabled: %v", m.Admin.Mode == Enabled)
	w.line(1, "port: %d", m.Admin.Port)
	if m.Admin.Token != "" {
		w.line(1, "auth_token: %s", w.str(m.Admin.Token))
	}
	switch m.Admin.Lists {
	case 1:
		w.line(1, "ip_allow_list:")
		w.line(2, "- \"127.0.0.1\"%s", w.c("Allow localhost"))
		w.line(2, "- \"::1\"")
	case 2:
		w.line(1, "ip_allow_list:")
		w.line(2, "- \"127.0.0.1\"")
		w.line(2, "- \"192.168.1.0/24\"")
		w.line(2, "- \"10.0.0.0/8\"")
		w.line(1, "ip_deny_list:")
		w.line(2, "- \"203.0.113.0/24\"")
		w.line(2, "- \"198.51.100.50\"")
	case 3:
		w.line(1, "ip_deny_list:")
		w.line(2, "- \"203.0.113.0/24\"%s", w.c("Block this subnet"))
	}
}

func (m *Model) sectionLogging(w *yw) {
	if m.Logging.Mode == Omitted {
		return
	}
	body := 0
	w.line(0, "logging:")
	if m.Logging.Level != nil {
		w.line(1, "level: %s%s", w.str(*m.Logging.Level), w.c("Log level: debug, info, warn, error"))
		body++
	}
	if m.Logging.Format != nil {
		w.line(1, "format: %s%s", w.str(*m.Logging.Format), w.c("text (console) or json"))
		body++
	}
	if m.Logging.IncludeCaller != nil {
		w.line(1, "include_caller: %v", *m.Logging.IncludeCaller)
		body++
	}
	switch m.Logging.IDs {
	case 1:
		w.line(1, "request_id:")
		w.line(2, "enabled: true")
		w.line(2, "header: \"X-Request-ID\"")
		w.line(1, "trace:")
		w.line(2, "enabled: true")
		w.line(2, "header: \"X-Trace-ID\"")
		body++
	case 2:
		w.line(1, "request_id:")
		w.line(2, "enabled: false")
		w.line(1, "trace:")
		w.line(2, "enabled: false")
		body++
	}
	if body == 0 {
		w.line(1, "include_caller: false")
	}
}

func (m *Model) sectionPlugins(w *yw) {
	switch m.Plugins.Mode {
	case Omitted:
		return
	case Disabled:
		w.line(0, "plugins:")
		w.line(1, "enabled: false")
		return
	}
	w.line(0, "plugins:")
	w.line(1, "enabled: true")
	if len(m.Plugins.Chain) == 0 {
		w.line(1, "chain: []")
		return
	}
	w.line(1, "chain:")
	for _, p := range m.Plugins.Chain {
		w.line(2, "- name: %s", p.Name)
		if p.Bare != "" {
			switch p.Bare {
			case "null":
				w.line(3, "config:")
			case "null-explicit":
				w.line(3, "config: null")
			case "tilde":
				w.line(3, "config: ~")
			case "empty":
				w.line(3, "config: {}")
			}
			continue
		}
		switch p.Name {
		case "size_limit":
			if p.A == 0 && p.B == 0 {
				continue
			}
			w.line(3, "config:")
			if p.A != 0 {
				w.line(4, "max_request_body: %s%s", typed(p.A, p.Typ), w.c("bytes"))
			}
			if p.B != 0 {
				w.line(4, "max_response_body: %s", typed(p.B, p.Typ))
			}
		case "gzip":
			w.line(3, "config:")
			w.line(4, "level: %s%s", typed(p.A, p.Typ), w.c("Compression level (1-9, default: 5)"))
			w.line(4, "min_size: %s", typed(p.B, p.Typ))
			w.line(4, "content_types:")
			w.line(5, "- \"text/html\"")
			w.line(5, "- \"text/plain\"")
			w.line(5, "- \"application/json\"")
		case "headers":
			w.line(3, "config:")
			w.line(4, "set:")
			w.line(5, "X-App: %s", w.str(m.Plugins.setVal()))
			w.line(4, "request_set:")
			w.line(5, "X-From: %s", w.str(m.Plugins.reqVal()))
		case "custom-auth":
			w.line(3, "config:")
			w.line(4, "apiKey: %s", w.str(m.Plugins.APIKey()))
		}
	}
}

// SectionNames in the validator-independent canonical numbering used by Model.Order.
var SectionNames = []string{"server", "backends", "load_balancer", "health_checks", "rate_limit", "circuit_breaker", "admin_api", "metrics", "logging", "plugins"}

// YAML renders the model as the text of a configuration file.
func (m *Model) YAML() string {
	w := &yw{quote: m.Quote, single: m.Single, comments: m.Comments}
	order := m.Order
	if len(order) != len(SectionNames) {
		order = []int{0, 1, 2, 3, 4, 5, 6, 7, 8, 9}
	}
	fns := []func(*yw){m.sectionServer, m.sectionBackends, m.sectionLB, m.sectionHealth, m.sectionRate, m.sectionBreaker,
		m.sectionAdmin, m.sectionMetrics, m.sectionLogging, m.sectionPlugins}
	for _, i := range order {
		before := w.b.Len()
		fns[i](w)
		if w.b.Len() > before {
			w.b.WriteByte('\n')
		}
	}
	return w.b.String()
}
