package c18

import (
	"os"
	"strings"
	"testing"

	"github.com/0xReLogic/Helios/internal/config"
)

// FuzzLoadConfig: coverage-guided byte-level fuzzing of the configuration loader (thorough tier).
// Oracle: LoadConfig never panics; a configuration it ACCEPTS satisfies the documented constraints
// (re-stated here on the decoded structure: the necessary conditions of "loading succeeds exactly
// when every documented constraint holds"), and building the balancer and the plugin chain from it
// either works or fails with an error - never panics.
func FuzzLoadConfig(f *testing.F) {
	for _, p := range []string{"/repo/helios.yaml", "/repo/helios.docker.yaml"} {
		if b, err := os.ReadFile(p); err == nil {
			f.Add(b)
		}
	}
	f.Add([]byte("server:\n  port: 8080\nbackends:\n  - name: a\n    address: http://127.0.0.1:1\n"))
	f.Add([]byte("server: {port: 1}\nbackends: [{name: a, address: 'http://x', weight: 3}]\nrate_limit: {enabled: true, max_tokens: 1, refill_rate_seconds: 1}\n" +
		"circuit_breaker: {enabled: true, failure_threshold: 1, success_threshold: 2, max_requests: 2, interval_seconds: 1, timeout_seconds: 1}\n" +
		"health_checks: {active: {enabled: true, interval: 2, timeout: 1, path: /h}, passive: {enabled: true, unhealthy_threshold: 1, unhealthy_timeout: 1}}\n" +
		"plugins: {enabled: true, chain: [{name: gzip, config: {level: 5, min_size: 10, content_types: [text/]}}, {name: size_limit, config: {max_request_body: 10}}, {name: headers, config: {set: {A: b}}}, {name: custom-auth, config: {apiKey: k}}]}\n" +
		"metrics: {enabled: true, port: 9, path: /m}\nadmin_api: {enabled: true, port: 10, ip_allow_list: [10.0.0.0/8]}\nlogging: {level: debug, format: text}\n"))
	f.Add([]byte("a: &a [*a]\n"))
	f.Add([]byte("server:\n  port: 99999999999999999999\n"))
	f.Fuzz(func(t *testing.T, data []byte) {
		if len(data) > 1<<16 {
			t.Skip()
		}
		l := newLoader(t)
		cfg, err := l.Load(data)
		if err != nil {
			if cfg != nil {
				t.Fatalf("LoadConfig returned both a configuration and an error: %v", err)
			}
			return
		}
		if v := acceptedButInvalid(cfg); v != "" {
			t.Fatalf("LoadConfig accepted a configuration that violates a documented constraint: %s\ninput:\n%s", v, data)
		}
		// TLS files and free ports are a matter of the environment, not of this target
		if _, _, panicked := Build(cfg); panicked != "" {
			t.Fatalf("accepted configuration makes startup panic: %s\ninput:\n%s", panicked, data)
		}
	})
}

var fuzzStrategies = []string{"", "round_robin", "least_connections", "weighted_round_robin", "ip_hash", "ip_hash_consistent"}

func acceptedButInvalid(c *config.Config) string {
	port := func(p int) bool { return p >= 1 && p <= 65535 }
	switch {
	case len(c.Backends) == 0:
		return "no backends"
	case !port(c.Server.Port):
		return "server.port out of range"
	case !in(c.LoadBalancer.Strategy, fuzzStrategies):
		return "unknown strategy " + c.LoadBalancer.Strategy
	case c.Metrics.Enabled && (!port(c.Metrics.Port) || c.Metrics.Path == ""):
		return "metrics enabled with bad port or empty path"
	case c.AdminAPI.Enabled && !port(c.AdminAPI.Port):
		return "admin_api enabled with bad port"
	case c.RateLimit.Enabled && (c.RateLimit.MaxTokens <= 0 || c.RateLimit.RefillRate <= 0):
		return "rate_limit enabled with non-positive limits"
	case c.CircuitBreaker.Enabled && (c.CircuitBreaker.FailureThreshold <= 0 || c.CircuitBreaker.SuccessThreshold <= 0 || c.CircuitBreaker.TimeoutSeconds <= 0 || c.CircuitBreaker.IntervalSeconds <= 0):
		return "circuit_breaker enabled with non-positive thresholds/timeouts"
	case c.HealthChecks.Active.Enabled && (c.HealthChecks.Active.Interval <= 0 || c.HealthChecks.Active.Timeout <= 0 || c.HealthChecks.Active.Timeout >= c.HealthChecks.Active.Interval || c.HealthChecks.Active.Path == ""):
		return "active health checks enabled with invalid interval/timeout/path"
	case c.HealthChecks.Passive.Enabled && (c.HealthChecks.Passive.UnhealthyThreshold <= 0 || c.HealthChecks.Passive.UnhealthyTimeout <= 0):
		return "passive health checks enabled with non-positive threshold/timeout"
	case c.Server.TLS.Enabled && (c.Server.TLS.CertFile == "" || c.Server.TLS.KeyFile == ""):
		return "TLS enabled without certificate or key"
	}
	for _, b := range c.Backends {
		if b.Name == "" || b.Address == "" || b.Weight < 0 {
			return "backend without name/address or with negative weight"
		}
	}
	t := c.Server.Timeouts
	for _, v := range []int{t.Read, t.Write, t.Idle, t.Handler, t.Shutdown, t.BackendDial, t.BackendRead, t.BackendIdle} {
		if v < 0 {
			return "negative timeout"
		}
	}
	if l := c.Logging.Level; l != "" && !in(l, []string{"debug", "info", "warn", "error", "fatal"}) {
		return "unknown log level " + l
	}
	if f := strings.TrimSpace(c.Logging.Format); f != "" && !in(f, []string{"json", "console", "text"}) {
		return "unknown log format " + f
	}
	return ""
}
