package c18

import (
	"fmt"
	"strings"

	"pgregory.net/rapid"
)

// ---------------------------------------------------------------------------------------------
// Valid configurations (every documented constraint holds), with the variety the docs show
// ---------------------------------------------------------------------------------------------

func pick[T any](rt *rapid.T, label string, xs ...T) T { return rapid.SampledFrom(xs).Draw(rt, label) }

func mode(rt *rapid.T, label string, wOmitted, wDisabled, wDisabledV, wEnabled int) string {
	w := rapid.IntRange(0, wOmitted+wDisabled+wDisabledV+wEnabled-1).Draw(rt, label)
	switch {
	case w < wOmitted:
		return Omitted
	case w < wOmitted+wDisabled:
		return Disabled
	case w < wOmitted+wDisabled+wDisabledV:
		return DisabledV
	}
	return Enabled
}

// ---------------------------------------------------------------------------------------------
// String values. The documentation gives tokens, API keys, header values, paths and names as quoted
// YAML strings and puts no restriction on their characters ("use a strong, randomly generated
// token", docs/admin-api-security.md): besides the documentation's own examples the generators draw
// values with the characters that are ordinary inside a YAML scalar but special to shells, template
// engines, URL or YAML tooling: $ ${..} $$ % # \ : { } [ ] & * ! | > ' " @ ` ~ and words that would be
// a number / bool / null if they were not strings.
// ---------------------------------------------------------------------------------------------

// Secrets: admin tokens / API keys (no white space: they travel in "Authorization: Bearer <token>" /
// "X-API-Key: <key>").
var Secrets = []string{
	`Xk9$$w0rd-7$q!`, `s3cr3t$HOME`, `${HELIOS_ADMIN_TOKEN}`, `$ADMIN_TOKEN`, `$1$abc$def`, `tok$`, `$`, `$$`, `a$b`, `$5`, `$*$#$@$!$?$-`, `${unterminated`, `${}`, `$(id)`,
	`p%40ss%word`, `100%`, `%s%d%v`, `a#b`, `#hash-first`, `t:o:k`, `key:v`, `C:\tok\en`, `end\`, `\n\t`, `tok"en`, `it's`, `'quoted'`, `"dq"`,
	`{curly}`, `{{tok}}`, `[brk]`, `*star`, `&anchor`, `!bang`, `|pipe`, `>fold`, `@at`, "`tick`", `~`, `~user`, `-dash-first`, `?q`, `a,b`, `a=b`, `<angle>`,
	`null`, `true`, `no`, `123456`, `0x1F`, `1e3`, `1_000`, `.5`, `2024-01-01`, `eyJhbGciOiJIUzI1NiJ9.eyJzdWIiOiIxIn0.sig-_`,
}

// secretAlphabet: characters of randomly generated secrets.
var secretAlphabet = []rune("abcXYZ019$$$%#\\:{}[]&*!|>'\"@`~-_./=+,;?^()<")

// genSecret draws a token / API key: a documented example, an entry of Secrets, or a random string.
func genSecret(rt *rapid.T, label string, documented ...string) string {
	switch w := rapid.IntRange(0, 9).Draw(rt, label+"_kind"); {
	case w < 4:
		return rapid.SampledFrom(documented).Draw(rt, label)
	case w < 8:
		return rapid.SampledFrom(Secrets).Draw(rt, label+"_special")
	}
	return rapid.StringOfN(rapid.SampledFrom(secretAlphabet), 1, 24, -1).Draw(rt, label+"_random")
}

// HeaderValues: values set by the `headers` plugin (interior spaces allowed; no leading/trailing white space).
var HeaderValues = []string{
	`from $5`, `cost: $100`, `${upstream}`, `$remote_addr`, `a $$ b`, `100% helios`, `max-age=31536000; includeSubDomains`, `a # not a comment`, `#first`, `k: v`, `C:\path\x`,
	`"quoted"`, `it's`, `{"json": true}`, `[1, 2]`, `*`, `&a`, `!x`, `| x`, `> x`, `@x`, "`x`", `~`, `null`, `true`, `42`, `1.5`, `text/html; charset=utf-8`, `W/"etag$1"`,
}

func genHeaderValue(rt *rapid.T, label, documented string) string {
	switch w := rapid.IntRange(0, 9).Draw(rt, label+"_kind"); {
	case w < 4:
		return "" // the documentation's example value
	case w < 8:
		return rapid.SampledFrom(HeaderValues).Draw(rt, label)
	}
	v := rapid.StringOfN(rapid.SampledFrom(append([]rune(" "), secretAlphabet...)), 1, 24, -1).Draw(rt, label+"_random")
	if v != strings.TrimSpace(v) || v == "" {
		return documented + "$" + strings.TrimSpace(v)
	}
	return v
}

// URL paths (metrics endpoint, active health check): the documentation's values plus paths with
// characters that are legal in a URL path segment as they are ($ : @ ~ = + , ; ! ' ( ) * &). No '{',
// '}' (wildcard syntax of http.ServeMux patterns), white space, '%', '#', '?' (not part of a path).
var pathSpecials = []string{`$1`, `$HOME`, `$$`, `$`, `:prom`, `@x`, `~1`, `=1`, `+x`, `,x;y`, `!x`, `'x'`, `(x)`, `*`, `&x`, `.x`, `-$lb`, `$x/$y`}

func genPath(rt *rapid.T, label string, documented ...string) string {
	p := rapid.SampledFrom(documented).Draw(rt, label)
	if rapid.IntRange(0, 9).Draw(rt, label+"_special") < 5 {
		if p == "/" {
			p = "/h"
		}
		p += rapid.SampledFrom(pathSpecials).Draw(rt, label+"_suffix")
	}
	return p
}

// backend names: the documentation's serverN plus names with special characters (%d = position).
var nameForms = []string{`server%d`, `server%d`, `server%d`, `srv$%d`, `$primary%d`, `web-${zone}-%d`, `$$%d`, `api#%d`, `#%d`, `db:%d`, `c:\srv\%d`, `%d%%-canary`, `node"%d"`, `it's-%d`, `[blue-%d]`,
	`{green-%d}`, `*any%d`, `&ref%d`, `!imp%d`, `|p%d`, `>g%d`, `@home%d`, "`bt%d`", `~%d`, `my backend %d`, `%d`, `0x%d`, `true%d`, `null-%d`, `a,b=%d`}

// DocPlugins are the plugins the README / docs configure.
var DocPlugins = []string{"logging", "size_limit", "gzip", "headers", "request-id"}

func genPlugin(rt *rapid.T, types []string) PluginElem {
	p := PluginElem{Name: pick(rt, "plugin", DocPlugins...)}
	if rapid.IntRange(0, 9).Draw(rt, "any_builtin") < 3 {
		p.Name = pick(rt, "builtin", BuiltinPlugins...)
	}
	if rapid.IntRange(0, 9).Draw(rt, "bare") < 2 { // entry without a usable config: absent / null / {}
		p.Bare = pick(rt, "bare_form", BareForms...)
		return p
	}
	switch p.Name {
	case "size_limit":
		p.Typ = pick(rt, "typ", types...)
		p.A = pick(rt, "max_request_body", 0, 1024, 5242880, 10485760)
		p.B = pick(rt, "max_response_body", 0, 1048576, 52428800)
		if p.A == 0 && p.B == 0 {
			p.Typ = ""
		}
	case "gzip":
		p.Typ = pick(rt, "typ", types...)
		p.A = pick(rt, "level", 1, 5, 6, 9)
		p.B = pick(rt, "min_size", 256, 1024, 4096, 0, 1, 100000, 1000000, 1048576, 2500000, 10485760)
	}
	// a float-typed number is written "5.0" or, in one case of three, the way YAML writers spell floats from a
	// certain magnitude on: with an exponent ("1.048576e+06")
	if p.Typ == "float" && rapid.IntRange(0, 2).Draw(rt, "float_exponent_spelling") == 0 {
		p.Typ = "float-exp"
	}
	return p
}

// GenValid draws a configuration in which every documented constraint holds.
// pluginTypes is the set of YAML typings used for plugin numbers ("int", "float", "string").
func GenValid(rt *rapid.T, pluginTypes []string) *Model {
	m := &Model{}
	m.Port = pick(rt, "port", 1, 80, 8080, 8080, 8443, 65535)
	m.TLS.Mode = mode(rt, "tls", 40, 20, 20, 20)
	if m.TLS.Mode == DisabledV || m.TLS.Mode == Enabled {
		m.TLS.Cert, m.TLS.Key = "certs/cert.pem", "certs/key.pem"
	}
	if rapid.IntRange(0, 9).Draw(rt, "timeouts") < 7 {
		m.Timeouts = map[string]int{}
		all := rapid.Bool().Draw(rt, "all_timeouts")
		for _, k := range TimeoutKeys {
			if all || rapid.Bool().Draw(rt, "has_"+k) {
				m.Timeouts[k] = pick(rt, k, 0, 1, 10, 15, 30, 60, 90, 3600)
			}
		}
	}
	m.BackendsMode = "list"
	nb := rapid.IntRange(1, 3).Draw(rt, "backends")
	for i := 0; i < nb; i++ {
		b := Backend{Name: sp(fmt.Sprintf(pick(rt, "name_form", nameForms...), i+1))}
		b.Address = sp(pick(rt, "address", fmt.Sprintf("http://localhost:%d", 8081+i), fmt.Sprintf("http://backend%d:8080", i+1), fmt.Sprintf("https://10.0.0.%d:8443", i+5)))
		if w := pick(rt, "weight", -1, 0, 1, 2, 5); w >= 0 {
			b.Weight = ip(w)
		}
		m.Backends = append(m.Backends, b)
	}
	if rapid.IntRange(0, 9).Draw(rt, "has_strategy") < 8 {
		m.Strategy = sp(pick(rt, "strategy", DocStrategies...))
	}
	m.Pool.Mode = mode(rt, "pool", 30, 15, 10, 45)
	m.Pool.MaxIdle = pick(rt, "max_idle", 0, 1, 10, 100, 250, 5000)
	m.Pool.MaxActive = pick(rt, "max_active", 0, 0, 10, 100, 1000, 100000)
	if m.Pool.MaxActive > 0 && m.Pool.MaxIdle > m.Pool.MaxActive {
		m.Pool.MaxIdle = m.Pool.MaxActive // boundary: equal is allowed
	}
	m.Pool.IdleSec = pick(rt, "idle_timeout", 0, 1, 300, 86400)

	m.Active.Mode = mode(rt, "active", 30, 15, 10, 45)
	m.Active.Interval = pick(rt, "interval", 2, 5, 10, 30, 3600)
	m.Active.Timeout = pick(rt, "timeout", 1, m.Active.Interval-1, max(1, m.Active.Interval/2))
	m.Active.Path = genPath(rt, "path", "/", "/health", "/healthz")
	m.Passive.Mode = mode(rt, "passive", 30, 15, 10, 45)
	m.Passive.Threshold = pick(rt, "threshold", 1, 3, 10, 1000)
	m.Passive.Timeout = pick(rt, "unhealthy_timeout", 1, 30, 300, 86400)

	m.Rate.Mode = mode(rt, "rate", 35, 15, 10, 40)
	m.Rate.MaxTokens = pick(rt, "max_tokens", 1, 100, 10000, 1000000)
	m.Rate.Refill = pick(rt, "refill", 1, 5, 60, 3600)

	m.Breaker.Mode = mode(rt, "breaker", 35, 15, 10, 40)
	if mr := pick(rt, "max_requests", 0, 1, 5, 1000); mr > 0 {
		m.Breaker.MaxRequests = ip(mr)
	}
	m.Breaker.Interval = pick(rt, "cb_interval", 1, 30, 60, 86400)
	m.Breaker.Timeout = pick(rt, "cb_timeout", 1, 60, 3600)
	m.Breaker.Failure = pick(rt, "failure", 1, 5, 50, 100000)
	m.Breaker.Success = pick(rt, "success", 1, 2, 5, 100)
	if m.Breaker.MaxRequests != nil && *m.Breaker.MaxRequests < m.Breaker.Success {
		m.Breaker.MaxRequests = ip(m.Breaker.Success) // boundary: equal is allowed
	}

	m.Metrics.Mode = mode(rt, "metrics", 35, 15, 10, 40)
	m.Metrics.Port = pick(rt, "metrics_port", 2, 9090, 2112, 65534)
	m.Metrics.Path = genPath(rt, "metrics_path", "/metrics", "/m", "/stats/prometheus")

	m.Admin.Mode = mode(rt, "admin", 35, 15, 10, 40)
	m.Admin.Port = pick(rt, "admin_port", 3, 9091, 8001, 65533)
	// a disabled listener may carry any port number, also one that is in use (construction: the
	// sets above are pairwise disjoint, so enabled listeners never collide unless a fault is applied)
	if m.Metrics.Mode == DisabledV && rapid.IntRange(0, 2).Draw(rt, "metrics_reuses_port") == 0 {
		m.Metrics.Port = m.Port
	}
	if m.Admin.Mode == DisabledV {
		switch rapid.IntRange(0, 3).Draw(rt, "admin_reuses_port") {
		case 0:
			m.Admin.Port = m.Port
		case 1:
			m.Admin.Port = m.Metrics.Port
		}
	}
	m.Admin.Token = genSecret(rt, "token", "", "change-me", "your-secret-token-here", "use-a-strong-random-token-here-min-32-chars")
	m.Admin.Lists = rapid.IntRange(0, 3).Draw(rt, "lists")

	if rapid.IntRange(0, 3).Draw(rt, "has_logging") > 0 {
		m.Logging.Mode = Enabled
		if l := pick(rt, "level", append([]string{""}, DocLevels...)...); l != "" {
			m.Logging.Level = sp(l)
		}
		if f := pick(rt, "format", append([]string{""}, DocFormats...)...); f != "" {
			m.Logging.Format = sp(f)
		}
		if c := rapid.IntRange(0, 2).Draw(rt, "caller"); c > 0 {
			b := c == 2
			m.Logging.IncludeCaller = &b
		}
		m.Logging.IDs = rapid.IntRange(0, 2).Draw(rt, "ids")
	} else {
		m.Logging.Mode = Omitted
	}

	switch w := rapid.IntRange(0, 9).Draw(rt, "plugins"); {
	case w < 3:
		m.Plugins.Mode = Omitted
	case w < 4:
		m.Plugins.Mode = Disabled
	default:
		m.Plugins.Mode = Enabled
		n := rapid.IntRange(0, 4).Draw(rt, "chain_len")
		for i := 0; i < n; i++ {
			m.Plugins.Chain = append(m.Plugins.Chain, genPlugin(rt, pluginTypes))
		}
		m.Plugins.Key = genSecret(rt, "api_key", "", "secret123", "change-me")
		m.Plugins.SetVal = genHeaderValue(rt, "set_value", "Helios")
		m.Plugins.ReqVal = genHeaderValue(rt, "req_set_value", "LB")
	}
	m.Order = rapid.Permutation([]int{0, 1, 2, 3, 4, 5, 6, 7, 8, 9}).Draw(rt, "order")
	m.Quote = rapid.Bool().Draw(rt, "quote")
	m.Single = rapid.IntRange(0, 2).Draw(rt, "single_quotes") == 0
	m.Comments = rapid.Bool().Draw(rt, "comments")
	return m
}

// ---------------------------------------------------------------------------------------------
// Faults: one entry per documented constraint and offending value. Apply makes the model violate
// exactly that constraint of its section (it enables the feature where the constraint only applies
// to an enabled feature). Name is the violation name the reference predicate must report.
// ---------------------------------------------------------------------------------------------

type Fault struct {
	ID    string // unique: name + variant
	Name  string // violation name expected from the reference predicate
	Apply func(m *Model)
}

func enableActive(m *Model) {
	if m.Active.Mode != Enabled {
		m.Active = Active{Mode: Enabled, Interval: 10, Timeout: 5, Path: "/health"}
	}
}
func enablePassive(m *Model) {
	if m.Passive.Mode != Enabled {
		m.Passive = Passive{Mode: Enabled, Threshold: 3, Timeout: 30}
	}
}
func enablePool(m *Model) {
	if m.Pool.Mode != Enabled {
		m.Pool = Pool{Mode: Enabled, MaxIdle: 10, MaxActive: 100, IdleSec: 300}
	}
}
func enableRate(m *Model) {
	if m.Rate.Mode != Enabled {
		m.Rate = Rate{Mode: Enabled, MaxTokens: 100, Refill: 1}
	}
}
func enableBreaker(m *Model) {
	if m.Breaker.Mode != Enabled {
		m.Breaker = Breaker{Mode: Enabled, MaxRequests: ip(5), Interval: 60, Timeout: 60, Failure: 5, Success: 2}
	}
}
func enableMetrics(m *Model) {
	if m.Metrics.Mode != Enabled {
		m.Metrics = Metrics{Mode: Enabled, Port: 9090, Path: "/metrics"}
	}
}
func enableAdmin(m *Model) {
	if m.Admin.Mode != Enabled {
		m.Admin = Admin{Mode: Enabled, Port: 9091, Token: "change-me"}
	}
}
func ensureBackends(m *Model) {
	if m.BackendsMode != "list" || len(m.Backends) == 0 {
		m.BackendsMode = "list"
		m.Backends = []Backend{{Name: sp("server1"), Address: sp("http://localhost:8081")}}
	}
}
func ensureLogging(m *Model) { m.Logging.Mode = Enabled }
func ensureTimeouts(m *Model) {
	if m.Timeouts == nil {
		m.Timeouts = map[string]int{}
	}
}

// Faults is the table; built once.
var Faults = buildFaults()

func buildFaults() []Fault {
	var fs []Fault
	add := func(name, variant string, apply func(m *Model)) {
		fs = append(fs, Fault{ID: name + "/" + variant, Name: name, Apply: apply})
	}
	// backends
	add("backends:none", "key-omitted", func(m *Model) { m.BackendsMode, m.Backends = "omitted", nil })
	add("backends:none", "empty-list", func(m *Model) { m.BackendsMode, m.Backends = "empty", nil })
	add("backends:name-required", "omitted", func(m *Model) { ensureBackends(m); m.Backends[len(m.Backends)-1].Name = nil })
	add("backends:name-required", "empty", func(m *Model) { ensureBackends(m); m.Backends[0].Name = sp("") })
	add("backends:address-required", "omitted", func(m *Model) { ensureBackends(m); m.Backends[len(m.Backends)-1].Address = nil })
	add("backends:address-required", "empty", func(m *Model) { ensureBackends(m); m.Backends[0].Address = sp("") })
	for _, w := range []int{-1, -5} {
		w := w
		add("backends:negative-weight", fmt.Sprint(w), func(m *Model) { ensureBackends(m); m.Backends[len(m.Backends)-1].Weight = ip(w) })
	}
	// server
	for _, p := range []int{0, -1, 65536, 70000} {
		p := p
		add("server:port-range", fmt.Sprint(p), func(m *Model) { m.Port = p })
	}
	add("server:tls-cert-required", "cert-omitted", func(m *Model) { m.TLS = TLS{Mode: Enabled, Key: "certs/key.pem"} })
	add("server:tls-key-required", "key-omitted", func(m *Model) { m.TLS = TLS{Mode: Enabled, Cert: "certs/cert.pem"} })
	add("server:tls-cert-required", "both-omitted", func(m *Model) { m.TLS = TLS{Mode: Enabled} })
	for _, k := range TimeoutKeys {
		for _, v := range []int{-1, -30} {
			k, v := k, v
			add("timeouts:negative-"+k, fmt.Sprint(v), func(m *Model) { ensureTimeouts(m); m.Timeouts[k] = v })
		}
	}
	// load balancer
	for _, s := range []string{"random", "weighted", "rr", "least_conn", "iphash"} {
		s := s
		add("load_balancer:unknown-strategy", s, func(m *Model) { m.Strategy = sp(s) })
	}
	add("load_balancer:pool-negative-max-idle", "-1", func(m *Model) { enablePool(m); m.Pool.MaxIdle = -1 })
	add("load_balancer:pool-negative-max-active", "-1", func(m *Model) { enablePool(m); m.Pool.MaxActive = -1; m.Pool.MaxIdle = 0 })
	add("load_balancer:pool-idle-exceeds-active", "11>10", func(m *Model) { enablePool(m); m.Pool.MaxIdle, m.Pool.MaxActive = 11, 10 })
	add("load_balancer:pool-idle-exceeds-active", "200>100", func(m *Model) { enablePool(m); m.Pool.MaxIdle, m.Pool.MaxActive = 200, 100 })
	add("load_balancer:pool-negative-idle-timeout", "-1", func(m *Model) { enablePool(m); m.Pool.IdleSec = -1 })
	// health checks
	add("health_checks:active-interval-not-positive", "0", func(m *Model) { enableActive(m); m.Active.Interval = 0 })
	add("health_checks:active-interval-not-positive", "-1", func(m *Model) { enableActive(m); m.Active.Interval = -1 })
	add("health_checks:active-timeout-not-positive", "0", func(m *Model) { enableActive(m); m.Active.Timeout = 0 })
	add("health_checks:active-timeout-not-positive", "-1", func(m *Model) { enableActive(m); m.Active.Timeout = -1 })
	add("health_checks:active-timeout-not-below-interval", "equal", func(m *Model) { enableActive(m); m.Active.Timeout = m.Active.Interval })
	add("health_checks:active-timeout-not-below-interval", "above", func(m *Model) { enableActive(m); m.Active.Timeout = m.Active.Interval + 2 })
	add("health_checks:active-path-required", "empty", func(m *Model) { enableActive(m); m.Active.Path = "" })
	add("health_checks:passive-threshold-not-positive", "0", func(m *Model) { enablePassive(m); m.Passive.Threshold = 0 })
	add("health_checks:passive-threshold-not-positive", "-1", func(m *Model) { enablePassive(m); m.Passive.Threshold = -1 })
	add("health_checks:passive-timeout-not-positive", "0", func(m *Model) { enablePassive(m); m.Passive.Timeout = 0 })
	add("health_checks:passive-timeout-not-positive", "-1", func(m *Model) { enablePassive(m); m.Passive.Timeout = -1 })
	// rate limit
	add("rate_limit:max-tokens-not-positive", "0", func(m *Model) { enableRate(m); m.Rate.MaxTokens = 0 })
	add("rate_limit:max-tokens-not-positive", "-1", func(m *Model) { enableRate(m); m.Rate.MaxTokens = -1 })
	add("rate_limit:refill-not-positive", "0", func(m *Model) { enableRate(m); m.Rate.Refill = 0 })
	add("rate_limit:refill-not-positive", "-1", func(m *Model) { enableRate(m); m.Rate.Refill = -1 })
	// circuit breaker
	for _, v := range []int{0, -1} {
		v := v
		add("circuit_breaker:failure-threshold-not-positive", fmt.Sprint(v), func(m *Model) { enableBreaker(m); m.Breaker.Failure = v })
		add("circuit_breaker:success-threshold-not-positive", fmt.Sprint(v), func(m *Model) { enableBreaker(m); m.Breaker.Success = v })
		add("circuit_breaker:timeout-not-positive", fmt.Sprint(v), func(m *Model) { enableBreaker(m); m.Breaker.Timeout = v })
		add("circuit_breaker:interval-not-positive", fmt.Sprint(v), func(m *Model) { enableBreaker(m); m.Breaker.Interval = v })
	}
	add("circuit_breaker:max-requests-below-success-threshold", "1<2", func(m *Model) { enableBreaker(m); m.Breaker.MaxRequests, m.Breaker.Success = ip(1), 2 })
	add("circuit_breaker:max-requests-below-success-threshold", "4<5", func(m *Model) { enableBreaker(m); m.Breaker.MaxRequests, m.Breaker.Success = ip(4), 5 })
	// metrics
	for _, p := range []int{0, -1, 65536} {
		p := p
		add("metrics:port-range", fmt.Sprint(p), func(m *Model) { enableMetrics(m); m.Metrics.Port = p })
		add("admin_api:port-range", fmt.Sprint(p), func(m *Model) { enableAdmin(m); m.Admin.Port = p })
	}
	add("metrics:path-required", "empty", func(m *Model) { enableMetrics(m); m.Metrics.Path = "" })
	// listeners sharing a port: all three pairings, each with the third listener absent / disabled /
	// disabled with the same number / enabled on a port of its own (the proxy listener always exists)
	third := []struct {
		id      string
		metrics func(m *Model) // state of metrics when it is the third listener
		admin   func(m *Model) // state of the admin API when it is the third listener
	}{
		{"third-absent", func(m *Model) { m.Metrics = Metrics{Mode: Omitted} }, func(m *Model) { m.Admin = Admin{Mode: Omitted} }},
		{"third-disabled", func(m *Model) { m.Metrics = Metrics{Mode: Disabled} }, func(m *Model) { m.Admin = Admin{Mode: Disabled} }},
		{"third-disabled-same-number", func(m *Model) { m.Metrics = Metrics{Mode: DisabledV, Port: m.Port, Path: "/metrics"} },
			func(m *Model) { m.Admin = Admin{Mode: DisabledV, Port: m.Port} }},
		{"third-enabled", func(m *Model) { m.Metrics = Metrics{Mode: Enabled, Port: 9090, Path: "/metrics"} },
			func(m *Model) { m.Admin = Admin{Mode: Enabled, Port: 9091, Token: "change-me"} }},
	}
	fixPort := func(m *Model) { // a shared number must itself be a legal one, distinct from the sample's 9090/9091
		if !portOK(m.Port) || m.Port == 9090 || m.Port == 9091 {
			m.Port = 8080
		}
	}
	for _, th := range third {
		th := th
		add("ports:metrics-shares-server-port", th.id, func(m *Model) {
			fixPort(m)
			th.admin(m)
			m.Metrics = Metrics{Mode: Enabled, Port: m.Port, Path: "/metrics"}
		})
		add("ports:admin-shares-server-port", th.id, func(m *Model) {
			fixPort(m)
			th.metrics(m)
			m.Admin = Admin{Mode: Enabled, Port: m.Port, Token: "change-me"}
		})
	}
	add("ports:admin-shares-metrics-port", "9090", func(m *Model) {
		fixPort(m)
		m.Metrics = Metrics{Mode: Enabled, Port: 9090, Path: "/metrics"}
		m.Admin = Admin{Mode: Enabled, Port: 9090}
	})
	add("ports:admin-shares-metrics-port", "65535", func(m *Model) {
		fixPort(m)
		m.Metrics = Metrics{Mode: Enabled, Port: 65535, Path: "/m"}
		m.Admin = Admin{Mode: Enabled, Port: 65535, Token: "change-me", Lists: 1}
	})
	add("ports:metrics-shares-server-port", "all-three-equal", func(m *Model) {
		fixPort(m)
		m.Metrics = Metrics{Mode: Enabled, Port: m.Port, Path: "/metrics"}
		m.Admin = Admin{Mode: Enabled, Port: m.Port}
	})
	// logging
	for _, l := range []string{"verbose", "loud", "warning"} {
		l := l
		add("logging:unknown-level", l, func(m *Model) { ensureLogging(m); m.Logging.Level = sp(l) })
	}
	for _, f := range []string{"xml", "logfmt", "plain"} {
		f := f
		add("logging:unknown-format", f, func(m *Model) { ensureLogging(m); m.Logging.Format = sp(f) })
	}
	return fs
}

// ---------------------------------------------------------------------------------------------
// Documented-valid variants: one entry per value the docs / sample files / validator texts present
// as valid, and the valid side of every boundary. Applied to a base configuration one at a time.
// ---------------------------------------------------------------------------------------------

type Variant struct {
	ID    string
	Apply func(m *Model)
}

var ValidVariants = buildValidVariants()

func buildValidVariants() []Variant {
	var vs []Variant
	add := func(id string, apply func(m *Model)) { vs = append(vs, Variant{ID: id, Apply: apply}) }
	add("base", func(m *Model) {})
	for _, s := range DocStrategies {
		s := s
		add("strategy="+s, func(m *Model) { m.Strategy = sp(s) })
	}
	add("strategy-omitted", func(m *Model) { m.Strategy = nil })
	for _, l := range DocLevels {
		l := l
		add("level="+l, func(m *Model) { ensureLogging(m); m.Logging.Level = sp(l) })
	}
	for _, f := range DocFormats {
		f := f
		add("format="+f, func(m *Model) { ensureLogging(m); m.Logging.Format = sp(f) })
	}
	add("logging-omitted", func(m *Model) { m.Logging = Logging{Mode: Omitted} })
	for _, p := range []int{1, 65535} {
		p := p
		add(fmt.Sprintf("server-port=%d", p), func(m *Model) { m.Port = p })
		add(fmt.Sprintf("metrics-port=%d", p), func(m *Model) { enableMetrics(m); m.Metrics.Port = p })
		add(fmt.Sprintf("admin-port=%d", p), func(m *Model) { enableAdmin(m); m.Admin.Port = p })
	}
	add("timeouts-all-zero", func(m *Model) {
		m.Timeouts = map[string]int{}
		for _, k := range TimeoutKeys {
			m.Timeouts[k] = 0
		}
	})
	add("timeouts-omitted", func(m *Model) { m.Timeouts = nil })
	add("weight=0", func(m *Model) { m.Backends[0].Weight = ip(0) })
	add("weight-omitted", func(m *Model) { m.Backends[0].Weight = nil })
	add("pool-zero-values", func(m *Model) { m.Pool = Pool{Mode: Enabled} })
	add("pool-unlimited-active", func(m *Model) { m.Pool = Pool{Mode: Enabled, MaxIdle: 10, MaxActive: 0, IdleSec: 300} })
	add("pool-idle-equals-active", func(m *Model) { m.Pool = Pool{Mode: Enabled, MaxIdle: 100, MaxActive: 100, IdleSec: 300} })
	add("active-timeout-just-below-interval", func(m *Model) { m.Active = Active{Mode: Enabled, Interval: 10, Timeout: 9, Path: "/"} })
	add("active-minimal", func(m *Model) { m.Active = Active{Mode: Enabled, Interval: 2, Timeout: 1, Path: "/"} })
	add("passive-minimal", func(m *Model) { m.Passive = Passive{Mode: Enabled, Threshold: 1, Timeout: 1} })
	add("rate-minimal", func(m *Model) { m.Rate = Rate{Mode: Enabled, MaxTokens: 1, Refill: 1} })
	add("breaker-minimal", func(m *Model) { m.Breaker = Breaker{Mode: Enabled, Interval: 1, Timeout: 1, Failure: 1, Success: 1} })
	add("breaker-max-requests-equals-success-threshold", func(m *Model) {
		m.Breaker = Breaker{Mode: Enabled, MaxRequests: ip(2), Interval: 60, Timeout: 60, Failure: 5, Success: 2}
	})
	add("breaker-max-requests-omitted", func(m *Model) {
		m.Breaker = Breaker{Mode: Enabled, Interval: 60, Timeout: 60, Failure: 5, Success: 5}
	})
	add("breaker-max-requests-above-success-threshold", func(m *Model) {
		m.Breaker = Breaker{Mode: Enabled, MaxRequests: ip(5), Interval: 60, Timeout: 60, Failure: 5, Success: 1}
	})
	add("tls-enabled-with-files", func(m *Model) { m.TLS = TLS{Mode: Enabled, Cert: "certs/cert.pem", Key: "certs/key.pem"} })
	add("tls-disabled-with-files", func(m *Model) { m.TLS = TLS{Mode: DisabledV, Cert: "certs/cert.pem", Key: "certs/key.pem"} })
	// disabled or omitted features constrain nothing
	add("all-features-disabled", func(m *Model) {
		m.TLS, m.Pool, m.Active, m.Passive = TLS{Mode: Disabled}, Pool{Mode: Disabled}, Active{Mode: Disabled}, Passive{Mode: Disabled}
		m.Rate, m.Breaker, m.Metrics, m.Admin = Rate{Mode: Disabled}, Breaker{Mode: Disabled}, Metrics{Mode: Disabled}, Admin{Mode: Disabled}
		m.Plugins = Plugins{Mode: Disabled}
	})
	add("all-features-omitted", func(m *Model) {
		m.TLS, m.Pool, m.Active, m.Passive = TLS{Mode: Omitted}, Pool{Mode: Omitted}, Active{Mode: Omitted}, Passive{Mode: Omitted}
		m.Rate, m.Breaker, m.Metrics, m.Admin = Rate{Mode: Omitted}, Breaker{Mode: Omitted}, Metrics{Mode: Omitted}, Admin{Mode: Omitted}
		m.Plugins, m.Logging, m.Strategy, m.Timeouts = Plugins{Mode: Omitted}, Logging{Mode: Omitted}, nil, nil
	})
	// equal port numbers are fine when the other listener is disabled
	add("metrics-disabled-with-server-port", func(m *Model) { m.Metrics = Metrics{Mode: DisabledV, Port: m.Port, Path: "/metrics"} })
	add("admin-disabled-with-server-port", func(m *Model) { m.Admin = Admin{Mode: DisabledV, Port: m.Port} })
	add("admin-disabled-with-metrics-port", func(m *Model) { enableMetrics(m); m.Admin = Admin{Mode: DisabledV, Port: m.Metrics.Port} })
	add("metrics-disabled-with-admin-port", func(m *Model) {
		enableAdmin(m)
		m.Metrics = Metrics{Mode: DisabledV, Port: m.Admin.Port, Path: "/metrics"}
	})
	add("metrics-disabled-admin-enabled-on-own-port", func(m *Model) {
		m.Metrics = Metrics{Mode: DisabledV, Port: m.Port, Path: "/metrics"}
		m.Admin = Admin{Mode: Enabled, Port: 9091}
	})
	add("both-ancillaries-disabled-all-numbers-equal", func(m *Model) {
		m.Metrics = Metrics{Mode: DisabledV, Port: m.Port, Path: "/metrics"}
		m.Admin = Admin{Mode: DisabledV, Port: m.Port}
	})
	for i := 0; i <= 3; i++ {
		i := i
		add(fmt.Sprintf("admin-ip-lists=%d", i), func(m *Model) { enableAdmin(m); m.Admin.Lists = i })
	}
	return vs
}

// BaseModel is the shipped sample configuration re-stated as a model (format json instead of text:
// format=text is a variant of its own).
func BaseModel() *Model {
	f := false
	m := &Model{
		Port:         8080,
		TLS:          TLS{Mode: DisabledV, Cert: "certs/cert.pem", Key: "certs/key.pem"},
		Timeouts:     map[string]int{"read": 15, "write": 15, "idle": 60, "handler": 30, "shutdown": 30, "backend_dial": 10, "backend_read": 30, "backend_idle": 90},
		BackendsMode: "list",
		Backends: []Backend{{sp("server1"), sp("http://localhost:8081"), ip(5)}, {sp("server2"), sp("http://localhost:8082"), ip(2)},
			{sp("server3"), sp("http://localhost:8083"), ip(1)}},
		Strategy: sp("ip_hash"),
		Pool:     Pool{Mode: Enabled, MaxIdle: 10, MaxActive: 100, IdleSec: 300},
		Active:   Active{Mode: Enabled, Interval: 10, Timeout: 7, Path: "/"},
		Passive:  Passive{Mode: Enabled, Threshold: 3, Timeout: 30},
		Rate:     Rate{Mode: Enabled, MaxTokens: 100, Refill: 1},
		Breaker:  Breaker{Mode: Enabled, MaxRequests: ip(5), Interval: 60, Timeout: 60, Failure: 5, Success: 2},
		Metrics:  Metrics{Mode: Enabled, Port: 9090, Path: "/metrics"},
		Admin:    Admin{Mode: Enabled, Port: 9091, Token: "change-me"},
		Logging:  Logging{Mode: Enabled, Level: sp("info"), Format: sp("json"), IncludeCaller: &f, IDs: 1},
		Plugins: Plugins{Mode: Enabled, Chain: []PluginElem{{Name: "logging"}, {Name: "size_limit", Typ: "int", A: 10485760, B: 52428800},
			{Name: "gzip", Typ: "float", A: 5, B: 1024}, {Name: "headers"}}},
		Quote: true, Comments: true,
	}
	return m
}

// NonDefaultSections counts the top-level sections that carry more than the mandatory minimum.
func NonDefaultSections(m *Model) int {
	n := 0
	if m.TLS.Mode != Omitted || m.Timeouts != nil {
		n++
	}
	if m.Strategy != nil || m.Pool.Mode != Omitted {
		n++
	}
	if m.Active.Mode != Omitted || m.Passive.Mode != Omitted {
		n++
	}
	for _, md := range []string{m.Rate.Mode, m.Breaker.Mode, m.Metrics.Mode, m.Admin.Mode, m.Logging.Mode, m.Plugins.Mode} {
		if md != Omitted {
			n++
		}
	}
	return n
}

// BareNeedsConfig reports whether a chain entry of a plugin that cannot work without options comes
// without a usable config (startup must then fail with an error — or work — but never panic).
func BareNeedsConfig(m *Model) bool {
	if m.Plugins.Mode != Enabled {
		return false
	}
	for _, p := range m.Plugins.Chain {
		if p.Bare != "" && (needsConfig(p.Name) || p.Name == "headers") {
			return true
		}
	}
	return false
}

// HasBare reports whether any chain entry comes without a usable config.
func HasBare(m *Model) bool {
	if m.Plugins.Mode != Enabled {
		return false
	}
	for _, p := range m.Plugins.Chain {
		if p.Bare != "" {
			return true
		}
	}
	return false
}

// TypedPluginOption reports whether a plugin option with a YAML-typed number is present.
func TypedPluginOption(m *Model) bool {
	if m.Plugins.Mode != Enabled {
		return false
	}
	for _, p := range m.Plugins.Chain {
		if p.Typ != "" && p.Bare == "" {
			return true
		}
	}
	return false
}
