package c18

// Documented MEANING of an accepted configuration, read from the YAML text itself (yaml.Node level),
// never from config.Config: which features the operator switched on and with which numbers. It is
// the oracle side of the "accepted-config-behaves" / "corpus-behaves" sub-checks (behave_test.go):
// the balancer that is built from the *loaded* configuration has to behave as these numbers say.
//
// Sources (README.md "Configuration" / "Timeout Configuration" / "Health Check Behavior", the
// comments of helios.yaml):
//   circuit_breaker: failure_threshold "Number of failures to open circuit", timeout_seconds "Time
//     to wait before moving from open to half-open", success_threshold "Number of successes to close
//     circuit", max_requests "Max requests in half-open state (must be >= success_threshold;
//     defaults to success_threshold when omitted)", interval_seconds "Time window for failure counting"
//   health_checks.passive: unhealthy_threshold "Number of failures before marking as unhealthy",
//     unhealthy_timeout "Time in seconds to keep backend unhealthy"
//   health_checks.active: interval "Interval in seconds", path; "performs active health checks on
//     `/` for each backend every 10 seconds"
//   rate_limit: max_tokens "Maximum tokens in bucket", refill_rate_seconds "Refill rate in seconds"
//   server.timeouts.handler "End-to-end timeout for the entire request handler (default: 30s)",
//     backend_read "Maximum time to wait for response from backend (default: 30s)"
// Where the documentation gives no number (an enabled feature with a required number omitted, an
// explicit 0 for a timeout) the feature is marked unclear and the oracle stays silent on it.

import (
	"fmt"
	"net/url"
	"strconv"

	"gopkg.in/yaml.v3"
)

type BreakerM struct {
	Failure, Success, Timeout, Interval int
	MaxRequests                         *int // nil = omitted: documented default success_threshold
}

type PassiveM struct{ Threshold, Timeout int }
type ActiveM struct {
	Interval int
	Path     string
}
type RateM struct{ MaxTokens, Refill int }

// Meaning is what the text of a configuration file says, as far as the documentation defines it.
type Meaning struct {
	Hosts    []string // URL host of every backend, in file order
	Weights  []int    // written weight, -1 = key omitted
	Strategy string   // "" = omitted
	Pool     bool

	Breaker *BreakerM // nil = feature not enabled
	Passive *PassiveM
	Active  *ActiveM
	Rate    *RateM
	Unclear []string // enabled features whose numbers the documentation does not define (omitted / not a positive integer)

	Handler     int // documented end-to-end handler timeout in seconds; 0 = docs silent (explicit 0)
	BackendRead int // documented backend read timeout in seconds; 0 = docs silent (explicit 0)
}

func (mn *Meaning) unclear(feature string) bool { return in(feature, mn.Unclear) }

// posInt reads a strictly positive YAML integer.
func posInt(m *yaml.Node, key string) (int, bool) {
	n := mapGet(m, key)
	if n == nil || n.Kind != yaml.ScalarNode || n.ShortTag() != "!!int" {
		return 0, false
	}
	v, err := strconv.Atoi(n.Value)
	if err != nil || v <= 0 {
		return 0, false
	}
	return v, true
}

// docTimeout: explicit positive value, documented default when the key is omitted, 0 (= silent) otherwise.
func docTimeout(timeouts *yaml.Node, key string, def int) int {
	n := mapGet(timeouts, key)
	if n == nil {
		return def
	}
	if v, ok := posInt(timeouts, key); ok {
		return v
	}
	return 0
}

// MeaningOf reads the documented meaning from the text of a configuration file.
func MeaningOf(text []byte) (*Meaning, error) {
	doc, err := parseDoc(text)
	if err != nil {
		return nil, err
	}
	mn := &Meaning{}
	bs := mapGet(doc, "backends")
	if bs == nil || bs.Kind != yaml.SequenceNode || len(bs.Content) == 0 {
		return nil, fmt.Errorf("no backends list")
	}
	seen := map[string]bool{}
	for _, b := range bs.Content {
		a := mapGet(b, "address")
		if a == nil || a.Kind != yaml.ScalarNode {
			return nil, fmt.Errorf("backend without address")
		}
		u, err := url.Parse(a.Value)
		if err != nil || u.Host == "" || (u.Scheme != "http" && u.Scheme != "https") {
			return nil, fmt.Errorf("backend address %q is not an http(s) URL", a.Value)
		}
		if seen[u.Host] {
			return nil, fmt.Errorf("two backends share the address %q", u.Host)
		}
		seen[u.Host] = true
		mn.Hosts = append(mn.Hosts, u.Host)
		w := -1
		if n := mapGet(b, "weight"); n != nil {
			if v, err := strconv.Atoi(n.Value); err == nil {
				w = v
			}
		}
		mn.Weights = append(mn.Weights, w)
	}
	if n := getPath(doc, "load_balancer", "strategy"); n != nil {
		mn.Strategy = n.Value
	}
	mn.Pool = isTrue(getPath(doc, "load_balancer", "websocket_pool", "enabled"))

	if cb := mapGet(doc, "circuit_breaker"); isTrue(mapGet(cb, "enabled")) {
		b := &BreakerM{}
		ok := true
		for key, dst := range map[string]*int{"failure_threshold": &b.Failure, "success_threshold": &b.Success, "timeout_seconds": &b.Timeout, "interval_seconds": &b.Interval} {
			v, good := posInt(cb, key)
			*dst, ok = v, ok && good
		}
		if mapGet(cb, "max_requests") != nil {
			v, good := posInt(cb, "max_requests") // an explicit 0 or negative value: the docs do not say
			b.MaxRequests, ok = &v, ok && good
		}
		if ok {
			mn.Breaker = b
		} else {
			mn.Unclear = append(mn.Unclear, "circuit_breaker")
		}
	}
	if pv := getPath(doc, "health_checks", "passive"); isTrue(mapGet(pv, "enabled")) {
		p := &PassiveM{}
		var ok1, ok2 bool
		p.Threshold, ok1 = posInt(pv, "unhealthy_threshold")
		p.Timeout, ok2 = posInt(pv, "unhealthy_timeout")
		if ok1 && ok2 {
			mn.Passive = p
		} else {
			mn.Unclear = append(mn.Unclear, "passive")
		}
	}
	if ac := getPath(doc, "health_checks", "active"); isTrue(mapGet(ac, "enabled")) {
		a := &ActiveM{}
		var ok bool
		a.Interval, ok = posInt(ac, "interval")
		if p := mapGet(ac, "path"); p != nil && p.Kind == yaml.ScalarNode && p.Value != "" {
			a.Path = p.Value
		} else {
			ok = false
		}
		if ok {
			mn.Active = a
		} else {
			mn.Unclear = append(mn.Unclear, "active")
		}
	}
	if rl := mapGet(doc, "rate_limit"); isTrue(mapGet(rl, "enabled")) {
		r := &RateM{}
		var ok1, ok2 bool
		r.MaxTokens, ok1 = posInt(rl, "max_tokens")
		r.Refill, ok2 = posInt(rl, "refill_rate_seconds")
		if ok1 && ok2 {
			mn.Rate = r
		} else {
			mn.Unclear = append(mn.Unclear, "rate_limit")
		}
	}
	to := getPath(doc, "server", "timeouts")
	mn.Handler = docTimeout(to, "handler", 30)
	mn.BackendRead = docTimeout(to, "backend_read", 30)
	return mn, nil
}
