package c18

// Reference validity predicate of C18, written from the documented constraints:
//   README.md (Configuration, TLS, Timeout, Logging sections; comments of the sample file),
//   docs/*.md, and the validator's own error texts as the statement of intent
//   ("server port must be between 1 and 65535", "... must be non-negative", "... must be positive",
//    "active health check timeout must be less than interval", "max_idle must be less than or equal
//    to max_active", "TLS enabled but cert file not specified", "no backend servers configured", ...;
//    sample-file comment on circuit_breaker.max_requests: "must be >= success_threshold; defaults to
//    success_threshold when omitted").
// It evaluates the Model (what the operator wrote), never the parsed config.Config, and never calls
// Validate.
//
// Constraints apply to *enabled* features only ("positive limits for enabled features"); a feature
// that is omitted or has `enabled: false` constrains nothing.
//
// Deliberately outside the generated domain (the documentation is silent or contradicts itself, so
// neither verdict could be defended): enum case variants and `trace` level, explicit empty
// strategy/level/format strings, invalid values inside disabled features, enabled features with
// required fields *omitted* (README "Basic Configuration" does that; the validator and the unit tests
// reject it — that conflict is reported through the corpus sub-check, not asserted here), wrongly typed scalars (`port: "80"`).

var (
	DocStrategies = []string{"round_robin", "least_connections", "weighted_round_robin", "ip_hash", "ip_hash_consistent"}
	// README: debug, info, warn, error; the validator's message adds fatal
	DocLevels = []string{"debug", "info", "warn", "error", "fatal"}
	// README + shipped files: text (default) and json; the validator's message: json, console
	DocFormats = []string{"json", "console", "text"}
)

func in(s string, set []string) bool {
	for _, x := range set {
		if x == s {
			return true
		}
	}
	return false
}

func portOK(p int) bool { return p >= 1 && p <= 65535 }

// Violations returns the names of the documented constraints the model violates (empty = valid).
// Names are "<section>:<constraint>"; the section prefix is what the evidence histogram groups by.
func Violations(m *Model) []string {
	var v []string
	add := func(name string) { v = append(v, name) }

	// backends: at least one; each with name and address; weight non-negative
	if m.BackendsMode != "list" || len(m.Backends) == 0 {
		add("backends:none")
	} else {
		for _, b := range m.Backends {
			if b.Name == nil || *b.Name == "" {
				add("backends:name-required")
			}
			if b.Address == nil || *b.Address == "" {
				add("backends:address-required")
			}
			if b.Weight != nil && *b.Weight < 0 {
				add("backends:negative-weight")
			}
		}
	}

	// server
	if !portOK(m.Port) {
		add("server:port-range")
	}
	if m.TLS.Mode == Enabled {
		if m.TLS.Cert == "" {
			add("server:tls-cert-required")
		}
		if m.TLS.Key == "" {
			add("server:tls-key-required")
		}
	}
	for k, t := range m.Timeouts {
		if t < 0 {
			add("timeouts:negative-" + k)
		}
	}

	// load balancer
	if m.Strategy != nil && !in(*m.Strategy, DocStrategies) {
		add("load_balancer:unknown-strategy")
	}
	if m.Pool.Mode == Enabled {
		if m.Pool.MaxIdle < 0 {
			add("load_balancer:pool-negative-max-idle")
		}
		if m.Pool.MaxActive < 0 {
			add("load_balancer:pool-negative-max-active")
		}
		// max_active 0 = unlimited (sample file comment)
		if m.Pool.MaxActive > 0 && m.Pool.MaxIdle > m.Pool.MaxActive {
			add("load_balancer:pool-idle-exceeds-active")
		}
		if m.Pool.IdleSec < 0 {
			add("load_balancer:pool-negative-idle-timeout")
		}
	}

	// health checks
	if m.Active.Mode == Enabled {
		if m.Active.Interval <= 0 {
			add("health_checks:active-interval-not-positive")
		}
		if m.Active.Timeout <= 0 {
			add("health_checks:active-timeout-not-positive")
		}
		if m.Active.Timeout >= m.Active.Interval {
			add("health_checks:active-timeout-not-below-interval")
		}
		if m.Active.Path == "" {
			add("health_checks:active-path-required")
		}
	}
	if m.Passive.Mode == Enabled {
		if m.Passive.Threshold <= 0 {
			add("health_checks:passive-threshold-not-positive")
		}
		if m.Passive.Timeout <= 0 {
			add("health_checks:passive-timeout-not-positive")
		}
	}

	// rate limit
	if m.Rate.Mode == Enabled {
		if m.Rate.MaxTokens <= 0 {
			add("rate_limit:max-tokens-not-positive")
		}
		if m.Rate.Refill <= 0 {
			add("rate_limit:refill-not-positive")
		}
	}

	// circuit breaker
	if m.Breaker.Mode == Enabled {
		if m.Breaker.Failure <= 0 {
			add("circuit_breaker:failure-threshold-not-positive")
		}
		if m.Breaker.Success <= 0 {
			add("circuit_breaker:success-threshold-not-positive")
		}
		if m.Breaker.Timeout <= 0 {
			add("circuit_breaker:timeout-not-positive")
		}
		if m.Breaker.Interval <= 0 {
			add("circuit_breaker:interval-not-positive")
		}
		// README / sample file comment: max_requests "must be >= success_threshold; defaults to
		// success_threshold when omitted". Only an explicitly written positive value is generated
		// (an explicit 0 or a negative value: the docs do not say).
		if m.Breaker.MaxRequests != nil && *m.Breaker.MaxRequests < m.Breaker.Success {
			add("circuit_breaker:max-requests-below-success-threshold")
		}
	}

	// metrics
	if m.Metrics.Mode == Enabled {
		if !portOK(m.Metrics.Port) {
			add("metrics:port-range")
		}
		if m.Metrics.Path == "" {
			add("metrics:path-required")
		}
	}

	// admin API
	if m.Admin.Mode == Enabled && !portOK(m.Admin.Port) {
		add("admin_api:port-range")
	}

	// listeners: "every enabled listener needs its own port" (README / helios.yaml comments on
	// metrics.port and admin_api.port). The proxy listener always exists; metrics and the admin API
	// only count when enabled — a disabled or absent one may carry any port number.
	if m.Metrics.Mode == Enabled && m.Metrics.Port == m.Port {
		add("ports:metrics-shares-server-port")
	}
	if m.Admin.Mode == Enabled && m.Admin.Port == m.Port {
		add("ports:admin-shares-server-port")
	}
	if m.Metrics.Mode == Enabled && m.Admin.Mode == Enabled && m.Admin.Port == m.Metrics.Port {
		add("ports:admin-shares-metrics-port")
	}

	// logging
	if m.Logging.Mode != Omitted {
		if m.Logging.Level != nil && !in(*m.Logging.Level, DocLevels) {
			add("logging:unknown-level")
		}
		if m.Logging.Format != nil && !in(*m.Logging.Format, DocFormats) {
			add("logging:unknown-format")
		}
	}
	return v
}

// sectionOf returns the section prefix of a violation name.
func sectionOf(v string) string {
	for i := 0; i < len(v); i++ {
		if v[i] == ':' {
			return v[:i]
		}
	}
	return v
}
