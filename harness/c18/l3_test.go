package c18

import (
	"fmt"
	"path/filepath"
	"strings"
	"testing"

	"github.com/0xReLogic/Helios/verifharness/lab"
	"pgregory.net/rapid"
)

// l3Case: an accepted configuration plus how it is placed on this machine.
type l3Case struct {
	M     *Model `json:"model"`
	Share string `json:"share"`     // "" | proxy=metrics | proxy=admin | metrics=admin : listeners given the same port
	Certs string `json:"tls_files"` // real | missing (only meaningful when TLS is enabled)
}

// place substitutes ports, backend address and certificate paths; returns the YAML and what must listen.
func place(c l3Case, backendURL string) (string, Listeners) {
	m := *c.M // shallow copy; the slices/maps that are modified are rebuilt below
	ports := lab.FreePorts(3)
	p, me, ad := ports[0], ports[1], ports[2]
	switch c.Share {
	case "proxy=metrics":
		me = p
	case "proxy=admin":
		ad = p
	case "metrics=admin":
		ad = me
	}
	m.Port = p
	ls := Listeners{Proxy: p, TLS: m.TLS.Mode == Enabled}
	if m.Metrics.Mode == Enabled {
		m.Metrics.Port = me
		ls.Metrics, ls.MetricsPath = me, m.Metrics.Path
	}
	if m.Admin.Mode == Enabled {
		m.Admin.Port = ad
		ls.Admin = ad
		ls.AdminToken = m.Admin.Token
	}
	if m.Plugins.Mode == Enabled {
		ls.APIKey = m.Plugins.APIKey()
	}
	bs := make([]Backend, len(c.M.Backends))
	for i, b := range c.M.Backends {
		b.Address = sp(backendURL)
		bs[i] = b
	}
	m.Backends = bs
	if m.TLS.Mode == Enabled {
		if c.Certs == "real" {
			m.TLS.Cert = filepath.Join(lab.RepoDir(), "certs", "cert.pem")
			m.TLS.Key = filepath.Join(lab.RepoDir(), "certs", "key.pem")
		} else {
			m.TLS.Cert, m.TLS.Key = "/nonexistent/cert.pem", "/nonexistent/key.pem"
		}
	}
	return m.YAML(), ls
}

func runL3(t testing.TB, c l3Case) (Verdict, string) {
	var v Verdict
	var text string
	for attempt := 0; attempt < 3; attempt++ {
		be := startBackend()
		var ls Listeners
		text, ls = place(c, be.srv.URL)
		v = RunBinary(t, text, ls)
		be.srv.Close()
		if v.Outcome != "retry" {
			break
		}
	}
	return v, text
}

// TestC18Binary: accepted configurations through the real binary.
func TestC18Binary(t *testing.T) {
	sub := lab.Sub("accepted-starts-or-fails-clearly", "rapid: configurations in which every documented constraint holds (plugin numbers typed int/float/string, chain entries of any built-in plugin with config absent / null / {}, TLS enabled with the repository's sample certificate or with missing files, "+
		"all features in all modes) started as the real helios binary with free ports substituted and a live httptest backend; 20% of the cases with two enabled listeners give them the same port; "+
		"string values (token, apiKey, header values, metrics / health-check paths, backend names) also with $ ${..} % # \\ : and other characters that are ordinary in a YAML scalar; "+
		"oracle: either the process exits non-zero with a fatal error line and no panic trace, or the proxy port serves a request that carries the file's apiKey through to the backend AND every enabled ancillary listener (metrics at the file's path, admin /v1/health) answers AND the admin API does not answer 401 to the file's token (nor 200 to a longer one); "+
		"anything else (no decision, listener missing, request not served) is a violation; non-trivial = >= 2 of {metrics, admin_api, TLS, plugins with typed options, active health checks, rate limit, circuit breaker} enabled")
	sub.NontrivialFloor(0.50)
	sub.Floor("outcome=serving", 0.30)
	lab.Check(t, sub, 60, 600, func(rt *rapid.T) {
		c := l3Case{M: GenValid(rt, []string{"int", "float", "float", "string"})}
		m := c.M
		// more listeners than the load generator would give (construction)
		if rapid.IntRange(0, 9).Draw(rt, "force_metrics") < 5 && m.Metrics.Mode != Enabled {
			enableMetrics(m)
		}
		if rapid.IntRange(0, 9).Draw(rt, "force_admin") < 5 && m.Admin.Mode != Enabled {
			enableAdmin(m)
		}
		c.Certs = pick(rt, "tls_files", "real", "real", "missing")
		var shares []string
		if m.Metrics.Mode == Enabled {
			shares = append(shares, "proxy=metrics")
		}
		if m.Admin.Mode == Enabled {
			shares = append(shares, "proxy=admin")
		}
		if m.Metrics.Mode == Enabled && m.Admin.Mode == Enabled {
			shares = append(shares, "metrics=admin")
		}
		if len(shares) > 0 && rapid.IntRange(0, 9).Draw(rt, "share_ports") < 2 {
			c.Share = rapid.SampledFrom(shares).Draw(rt, "share")
			if lab.Open(KeyEqualPorts) {
				sub.Excluded(KeyEqualPorts)
				c.Share = ""
			}
		}
		excludeFormatText(sub, m)
		excludeGzipInt(sub, m)

		v, text := runL3(t, c)

		feats := 0
		for _, on := range []bool{m.Metrics.Mode == Enabled, m.Admin.Mode == Enabled, m.TLS.Mode == Enabled, TypedPluginOption(m),
			m.Active.Mode == Enabled, m.Rate.Mode == Enabled, m.Breaker.Mode == Enabled} {
			if on {
				feats++
			}
		}
		labels := []string{"outcome=" + v.Outcome}
		if m.TLS.Mode == Enabled {
			labels = append(labels, "tls-"+c.Certs)
		}
		if c.Share != "" {
			labels = append(labels, "shared-port", "share:"+c.Share)
		}
		if hasStringTyped(m) {
			labels = append(labels, "string-typed-plugin-number")
		}
		if HasBare(m) {
			labels = append(labels, "bare-plugin-config")
		}
		if m.Metrics.Mode == Enabled {
			labels = append(labels, "metrics-on")
		}
		if m.Admin.Mode == Enabled {
			labels = append(labels, "admin-on")
		}
		sub.Case(c, feats >= 2, labels...)
		switch v.Outcome {
		case "violation":
			rt.Fatalf("%s\nshare=%q tls_files=%s\nlog:\n%s\nconfig:\n%s", v.Detail, c.Share, c.Certs, v.Log, text)
		case "retry":
			lab.Problem("accepted-starts-or-fails-clearly: no usable free ports three times in a row")
			rt.Fatalf("inconclusive: ports")
		case "exit":
			// allowed only for a reason: with documented forms only, real certificate files and distinct
			// ports nothing prevents a start — "every documented form is accepted"
			if !hasStringTyped(m) && !BareNeedsConfig(m) && !(m.TLS.Mode == Enabled && c.Certs == "missing") && c.Share == "" && !strings.Contains(v.Log, "address already in use") {
				rt.Fatalf("an accepted configuration that uses only documented forms did not start: %s\nlog:\n%s\nconfig:\n%s", v.Detail, v.Log, text)
			}
		}
	})
}

// ---------------------------------------------------------------------------------------------
// Fixed reproductions of the known findings. While an entry is "open" and its reproduction still
// fails, the KNOWN-FINDING line is printed; with the entry absent or "fixed" a failing reproduction
// is an ordinary violation; once Helios is fixed the reproduction passes and nothing is printed.
// ---------------------------------------------------------------------------------------------

const reproMinimal = "server:\n  port: 8080\nbackends:\n  - name: \"server1\"\n    address: \"http://localhost:8081\"\n"

func TestC18KnownFindings(t *testing.T) {
	const name = "known-finding-reproductions"
	sub := lab.Sub(name, "four fixed reproductions (regression cases): logging.format text loads; gzip options written as YAML integers load and build; the README 'Basic Configuration' block loads and builds; "+
		"metrics and admin API on the same port either refuse to start or both answer; a failing reproduction of an OPEN entry of known_findings.json prints KNOWN-FINDING, any other failure is a violation")
	var rc struct {
		Key string `json:"key"`
	}
	replay := lab.ReplayCase(name, &rc)
	if lab.Replaying() && !replay {
		t.Skip("replay of another sub-check")
	}
	ld := newLoader(t)
	loadAndBuild := func(text []byte) string {
		cfg, err := ld.Load(text)
		if err != nil {
			return "LoadConfig: " + err.Error()
		}
		if stage, berr, p := Build(cfg); p != "" {
			return "panic: " + p
		} else if berr != nil {
			return stage + ": " + berr.Error()
		}
		return ""
	}
	repros := []struct {
		key string
		run func() string // "" = reproduction passes (finding gone)
	}{
		{KeyFormatText, func() string {
			return loadAndBuild([]byte(reproMinimal + "logging:\n  level: \"info\"\n  format: \"text\"\n"))
		}},
		{KeyGzipInt, func() string {
			return loadAndBuild([]byte(reproMinimal + "plugins:\n  enabled: true\n  chain:\n    - name: gzip\n      config:\n        level: 5\n        min_size: 1024\n        content_types:\n          - \"text/html\"\n"))
		}},
		{KeyReadmeBasic, func() string {
			items, err := yamlBlocks(filepath.Join(lab.RepoDir(), "README.md"))
			if err != nil {
				return "cannot read README.md: " + err.Error()
			}
			// every README block that enables a feature while omitting fields the validator requires
			for _, it := range items {
				doc, err := parseDoc(it.Text)
				if err != nil || len(missingRequired(doc)) == 0 {
					continue
				}
				if mapGet(doc, "server") == nil || mapGet(doc, "backends") == nil {
					base, _ := parseDoc([]byte(minimalBase))
					mergeNode(base, doc)
					doc = base
				}
				if regionFormatText(doc) { // keep this reproduction independent of the other findings
					mapSet(mapGet(doc, "logging"), "format", scalar("json", "!!str"))
				}
				for _, n := range gzipIntNodes(doc) {
					n.Tag, n.Value = "!!float", n.Value+".0"
				}
				if r := loadAndBuild(encode(doc)); r != "" {
					return fmt.Sprintf("%s (omits %v): %s", it.ID, missingRequired(doc), r)
				}
			}
			return ""
		}},
		{KeyEqualPorts, func() string {
			m := BaseModel()
			m.Plugins = Plugins{Mode: Omitted}
			m.Active = Active{Mode: Omitted}
			v, text := runL3(t, l3Case{M: m, Share: "metrics=admin"})
			if v.Outcome == "violation" {
				return v.Detail + "\nconfig:\n" + text
			}
			return ""
		}},
	}
	for i, r := range repros {
		if replay && r.key != rc.Key {
			continue
		}
		if !replay && i%lab.Shards() != lab.Shard() {
			continue
		}
		res := r.run()
		c := map[string]string{"key": r.key}
		labels := []string{"key=" + r.key}
		if res == "" {
			labels = append(labels, "passes")
		} else {
			labels = append(labels, "still-fails")
		}
		sub.Case(c, true, labels...)
		switch {
		case res == "":
			if lab.Open(r.key) {
				sub.Note("finding " + r.key + " is listed as open but its reproduction passes now")
			}
		case lab.Open(r.key):
			lab.KnownFinding(r.key, FindingText[r.key])
			t.Logf("open finding %s still reproduces: %s", r.key, res)
		default:
			lab.Violation(t, name, c, "%s: %s", FindingText[r.key], res)
		}
	}
}
