package c18

import "pgregory.net/rapid"

// GenBehave draws a configuration in which every documented constraint holds (GenValid: every section
// in all its written forms, shuffled, quoted or not, timeouts omitted / partly / fully written) and
// re-draws the sections whose run-time meaning the behavioural sub-check observes with more variety
// and a higher share of enabled features: circuit breaker (max_requests omitted or written, small and
// documented thresholds), passive health checks, rate limit. (rapid favours the first entries of a list.)
func GenBehave(rt *rapid.T) *Model {
	m := GenValid(rt, []string{"int", "float"})

	m.Breaker = Breaker{Mode: pick(rt, "bh_breaker", Enabled, Enabled, Enabled, Enabled, Enabled, Enabled, Omitted, DisabledV, Disabled)}
	m.Breaker.Failure = pick(rt, "bh_failure", 1, 2, 3, 5, 5, 50)
	m.Breaker.Success = pick(rt, "bh_success", 1, 2, 2, 3, 5)
	m.Breaker.Interval = pick(rt, "bh_interval", 1, 30, 60)
	m.Breaker.Timeout = pick(rt, "bh_cb_timeout", 1, 5, 60)
	switch pick(rt, "bh_max_requests", "omitted", "omitted", "equal", "above", "five") {
	case "equal":
		m.Breaker.MaxRequests = ip(m.Breaker.Success)
	case "above":
		m.Breaker.MaxRequests = ip(m.Breaker.Success + rapid.IntRange(1, 4).Draw(rt, "bh_mr_above"))
	case "five": // the value of the shipped files
		m.Breaker.MaxRequests = ip(max(5, m.Breaker.Success))
	}

	m.Passive = Passive{Mode: pick(rt, "bh_passive", Enabled, Enabled, Enabled, Enabled, Omitted, Omitted, DisabledV, Disabled)}
	m.Passive.Threshold = pick(rt, "bh_threshold", 1, 2, 3, 3, 10)
	m.Passive.Timeout = pick(rt, "bh_unhealthy_timeout", 1, 30, 300)

	m.Rate = Rate{Mode: pick(rt, "bh_rate", Enabled, Enabled, Enabled, Enabled, Omitted, Omitted, DisabledV, Disabled)}
	m.Rate.MaxTokens = pick(rt, "bh_max_tokens", 1, 2, 5, 100, 100, 10000)
	m.Rate.Refill = pick(rt, "bh_refill", 1, 5, 60)
	return m
}

// BehaveParams are the drawn choices of one behavioural run (everything random is drawn before the
// virtual-time bubble is entered).
type BehaveParams struct {
	FailKind   int  `json:"fail_kind"`   // how a failing backend fails: 0 = answers 500, 1 = refuses the connection
	HostActive bool `json:"host_active"` // active checks + (rate limit | websocket pool) cannot be hosted together: which side is kept
	Start      int  `json:"start"`       // passive: first backend of the failing subset
	FSize      int  `json:"fsize"`       // passive: wanted size of the failing subset
	OpenProbes int  `json:"open_probes"` // breaker: requests sent right after it opened
	RefillK    int  `json:"refill_k"`    // rate limit: refill periods the exhausted client stays idle
	Extra      int  `json:"extra"`       // rate limit: requests beyond the burst
	SlowOK     bool `json:"slow_ok"`     // handler timeout: the backend answers 1 ms before the timeout instead of never
}

func GenBehaveParams(rt *rapid.T) BehaveParams {
	return BehaveParams{
		FailKind:   rapid.IntRange(0, 1).Draw(rt, "p_fail_kind"),
		HostActive: rapid.Bool().Draw(rt, "p_host_active"),
		Start:      rapid.IntRange(0, 2).Draw(rt, "p_start"),
		FSize:      rapid.IntRange(1, 3).Draw(rt, "p_fsize"),
		OpenProbes: rapid.IntRange(1, 3).Draw(rt, "p_open_probes"),
		RefillK:    rapid.IntRange(1, 3).Draw(rt, "p_refill_k"),
		Extra:      rapid.IntRange(1, 3).Draw(rt, "p_extra"),
		SlowOK:     rapid.Bool().Draw(rt, "p_slow_ok"),
	}
}
