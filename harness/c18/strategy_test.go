package c18

import (
	"fmt"
	"strings"
	"testing"
	"time"

	"github.com/0xReLogic/Helios/internal/loadbalancer"
	"github.com/0xReLogic/Helios/verifharness/lab"
)

// "An accepted configuration ... never starts half-configured": a spelling of load_balancer.strategy
// is either refused by LoadConfig or - when accepted - what runs is the strategy it names. Spellings
// other than the documented ones (other case, surrounding blanks) may legitimately go either way;
// accepting them and then running something else may not.

type strategyCase struct {
	Strategy string `json:"documented_strategy"`
	Spelling string `json:"spelling"`
}

func spellings(s string) []string {
	mixed := []rune(s)
	for i := range mixed {
		if i%2 == 0 {
			mixed[i] = []rune(strings.ToUpper(string(mixed[i])))[0]
		}
	}
	return []string{s, strings.ToUpper(s), string(mixed), strings.ToUpper(s[:1]) + s[1:], " " + s, s + " ", "\t" + s + "\t"}
}

func strategyYAML(spelling string) string {
	return fmt.Sprintf("server:\n  port: 8080\nbackends:\n  - name: b0\n    address: \"http://%s\"\n    weight: 3\n  - name: b1\n    address: \"http://%s\"\n    weight: 1\nload_balancer:\n  strategy: %q\n",
		lab.BackendHost(0), lab.BackendHost(1), spelling)
}

// runsAs decides by behaviour whether the balancer runs the named documented strategy.
func runsAs(lb *loadbalancer.LoadBalancer, fn *lab.FakeNet, strategy string) string {
	hits := func(n int, client func(i int) string) map[string]int {
		m := map[string]int{}
		for i := 0; i < n; i++ {
			before := fn.Arrivals()
			lab.Serve(lb, lab.Request("GET", "/s", client(i), nil))
			if fn.Arrivals() > before {
				m[fn.HostAt(before)]++
			}
		}
		return m
	}
	same := func(int) string { return "10.1.2.3:4000" }
	many := func(i int) string { return fmt.Sprintf("10.%d.%d.%d:4000", 1+i%5, i*7%250, i*13%250) }
	b0, b1 := lab.BackendHost(0), lab.BackendHost(1)
	switch strategy {
	case "round_robin":
		if m := hits(8, many); m[b0] != 4 || m[b1] != 4 {
			return fmt.Sprintf("8 requests were spread %d/%d over two backends (weights 3 and 1); round_robin gives 4/4", m[b0], m[b1])
		}
	case "weighted_round_robin":
		if m := hits(8, many); m[b0] != 6 || m[b1] != 2 {
			return fmt.Sprintf("8 requests were spread %d/%d over two backends with weights 3 and 1; weighted_round_robin gives 6/2", m[b0], m[b1])
		}
	case "ip_hash", "ip_hash_consistent":
		if m := hits(8, same); m[b0] != 8 && m[b1] != 8 {
			return fmt.Sprintf("8 requests of ONE client address were spread %d/%d over two backends; %s keeps a client on one backend", m[b0], m[b1], strategy)
		}
	case "least_connections":
		fn.Set(b0, lab.Park)
		fn.Set(b1, lab.Park)
		done := make(chan struct{}, 2)
		before := fn.Arrivals()
		for i := 0; i < 2; i++ {
			go func(i int) {
				lab.Serve(lb, lab.Request("GET", "/lc", many(i), nil))
				done <- struct{}{}
			}(i)
			deadline := time.Now().Add(5 * time.Second)
			for fn.Arrivals() < before+i+1 && time.Now().Before(deadline) {
				time.Sleep(200 * time.Microsecond)
			}
		}
		var v string
		if fn.Arrivals() != before+2 {
			v = "harness: parked requests did not arrive"
		} else if fn.HostAt(before) == fn.HostAt(before+1) {
			v = fmt.Sprintf("with one request in flight on %s the next request went to the same backend although the other one was idle; least_connections picks the idle one", fn.HostAt(before))
		}
		fn.Set(b0, lab.Good)
		fn.Set(b1, lab.Good)
		fn.ReleaseAll()
		<-done
		<-done
		return v
	}
	return ""
}

func TestC18StrategySpellings(t *testing.T) {
	const name = "strategy-spellings-run-what-they-name"
	sub := lab.Sub(name, "complete enumeration: the 5 documented strategy names x 7 spellings (exact, UPPER, aLtErNaTiNg, Capitalised, leading blank, trailing blank, tabs) in a minimal two-backend configuration (weights 3 and 1) loaded from YAML text by config.LoadConfig; "+
		"oracle: the exact spelling is accepted; ANY spelling that is accepted builds a balancer that behaves as the named strategy (round_robin 4/4 of 8, weighted_round_robin 6/2, ip_hash* one backend for one client, least_connections avoids the busy backend); refusing a variant spelling is fine; "+
		"non-trivial = a spelling other than the exact one")
	var rc strategyCase
	replay := lab.ReplayCase(name, &rc)
	if !replay && lab.Replaying() {
		t.Skip("replay of another sub-check")
	}
	l := newLoader(t)
	idx := 0
	for _, s := range DocStrategies {
		for _, sp := range spellings(s) {
			idx++
			c := strategyCase{Strategy: s, Spelling: sp}
			if replay && (c != rc) {
				continue
			}
			if !replay && idx%lab.Shards() != lab.Shard() {
				continue
			}
			cfg, err := l.Load([]byte(strategyYAML(sp)))
			label := "accepted"
			if err != nil {
				label = "refused"
			}
			sub.Case(c, sp != s, label, "strategy="+s)
			if err != nil {
				if sp == s {
					lab.Violation(t, name, c, "the documented strategy name %q is refused: %v", s, err)
				}
				continue
			}
			lb, err := loadbalancer.NewLoadBalancer(cfg)
			if err != nil {
				lab.Violation(t, name, c, "configuration accepted by LoadConfig (strategy spelled %q) but the balancer does not start: %v", sp, err)
				continue
			}
			fn := lab.NewFakeNet()
			fn.Install(lb)
			v := runsAs(lb, fn, s)
			lb.Stop()
			if strings.HasPrefix(v, "harness:") {
				lab.Problem("%s: %s", name, v)
				continue
			}
			if v != "" {
				lab.Violation(t, name, c, "load_balancer.strategy: %q is accepted by LoadConfig, but what runs is not %s: %s", sp, s, v)
			}
		}
	}
}
