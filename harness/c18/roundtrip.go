package c18

// Round trip of the string values of an accepted configuration: what config.LoadConfig returns for a
// documented string field is what the file says. The reference is yaml.v3 applied to the same text
// (node level: a quoted or plain scalar tagged !!str has exactly one reading) - never config.Config.
// Compared are the fields for which the documentation defines no normalisation of any kind: backend
// names and addresses, TLS file names, the health-check and metrics paths, the admin token and IP
// lists, the request/trace header names and the plugin chain (names, and every option value as
// yaml.v3 decodes it). Enumerations (strategy, level, format) are left to their own sub-checks.
//
// And the values MEAN what the file says (means): the admin API built from the loaded configuration
// lets the file's token in and no other; the plugin chain built from it lets a request with the
// file's apiKey through custom-auth and the `headers` entries set the file's values.

import (
	"fmt"
	"net/http"
	"net/http/httptest"
	"reflect"
	"strings"

	"github.com/0xReLogic/Helios/internal/adminapi"
	"github.com/0xReLogic/Helios/internal/config"
	"github.com/0xReLogic/Helios/internal/loadbalancer"
	"github.com/0xReLogic/Helios/internal/plugins"
	"gopkg.in/yaml.v3"
)

// strNode: the string a scalar node says, ok only for scalars tagged !!str without an alias.
func strNode(n *yaml.Node) (string, bool) {
	if n == nil || n.Kind != yaml.ScalarNode || n.ShortTag() != "!!str" {
		return "", false
	}
	return n.Value, true
}

// plainTree: the subtree uses nothing but mappings, sequences and scalars (no aliases / merges).
func plainTree(n *yaml.Node) bool {
	if n == nil {
		return true
	}
	if n.Kind == yaml.AliasNode || n.Anchor != "" {
		return false
	}
	if n.Kind == yaml.MappingNode {
		for i := 0; i+1 < len(n.Content); i += 2 {
			if n.Content[i].Value == "<<" {
				return false
			}
		}
	}
	for _, c := range n.Content {
		if !plainTree(c) {
			return false
		}
	}
	return true
}

// RoundTrip lists the documented string values that LoadConfig returned differently from what the
// text says. compared = number of values compared.
func RoundTrip(text []byte, cfg *config.Config) (diffs []string, compared int) {
	doc, err := parseDoc(text)
	if err != nil || !plainTree(doc) {
		return nil, 0
	}
	cmp := func(where string, n *yaml.Node, got string) {
		if want, ok := strNode(n); ok {
			compared++
			if got != want {
				diffs = append(diffs, fmt.Sprintf("%s: the file says %q, the loaded configuration has %q", where, want, got))
			}
		}
	}
	cmpList := func(where string, n *yaml.Node, got []string) {
		if n == nil || n.Kind != yaml.SequenceNode {
			return
		}
		if len(n.Content) != len(got) {
			diffs = append(diffs, fmt.Sprintf("%s: the file lists %d entries, the loaded configuration has %d", where, len(n.Content), len(got)))
			return
		}
		for i, c := range n.Content {
			cmp(fmt.Sprintf("%s[%d]", where, i), c, got[i])
		}
	}
	if bs := mapGet(doc, "backends"); bs != nil && bs.Kind == yaml.SequenceNode {
		if len(bs.Content) != len(cfg.Backends) {
			diffs = append(diffs, fmt.Sprintf("backends: the file lists %d, the loaded configuration has %d", len(bs.Content), len(cfg.Backends)))
		} else {
			for i, b := range bs.Content {
				cmp(fmt.Sprintf("backends[%d].name", i), mapGet(b, "name"), cfg.Backends[i].Name)
				cmp(fmt.Sprintf("backends[%d].address", i), mapGet(b, "address"), cfg.Backends[i].Address)
			}
		}
	}
	cmp("server.tls.certFile", getPath(doc, "server", "tls", "certFile"), cfg.Server.TLS.CertFile)
	cmp("server.tls.keyFile", getPath(doc, "server", "tls", "keyFile"), cfg.Server.TLS.KeyFile)
	cmp("health_checks.active.path", getPath(doc, "health_checks", "active", "path"), cfg.HealthChecks.Active.Path)
	cmp("metrics.path", getPath(doc, "metrics", "path"), cfg.Metrics.Path)
	cmp("admin_api.auth_token", getPath(doc, "admin_api", "auth_token"), cfg.AdminAPI.AuthToken)
	cmpList("admin_api.ip_allow_list", getPath(doc, "admin_api", "ip_allow_list"), cfg.AdminAPI.IPAllowList)
	cmpList("admin_api.ip_deny_list", getPath(doc, "admin_api", "ip_deny_list"), cfg.AdminAPI.IPDenyList)
	cmp("logging.request_id.header", getPath(doc, "logging", "request_id", "header"), cfg.Logging.RequestID.Header)
	cmp("logging.trace.header", getPath(doc, "logging", "trace", "header"), cfg.Logging.Trace.Header)
	if chain := getPath(doc, "plugins", "chain"); chain != nil && chain.Kind == yaml.SequenceNode {
		if len(chain.Content) != len(cfg.Plugins.Chain) {
			diffs = append(diffs, fmt.Sprintf("plugins.chain: the file lists %d entries, the loaded configuration has %d", len(chain.Content), len(cfg.Plugins.Chain)))
		} else {
			for i, it := range chain.Content {
				cmp(fmt.Sprintf("plugins.chain[%d].name", i), mapGet(it, "name"), cfg.Plugins.Chain[i].Name)
				cn := mapGet(it, "config")
				if cn == nil || cn.Kind != yaml.MappingNode {
					continue
				}
				var want map[string]interface{}
				if err := cn.Decode(&want); err != nil {
					continue
				}
				compared++
				if got := cfg.Plugins.Chain[i].Config; !(len(want) == 0 && len(got) == 0) && !reflect.DeepEqual(want, got) {
					diffs = append(diffs, fmt.Sprintf("plugins.chain[%d].config (%s): the file says %#v, the loaded configuration has %#v", i, cfg.Plugins.Chain[i].Name, want, got))
				}
			}
		}
	}
	return diffs, compared
}

// headerSafe: the value can travel in an HTTP field as it is.
func headerSafe(v string) bool {
	if v == "" || v != strings.Trim(v, " \t") {
		return false
	}
	for _, r := range v {
		if r < 0x20 || r == 0x7f {
			return false
		}
	}
	return true
}

// chainSays reads what the text says about the string options of the plugin chain.
type chainSays struct {
	keys    []string          // apiKey of every custom-auth entry, in order
	set     map[string]string // response header -> value of the innermost `headers` entry that sets it
	reqSet  map[string]string // request header -> value of the innermost `headers` entry that sets it
	unclear bool              // an option is not a plain string: the oracle stays silent
}

func readChain(doc *yaml.Node) *chainSays {
	if !isTrue(getPath(doc, "plugins", "enabled")) {
		return nil
	}
	chain := getPath(doc, "plugins", "chain")
	if chain == nil || chain.Kind != yaml.SequenceNode || len(chain.Content) == 0 {
		return nil
	}
	cs := &chainSays{set: map[string]string{}, reqSet: map[string]string{}}
	for _, it := range chain.Content {
		name, _ := strNode(mapGet(it, "name"))
		switch name {
		case "custom-auth":
			k, ok := strNode(getPath(it, "config", "apiKey"))
			if !ok || !headerSafe(k) {
				cs.unclear = true
			}
			cs.keys = append(cs.keys, k)
		case "headers":
			for opt, dst := range map[string]map[string]string{"set": cs.set, "request_set": cs.reqSet} {
				mn := getPath(it, "config", opt)
				if mn == nil {
					continue
				}
				if mn.Kind != yaml.MappingNode {
					cs.unclear = true
					continue
				}
				for i := 0; i+1 < len(mn.Content); i += 2 {
					v, ok := strNode(mn.Content[i+1])
					if !ok || !headerSafe(v) {
						cs.unclear = true
					}
					dst[http.CanonicalHeaderKey(mn.Content[i].Value)] = v
				}
			}
		}
	}
	return cs
}

// Means builds what cmd/helios builds from the loaded configuration (admin API mux, plugin chain over a
// stub) and checks that the string values mean what the text says. checked = what was observed.
func Means(text []byte, cfg *config.Config) (viol string, checked []string) {
	doc, err := parseDoc(text)
	if err != nil || !plainTree(doc) {
		return "", nil
	}
	defer func() {
		if r := recover(); r != nil {
			viol = fmt.Sprintf("panic while serving a request through what was built from the accepted configuration: %v", r)
		}
	}()
	// admin API: "All endpoints except /v1/health require a JWT token passed via the Authorization: Bearer <token> header"
	if ad := mapGet(doc, "admin_api"); isTrue(mapGet(ad, "enabled")) {
		if tok, ok := strNode(mapGet(ad, "auth_token")); ok && headerSafe(tok) && !strings.ContainsAny(tok, " \t") {
			quiet := *cfg // the mux only needs the balancer as an object: no probes, no limiter janitor
			quiet.HealthChecks.Active.Enabled = false
			quiet.RateLimit.Enabled = false
			quiet.LoadBalancer.WebSocketPool.Enabled = false
			lb, err := loadbalancer.NewLoadBalancer(&quiet)
			if err == nil {
				defer lb.Stop()
				mux := adminapi.NewMux(lb, cfg, lb.GetMetricsCollector())
				ask := func(token string) int {
					r := httptest.NewRequest("GET", "http://127.0.0.1/v1/backends", nil)
					r.RemoteAddr = "127.0.0.1:40000"
					r.Header.Set("Authorization", "Bearer "+token)
					rec := httptest.NewRecorder()
					mux.ServeHTTP(rec, r)
					return rec.Code
				}
				if st := ask(tok); st == http.StatusUnauthorized {
					return fmt.Sprintf("admin_api.auth_token is %q in the file, but the admin API built from the loaded configuration answers 401 to \"Authorization: Bearer %s\"", tok, tok), checked
				}
				for _, other := range []string{tok + "x", tok[:len(tok)-1], strings.ReplaceAll(tok, "$", ""), "change-me-not"} {
					if other != tok && other != "" && headerSafe(other) {
						if st := ask(other); st != http.StatusUnauthorized && st != http.StatusForbidden {
							return fmt.Sprintf("admin_api.auth_token is %q in the file, but the admin API built from the loaded configuration answers %d to the different token %q", tok, st, other), checked
						}
					}
				}
				checked = append(checked, "means:admin-token")
			}
		}
	}
	// plugin chain
	cs := readChain(doc)
	if cs == nil || cs.unclear {
		return "", checked
	}
	distinct := map[string]bool{}
	for _, k := range cs.keys {
		distinct[k] = true
	}
	if len(distinct) > 1 {
		return "", checked // no single request passes two different keys
	}
	var seen http.Header
	reached := false
	h, err := plugins.BuildChain(cfg.Plugins, http.HandlerFunc(func(w http.ResponseWriter, r *http.Request) {
		reached, seen = true, r.Header.Clone()
		w.WriteHeader(http.StatusOK)
	}))
	if err != nil {
		return "", checked // whether it must build is the build oracle's matter
	}
	send := func(key string) *httptest.ResponseRecorder {
		reached, seen = false, nil
		r := httptest.NewRequest("GET", "http://helios.test/verif", nil)
		r.RemoteAddr = "10.0.0.1:4000"
		if key != "" {
			r.Header.Set("X-API-Key", key)
		}
		rec := httptest.NewRecorder()
		h.ServeHTTP(rec, r)
		return rec
	}
	key := ""
	if len(cs.keys) > 0 {
		key = cs.keys[0]
		for _, other := range []string{"", key + "x", key[:len(key)-1], strings.ReplaceAll(key, "$", "")} {
			if other == key {
				continue
			}
			if send(other); reached {
				return fmt.Sprintf("custom-auth apiKey is %q in the file, but a request with X-API-Key %q passes the chain built from the loaded configuration", key, other), checked
			}
		}
	}
	rec := send(key)
	if !reached {
		return fmt.Sprintf("a request carrying the apiKey of the file (%q) does not pass the chain built from the loaded configuration (status %d)", key, rec.Code), checked
	}
	if len(cs.keys) > 0 {
		checked = append(checked, "means:api-key")
	}
	for k, want := range cs.set {
		if got := rec.Header().Get(k); got != want {
			return fmt.Sprintf("headers plugin: the file sets response header %s to %q, the client receives %q", k, want, got), checked
		}
		checked = append(checked, "means:header-set")
	}
	for k, want := range cs.reqSet {
		if got := seen.Get(k); got != want {
			return fmt.Sprintf("headers plugin: the file sets request header %s to %q, the backend side receives %q", k, want, got), checked
		}
		checked = append(checked, "means:header-request-set")
	}
	return "", checked
}
