package c18

import (
	"bytes"
	"fmt"
	"strings"
	"testing"

	"github.com/0xReLogic/Helios/verifharness/lab"
	"gopkg.in/yaml.v3"
	"pgregory.net/rapid"
)

func hasStringTyped(m *Model) bool {
	if m.Plugins.Mode != Enabled {
		return false
	}
	for _, p := range m.Plugins.Chain {
		if p.Typ == "string" && p.Bare == "" {
			return true
		}
	}
	return false
}

// TestC18Build: accepted configurations must build (balancer + plugin chain) exactly as main does;
// documented forms — numbers as YAML writes them — must be accepted by the plugin factories.
func TestC18Build(t *testing.T) {
	sub := lab.Sub("accepted-builds", "rapid: configurations in which every documented constraint holds (same generator as load-vs-reference, no faults) with an enabled plugin chain of the documented plugins "+
		"{logging, size_limit, gzip, headers, request-id} (30%: any built-in incl. custom-auth) whose numeric options are typed as YAML int (`5`), float (`5.0`) or — invalid — quoted string (`\"5\"`), "+
		"20% of the entries without a usable config (`config` absent, `config:` null, `config: null`, `config: ~`, `config: {}`); LoadConfig, then loadbalancer.NewLoadBalancer (always stopped) and "+
		"plugins.BuildChain as cmd/helios does; string options (custom-auth apiKey, headers values, admin token, names, paths) from the documentation's examples, a table of values with $ ${..} % # \\ : {} [] and other characters that are ordinary in a YAML scalar, and random strings; oracle: load succeeds; no panic; the returned configuration's documented string values equal what yaml.v3 reads from the text; the admin API mux built from it admits \"Authorization: Bearer <token of the file>\" and no neighbouring token, the plugin chain built from it (over a stub) passes a request with the file's apiKey, rejects neighbouring keys, and the headers entries set the file's values; with int/float typing only, the build succeeds (documented forms are accepted); with a string-typed number, or a gzip / custom-auth / headers entry without config, either a build error or success is allowed — never a panic; "+
		"non-trivial = a YAML-typed plugin option or an entry without usable config is present")
	sub.Floor("bare-config", 0.15)
	sub.NontrivialFloor(0.50)
	sub.Floor("typ=int", 0.08)
	sub.Floor("typ=float", 0.08)
	sub.Floor("typ=float-exp", 0.03)
	sub.Floor("typ=string", 0.05)
	sub.Floor("str:dollar", 0.25)
	sub.Floor("means:admin-token", 0.10)
	sub.Floor("means:api-key", 0.03)
	sub.Floor("means:header-set", 0.08)
	ld := newLoader(t)
	lab.Check(t, sub, 1500, 30000, func(rt *rapid.T) {
		m := GenValid(rt, []string{"int", "int", "float", "float", "string"})
		if m.Plugins.Mode != Enabled || len(m.Plugins.Chain) == 0 {
			m.Plugins.Mode = Enabled
			m.Plugins.Chain = []PluginElem{genPlugin(rt, []string{"int", "float"}), genPlugin(rt, []string{"int", "float", "string"})}
		}
		excludeFormatText(sub, m)
		excludeGzipInt(sub, m)
		text := m.YAML()
		labels := []string{fmt.Sprintf("chain-len=%d", len(m.Plugins.Chain))}
		for _, p := range m.Plugins.Chain {
			if p.Bare != "" {
				labels = append(labels, "bare-config", "bare="+p.Bare, p.Name+"/bare")
			} else if p.Typ != "" {
				labels = append(labels, "typ="+p.Typ, p.Name+"/"+p.Typ)
			}
		}
		if h := renderingSelfCheck(m, text); h != "" {
			rt.Fatalf("%s\n%s", h, text)
		}
		cfg, err := ld.Load([]byte(text))
		var stage, panicked, meaning string
		var berr error
		var diffs []string
		if err == nil {
			stage, berr, panicked = Build(cfg)
			diffs, _ = RoundTrip([]byte(text), cfg)
			if panicked == "" && len(diffs) == 0 {
				var checked []string
				meaning, checked = Means([]byte(text), cfg)
				labels = append(labels, checked...)
			}
		}
		if berr != nil {
			labels = append(labels, "build-error")
		}
		labels = append(labels, stringLabels(m)...)
		sub.Case(m, TypedPluginOption(m) || HasBare(m), dedup(labels)...)
		switch {
		case len(diffs) > 0:
			rt.Fatalf("LoadConfig accepted the file but returned other values than the file says: %s\n%s", strings.Join(diffs, "; "), text)
		case meaning != "":
			rt.Fatalf("an accepted configuration does not mean what the file says: %s\n%s", meaning, text)
		case err != nil:
			rt.Fatalf("LoadConfig rejected a configuration in which every documented constraint holds: %v\n%s", err, text)
		case panicked != "":
			rt.Fatalf("building an accepted configuration PANICKED: %s\n%s", panicked, text)
		case berr != nil && !hasStringTyped(m) && !BareNeedsConfig(m):
			rt.Fatalf("an accepted configuration that uses only documented forms (plugin numbers as YAML int/float) does not start: %s: %v\n%s", stage, berr, text)
		}
	})
}

func dedup(xs []string) []string {
	seen := map[string]bool{}
	var out []string
	for _, x := range xs {
		if !seen[x] {
			seen[x] = true
			out = append(out, x)
		}
	}
	return out
}

// prepareCorpusItem returns the YAML to load for a corpus item: complete configurations as they are,
// partial snippets merged over a minimal valid base; regions of OPEN known findings are neutralised
// (and reported as excluded) so that the rest of the item is still checked.
func prepareCorpusItem(sub *lab.SubCheck, it CorpusItem) (text []byte, complete bool, labels []string, err error) {
	doc, err := parseDoc(bytes.TrimPrefix(it.Text, []byte("\xef\xbb\xbf")))
	if err != nil {
		return nil, false, nil, err
	}
	complete = mapGet(doc, "server") != nil && mapGet(doc, "backends") != nil
	text = it.Text
	changed := false
	if !complete {
		base, _ := parseDoc([]byte(minimalBase))
		mergeNode(base, doc)
		doc = base
		changed = true
		labels = append(labels, "partial-snippet")
	} else {
		labels = append(labels, "complete-config")
	}
	if regionFormatText(doc) {
		labels = append(labels, "region:"+KeyFormatText)
		if lab.Open(KeyFormatText) {
			sub.Excluded(KeyFormatText)
			mapSet(mapGet(doc, "logging"), "format", scalar("json", "!!str"))
			changed = true
		}
	}
	if ns := gzipIntNodes(doc); len(ns) > 0 {
		labels = append(labels, "region:"+KeyGzipInt)
		if lab.Open(KeyGzipInt) {
			sub.Excluded(KeyGzipInt)
			for _, n := range ns {
				n.Tag, n.Value, n.Style = "!!float", n.Value+".0", 0
			}
			changed = true
		}
	}
	if miss := missingRequired(doc); len(miss) > 0 {
		labels = append(labels, "region:"+KeyReadmeBasic)
		if lab.Open(KeyReadmeBasic) {
			sub.Excluded(KeyReadmeBasic)
			fillRequired(doc, miss)
			changed = true
		}
	}
	if changed {
		text = encode(doc)
	}
	return text, complete, labels, nil
}

// TestC18Corpus: the repository's own configuration files and documentation snippets.
func TestC18Corpus(t *testing.T) {
	const name = "corpus-loads-and-builds"
	sub := lab.Sub(name, "helios.yaml, helios.docker.yaml and every fenced ```yaml block of README.md and docs/*.md of the repository under test: complete configurations (server + backends present) are loaded byte for byte, "+
		"partial snippets are merged at YAML level over a minimal valid base (port + one backend); oracle: LoadConfig succeeds AND NewLoadBalancer + BuildChain succeed without panic AND the documented string values of the returned configuration equal what yaml.v3 reads from the text AND token / apiKey / header values mean what the file says (admin mux and plugin chain built in-process); complete configurations are additionally started "+
		"as the real binary (ports and backend addresses substituted) and must serve through to the backend with every enabled ancillary listener answering; non-trivial = complete configuration, or a snippet that enables a feature or configures plugins")
	var rc struct {
		ID string `json:"id"`
	}
	replay := lab.ReplayCase(name, &rc)
	if lab.Replaying() && !replay {
		t.Skip("replay of another sub-check")
	}
	items, err := Corpus()
	if err != nil || len(items) < 10 {
		lab.Problem("%s: cannot read the corpus: %v (%d items)", name, err, len(items))
		t.Fatalf("corpus: %v", err)
	}
	ld := newLoader(t)
	for i, it := range items {
		if replay && it.ID != rc.ID {
			continue
		}
		if !replay && i%lab.Shards() != lab.Shard() {
			continue
		}
		text, complete, labels, perr := prepareCorpusItem(sub, it)
		id := map[string]string{"id": it.ID}
		if perr != nil {
			sub.Case(id, false, "unparseable")
			lab.Violation(t, name, id, "corpus item %s is not a YAML mapping: %v\n%s", it.ID, perr, it.Text)
		}
		nt := complete || bytes.Contains(text, []byte("enabled: true")) || bytes.Contains(text, []byte("chain:"))
		sub.Case(id, nt, labels...)
		cfg, err := ld.Load(text)
		if err != nil {
			lab.Violation(t, name, id, "%s (%s) is presented as valid by the repository but LoadConfig rejects it: %v\n%s", it.ID, strings.Join(labels, ","), err, text)
		}
		stage, berr, panicked := Build(cfg)
		if panicked != "" {
			lab.Violation(t, name, id, "%s: building the loaded configuration panicked: %s\n%s", it.ID, panicked, text)
		}
		if berr != nil {
			lab.Violation(t, name, id, "%s (%s) loads but does not start: %s: %v\n%s", it.ID, strings.Join(labels, ","), stage, berr, text)
		}
		if diffs, _ := RoundTrip(text, cfg); len(diffs) > 0 {
			lab.Violation(t, name, id, "%s loads, but the returned configuration differs from what the file says: %s\n%s", it.ID, strings.Join(diffs, "; "), text)
		}
		if meaning, _ := Means(text, cfg); meaning != "" {
			lab.Violation(t, name, id, "%s loads, but does not mean what the file says: %s\n%s", it.ID, meaning, text)
		}
		if complete {
			if v := runCorpusBinary(t, text); v.Outcome != "serving" {
				lab.Violation(t, name, id, "%s started as the real binary: %s: %s\nlog:\n%s\nconfig:\n%s", it.ID, v.Outcome, v.Detail, v.Log, text)
			}
			sub.Count("started-as-binary", 1)
		}
	}
	if !replay {
		sub.Exhaustive()
	}
}

// runCorpusBinary substitutes free ports and a live backend into a complete configuration and runs it.
func runCorpusBinary(t testing.TB, text []byte) Verdict {
	var v Verdict
	for attempt := 0; attempt < 3; attempt++ {
		doc, err := parseDoc(bytes.TrimPrefix(text, []byte("\xef\xbb\xbf")))
		if err != nil {
			return Verdict{"violation", err.Error(), ""}
		}
		be := startBackend()
		ports := lab.FreePorts(3)
		ls := Listeners{Proxy: ports[0], TLS: isTrue(getPath(doc, "server", "tls", "enabled"))}
		mapSet(mapGet(doc, "server"), "port", scalar(fmt.Sprint(ports[0]), "!!int"))
		if me := mapGet(doc, "metrics"); isTrue(mapGet(me, "enabled")) {
			ls.Metrics, ls.MetricsPath = ports[1], "/metrics"
			mapSet(me, "port", scalar(fmt.Sprint(ports[1]), "!!int"))
			if p := mapGet(me, "path"); p != nil {
				ls.MetricsPath = p.Value
			}
		}
		if ad := mapGet(doc, "admin_api"); isTrue(mapGet(ad, "enabled")) {
			ls.Admin = ports[2]
			mapSet(ad, "port", scalar(fmt.Sprint(ports[2]), "!!int"))
		}
		if bs := mapGet(doc, "backends"); bs != nil && bs.Kind == yaml.SequenceNode {
			for _, b := range bs.Content {
				mapSet(b, "address", scalar(be.srv.URL, "!!str"))
			}
		}
		v = RunBinary(t, string(encode(doc)), ls)
		be.srv.Close()
		if v.Outcome == "retry" || (v.Outcome == "exit" && strings.Contains(v.Log, "address already in use")) {
			continue
		}
		return v
	}
	return v
}
