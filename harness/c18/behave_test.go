//go:build go1.25

package c18

import (
	"fmt"
	"net/http"
	"strings"
	"sync"
	"testing"
	"testing/synctest"
	"time"

	"github.com/0xReLogic/Helios/internal/config"
	"github.com/0xReLogic/Helios/internal/loadbalancer"
	"github.com/0xReLogic/Helios/verifharness/lab"
	"pgregory.net/rapid"
)

// "An accepted configuration ... never starts half-configured": the balancer that
// loadbalancer.NewLoadBalancer builds from the LOADED configuration has to do what the TEXT of the
// configuration means according to the documentation (Meaning, meaning.go). One fresh balancer per
// observed feature, scripted backends (L1), virtual time. Everything is observed the way a client
// and the backends observe it: status code and whether a backend was contacted.
//
// Phases (each only when the feature is enabled and its numbers are documented; each on a balancer of
// its own, so that the features are observed one at a time while all of them stay configured):
//   breaker  failure_threshold failed requests in a row open it (every one of them is still forwarded);
//            while open, also 1 ms before timeout_seconds is over, requests get 503 and no backend is
//            contacted; after timeout_seconds success_threshold trial requests are admitted and served
//            (max_requests >= success_threshold, or omitted = success_threshold); after that it is
//            closed: more requests than any half-open allowance are served.
//   passive  backends of a failing subset are ejected after unhealthy_threshold failures each: no
//            traffic reaches them until unhealthy_timeout is over (also 1 ms before), other backends
//            keep serving; after the window traffic is served again and (round robin / hash
//            strategies) reaches them again.
//   rate     a new client gets max_tokens requests served at one instant, the following ones get 429
//            and are not forwarded, another client is not affected, after k refill periods min(k,
//            max_tokens) requests are served again.
//   handler  a request to a backend that never answers is still waiting 1 ms before min(handler,
//            backend_read) and has ended 1 ms after the handler timeout (default 30 s when omitted); a
//            backend answering 1 ms before the timeout is served with its 200.
//   active   (hosted inside the bubble) every backend is probed at the configured path within one
//            interval. Probes always succeed, so that active checks do not interfere with the rest.
//   plain    requests are forwarded to a configured backend and its 200 is returned.
// Entanglements are resolved from the documented numbers only: the breaker phase is skipped when
// passive ejection would take every backend away before failure_threshold failures can happen; the
// failing subset of the passive phase is kept so small that the breaker cannot open.

type bhReply struct {
	Status  int
	Reached bool
	Host    string
}

type probeRec struct {
	next  http.RoundTripper
	mu    sync.Mutex
	paths map[string]int
}

func (p *probeRec) RoundTrip(req *http.Request) (*http.Response, error) {
	p.mu.Lock()
	p.paths[req.URL.Path]++
	p.mu.Unlock()
	return p.next.RoundTrip(req)
}

type scenario struct {
	cfg      *config.Config // hosted copy of the loaded configuration
	mn       *Meaning       // meaning of the text, with the same hosting adjustments
	p        BehaveParams
	phases   []string
	prebuilt []*loadbalancer.LoadBalancer // balancers owning never-ending goroutines are built outside the bubble
	outside  bool
	labels   []string
	trace    []string
	viol     string
	clients  int
}

func (s *scenario) label(l string) { s.labels = append(s.labels, l) }

func (s *scenario) fail(format string, a ...any) {
	if s.viol == "" {
		s.viol = fmt.Sprintf(format, a...)
	}
}

func (s *scenario) tr(format string, a ...any) {
	if len(s.trace) < 400 {
		s.trace = append(s.trace, fmt.Sprintf(format, a...))
	}
}

// newScenario decides what can be hosted and which phases run. Returns an error text for harness problems.
func newScenario(loaded *config.Config, mn *Meaning, p BehaveParams) (*scenario, string) {
	cp := *loaded
	mc := *mn
	s := &scenario{cfg: &cp, mn: &mc, p: p}
	needOutside := cp.RateLimit.Enabled || cp.LoadBalancer.WebSocketPool.Enabled
	if cp.HealthChecks.Active.Enabled && needOutside {
		// L1 limitation: the limiter / the pool own never-ending goroutines (outside the bubble), the
		// active checker must live inside it. One side is switched off in the hosted copy, by draw.
		if p.HostActive {
			cp.RateLimit.Enabled, cp.LoadBalancer.WebSocketPool.Enabled = false, false
			mc.Rate, mc.Pool = nil, false
			s.label("hosting:active-kept,rate-limit+pool-off")
			needOutside = false
		} else {
			cp.HealthChecks.Active.Enabled = false
			mc.Active = nil
			s.label("hosting:active-off,rate-limit+pool-kept")
		}
	}
	s.outside = needOutside
	for _, u := range mn.Unclear {
		s.label("docs-silent:" + u)
	}
	if mc.Breaker != nil {
		s.phases = append(s.phases, "breaker")
	}
	if mc.Passive != nil {
		s.phases = append(s.phases, "passive")
	}
	if mc.Rate != nil {
		s.phases = append(s.phases, "rate")
	}
	if mc.Handler > 0 {
		s.phases = append(s.phases, "handler")
	} else {
		s.label("docs-silent:handler-timeout-0")
	}
	if len(s.phases) == 0 {
		s.phases = []string{"plain"}
	}
	if s.outside {
		for range s.phases {
			lb, err := loadbalancer.NewLoadBalancer(s.cfg)
			if err != nil {
				s.stopPrebuilt()
				return nil, fmt.Sprintf("NewLoadBalancer failed on an accepted configuration: %v", err)
			}
			s.prebuilt = append(s.prebuilt, lb)
		}
	}
	return s, ""
}

func (s *scenario) stopPrebuilt() {
	for _, lb := range s.prebuilt {
		lb.Stop()
	}
	s.prebuilt = nil
}

// run executes all phases; must be called inside a synctest bubble.
func (s *scenario) run() {
	for i, ph := range s.phases {
		if s.viol != "" {
			return
		}
		s.runPhase(i, ph)
	}
}

type pctx struct {
	s     *scenario
	lb    *loadbalancer.LoadBalancer
	fn    *lab.FakeNet
	rec   *probeRec
	start time.Time
	name  string
}

func (s *scenario) runPhase(i int, name string) {
	var lb *loadbalancer.LoadBalancer
	rec := &probeRec{paths: map[string]int{}}
	fn := lab.NewFakeNet()
	rec.next = fn.ProbeTransport()
	old := http.DefaultTransport
	http.DefaultTransport = rec
	defer func() { http.DefaultTransport = old }()
	if s.outside {
		lb = s.prebuilt[i]
	} else {
		var err error
		lb, err = loadbalancer.NewLoadBalancer(s.cfg)
		if err != nil {
			s.fail("NewLoadBalancer failed on an accepted configuration: %v", err)
			return
		}
		defer lb.Stop()
	}
	fn.Install(lb)
	for _, h := range s.mn.Hosts {
		fn.SetProbeBehaviour(h, lab.Good)
	}
	x := &pctx{s: s, lb: lb, fn: fn, rec: rec, start: time.Now(), name: name}
	s.tr("== %s", name)
	defer fn.ReleaseAll()
	if i == 0 && s.mn.Active != nil && !s.outside {
		// before any traffic: an ejected backend is not probed, which the documentation does not exclude
		if x.active(); s.viol != "" {
			return
		}
		x.start = time.Now()
	}
	switch name {
	case "breaker":
		x.breaker()
	case "passive":
		x.passive()
	case "rate":
		x.rate()
	case "handler":
		x.handler()
	default:
		x.all(lab.Good)
		for k := 0; k < 3 && s.viol == ""; k++ {
			x.mustServe("plain request")
		}
		if s.viol == "" {
			s.label("plain:served")
		}
	}
}

func (x *pctx) at() string { return time.Since(x.start).String() }

func (x *pctx) sleep(d time.Duration) {
	if d > 0 {
		time.Sleep(d)
		synctest.Wait()
		x.s.tr("t=%s", x.at())
	}
}

func (x *pctx) all(b lab.Behaviour) {
	for _, h := range x.s.mn.Hosts {
		x.fn.Set(h, b)
	}
	x.s.tr("all backends: %s", b)
}

func (x *pctx) fresh() string {
	x.s.clients++
	n := x.s.clients
	return fmt.Sprintf("10.%d.%d.%d", 1+(n>>16)%200, (n>>8)&255, n&255)
}

func (x *pctx) do(client string) bhReply {
	before := x.fn.Arrivals()
	st, _, _, aborted := lab.Serve(x.lb, lab.Request("GET", "/verif", client+":4000", nil))
	r := bhReply{Status: st}
	if aborted {
		r.Status = -1
	}
	if after := x.fn.Arrivals(); after > before {
		r.Reached, r.Host = true, x.fn.HostAt(after-1)
	}
	x.s.tr("%s -> %d via %q", client, r.Status, r.Host)
	return r
}

func (x *pctx) isHost(h string) bool { return in(h, x.s.mn.Hosts) }

// mustServe: with every backend answering 200 and eligible, a request of a new client is forwarded and its 200 returned.
func (x *pctx) mustServe(what string) bool {
	r := x.do(x.fresh())
	if !r.Reached || r.Status != 200 || !x.isHost(r.Host) {
		x.s.fail("%s phase, %s at t=%s: every backend answers 200 and is eligible, but the request of a new client ended with status %d, forwarded=%v (to %q)", x.name, what, x.at(), r.Status, r.Reached, r.Host)
		return false
	}
	return true
}

func (x *pctx) failing() lab.Behaviour {
	if x.s.p.FailKind == 1 {
		return lab.Unreachable
	}
	return lab.Status5xx
}

func secs(n int) time.Duration { return time.Duration(n) * time.Second }

const ms = time.Millisecond

// ---------------------------------------------------------------------------------------------
// circuit breaker
// ---------------------------------------------------------------------------------------------

func (x *pctx) breaker() {
	s, b, pv := x.s, x.s.mn.Breaker, x.s.mn.Passive
	nb := len(s.mn.Hosts)
	if b.MaxRequests == nil {
		s.label("breaker:max_requests-omitted")
	} else {
		s.label("breaker:max_requests-written")
	}
	x.all(lab.Good)
	if !x.mustServe("request before any failure") {
		return
	}
	if s.mn.unclear("passive") {
		s.label("breaker:skipped(passive numbers not documented)")
		return
	}
	if pv != nil && nb*pv.Threshold < b.Failure {
		// every backend is ejected (unhealthy_threshold failures each) before failure_threshold failures can happen
		s.label("breaker:not-reachable(passive ejection first)")
		return
	}
	x.all(x.failing())
	for i := 1; i <= b.Failure; i++ {
		r := x.do(x.fresh())
		if !r.Reached || r.Status < 500 {
			s.fail("circuit breaker failure_threshold=%d: failing request #%d (all backends %s, %d failures so far, nothing else wrong) ended with status %d, forwarded=%v — the breaker must stay closed until failure_threshold failures and the backend's failure must reach the client",
				b.Failure, i, x.failing(), i-1, r.Status, r.Reached)
			return
		}
	}
	for i := 0; i < s.p.OpenProbes; i++ {
		if r := x.do(x.fresh()); r.Reached || r.Status != 503 {
			s.fail("circuit breaker failure_threshold=%d: after %d failed requests in a row the breaker must be open (503, no backend contacted); request #%d afterwards: status %d, forwarded=%v", b.Failure, b.Failure, i+1, r.Status, r.Reached)
			return
		}
	}
	x.sleep(secs(b.Timeout) - ms)
	if r := x.do(x.fresh()); r.Reached || r.Status != 503 {
		s.fail("circuit breaker timeout_seconds=%d: 1 ms before the open period is over a request must still be rejected (503, no backend contacted); got status %d, forwarded=%v", b.Timeout, r.Status, r.Reached)
		return
	}
	x.all(lab.Good)
	wait := 2 * ms
	if pv != nil && pv.Timeout >= b.Timeout {
		wait += secs(pv.Timeout - b.Timeout) // passive ejections of the failure burst have to be over as well
	}
	x.sleep(wait)
	for j := 1; j <= b.Success; j++ {
		if r := x.do(x.fresh()); !r.Reached || r.Status != 200 {
			mr := "omitted (documented default: success_threshold)"
			if b.MaxRequests != nil {
				mr = fmt.Sprint(*b.MaxRequests)
			}
			s.fail("circuit breaker success_threshold=%d, max_requests %s, timeout_seconds=%d: the open period is over and all backends answer 200, but trial request #%d of %d ended with status %d, forwarded=%v — the breaker can never collect success_threshold successes and close again",
				b.Success, mr, b.Timeout, j, b.Success, r.Status, r.Reached)
			return
		}
	}
	more := b.Success
	if b.MaxRequests != nil && *b.MaxRequests > more {
		more = *b.MaxRequests
	}
	for j := 1; j <= more+2; j++ {
		if r := x.do(x.fresh()); !r.Reached || r.Status != 200 {
			s.fail("circuit breaker success_threshold=%d: after %d successful trial requests the breaker must be closed and serve normally; request #%d afterwards ended with status %d, forwarded=%v", b.Success, b.Success, j, r.Status, r.Reached)
			return
		}
	}
	s.label("breaker:opened-blocked-closed")
}

// ---------------------------------------------------------------------------------------------
// passive health checks
// ---------------------------------------------------------------------------------------------

func (x *pctx) passive() {
	s, pv, b := x.s, x.s.mn.Passive, x.s.mn.Breaker
	hosts := s.mn.Hosts
	nb := len(hosts)
	f := min(s.p.FSize, nb)
	if s.mn.unclear("circuit_breaker") {
		s.label("passive:skipped(breaker numbers not documented)")
		return
	}
	if b != nil {
		// keep the number of failures below failure_threshold, so that the breaker stays closed
		f = min(f, (b.Failure-1)/pv.Threshold)
		if f == 0 {
			s.label("passive:not-reachable(breaker opens first)")
			return
		}
	}
	start := s.p.Start % nb
	if s.mn.Strategy == "least_connections" || s.mn.Strategy == "" {
		start = 0 // sequential requests tie on 0 connections; which backend a tie goes to is not documented
	}
	inF := map[string]bool{}
	for i := 0; i < f; i++ {
		inF[hosts[(start+i)%nb]] = true
	}
	x.all(lab.Good)
	if !x.mustServe("request before any failure") {
		return
	}
	for h := range inF {
		x.fn.Set(h, x.failing())
	}
	s.tr("failing backends: %v", keys(inF))
	// strategies with a documented rotation: every eligible backend is reached within a bounded number of requests
	rotation := 0 // 0 = no bound documented
	switch s.mn.Strategy {
	case "round_robin":
		rotation = nb
	case "weighted_round_robin":
		sum := 0
		for _, w := range s.mn.Weights {
			if w < 1 {
				sum = -1 << 30 // weight omitted or 0: its share is not documented
			}
			sum += w
		}
		if sum > 0 {
			rotation = sum
		}
	}
	limit := 12*nb*pv.Threshold + 16
	if rotation > 0 {
		limit = 2*rotation*pv.Threshold + 16
	}
	fails, ejected := map[string]int{}, map[string]bool{}
	for n := 0; n < limit && len(ejected) < f; n++ {
		r := x.do(x.fresh())
		switch {
		case !r.Reached:
			s.fail("passive unhealthy_threshold=%d: %d of %d backends are still eligible (failures so far %v) but a request was not forwarded (status %d)", pv.Threshold, nb-len(ejected), nb, fails, r.Status)
		case ejected[r.Host]:
			s.fail("passive unhealthy_threshold=%d: backend %s had %d failures in a row and must be ejected, but received another request at the same instant", pv.Threshold, r.Host, pv.Threshold)
		case inF[r.Host] && r.Status < 500:
			s.fail("failing backend %s (%s) was contacted but the client got status %d", r.Host, x.failing(), r.Status)
		case !inF[r.Host] && r.Status != 200:
			s.fail("good backend %s was contacted but the client got status %d", r.Host, r.Status)
		}
		if s.viol != "" {
			return
		}
		if inF[r.Host] {
			fails[r.Host]++
			if fails[r.Host] == pv.Threshold {
				ejected[r.Host] = true
			}
		}
	}
	if len(ejected) < f {
		if rotation > 0 {
			s.fail("passive unhealthy_threshold=%d under %s: after %d requests the failing backends %v have only seen %v failures — a backend that is not yet ejected no longer receives traffic (ejected early?)", pv.Threshold, s.mn.Strategy, limit, keys(inF), fails)
			return
		}
		s.label("passive:ejection-not-reached(strategy did not pick the failing backend)")
		return
	}
	during := func(when string) bool {
		for k := 0; k < 2*nb+2; k++ {
			r := x.do(x.fresh())
			switch {
			case r.Reached && ejected[r.Host]:
				s.fail("passive unhealthy_threshold=%d unhealthy_timeout=%d: backend %s was ejected at t=0 but received a request %s (t=%s)", pv.Threshold, pv.Timeout, r.Host, when, x.at())
			case f < nb && (!r.Reached || r.Status != 200):
				s.fail("passive: %d of %d backends ejected, the others answer 200, but a request %s ended with status %d, forwarded=%v", f, nb, when, r.Status, r.Reached)
			case f == nb && r.Status == 200:
				s.fail("passive: every backend is ejected but a request %s was answered 200", when)
			}
			if s.viol != "" {
				return false
			}
		}
		return true
	}
	if !during("right after the ejection") {
		return
	}
	x.sleep(secs(pv.Timeout) - ms)
	if !during("1 ms before unhealthy_timeout is over") {
		return
	}
	x.all(lab.Good)
	x.sleep(2 * ms)
	if !x.mustServe(fmt.Sprintf("first request after unhealthy_timeout=%d s (%d of %d backends had been ejected)", pv.Timeout, f, nb)) {
		return
	}
	// the ejected backends receive traffic again
	limit2, assertable := 8, false
	switch {
	case rotation > 0:
		limit2, assertable = 2*rotation+2, true
	case s.mn.Strategy == "ip_hash" || s.mn.Strategy == "ip_hash_consistent":
		limit2, assertable = 96, true // new client addresses; (2/3)^96 is the chance of never hitting one of 3
	}
	back := map[string]bool{}
	for n := 0; n < limit2 && len(back) < f; n++ {
		r := x.do(x.fresh())
		if !r.Reached || r.Status != 200 {
			s.fail("passive: unhealthy_timeout=%d is over and every backend answers 200, but a request ended with status %d, forwarded=%v", pv.Timeout, r.Status, r.Reached)
			return
		}
		if inF[r.Host] {
			back[r.Host] = true
		}
	}
	switch {
	case len(back) == f:
		s.label("passive:ejected-and-back")
	case assertable:
		s.fail("passive unhealthy_timeout=%d under %s: the window is over, but of the ejected backends %v only %v received traffic again within %d requests of new clients", pv.Timeout, s.mn.Strategy, keys(inF), keys(back), limit2)
		return
	default:
		s.label("passive:ejected-and-service-back(per-backend return not observable under this strategy)")
	}
	if f == nb {
		s.label("passive:all-backends-ejected")
	}
}

func keys(m map[string]bool) []string {
	var out []string
	for k := range m {
		out = append(out, k)
	}
	// deterministic order for messages
	for i := range out {
		for j := i + 1; j < len(out); j++ {
			if out[j] < out[i] {
				out[i], out[j] = out[j], out[i]
			}
		}
	}
	return out
}

// ---------------------------------------------------------------------------------------------
// rate limit
// ---------------------------------------------------------------------------------------------

const burstCap = 200

func (x *pctx) rate() {
	s, rm := x.s, x.s.mn.Rate
	x.all(lab.Good)
	const c, other = "10.200.0.1", "10.200.0.2"
	n := min(rm.MaxTokens, burstCap)
	for i := 1; i <= n; i++ {
		if r := x.do(c); !r.Reached || r.Status != 200 {
			s.fail("rate_limit max_tokens=%d: request #%d of a new client's burst (all at one instant) ended with status %d, forwarded=%v — a bucket holds max_tokens tokens", rm.MaxTokens, i, r.Status, r.Reached)
			return
		}
	}
	if n < rm.MaxTokens {
		s.label("rate:bucket-larger-than-burst(only admission checked)")
		return
	}
	for i := 1; i <= s.p.Extra; i++ {
		if r := x.do(c); r.Reached || r.Status != 429 {
			s.fail("rate_limit max_tokens=%d: request #%d of one client at one instant must be refused (429, not forwarded); got status %d, forwarded=%v", rm.MaxTokens, n+i, r.Status, r.Reached)
			return
		}
	}
	if r := x.do(other); !r.Reached || r.Status != 200 {
		s.fail("rate_limit: another client's first request while %s is exhausted ended with status %d, forwarded=%v", c, r.Status, r.Reached)
		return
	}
	k := s.p.RefillK
	x.sleep(secs(k*rm.Refill) + ms)
	for i := 1; i <= min(k, rm.MaxTokens); i++ {
		if r := x.do(c); !r.Reached || r.Status != 200 {
			s.fail("rate_limit max_tokens=%d refill_rate_seconds=%d: the exhausted client stayed idle for %d refill periods (+1 ms) and must be admitted min(%d, max_tokens) times; request #%d ended with status %d, forwarded=%v",
				rm.MaxTokens, rm.Refill, k, k, i, r.Status, r.Reached)
			return
		}
	}
	s.label("rate:burst-429-refill")
}

// ---------------------------------------------------------------------------------------------
// handler timeout
// ---------------------------------------------------------------------------------------------

func (x *pctx) handler() {
	s := x.s
	h, br := s.mn.Handler, s.mn.BackendRead
	x.all(lab.Good)
	if !x.mustServe("request before the slow one") {
		return
	}
	x.all(lab.Park)
	before := x.fn.Arrivals()
	ch := make(chan bhReply, 1)
	client := x.fresh()
	go func() {
		st, _, _, aborted := lab.Serve(x.lb, lab.Request("GET", "/slow", client+":4000", nil))
		if aborted {
			st = -1
		}
		ch <- bhReply{Status: st}
	}()
	synctest.Wait()
	t0 := time.Now()
	done := func() (bhReply, bool) {
		select {
		case r := <-ch:
			return r, true
		default:
			return bhReply{}, false
		}
	}
	finish := func() { // never leave the request goroutine behind
		x.fn.ReleaseAll()
		synctest.Wait()
		select {
		case <-ch:
		default:
		}
	}
	if x.fn.Arrivals() != before+1 {
		r, fin := done()
		s.fail("handler timeout: a request of a new client with all backends eligible was not forwarded to a backend (finished=%v, status %d)", fin, r.Status)
		finish()
		return
	}
	host := x.fn.HostAt(before)
	lower := 0 // until when the request must still be waiting: min(handler, backend_read), if both documented
	if br > 0 {
		lower = min(h, br)
	}
	if lower > 0 {
		x.sleep(secs(lower) - ms)
		if r, fin := done(); fin {
			s.fail("timeouts handler=%d s backend_read=%d s (documented defaults 30 s when omitted): a request to a backend that has not answered yet ended after only %s with status %d", h, br, time.Since(t0), r.Status)
			return
		}
		if s.p.SlowOK {
			x.fn.Release(host, lab.Good)
			synctest.Wait()
			r, fin := done()
			if !fin || r.Status != 200 {
				s.fail("timeouts handler=%d s backend_read=%d s: the backend answered 200 after %s, before any documented timeout, but the client got finished=%v status %d", h, br, time.Since(t0), fin, r.Status)
				finish()
				return
			}
			s.label("handler:slow-answer-served")
			return
		}
	}
	x.sleep(secs(h) + ms - time.Since(t0))
	r, fin := done()
	if !fin {
		s.fail("timeouts handler=%d s (end-to-end, default 30 s when omitted): a request to a backend that never answers is still hanging %s after it was forwarded", h, time.Since(t0))
		finish()
		return
	}
	if r.Status == 200 {
		s.fail("timeouts handler=%d s: the backend never answered, yet the client got status 200", h)
		return
	}
	s.label("handler:hanging-request-ended")
}

// ---------------------------------------------------------------------------------------------
// active health checks (only hosted ones)
// ---------------------------------------------------------------------------------------------

func (x *pctx) active() {
	s, a := x.s, x.s.mn.Active
	x.sleep(secs(a.Interval) + ms)
	for _, h := range s.mn.Hosts {
		if x.fn.Probes(h) == 0 {
			s.fail("health_checks.active interval=%d s: %s after start backend %s has not been probed once", a.Interval, x.at(), h)
			return
		}
	}
	x.rec.mu.Lock()
	defer x.rec.mu.Unlock()
	for p := range x.rec.paths {
		if p != a.Path {
			s.fail("health_checks.active path=%q: a probe was sent to path %q", a.Path, p)
			return
		}
	}
	s.label("active:probed-at-path")
}

// ---------------------------------------------------------------------------------------------
// tests
// ---------------------------------------------------------------------------------------------

const behaveRule = "the balancer built by loadbalancer.NewLoadBalancer from the LOADED configuration (one fresh balancer per observed feature, scripted backends, virtual time) must behave as the TEXT of the configuration means " +
	"according to README / helios.yaml comments (meaning read from the YAML nodes, never from config.Config): circuit breaker — failure_threshold failed requests in a row are all forwarded and open it, open = 503 without contacting a backend (also 1 ms before timeout_seconds is over), " +
	"after timeout_seconds success_threshold trial requests are served (max_requests written >= success_threshold or omitted = success_threshold) and it is closed again (more requests than any half-open allowance are served); " +
	"passive checks — each backend of a failing subset gets no traffic once it had unhealthy_threshold failures until unhealthy_timeout is over (also 1 ms before), the others keep serving, afterwards service and (round robin / weighted / hash strategies) the backend itself are back; " +
	"rate limit — a new client's burst of max_tokens is served, the following requests get 429 without being forwarded, another client is unaffected, after k refill periods min(k,max_tokens) requests are served; " +
	"timeouts — a request to a silent backend still waits 1 ms before min(handler, backend_read) (a 200 arriving then is served) and has ended 1 ms after handler (omitted = documented 30 s; explicit 0: silent); hosted active checks probe every backend at the configured path within one interval; " +
	"failing = 500 or connection refused by draw; entanglements resolved from the documented numbers (breaker phase skipped if passive ejection removes all backends first, failing subset kept below failure_threshold)"

func behaveLabels(s *scenario) (nontrivial bool, labels []string) {
	labels = append(labels, s.labels...)
	for _, ph := range s.phases {
		labels = append(labels, "phase:"+ph)
	}
	for _, l := range s.labels {
		if l == "breaker:opened-blocked-closed" || strings.HasPrefix(l, "passive:ejected-and-") || l == "rate:burst-429-refill" {
			nontrivial = true
		}
	}
	return nontrivial, dedup(labels)
}

func (s *scenario) report(text string) string {
	return fmt.Sprintf("%s\nevents (t = virtual time since the balancer of the phase was built):\n  %s\nparams: %+v\nconfiguration:\n%s", s.viol, strings.Join(s.trace, "\n  "), s.p, text)
}

// TestC18Behaves: generated accepted configurations run as what they mean.
func TestC18Behaves(t *testing.T) {
	const name = "accepted-config-behaves"
	sub := lab.Sub(name, "rapid: configurations in which every documented constraint holds (generator of load-vs-reference without faults; circuit breaker / passive checks / rate limit re-drawn with a majority enabled, max_requests omitted ~40% / = / > success_threshold, "+
		"failure_threshold 1..50, thresholds 1..10, windows 1..300 s, max_tokens 1..10000, timeouts omitted / partly / fully written, all strategies, 1-3 backends), loaded with config.LoadConfig; "+behaveRule+
		"; non-trivial = at least one of breaker / passive / rate limit was observed through its whole cycle")
	sub.NontrivialFloor(0.75)
	sub.Floor("breaker:opened-blocked-closed", 0.40)
	sub.Floor("breaker:max_requests-omitted", 0.20)
	sub.Floor("passive:ejected-and-back", 0.20)
	sub.Floor("passive:all-backends-ejected", 0.08)
	sub.Floor("rate:burst-429-refill", 0.25)
	sub.Floor("handler:hanging-request-ended", 0.25)
	sub.Floor("handler:slow-answer-served", 0.25)
	sub.Floor("active:probed-at-path", 0.08)
	lab.Assume("L1 hosting of accepted configurations: a scripted http.RoundTripper stands in for http.Transport (backend_dial / backend_read / backend_idle are not in play); rate limit or websocket pool together with active health checks cannot be hosted in one balancer — one side is switched off in the hosted copy, by draw; active probes always succeed; the plugin chain is not part of the behavioural run")
	lab.Assume("status codes of Helios-generated refusals as stated in the task/property texts: open breaker 503, rate limit 429; a failing backend's 5xx (or 502 for a refused connection) reaches the client as a status >= 500")
	ld := newLoader(t)
	lab.Check(t, sub, 1600, 25000, func(rt *rapid.T) {
		m := GenBehave(rt)
		p := GenBehaveParams(rt)
		excludeFormatText(sub, m)
		excludeGzipInt(sub, m)
		if v := Violations(m); len(v) != 0 {
			rt.Fatalf("harness: GenBehave produced a configuration the reference rejects: %v", v)
		}
		text := m.YAML()
		c := map[string]any{"model": m, "params": p}
		mn, merr := MeaningOf([]byte(text))
		if merr != nil {
			rt.Fatalf("harness: cannot read the generated text: %v\n%s", merr, text)
		}
		cfg, err := ld.Load([]byte(text))
		if err != nil {
			sub.Case(c, false, "rejected")
			rt.Fatalf("LoadConfig rejected a configuration in which every documented constraint holds: %v\n%s", err, text)
		}
		s, herr := newScenario(cfg, mn, p)
		if herr != "" {
			sub.Case(c, false, "build-error")
			rt.Fatalf("%s\n%s", herr, text)
		}
		defer s.stopPrebuilt()
		wd := lab.StartWatchdog(t.Name(), name, lab.NoProgress, func() any { return map[string]any{"case": c, "events": s.trace} })
		rapid.SyncTest(rt, func(*rapid.T) { s.run() })
		wd.Stop()
		nt, labels := behaveLabels(s)
		sub.Case(c, nt, labels...)
		if s.viol != "" {
			rt.Fatalf("an accepted configuration does not run as what it means: %s", s.report(text))
		}
	})
}

type corpusBehaveCase struct {
	ID     string       `json:"id"`
	Params BehaveParams `json:"params"`
}

// corpusParams: the parameter sets every corpus item is run with.
func corpusParams() []BehaveParams {
	return []BehaveParams{
		{FailKind: 0, HostActive: false, Start: 0, FSize: 1, OpenProbes: 1, RefillK: 1, Extra: 1, SlowOK: false},
		{FailKind: 1, HostActive: true, Start: 1, FSize: 3, OpenProbes: 3, RefillK: 2, Extra: 2, SlowOK: true},
		{FailKind: 0, HostActive: true, Start: 2, FSize: 2, OpenProbes: 2, RefillK: 3, Extra: 3, SlowOK: false},
		{FailKind: 1, HostActive: false, Start: 0, FSize: 3, OpenProbes: 1, RefillK: 1, Extra: 1, SlowOK: true},
	}
}

// TestC18CorpusBehaves: the repository's own files and documentation snippets run as what they mean.
func TestC18CorpusBehaves(t *testing.T) {
	const name = "corpus-behaves"
	sub := lab.Sub(name, "helios.yaml, helios.docker.yaml and every fenced ```yaml block of README.md and docs/*.md (partial snippets merged over a minimal valid base, as in corpus-loads-and-builds), each with 4 fixed parameter sets "+
		"(failing = 500 / refused, which side is hosted, subset sizes 1..3); "+behaveRule+"; non-trivial = at least one of breaker / passive / rate limit was observed through its whole cycle")
	var rc corpusBehaveCase
	replay := lab.ReplayCase(name, &rc)
	if lab.Replaying() && !replay {
		t.Skip("replay of another sub-check")
	}
	items, err := Corpus()
	if err != nil || len(items) < 10 {
		lab.Problem("%s: cannot read the corpus: %v (%d items)", name, err, len(items))
		t.Fatalf("corpus: %v", err)
	}
	ld := newLoader(t)
	for i, it := range items {
		if replay && it.ID != rc.ID {
			continue
		}
		if !replay && i%lab.Shards() != lab.Shard() {
			continue
		}
		text, _, _, perr := prepareCorpusItem(sub, it)
		if perr != nil {
			continue // reported by corpus-loads-and-builds
		}
		cfg, lerr := ld.Load(text)
		if lerr != nil {
			sub.Case(map[string]string{"id": it.ID}, false, "rejected(reported by corpus-loads-and-builds)")
			continue
		}
		mn, merr := MeaningOf(text)
		if merr != nil {
			sub.Case(map[string]string{"id": it.ID}, false, "backends-not-hostable")
			sub.Note(fmt.Sprintf("%s: %v", it.ID, merr))
			continue
		}
		for _, p := range corpusParams() {
			if replay && p != rc.Params {
				continue
			}
			c := corpusBehaveCase{ID: it.ID, Params: p}
			s, herr := newScenario(cfg, mn, p)
			if herr != "" {
				sub.Case(c, false, "build-error")
				lab.Violation(t, name, c, "%s: %s\n%s", it.ID, herr, text)
			}
			wd := lab.StartWatchdog(t.Name(), name, lab.NoProgress, func() any { return map[string]any{"case": c, "events": s.trace} })
			synctest.Test(t, func(*testing.T) { s.run() })
			wd.Stop()
			s.stopPrebuilt()
			nt, labels := behaveLabels(s)
			sub.Case(c, nt, labels...)
			if s.viol != "" {
				lab.Violation(t, name, c, "%s is presented as valid by the repository, is accepted, but does not run as what it means: %s", it.ID, s.report(string(text)))
			}
		}
	}
	if !replay {
		sub.Exhaustive()
	}
}
