package c18

import (
	"crypto/tls"
	"fmt"
	"io"
	"net"
	"net/http"
	"net/http/httptest"
	"os"
	"path/filepath"
	"regexp"
	"strings"
	"sync/atomic"
	"testing"
	"time"

	"github.com/0xReLogic/Helios/internal/config"
	"github.com/0xReLogic/Helios/internal/loadbalancer"
	"github.com/0xReLogic/Helios/internal/plugins"
	"github.com/0xReLogic/Helios/verifharness/lab"
	"gopkg.in/yaml.v3"
)

// Keys of the open findings of C18 (known_findings.json) and their descriptions.
const (
	KeyFormatText  = "log-format-text"
	KeyGzipInt     = "gzip-yaml-int"
	KeyReadmeBasic = "readme-basic-omitted-fields"
	KeyEqualPorts  = "equal-ports"
)

var FindingText = map[string]string{
	KeyFormatText:  "logging.format \"text\" (README default, shipped helios.yaml / helios.docker.yaml) is rejected by validation: invalid log format: text (valid: json, console)",
	KeyGzipInt:     "gzip plugin options written as YAML integers (level: 5, min_size: 1024 — as README and the shipped files do) make startup fail: the factory asserts float64 (\"expected level for gzip config\")",
	KeyReadmeBasic: "README 'Basic Configuration' enables circuit_breaker with only failure_threshold and metrics without path; validation rejects it (success threshold / metrics path required) although the runtime has defaults for all of them",
	KeyEqualPorts:  "equal ports for two enabled listeners (e.g. metrics.port == admin_api.port) are accepted; one listener then fails to bind, only logs an error, and Helios keeps running half-configured",
}

// ---------------------------------------------------------------------------------------------
// In-process load and build
// ---------------------------------------------------------------------------------------------

// loader writes YAML text to one file per test and calls the real config.LoadConfig on it.
type loader struct{ path string }

func newLoader(t testing.TB) *loader {
	return &loader{path: filepath.Join(t.TempDir(), "helios.yaml")}
}

func (l *loader) Load(text []byte) (*config.Config, error) {
	if err := os.WriteFile(l.path, text, 0o644); err != nil {
		panic(err)
	}
	return config.LoadConfig(l.path)
}

// Build does what main does after loading: balancer, then plugin chain. Panics are reported.
func Build(cfg *config.Config) (stage string, err error, panicked string) {
	defer func() {
		if r := recover(); r != nil {
			panicked = fmt.Sprint(r)
		}
	}()
	lb, err := loadbalancer.NewLoadBalancer(cfg)
	if err != nil {
		return "balancer", err, ""
	}
	defer lb.Stop()
	if _, err := plugins.BuildChain(cfg.Plugins, lb); err != nil {
		return "chain", err, ""
	}
	return "", nil, ""
}

// ---------------------------------------------------------------------------------------------
// YAML node helpers (corpus handling keeps scalars exactly as written: `5` stays an int, `5.0` a float)
// ---------------------------------------------------------------------------------------------

func parseDoc(text []byte) (*yaml.Node, error) {
	var doc yaml.Node
	if err := yaml.Unmarshal(text, &doc); err != nil {
		return nil, err
	}
	if doc.Kind != yaml.DocumentNode || len(doc.Content) != 1 || doc.Content[0].Kind != yaml.MappingNode {
		return nil, fmt.Errorf("not a YAML mapping document")
	}
	return doc.Content[0], nil
}

func mapGet(m *yaml.Node, key string) *yaml.Node {
	if m == nil || m.Kind != yaml.MappingNode {
		return nil
	}
	for i := 0; i+1 < len(m.Content); i += 2 {
		if m.Content[i].Value == key {
			return m.Content[i+1]
		}
	}
	return nil
}

func getPath(m *yaml.Node, path ...string) *yaml.Node {
	for _, k := range path {
		m = mapGet(m, k)
		if m == nil {
			return nil
		}
	}
	return m
}

func scalar(value, tag string) *yaml.Node {
	return &yaml.Node{Kind: yaml.ScalarNode, Tag: tag, Value: value}
}

func mapSet(m *yaml.Node, key string, v *yaml.Node) {
	for i := 0; i+1 < len(m.Content); i += 2 {
		if m.Content[i].Value == key {
			m.Content[i+1] = v
			return
		}
	}
	m.Content = append(m.Content, scalar(key, "!!str"), v)
}

// mergeNode merges mapping `over` into mapping `base` (maps recursively, everything else replaced).
func mergeNode(base, over *yaml.Node) {
	for i := 0; i+1 < len(over.Content); i += 2 {
		k, v := over.Content[i].Value, over.Content[i+1]
		if b := mapGet(base, k); b != nil && b.Kind == yaml.MappingNode && v.Kind == yaml.MappingNode {
			mergeNode(b, v)
		} else {
			mapSet(base, k, v)
		}
	}
}

func encode(m *yaml.Node) []byte {
	b, err := yaml.Marshal(m)
	if err != nil {
		panic(err)
	}
	return b
}

func isTrue(n *yaml.Node) bool { return n != nil && n.Kind == yaml.ScalarNode && n.Value == "true" }

// regions of the open findings, as predicates over a YAML document, and their neutralisation
func regionFormatText(m *yaml.Node) bool {
	n := getPath(m, "logging", "format")
	return n != nil && n.Value == "text"
}

func gzipIntNodes(m *yaml.Node) []*yaml.Node {
	var out []*yaml.Node
	chain := getPath(m, "plugins", "chain")
	if chain == nil || chain.Kind != yaml.SequenceNode {
		return nil
	}
	for _, it := range chain.Content {
		if n := mapGet(it, "name"); n == nil || n.Value != "gzip" {
			continue
		}
		for _, k := range []string{"level", "min_size"} {
			if v := getPath(it, "config", k); v != nil && v.Kind == yaml.ScalarNode && v.ShortTag() == "!!int" {
				out = append(out, v)
			}
		}
	}
	return out
}

// missingRequired lists "<section>.<field>" for enabled features whose required fields are omitted.
func missingRequired(m *yaml.Node) []string {
	var out []string
	if cb := mapGet(m, "circuit_breaker"); isTrue(mapGet(cb, "enabled")) {
		for _, k := range []string{"failure_threshold", "success_threshold", "timeout_seconds", "interval_seconds"} {
			if mapGet(cb, k) == nil {
				out = append(out, "circuit_breaker."+k)
			}
		}
	}
	if me := mapGet(m, "metrics"); isTrue(mapGet(me, "enabled")) {
		for _, k := range []string{"port", "path"} {
			if mapGet(me, k) == nil {
				out = append(out, "metrics."+k)
			}
		}
	}
	return out
}

func fillRequired(m *yaml.Node, missing []string) {
	def := map[string]*yaml.Node{
		"circuit_breaker.failure_threshold": scalar("5", "!!int"), "circuit_breaker.success_threshold": scalar("2", "!!int"),
		"circuit_breaker.timeout_seconds": scalar("60", "!!int"), "circuit_breaker.interval_seconds": scalar("60", "!!int"),
		"metrics.port": scalar("9090", "!!int"), "metrics.path": scalar("/metrics", "!!str"),
	}
	for _, f := range missing {
		parts := strings.SplitN(f, ".", 2)
		mapSet(mapGet(m, parts[0]), parts[1], def[f])
	}
}

// ---------------------------------------------------------------------------------------------
// Corpus: the shipped files and every fenced yaml block of README.md and docs/*.md
// ---------------------------------------------------------------------------------------------

type CorpusItem struct {
	ID   string
	Text []byte
}

var fenceOpen = regexp.MustCompile("^(\\s*)```+\\s*(yaml|yml)\\s*$")

func yamlBlocks(path string) ([]CorpusItem, error) {
	b, err := os.ReadFile(path)
	if err != nil {
		return nil, err
	}
	var items []CorpusItem
	lines := strings.Split(string(b), "\n")
	for i := 0; i < len(lines); i++ {
		mm := fenceOpen.FindStringSubmatch(strings.TrimRight(lines[i], "\r"))
		if mm == nil {
			continue
		}
		indent := mm[1]
		start := i + 1
		var body []string
		j := start
		for ; j < len(lines); j++ {
			l := strings.TrimRight(lines[j], "\r")
			if strings.HasPrefix(strings.TrimSpace(l), "```") {
				break
			}
			body = append(body, strings.TrimPrefix(l, indent))
		}
		items = append(items, CorpusItem{ID: fmt.Sprintf("%s:%d", filepath.Base(path), start), Text: []byte(strings.Join(body, "\n") + "\n")})
		i = j
	}
	return items, nil
}

// Corpus collects all items from the repository the binary is built from.
func Corpus() ([]CorpusItem, error) {
	repo := lab.RepoDir()
	var items []CorpusItem
	for _, f := range []string{"helios.yaml", "helios.docker.yaml"} {
		b, err := os.ReadFile(filepath.Join(repo, f))
		if err != nil {
			return nil, err
		}
		items = append(items, CorpusItem{ID: f, Text: b})
	}
	docs, _ := filepath.Glob(filepath.Join(repo, "docs", "*.md"))
	for _, f := range append([]string{filepath.Join(repo, "README.md")}, docs...) {
		bl, err := yamlBlocks(f)
		if err != nil {
			return nil, err
		}
		items = append(items, bl...)
	}
	return items, nil
}

const minimalBase = "server:\n  port: 8080\nbackends:\n  - name: \"server1\"\n    address: \"http://localhost:8081\"\n"

// ---------------------------------------------------------------------------------------------
// L3 runner: "starts a working proxy or fails with a clear error; never panics or starts half-configured"
// ---------------------------------------------------------------------------------------------

// Listeners describes what a started configuration must expose.
type Listeners struct {
	Proxy       int    `json:"proxy"`
	TLS         bool   `json:"tls"`
	Metrics     int    `json:"metrics"` // 0 = metrics disabled
	MetricsPath string `json:"metrics_path"`
	Admin       int    `json:"admin"` // 0 = admin API disabled
	// what the file says about secrets ("" = nothing to send / nothing to check)
	APIKey     string `json:"api_key,omitempty"`     // apiKey of the chain's custom-auth entries: sent as X-API-Key
	AdminToken string `json:"admin_token,omitempty"` // admin_api.auth_token: "Authorization: Bearer <token>" must not be answered 401
}

const (
	decisionBudget = 20 * time.Second // ≥ 1000 x the ~20 ms a start takes: no decision by then = stuck
	ancillaryWait  = 5 * time.Second  // ≥ 1000 x a loopback accept after the proxy port already serves
)

type liveBackend struct {
	srv  *httptest.Server
	hits atomic.Int64
}

func startBackend() *liveBackend {
	b := &liveBackend{}
	b.srv = httptest.NewServer(http.HandlerFunc(func(w http.ResponseWriter, r *http.Request) {
		_, _ = io.Copy(io.Discard, r.Body)
		b.hits.Add(1)
		w.Header().Set("Content-Type", "text/plain")
		w.Header().Set("X-Verif-Backend", "1")
		_, _ = w.Write([]byte("backend says hello"))
	}))
	return b
}

func httpGet(url string) (status int, fromBackend bool, err error) {
	return httpGetWith(url, VerifAPIKey, "")
}

func httpGetWith(url, apiKey, bearer string) (status int, fromBackend bool, err error) {
	tr := &http.Transport{DisableKeepAlives: true, DisableCompression: true,
		TLSClientConfig: &tls.Config{InsecureSkipVerify: true}, // #nosec: loopback test client
		DialContext:     (&net.Dialer{Timeout: 5 * time.Second}).DialContext}
	defer tr.CloseIdleConnections()
	cl := &http.Client{Transport: tr, Timeout: lab.NoProgress}
	req, err := http.NewRequest("GET", url, nil)
	if err != nil {
		return 0, false, err
	}
	req.Header.Set("X-API-Key", apiKey) // the key the configuration file gives its custom-auth entries
	if bearer != "" {
		req.Header.Set("Authorization", "Bearer "+bearer)
	}
	res, err := cl.Do(req)
	if err != nil {
		return 0, false, err
	}
	defer res.Body.Close()
	_, _ = io.Copy(io.Discard, res.Body)
	return res.StatusCode, res.Header.Get("X-Verif-Backend") == "1", nil
}

// Verdict of one binary run.
type Verdict struct {
	Outcome string // serving | exit | violation | retry
	Detail  string
	Log     string
}

func clearError(log string) bool {
	for _, l := range strings.Split(log, "\n") {
		if strings.Contains(l, "FTL") || strings.Contains(l, `"level":"fatal"`) {
			return true
		}
	}
	return false
}

func judgeExit(code int, log string) Verdict {
	switch {
	case lab.HasPanicTrace(log):
		return Verdict{"violation", fmt.Sprintf("helios died with a Go panic trace (exit status %d)", code), log}
	case code == 0:
		return Verdict{"violation", "helios exited with status 0 without serving", log}
	case !clearError(log):
		return Verdict{"violation", fmt.Sprintf("helios exited with status %d without a fatal error line in its log", code), log}
	}
	return Verdict{"exit", fmt.Sprintf("exit status %d with a fatal error line", code), log}
}

// RunBinary starts helios with the YAML text and decides the startup clause.
func RunBinary(t testing.TB, text string, ls Listeners) Verdict {
	h := lab.StartHelios(t, text)
	defer h.Kill()
	v := runBinary(h, ls)
	if v.Log == "" {
		v.Log = h.Log()
	}
	return v
}

func runBinary(h *lab.Helios, ls Listeners) Verdict {
	if !h.WaitPort(ls.Proxy, decisionBudget) {
		if ex, code := h.Exited(); ex {
			return judgeExit(code, h.Log())
		}
		return Verdict{"violation", fmt.Sprintf("after %v helios has neither exited nor does it accept connections on the proxy port %d", decisionBudget, ls.Proxy), h.Log()}
	}
	if !h.ListensOn(ls.Proxy) {
		// somebody accepted on the proxy port number, but it is not (or no longer) this process
		if ex, code := h.WaitExit(2 * time.Second); ex {
			log := h.Log()
			if strings.Contains(log, "address already in use") && !sharesPort(ls) {
				return Verdict{"retry", "port was taken by a foreign process", log}
			}
			return judgeExit(code, log)
		}
		if !h.ListensOn(ls.Proxy) {
			return Verdict{"retry", "a foreign process listens on the chosen proxy port", h.Log()}
		}
	}
	scheme := "http"
	if ls.TLS {
		scheme = "https"
	}
	apiKey := ls.APIKey
	if apiKey == "" {
		apiKey = VerifAPIKey
	}
	status, fromBackend, err := httpGetWith(fmt.Sprintf("%s://127.0.0.1:%d/verif", scheme, ls.Proxy), apiKey, "")
	if ne, ok := err.(interface{ Timeout() bool }); ok && ne.Timeout() {
		// a client-side time budget ran out (loaded machine): one more attempt before judging
		status, fromBackend, err = httpGetWith(fmt.Sprintf("%s://127.0.0.1:%d/verif", scheme, ls.Proxy), apiKey, "")
	}
	if err != nil || !fromBackend {
		// the listener on the proxy port may belong to an ancillary server of a process that is
		// about to die with a bind error: give it the chance to report that
		if ex, code := h.WaitExit(2 * time.Second); ex {
			return judgeExit(code, h.Log())
		}
		return Verdict{"violation", fmt.Sprintf("helios is running and something accepts on the proxy port %d, but a request is not served through to the backend (status %d, from backend %v, err %v): half-configured", ls.Proxy, status, fromBackend, err), h.Log()}
	}
	type anc struct {
		name, url string
	}
	var as []anc
	if ls.Metrics != 0 {
		as = append(as, anc{"metrics", fmt.Sprintf("http://127.0.0.1:%d%s", ls.Metrics, ls.MetricsPath)})
	}
	if ls.Admin != 0 {
		as = append(as, anc{"admin_api", fmt.Sprintf("http://127.0.0.1:%d/v1/health", ls.Admin)})
	}
	for _, a := range as {
		deadline := time.Now().Add(ancillaryWait)
		var last string
		for {
			st, fb, err := httpGet(a.url)
			if err == nil && !fb && (st == 200 || (a.name == "admin_api" && st == 403)) {
				break
			}
			last = fmt.Sprintf("status %d, answered by the backend through the proxy: %v, err: %v", st, fb, err)
			if ex, code := h.Exited(); ex {
				return judgeExit(code, h.Log())
			}
			if time.Now().After(deadline) {
				if log := h.Log(); strings.Contains(log, "address already in use") && !sharesPort(ls) {
					return Verdict{"retry", "an ancillary port was taken by a foreign process", log}
				}
				return Verdict{"violation", fmt.Sprintf("the proxy serves on %d but the enabled %s listener does not answer at %s within %v (%s): half-configured", ls.Proxy, a.name, a.url, ancillaryWait, last), h.Log()}
			}
			time.Sleep(10 * time.Millisecond)
		}
	}
	if ls.Admin != 0 && ls.AdminToken != "" {
		// "All endpoints except /v1/health require a JWT token passed via the Authorization: Bearer <token> header"
		st, _, err := httpGetWith(fmt.Sprintf("http://127.0.0.1:%d/v1/backends", ls.Admin), apiKey, ls.AdminToken)
		if err == nil && st == http.StatusUnauthorized {
			return Verdict{"violation", fmt.Sprintf("the admin API answers 401 to \"Authorization: Bearer %s\" although that is the auth_token of the configuration file", ls.AdminToken), h.Log()}
		}
		st, _, err = httpGetWith(fmt.Sprintf("http://127.0.0.1:%d/v1/backends", ls.Admin), apiKey, ls.AdminToken+"x")
		if err == nil && st == http.StatusOK {
			return Verdict{"violation", fmt.Sprintf("the admin API answers 200 to the token %q, the configuration file says %q", ls.AdminToken+"x", ls.AdminToken), h.Log()}
		}
	}
	if ex, code := h.Exited(); ex {
		return judgeExit(code, h.Log())
	}
	log := h.Log()
	if lab.HasPanicTrace(log) {
		return Verdict{"violation", "panic trace in the log of a serving helios", log}
	}
	return Verdict{"serving", "proxy serves through to the backend and every enabled ancillary listener answers", log}
}

func sharesPort(ls Listeners) bool {
	return (ls.Metrics != 0 && ls.Metrics == ls.Proxy) || (ls.Admin != 0 && ls.Admin == ls.Proxy) || (ls.Metrics != 0 && ls.Metrics == ls.Admin)
}
