package c18

import (
	"fmt"
	"sort"
	"strconv"
	"strings"
	"testing"

	"github.com/0xReLogic/Helios/internal/config"
	"github.com/0xReLogic/Helios/verifharness/lab"
	"gopkg.in/yaml.v3"
	"pgregory.net/rapid"
)

func TestMain(m *testing.M) {
	lab.Quiet()
	lab.Assume("the reference validity predicate (harness/c18/ref.go) is a faithful reading of README, docs/ and the validator's error texts; it evaluates what the operator wrote, never config.Config")
	lab.Assume("not generated (docs silent or contradictory): enum case variants and `trace`, explicit empty enum strings, invalid values inside disabled features, enabled features with required fields omitted (covered only through the README corpus item), wrongly typed scalars, paths without a leading slash")
	lab.Assume("round trip of string values: yaml.v3's node-level reading of the same text (a plain or quoted scalar tagged !!str) is the reference for what the file says; generated secrets carry no white space, generated paths only characters that are legal in a URL path segment as they are (no '{' '}' '%' '#' '?')")
	lab.Assume("L3: loopback only, free ports substituted, one live httptest backend; 'listener does not answer' is decided after 5 s (>= 1000x a loopback accept) once the proxy port already serves")
	lab.Main(m, "C18")
}

// excludeFormatText applies the exclusion of the open finding log-format-text by construction.
func excludeFormatText(sub *lab.SubCheck, m *Model) {
	if m.Logging.Mode != Omitted && m.Logging.Format != nil && *m.Logging.Format == "text" && lab.Open(KeyFormatText) {
		sub.Excluded(KeyFormatText)
		m.Logging.Format = sp("json")
	}
}

// excludeGzipInt applies the exclusion of the open finding gzip-yaml-int by construction.
func excludeGzipInt(sub *lab.SubCheck, m *Model) {
	if m.Plugins.Mode != Enabled || !lab.Open(KeyGzipInt) {
		return
	}
	for i := range m.Plugins.Chain {
		if p := &m.Plugins.Chain[i]; p.Name == "gzip" && p.Typ == "int" {
			sub.Excluded(KeyGzipInt)
			p.Typ = "float"
		}
	}
}

func loadLabels(m *Model, viol []string, applied []string) (bool, []string) {
	var labels []string
	secs := map[string]bool{}
	for _, v := range viol {
		secs[sectionOf(v)] = true
	}
	if len(viol) == 0 {
		labels = append(labels, "reference-accepts")
	} else {
		labels = append(labels, "reference-rejects", fmt.Sprintf("invalid-sections=%d", min(len(secs), 3)))
	}
	seen := map[string]bool{}
	for _, v := range viol {
		if !seen[v] {
			seen[v] = true
			labels = append(labels, "viol="+v)
		}
	}
	var ss []string
	for s := range secs {
		ss = append(ss, "invalid-in="+s)
	}
	sort.Strings(ss)
	labels = append(labels, ss...)
	notFirst := false
	for s := range secs {
		if s != "backends" { // backends is what the validator examines first
			notFirst = true
		}
	}
	typedOpt := TypedPluginOption(m)
	if typedOpt {
		labels = append(labels, "typed-plugin-option")
	}
	nd := NonDefaultSections(m)
	labels = append(labels, fmt.Sprintf("non-default-sections=%d", nd))
	return nd >= 2 || notFirst || typedOpt, labels
}

// modelStrings lists the free-form string values of the model with the YAML path they are written at
// ("" = not written).
func modelStrings(m *Model) map[string]string {
	out := map[string]string{}
	if m.BackendsMode == "list" {
		for i, b := range m.Backends {
			if b.Name != nil {
				out[fmt.Sprintf("backends.%d.name", i)] = *b.Name
			}
		}
	}
	if m.Admin.Mode == Enabled || m.Admin.Mode == DisabledV {
		out["admin_api.auth_token"] = m.Admin.Token
	}
	if m.Metrics.Mode == Enabled || m.Metrics.Mode == DisabledV {
		out["metrics.path"] = m.Metrics.Path
	}
	if m.Active.Mode == Enabled || m.Active.Mode == DisabledV {
		out["health_checks.active.path"] = m.Active.Path
	}
	if m.Plugins.Mode == Enabled {
		for i, p := range m.Plugins.Chain {
			if p.Bare != "" {
				continue
			}
			switch p.Name {
			case "custom-auth":
				out[fmt.Sprintf("plugins.chain.%d.config.apiKey", i)] = m.Plugins.APIKey()
			case "headers":
				out[fmt.Sprintf("plugins.chain.%d.config.set.X-App", i)] = m.Plugins.setVal()
				out[fmt.Sprintf("plugins.chain.%d.config.request_set.X-From", i)] = m.Plugins.reqVal()
			}
		}
	}
	return out
}

func nodeAt(doc *yaml.Node, path string) *yaml.Node {
	n := doc
	for _, k := range strings.Split(path, ".") {
		if n == nil {
			return nil
		}
		if n.Kind == yaml.SequenceNode {
			i, err := strconv.Atoi(k)
			if err != nil || i >= len(n.Content) {
				return nil
			}
			n = n.Content[i]
			continue
		}
		n = mapGet(n, k)
	}
	return n
}

// renderingSelfCheck: the rendered text, read with yaml.v3, says for every free-form string exactly
// what the model holds ("" = fine, otherwise a harness error).
func renderingSelfCheck(m *Model, text string) string {
	doc, err := parseDoc([]byte(text))
	if err != nil {
		return "harness: the rendered configuration is not YAML: " + err.Error()
	}
	for path, want := range modelStrings(m) {
		n := nodeAt(doc, path)
		if want == "" && n == nil {
			continue
		}
		if got, ok := strNode(n); !ok || got != want {
			return fmt.Sprintf("harness: rendering of %s: model holds %q, the text reads %q (string scalar: %v)", path, want, got, ok)
		}
	}
	return ""
}

// stringLabels classifies the special characters that occur in the model's free-form strings.
func stringLabels(m *Model) []string {
	var all strings.Builder
	for _, v := range modelStrings(m) {
		all.WriteString(v)
		all.WriteByte('\n')
	}
	t := all.String()
	var labels []string
	for _, c := range []struct{ label, chars string }{{"str:dollar", "$"}, {"str:percent", "%"}, {"str:hash", "#"}, {"str:backslash", "\\"}, {"str:colon", ":"},
		{"str:braces", "{}[]"}, {"str:quote-char", "'\""}, {"str:yaml-indicator", "&*!|>@`~"}} {
		if strings.ContainsAny(t, c.chars) {
			labels = append(labels, c.label)
		}
	}
	if strings.Contains(t, "${") {
		labels = append(labels, "str:dollar-brace")
	}
	return labels
}

// TestC18LoadCombos: LoadConfig(file) returns nil  <=>  the reference predicate accepts.
func TestC18LoadCombos(t *testing.T) {
	sub := lab.Sub("load-vs-reference", "rapid: YAML text rendered from a generated configuration model — every section drawn from its valid variants (all documented enum values, omitted / disabled / "+
		"disabled-with-values / enabled blocks, boundary values, shuffled section order, quoted or plain strings, comments), then 0-3 faults from the fault table (one per documented constraint and offending value, incl. two enabled listeners sharing a port in all three pairings) applied, "+
		"so invalid sections combine; free-form strings (backend names, admin token, custom-auth apiKey, header values of the headers plugin, metrics and health-check paths) drawn from the documentation's examples, a table of values with characters that are ordinary inside a YAML scalar ($ ${..} $$ % # \\ : { } [ ] & * ! | > ' \" @ ` ~, number/bool/null look-alikes) and random strings over that alphabet, written plain, single- or double-quoted; "+
		"oracle: config.LoadConfig(file) == nil  <=>  reference predicate (ref.go) reports no violated documented constraint; AND for an accepted file every documented string value of the returned configuration (names, addresses, paths, token, IP lists, header names, plugin names and option values) equals what yaml.v3 reads at that place of the same text; "+
		"non-trivial = >= 2 non-default sections, or an invalid section other than the first one the validator examines (backends), or a YAML-typed plugin option")
	sub.NontrivialFloor(0.60)
	sub.Floor("reference-accepts", 0.25)
	sub.Floor("reference-rejects", 0.25)
	for _, s := range []string{"backends", "server", "timeouts", "load_balancer", "health_checks", "rate_limit", "circuit_breaker", "metrics", "admin_api", "logging", "ports"} {
		sub.Floor("invalid-in="+s, 0.01)
	}
	sub.Floor("str:dollar", 0.25)
	sub.Floor("str:dollar-brace", 0.03)
	sub.Floor("str:percent", 0.05)
	sub.Floor("str:hash", 0.05)
	sub.Floor("str:backslash", 0.05)
	sub.Floor("roundtrip-compared", 0.25)
	ld := newLoader(t)
	lab.Check(t, sub, 10000, 300000, func(rt *rapid.T) {
		m := GenValid(rt, []string{"int", "float", "string"})
		nf := pick(rt, "faults", 0, 0, 0, 0, 1, 1, 1, 2, 2, 3)
		var applied []string
		for i := 0; i < nf; i++ {
			f := rapid.SampledFrom(Faults).Draw(rt, "fault")
			f.Apply(m)
			applied = append(applied, f.ID)
		}
		excludeFormatText(sub, m)
		viol := Violations(m)
		text := m.YAML()
		if h := renderingSelfCheck(m, text); h != "" {
			rt.Fatalf("%s\n%s", h, text)
		}
		cfg, err := ld.Load([]byte(text))
		nt, labels := loadLabels(m, viol, applied)
		labels = append(labels, stringLabels(m)...)
		var diffs []string
		if err == nil {
			var n int
			if diffs, n = RoundTrip([]byte(text), cfg); n > 0 {
				labels = append(labels, "roundtrip-compared")
			}
		}
		sub.Case(map[string]any{"model": m, "faults": applied}, nt, labels...)
		if len(diffs) > 0 {
			rt.Fatalf("LoadConfig accepted the file but returned other values than the file says: %s\n%s", strings.Join(diffs, "; "), text)
		}
		if (err == nil) != (len(viol) == 0) {
			if err == nil {
				rt.Fatalf("LoadConfig ACCEPTED a configuration that violates documented constraints %v (faults %v):\n%s", viol, applied, text)
			}
			rt.Fatalf("LoadConfig REJECTED a configuration in which every documented constraint holds: %v (faults %v):\n%s", err, applied, text)
		}
	})
}

type singleCase struct {
	Kind string   `json:"kind"` // fault | variant | pair
	IDs  []string `json:"ids"`
}

func faultByID(id string) *Fault {
	for i := range Faults {
		if Faults[i].ID == id {
			return &Faults[i]
		}
	}
	return nil
}

func variantByID(id string) *Variant {
	for i := range ValidVariants {
		if ValidVariants[i].ID == id {
			return &ValidVariants[i]
		}
	}
	return nil
}

func buildSingle(c singleCase) *Model {
	m := BaseModel()
	for _, id := range c.IDs {
		if f := faultByID(id); f != nil {
			f.Apply(m)
		} else if v := variantByID(id); v != nil {
			v.Apply(m)
		} else {
			panic("unknown id " + id)
		}
	}
	return m
}

// TestC18LoadEnumerated: the complete fault table and the complete documented-valid table, one at a
// time on the shipped sample configuration, plus all pairs of faults from different sections.
func TestC18LoadEnumerated(t *testing.T) {
	const name = "load-tables-enumerated"
	sub := lab.Sub(name, fmt.Sprintf("ALL %d entries of the fault table (one per documented constraint x offending value) and ALL %d entries of the documented-valid table (every documented enum value, both sides of every boundary, "+
		"omitted/disabled features) applied one at a time to the shipped sample configuration re-stated as a model, plus ALL ordered pairs of faults from different sections (the validator returns on the first error); "+
		"oracle: LoadConfig(file) == nil <=> reference accepts, and an accepted file's documented string values come back as yaml.v3 reads them from the text; the harness also checks that each table entry produces exactly the violation it is named after; non-trivial = all (every case has >= 2 non-default sections)",
		len(Faults), len(ValidVariants)))
	var rc singleCase
	ld := newLoader(t)
	run := func(c singleCase) (viol []string, err error, text string, diffs []string) {
		m := buildSingle(c)
		viol = Violations(m)
		text = m.YAML()
		var cfg *config.Config
		if cfg, err = ld.Load([]byte(text)); err == nil {
			diffs, _ = RoundTrip([]byte(text), cfg)
		}
		return
	}
	if lab.ReplayCase(name, &rc) {
		if viol, err, text, diffs := run(rc); (err == nil) != (len(viol) == 0) || len(diffs) > 0 {
			lab.Violation(t, name, rc, "LoadConfig error %v, reference violations %v, differences between file and returned configuration %v\n%s", err, viol, diffs, text)
		}
		return
	}
	if lab.Replaying() {
		t.Skip("replay of another sub-check")
	}
	var cases []singleCase
	for _, v := range ValidVariants {
		cases = append(cases, singleCase{"variant", []string{v.ID}})
	}
	for _, f := range Faults {
		cases = append(cases, singleCase{"fault", []string{f.ID}})
	}
	for _, f := range Faults {
		for _, g := range Faults {
			if sectionOf(f.Name) != sectionOf(g.Name) {
				cases = append(cases, singleCase{"pair", []string{f.ID, g.ID}})
			}
		}
	}
	complete := true
	for i, c := range cases {
		if i%lab.Shards() != lab.Shard() {
			continue
		}
		if c.Kind == "variant" && c.IDs[0] == "format=text" && lab.Open(KeyFormatText) {
			sub.Excluded(KeyFormatText)
			complete = false
			continue
		}
		viol, err, text, diffs := run(c)
		// harness self-check: the tables mean what their names say
		switch c.Kind {
		case "variant":
			if len(viol) != 0 {
				lab.Problem("%s: documented-valid variant %v is rejected by the reference: %v", name, c.IDs, viol)
			}
		case "fault":
			f := faultByID(c.IDs[0])
			ok := false
			for _, v := range viol {
				ok = ok || v == f.Name
				if sectionOf(v) != sectionOf(f.Name) {
					ok = false
					break
				}
			}
			if !ok {
				lab.Problem("%s: fault %s produces violations %v, expected [%s] (and nothing outside its section)", name, f.ID, viol, f.Name)
			}
		case "pair":
			if len(viol) < 1 { // the second fault may overwrite what the first one set (e.g. a port), never both
				lab.Problem("%s: pair %v produces violations %v", name, c.IDs, viol)
			}
		}
		labels := []string{"kind=" + c.Kind}
		if len(viol) == 0 {
			labels = append(labels, "reference-accepts")
		} else {
			labels = append(labels, "reference-rejects")
		}
		sub.Case(c, true, labels...)
		if len(diffs) > 0 {
			lab.Violation(t, name, c, "LoadConfig accepted %v but returned other values than the file says: %s\n%s", c.IDs, strings.Join(diffs, "; "), text)
		}
		if (err == nil) != (len(viol) == 0) {
			if err == nil {
				lab.Violation(t, name, c, "LoadConfig ACCEPTED %v although it violates %s:\n%s", c.IDs, strings.Join(viol, ", "), text)
			}
			lab.Violation(t, name, c, "LoadConfig REJECTED documented-valid %v: %v\n%s", c.IDs, err, text)
		}
	}
	if complete {
		sub.Exhaustive()
	} else {
		sub.Note("not marked exhaustive: entries inside the region of an open known finding were skipped (see excluded_by_known_finding)")
	}
}
