package c18

import (
	"fmt"
	"testing"

	"github.com/0xReLogic/Helios/verifharness/lab"
)

// bareCase: one built-in plugin written without a usable config, at a placement in a chain.
type bareCase struct {
	Plugin    string `json:"plugin"`
	Form      string `json:"form"`      // absent | null | null-explicit | tilde | empty
	Placement string `json:"placement"` // alone | first | middle | last
	Binary    bool   `json:"binary"`    // also started as the real binary
}

func (c bareCase) model() *Model {
	m := BaseModel()
	m.Active = Active{Mode: Omitted} // keeps the binary part quiet; irrelevant to the chain
	bare := PluginElem{Name: c.Plugin, Bare: c.Form}
	a := PluginElem{Name: "size_limit", Typ: "int", A: 10485760, B: 52428800}
	b := PluginElem{Name: "headers"}
	g := PluginElem{Name: "gzip", Typ: "float", A: 5, B: 1024}
	switch c.Placement {
	case "alone":
		m.Plugins.Chain = []PluginElem{bare}
	case "first":
		m.Plugins.Chain = []PluginElem{bare, a, b, g}
	case "middle":
		m.Plugins.Chain = []PluginElem{a, g, bare, b}
	default:
		m.Plugins.Chain = []PluginElem{a, b, g, bare}
	}
	return m
}

// mustStart: the bare entry is itself a documented form (`- name: logging`, `- name: request-id`,
// size_limit with its documented defaults), so the configuration has to start.
func (c bareCase) mustStart() bool {
	return c.Plugin == "logging" || c.Plugin == "request-id" || c.Plugin == "size_limit"
}

func runBare(t testing.TB, ld *loader, c bareCase) string {
	m := c.model()
	text := m.YAML()
	cfg, err := ld.Load([]byte(text))
	if err != nil {
		return fmt.Sprintf("LoadConfig rejected it: %v\n%s", err, text)
	}
	stage, berr, panicked := Build(cfg)
	if panicked != "" {
		return fmt.Sprintf("startup PANICKED in process (%s): %s\n%s", stage, panicked, text)
	}
	if berr != nil && c.mustStart() {
		return fmt.Sprintf("`- name: %s` without options is a documented form but does not start: %s: %v\n%s", c.Plugin, stage, berr, text)
	}
	if !c.Binary {
		return ""
	}
	v, btext := runL3(t, l3Case{M: m})
	switch {
	case v.Outcome == "violation":
		return fmt.Sprintf("real binary: %s\nlog:\n%s\nconfig:\n%s", v.Detail, v.Log, btext)
	case v.Outcome == "retry":
		lab.Problem("bare-plugin-config-enumerated: no usable free ports three times in a row")
	case v.Outcome == "exit" && c.mustStart():
		return fmt.Sprintf("real binary: `- name: %s` without options is a documented form but helios did not start: %s\nlog:\n%s", c.Plugin, v.Detail, v.Log)
	case (v.Outcome == "serving") != (berr == nil):
		return fmt.Sprintf("real binary and in-process build disagree: binary %s, BuildChain error %v\nlog:\n%s", v.Outcome, berr, v.Log)
	}
	return ""
}

// TestC18BarePluginConfig: chain entries whose `config` is absent, null or empty, for every built-in.
func TestC18BarePluginConfig(t *testing.T) {
	const name = "bare-plugin-config-enumerated"
	sub := lab.Sub(name, fmt.Sprintf("ALL %d built-in plugin names x %d ways of writing an entry without usable config (`config` absent, `config:`, `config: null`, `config: ~`, `config: {}`) x 4 placements "+
		"{alone, first, middle, last of a chain with size_limit, headers, gzip} in the shipped sample configuration; LoadConfig + NewLoadBalancer + BuildChain in process, and for the placements alone/middle also the real binary; "+
		"oracle: never a panic (in process: recovered and reported; binary: no panic/goroutine trace) — an error is fine for gzip / custom-auth / headers, while `- name: logging|request-id|size_limit` are documented forms and must start; "+
		"the binary either serves through to the backend or exits non-zero with a fatal error line, and agrees with the in-process build; non-trivial = the plugin cannot work without options (gzip, custom-auth) or the entry is not the last one",
		len(BuiltinPlugins), len(BareForms)))
	var rc bareCase
	ld := newLoader(t)
	if lab.ReplayCase(name, &rc) {
		if r := runBare(t, ld, rc); r != "" {
			lab.Violation(t, name, rc, "%s", r)
		}
		return
	}
	if lab.Replaying() {
		t.Skip("replay of another sub-check")
	}
	idx := 0
	for _, p := range BuiltinPlugins {
		for _, f := range BareForms {
			for _, pl := range []string{"alone", "first", "middle", "last"} {
				idx++
				if idx%lab.Shards() != lab.Shard() {
					continue
				}
				c := bareCase{Plugin: p, Form: f, Placement: pl, Binary: pl == "alone" || pl == "middle"}
				r := runBare(t, ld, c)
				labels := []string{"plugin=" + p, "form=" + f, "placement=" + pl}
				if c.Binary {
					labels = append(labels, "started-as-binary")
				}
				sub.Case(c, needsConfig(p) || pl != "last", labels...)
				if r != "" {
					lab.Violation(t, name, c, "%s with config %s (%s): %s", p, f, pl, r)
				}
			}
		}
	}
	sub.Exhaustive()
}
