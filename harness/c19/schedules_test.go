//go:build go1.25

package c19

import (
	"fmt"
	"strings"
	"sync/atomic"
	"testing"
	"testing/synctest"
	"time"

	"github.com/0xReLogic/Helios/internal/config"
	"github.com/0xReLogic/Helios/internal/loadbalancer"
	"github.com/0xReLogic/Helios/verifharness/lab"
	"pgregory.net/rapid"
)

// ---------------------------------------------------------------------------------------------
// Sub-check 1 (L1, virtual time): lb.Stop() placed exactly relative to Helios's own probe ticker.
//
// What is asserted, and why it is no more than the statement of C19:
//
//	O1 "Shutdown always completes within the configured shutdown timeout": at L1 there is no
//	   configured shutdown timeout; the smallest bound the statement can mean for the balancer's
//	   part of the shutdown is the probe timeout (a shutdown timeout below the probe timeout is
//	   never promised to cover a hung probe). So every Stop call must RETURN, and the virtual time
//	   between call and return must be <= one probe timeout (+1 ms). Nothing tighter is asserted
//	   (the unchanged code returns after 0 ns because held probes carry the balancer context).
//	   A frozen bubble (mutex deadlock) is reported by the real-time watchdog started outside it.
//	   The configured bound itself is asserted as well: server.timeouts.shutdown is a drawn part of
//	   the configuration (unset = documented 30 s, or 1-10 s) and no Stop call may take longer, also
//	   not when it is smaller than the probe timeout and a probe hangs ("whatever the timing relative
//	   to ... in-flight probes"), and whatever the peers of the pooled idle connections do (drawn
//	   peer scripts, conn_test.go).
//	O2 "no health probe is sent after shutdown returns": the number of probe round-trips that have
//	   STARTED is sampled by the goroutine that called Stop immediately after Stop returned; after
//	   ten further intervals of virtual time the number must be unchanged, and no completed probe
//	   may carry a start instant later than the first return. Probes in flight when Stop was called
//	   may complete or be cancelled.
//	O3 "pooled connections are closed": every connection the pool accepted as idle (Put == true)
//	   reports closed when the first Stop returns.
//	O4 "repeated or concurrent shutdown calls are harmless": no Stop call panics, every one returns
//	   (O1 applies to each).
//	O5 "requests in flight ... are allowed to finish": client requests that had reached a backend
//	   when Stop was called and are answered by the backend afterwards complete with that answer.
// ---------------------------------------------------------------------------------------------

type l1Case struct {
	Strategy  string   `json:"strategy"`
	N         int      `json:"n"`
	IntervalS int      `json:"interval_s"`
	TimeoutS  int      `json:"timeout_s"`
	WindowS   int      `json:"passive_window_s"` // 0: passive checks off (a failed probe ejects for 0 s)
	Probe     []string `json:"probe"`            // per backend: ok | 5xx | unreachable | held | held-release
	RelMs     []int    `json:"release_ms"`       // held-release: released this long after every tick
	RelAs     []string `json:"release_as"`       // ok | 5xx
	Pool      bool     `json:"pool"`
	MaxIdle   int      `json:"max_idle,omitempty"`
	Conns     []int    `json:"pool_conns,omitempty"` // backend index each connection is Put for
	// Peers / PeerDelayMs: per pooled connection, how its other end behaves (conn_test.go)
	Peers       []string `json:"pool_peers,omitempty"`
	PeerDelayMs []int    `json:"pool_peer_delay_ms,omitempty"`
	// ShutdownS: server.timeouts.shutdown of the configuration (0 = not set: documented default 30 s)
	ShutdownS  int    `json:"shutdown_s"`
	Place      string `json:"place"` // construct | first-probe | tick | held | between
	Tick       int    `json:"tick"`  // the stop instant is t0 + Tick*interval + OffNs
	OffNs      int64  `json:"offset_ns"`
	Stops      int    `json:"stops"`
	Concurrent bool   `json:"concurrent"`
	GapMs      []int  `json:"gap_ms,omitempty"` // sequential: virtual pause before call i+1
	Clients    int    `json:"clients"`
	// Breaker: circuit_breaker enabled with the values of the shipped sample file (closed throughout:
	// transparent for the parked client requests). Rate limiting cannot be hosted here: the limiter's
	// never-ending janitor must live outside the bubble, the probe checker inside it (stop-pool-history,
	// stop-feature-matrix and stop-race-stress carry that dimension).
	Breaker bool `json:"circuit_breaker,omitempty"`
}

type stopRec struct {
	CallAt, RetAt time.Duration
	Panic         string
	ProbesAtRet   int
	OpenAtRet     int
	Seq           int32
	returned      atomic.Bool
}

type l1Result struct {
	Viol           string
	Harness        string
	InFlightAtStop int
	NearTick       bool
	MaxBlocked     time.Duration
	Dispatched     int
	NotDispatched  int
	Deadlock       string
	// live: while Stop calls are running, a func() string describing what the pool held (for the real-time
	// watchdog, should a call freeze the bubble)
	live atomic.Value
}

func genL1(rt *rapid.T) l1Case {
	c := l1Case{Strategy: rapid.SampledFrom(lab.Strategies).Draw(rt, "strategy"), N: rapid.IntRange(1, 4).Draw(rt, "n"),
		IntervalS: rapid.IntRange(2, 10).Draw(rt, "interval")}
	c.TimeoutS = rapid.IntRange(1, c.IntervalS-1).Draw(rt, "timeout")
	c.WindowS = rapid.SampledFrom([]int{0, 0, 1, 1, 3, 15}).Draw(rt, "window")
	c.Place = rapid.SampledFrom([]string{"construct", "first-probe", "tick", "tick", "tick", "tick", "held", "held", "held", "between", "between"}).Draw(rt, "place")
	to := int64(c.TimeoutS) * 1e9
	iv := int64(c.IntervalS) * 1e9
	switch c.Place {
	case "construct", "first-probe":
	case "tick":
		c.Tick = rapid.IntRange(1, 3).Draw(rt, "tick")
		c.OffNs = rapid.SampledFrom([]int64{-1e6, -1, 0, 0, 0, 1, 1e6}).Draw(rt, "offset")
	case "held":
		c.Tick = rapid.IntRange(0, 2).Draw(rt, "tick")
		c.OffNs = rapid.Int64Range(1, to-1).Draw(rt, "offset")
		if rapid.IntRange(0, 3).Draw(rt, "edge") == 0 {
			c.OffNs = rapid.SampledFrom([]int64{1, 1e6, to - 1e6, to - 1}).Draw(rt, "edge_offset")
		}
	case "between":
		c.Tick = rapid.IntRange(0, 2).Draw(rt, "tick")
		c.OffNs = rapid.Int64Range(to+2e6, iv-2e6).Draw(rt, "offset")
	}
	kinds := []string{"ok", "ok", "5xx", "unreachable", "held", "held", "held-release"}
	for i := 0; i < c.N; i++ {
		k := rapid.SampledFrom(kinds).Draw(rt, "probe")
		c.Probe = append(c.Probe, k)
		rel, as := 0, ""
		if k == "held-release" {
			rel = rapid.IntRange(1, c.TimeoutS*1000-1).Draw(rt, "release_ms")
			as = rapid.SampledFrom([]string{"ok", "ok", "5xx"}).Draw(rt, "release_as")
		}
		c.RelMs = append(c.RelMs, rel)
		c.RelAs = append(c.RelAs, as)
	}
	if c.Place == "held" { // construction: at least one probe is in flight at the stop instant
		i := rapid.IntRange(0, c.N-1).Draw(rt, "held_backend")
		c.Probe[i], c.RelMs[i], c.RelAs[i] = "held", 0, ""
	}
	c.Pool = rapid.IntRange(0, 9).Draw(rt, "pool") < 3
	if c.Pool {
		c.MaxIdle = rapid.IntRange(1, 4).Draw(rt, "max_idle")
		n := rapid.IntRange(1, 6).Draw(rt, "conns")
		for i := 0; i < n; i++ {
			c.Conns = append(c.Conns, rapid.IntRange(0, c.N-1).Draw(rt, "conn_backend"))
			peer, delay := rapid.SampledFrom(peerKinds).Draw(rt, "conn_peer"), 0
			if peer == "answers-late" {
				delay = rapid.SampledFrom([]int{1, 50, 900, 1100, 2500, 60_000}).Draw(rt, "conn_peer_delay_ms")
			}
			c.Peers, c.PeerDelayMs = append(c.Peers, peer), append(c.PeerDelayMs, delay)
		}
	}
	c.ShutdownS = rapid.SampledFrom([]int{0, 1, 2, 3, 5, 10}).Draw(rt, "shutdown_timeout")
	c.Stops = rapid.SampledFrom([]int{1, 1, 2, 2, 3}).Draw(rt, "stops")
	if c.Stops > 1 {
		c.Concurrent = rapid.Bool().Draw(rt, "concurrent")
		if !c.Concurrent {
			for i := 1; i < c.Stops; i++ {
				c.GapMs = append(c.GapMs, rapid.SampledFrom([]int{0, 0, 1, 500, c.IntervalS * 1000, c.IntervalS*1000 + 1}).Draw(rt, "gap_ms"))
			}
		}
	}
	c.Clients = rapid.SampledFrom([]int{0, 0, 1, 2}).Draw(rt, "clients")
	c.Breaker = rapid.Bool().Draw(rt, "circuit_breaker")
	return c
}

// overlapsLaunch: the Stop call can overlap IN REAL TIME with the checker goroutine launching a
// probe round for two or more backends (the WaitGroup Add-vs-Wait race fixed in 1a9c3d3 lived here).
func (c l1Case) overlapsLaunch() bool {
	return c.N >= 2 && (c.Place == "construct" || (c.Place == "tick" && c.OffNs == 0))
}

func probeBehaviour(k string) lab.Behaviour {
	switch k {
	case "ok":
		return lab.Good
	case "5xx":
		return lab.Status5xx
	case "unreachable":
		return lab.Unreachable
	}
	return lab.Park
}

// runBubble runs f as the main goroutine of a fresh synctest bubble. It returns the runtime's
// end-of-bubble deadlock message ("" if every goroutine of the bubble had exited) and any panic.
func runBubble(t *testing.T, f func()) (deadlock string, panicked any) {
	defer func() {
		if p := recover(); p != nil {
			if s := fmt.Sprint(p); strings.HasPrefix(s, "deadlock:") {
				deadlock = s
				return
			}
			panicked = p
		}
	}()
	synctest.Test(t, func(*testing.T) {
		defer func() {
			if p := recover(); p != nil {
				panicked = p
			}
		}()
		f()
	})
	return
}

func (c l1Case) inBubble(fn *lab.FakeNet, r *l1Result) {
	const eps = time.Millisecond
	iv := time.Duration(c.IntervalS) * time.Second
	to := time.Duration(c.TimeoutS) * time.Second
	cfg := lab.BaseConfig(c.Strategy, lab.Ones(c.N))
	cfg.HealthChecks.Active.Enabled = true
	cfg.HealthChecks.Active.Interval, cfg.HealthChecks.Active.Timeout, cfg.HealthChecks.Active.Path = c.IntervalS, c.TimeoutS, "/healthz"
	if c.WindowS > 0 {
		cfg.HealthChecks.Passive.Enabled = true
		cfg.HealthChecks.Passive.UnhealthyThreshold = 100
		cfg.HealthChecks.Passive.UnhealthyTimeout = c.WindowS
	}
	if c.Pool {
		cfg.LoadBalancer.WebSocketPool.Enabled = true
		cfg.LoadBalancer.WebSocketPool.MaxIdle = c.MaxIdle
		cfg.LoadBalancer.WebSocketPool.MaxActive = 100
		cfg.LoadBalancer.WebSocketPool.IdleTimeoutSeconds = 3600
	}
	if c.Breaker {
		cfg.CircuitBreaker = config.CircuitBreakerConfig{Enabled: true, MaxRequests: 5, IntervalSeconds: 60, TimeoutSeconds: 60, FailureThreshold: 5, SuccessThreshold: 2}
	}
	cfg.Server.Timeouts.Shutdown = c.ShutdownS
	// the statement's bound for a shutdown call: the configured shutdown timeout (documented default 30 s)
	budget := 30 * time.Second
	if c.ShutdownS > 0 {
		budget = time.Duration(c.ShutdownS) * time.Second
	}
	if err := cfg.Validate(); err != nil {
		r.Harness = "config rejected: " + err.Error()
		return
	}
	// the network is scripted before the balancer exists: the first probe round is launched by
	// the goroutine NewLoadBalancer starts
	for i := 0; i < c.N; i++ {
		fn.SetProbeBehaviour(lab.BackendHost(i), probeBehaviour(c.Probe[i]))
		fn.Set(lab.BackendHost(i), lab.Park) // proxied path: client requests stay inside the backend until released
	}
	t0 := time.Now()
	lb, err := loadbalancer.NewLoadBalancer(cfg)
	if err != nil {
		r.Harness = err.Error()
		return
	}
	fn.Install(lb)
	done := make(chan struct{})
	defer func() {
		close(done)
		fn.ReleaseAll()
		synctest.Wait()
	}()

	var conns []*poolConn
	if c.Pool {
		pool := lb.VerifWebSocketPool()
		if pool == nil {
			r.Harness = "pool enabled in the configuration but VerifWebSocketPool() is nil"
			lb.Stop()
			return
		}
		for i, b := range c.Conns {
			pc := newPoolConn(b, c.Peers[i], c.PeerDelayMs[i])
			pc.accepted = pool.Put(lab.BackendHost(b), pc)
			conns = append(conns, pc)
		}
		// whatever a misbehaving shutdown may still be waiting for on a connection ends with the case
		defer func() {
			for _, pc := range conns {
				pc.abandon()
			}
		}()
	}
	// pooled: for a violation message, what the pool held idle and what it did with it
	pooled := func() string {
		if !c.Pool {
			return "websocket pool off"
		}
		var cs []*poolConn
		var ids []int
		for i, pc := range conns {
			if pc.accepted {
				cs, ids = append(cs, pc), append(ids, i)
			}
		}
		return describePooled(cs, ids)
	}
	openConns := func() int {
		n := 0
		for _, pc := range conns {
			if pc.accepted && pc.closed.Load() == 0 {
				n++
			}
		}
		return n
	}

	type clientRes struct {
		status int
		body   string
		host   string
		abort  bool
		done   atomic.Bool
	}
	clients := make([]*clientRes, c.Clients)
	for j := range clients {
		cr := &clientRes{}
		clients[j] = cr
		go func(j int) {
			st, body, hdr, ab := lab.Serve(lb, lab.Request("GET", "/inflight", fmt.Sprintf("10.0.0.%d:4000", j+1), nil))
			cr.status, cr.body, cr.host, cr.abort = st, body, hdr.Get("X-Backend"), ab
			cr.done.Store(true)
		}(j)
	}
	// held-release probes: released a fixed time after every tick, until the case ends
	for i := 0; i < c.N; i++ {
		if c.Probe[i] != "held-release" {
			continue
		}
		go func(i int) {
			as := lab.Good
			if c.RelAs[i] == "5xx" {
				as = lab.Status5xx
			}
			for k := 0; ; k++ {
				at := t0.Add(time.Duration(k)*iv + time.Duration(c.RelMs[i])*time.Millisecond)
				tm := time.NewTimer(time.Until(at))
				select {
				case <-done:
					tm.Stop()
					return
				case <-tm.C:
				}
				fn.ReleaseProbe(lab.BackendHost(i), as)
			}
		}(i)
	}

	if c.Place != "construct" {
		synctest.Wait() // the first probe round has been launched: immediate probes are over, held ones are in flight
		if d := time.Until(t0.Add(time.Duration(c.Tick)*iv + time.Duration(c.OffNs))); d > 0 {
			time.Sleep(d)
		}
	}
	for i := 0; i < c.N; i++ {
		r.InFlightAtStop += fn.ParkedProbes(lab.BackendHost(i))
	}
	arrivedAtStop := fn.Arrivals()

	r.live.Store(func() string { return "Stop running: " + pooled() })
	defer r.live.Store(func() string { return "" })
	recs := make([]*stopRec, c.Stops)
	var seq atomic.Int32
	call := func(i int) {
		rec := recs[i]
		defer func() {
			if p := recover(); p != nil {
				rec.Panic = fmt.Sprint(p)
				rec.returned.Store(true)
			}
		}()
		rec.CallAt = time.Since(t0)
		lb.Stop()
		rec.RetAt = time.Since(t0)
		rec.ProbesAtRet = fn.TotalProbes()
		rec.OpenAtRet = openConns()
		rec.Seq = seq.Add(1)
		rec.returned.Store(true)
	}
	await := func(from, to_ int) bool {
		synctest.Wait()
		all := true
		for i := from; i < to_; i++ {
			all = all && recs[i].returned.Load()
		}
		if !all {
			time.Sleep(min(to, budget) + eps)
			synctest.Wait()
		}
		for i := from; i < to_; i++ {
			rec := recs[i]
			if !rec.returned.Load() {
				r.Viol = fmt.Sprintf("Stop call #%d (called at t0+%v) has not returned %v of virtual time later (probe timeout %v, configured shutdown timeout %v): shutdown does not complete; %s", i+1, rec.CallAt, time.Since(t0)-rec.CallAt, to, budget, pooled())
				return false
			}
			if rec.Panic != "" {
				r.Viol = fmt.Sprintf("Stop call #%d (called at t0+%v) panicked: %s", i+1, rec.CallAt, rec.Panic)
				return false
			}
			if d := rec.RetAt - rec.CallAt; d > r.MaxBlocked {
				r.MaxBlocked = d
			}
			if rec.RetAt-rec.CallAt > to+eps {
				r.Viol = fmt.Sprintf("Stop call #%d took %v of virtual time (called at t0+%v, returned at t0+%v); the probe timeout is %v; %s", i+1, rec.RetAt-rec.CallAt, rec.CallAt, rec.RetAt, to, pooled())
				return false
			}
			if rec.RetAt-rec.CallAt > budget {
				r.Viol = fmt.Sprintf("Stop call #%d took %v of virtual time (called at t0+%v, returned at t0+%v); the configured shutdown timeout is %v; %s", i+1, rec.RetAt-rec.CallAt, rec.CallAt, rec.RetAt, budget, pooled())
				return false
			}
		}
		return true
	}
	for i := range recs {
		recs[i] = &stopRec{}
	}
	if c.Concurrent || c.Stops == 1 {
		for i := range recs {
			go call(i)
		}
		if !await(0, c.Stops) {
			return
		}
	} else {
		for i := range recs {
			if i > 0 && c.GapMs[i-1] > 0 {
				time.Sleep(time.Duration(c.GapMs[i-1]) * time.Millisecond)
			}
			go call(i)
			if !await(i, i+1) {
				return
			}
		}
	}
	var first *stopRec
	for _, rec := range recs {
		if rec.Seq == 1 {
			first = rec
		}
	}
	// O3
	if first.OpenAtRet > 0 {
		r.Viol = fmt.Sprintf("%d connection(s) the pool held idle were not closed when Stop returned (at t0+%v)", first.OpenAtRet, first.RetAt)
		return
	}
	// O2
	time.Sleep(10 * iv)
	synctest.Wait()
	if n := fn.TotalProbes(); n != first.ProbesAtRet {
		detail := ""
		for _, p := range fn.ProbeLog() {
			if p.Start.Sub(t0) >= first.RetAt {
				detail += fmt.Sprintf(" %s@t0+%v", p.Host, p.Start.Sub(t0))
			}
		}
		r.Viol = fmt.Sprintf("%d health probe(s) were started after Stop had returned (Stop returned at t0+%v with %d probes started so far; %d after ten more intervals; probes logged at or after the return:%s)",
			n-first.ProbesAtRet, first.RetAt, first.ProbesAtRet, n, detail)
		return
	}
	for _, p := range fn.ProbeLog() {
		if p.Start.Sub(t0) > first.RetAt {
			r.Viol = fmt.Sprintf("a health probe to %s started at t0+%v, after Stop had returned at t0+%v", p.Host, p.Start.Sub(t0), first.RetAt)
			return
		}
	}
	if n := openConns(); n > 0 {
		r.Viol = fmt.Sprintf("%d pooled idle connection(s) still open after all Stop calls", n)
		return
	}
	// O5
	for i := 0; i < c.N; i++ {
		for fn.Release(lab.BackendHost(i), lab.Good) {
		}
	}
	synctest.Wait()
	ok := 0
	for j, cr := range clients {
		if !cr.done.Load() {
			r.Viol = fmt.Sprintf("client request #%d did not complete after its backend answered (Stop was called while it was in flight)", j+1)
			return
		}
		if cr.status == 200 && !cr.abort && cr.host != "" && cr.body == "ok:"+cr.host {
			ok++
		} else {
			r.NotDispatched++
		}
	}
	r.Dispatched = ok
	if ok < arrivedAtStop {
		var got []string
		for _, cr := range clients {
			got = append(got, fmt.Sprintf("%d %q", cr.status, cr.body))
		}
		r.Viol = fmt.Sprintf("%d client request(s) were inside a backend when Stop was called, but only %d received the backend's complete 200 answer after it was released: %v", arrivedAtStop, ok, got)
	}
}

func TestC19StopSchedules(t *testing.T) {
	const name = "stop-vs-probe-schedule"
	sub := lab.Sub(name, "rapid schedules in virtual time against the real balancer with Helios's own probe ticker: 5 strategies x 1-4 backends x interval 2-10 s x timeout 1..interval-1 x passive window {off,1,3,15 s} x circuit breaker {off, on with the sample file's values} x per-backend probe script {200, 5xx, unreachable, held until cancelled, held until released after a drawn delay} "+
		"x optional websocket pool (max_idle 1-4) with 1-6 fake connections Put before the stop, the other end of each following a drawn script (answers a Close frame at once or late, silent, not reading, chatty, closed, reset; blocking reads / writes honour the connection's deadlines in virtual time) x server.timeouts.shutdown {unset = 30 s, 1, 2, 3, 5, 10 s} x stop instant {right after construction without letting the probe goroutine run, after the first probe round was launched, tick k=1..3 with offset -1 ms/-1 ns/0/+1 ns/+1 ms, while probes are held (offset in (0,timeout) incl. the edges), between ticks} "+
		"x 1-3 Stop calls concurrent or sequential (gaps 0..interval+1 ms) x 0-2 client requests parked inside backends across the stop; oracle: every Stop returns within one probe timeout (+1 ms) of virtual time and within the configured shutdown timeout and does not panic, the count of started probe round-trips sampled right after the first return is unchanged ten intervals later and no logged probe starts after it, "+
		"every connection the pool accepted is closed at the first return, parked client requests complete with the backend's answer when released afterwards; non-trivial = at least one probe in flight when Stop is called, or the stop instant within 1 ms of a probe tick (t0 counts as tick 0)")
	sub.NontrivialFloor(0.60)
	sub.Floor("probe-in-flight-at-stop", 0.25)
	sub.Floor("at-tick-exactly", 0.05)
	sub.Floor("pool", 0.15)
	sub.Floor("pool,unresponsive-peer", 0.15)
	sub.Floor("stops>1", 0.30)
	sub.Floor("clients-in-flight", 0.25)
	lab.Assume("L1: scripted RoundTripper replaces http.Transport (proxied path) and http.DefaultTransport (probes); virtual time via testing/synctest with Helios's own ticker; the shutdown-timeout bound of the statement is taken as one probe timeout for lb.Stop(); goroutines inside a bubble mostly run one at a time, so same-instant overlaps are sampled, not enumerated")
	lab.Check(t, sub, 3000, 100000, func(rt *rapid.T) {
		c := genL1(rt)
		var r l1Result
		var stage atomic.Value
		stage.Store("running")
		wd := lab.StartWatchdogDetail(t.Name(), name, lab.NoProgress, func() any { return map[string]any{"case": c, "stage": stage.Load()} }, func() string {
			if f, ok := r.live.Load().(func() string); ok {
				return f()
			}
			return ""
		})
		fn := lab.NewFakeNet()
		var deadlock string
		var panicked any
		fn.WithDefaultTransport(func() {
			deadlock, panicked = runBubble(t, func() { c.inBubble(fn, &r) })
		})
		wd.Stop()
		r.Deadlock = deadlock
		// tick 0 is the probe round at t0
		near := c.Place == "construct" || c.Place == "first-probe" || c.Place == "tick" || (c.Place == "held" && (c.OffNs <= 1e6))
		r.NearTick = near
		labels := []string{"place=" + c.Place, fmt.Sprintf("stops=%d", c.Stops), fmt.Sprintf("n=%d", c.N), c.Strategy}
		if c.Place == "tick" {
			labels = append(labels, fmt.Sprintf("tick-offset=%dns", c.OffNs))
			if c.OffNs == 0 {
				labels = append(labels, "at-tick-exactly")
			}
		}
		if r.InFlightAtStop > 0 {
			labels = append(labels, "probe-in-flight-at-stop")
		}
		if c.overlapsLaunch() {
			labels = append(labels, "stop-overlaps-round-launch")
		}
		if c.Pool {
			labels = append(labels, "pool")
			deaf := false
			for i, p := range c.Peers {
				labels = append(labels, "peer="+p)
				deaf = deaf || unresponsive(p, c.PeerDelayMs[i])
			}
			if deaf {
				labels = append(labels, "pool,unresponsive-peer")
			}
		}
		labels = append(labels, fmt.Sprintf("shutdown_timeout=%ds", c.ShutdownS))
		if c.Breaker {
			labels = append(labels, "on=circuit_breaker")
		}
		if c.WindowS > 0 {
			labels = append(labels, "on=passive_checks")
		}
		if c.Stops > 1 {
			labels = append(labels, "stops>1")
			if c.Concurrent {
				labels = append(labels, "concurrent-stops")
			} else {
				labels = append(labels, "sequential-stops")
			}
		}
		if r.Dispatched > 0 {
			labels = append(labels, "clients-in-flight")
		}
		if r.NotDispatched > 0 {
			labels = append(labels, "client-not-dispatched")
		}
		if r.MaxBlocked > 0 {
			labels = append(labels, "stop-blocked-in-virtual-time")
		}
		for _, k := range c.Probe {
			labels = append(labels, "probe:"+k)
		}
		sub.Case(c, r.InFlightAtStop > 0 || near, dedup(labels)...)
		switch {
		case r.Harness != "":
			rt.Fatalf("harness: %s (case %+v)", r.Harness, c)
		case r.Viol != "":
			rt.Fatalf("%s\ncase: %+v", r.Viol, c)
		case panicked != nil:
			rt.Fatalf("panic inside the bubble: %v\ncase: %+v", panicked, c)
		case deadlock != "" && !c.Pool:
			// with the pool enabled its janitor goroutine (which Shutdown is not documented to end)
			// legitimately outlives the bubble; without a pool nothing of the balancer may remain
			rt.Fatalf("harness: after every Stop returned and all scripted traffic was released, goroutines of the case are still blocked (%s); not a statement of C19, but unexpected\ncase: %+v", deadlock, c)
		}
	})
}

func dedup(in []string) []string {
	seen := map[string]bool{}
	var out []string
	for _, s := range in {
		if !seen[s] {
			seen[s] = true
			out = append(out, s)
		}
	}
	return out
}
