package c19

import (
	"bytes"
	"fmt"
	"strings"
	"sync"
	"sync/atomic"
	"syscall"
	"testing"
	"time"

	"github.com/0xReLogic/Helios/verifharness/lab"
	"pgregory.net/rapid"
)

// ---------------------------------------------------------------------------------------------
// Sub-check 2 (L3, the real binary): SIGTERM / SIGINT delivered at a drawn point of a request.
//
// Asserted (each clause is the statement of C19 read at process level):
//   - "requests in flight when the signal arrives are allowed to finish": a request that has
//     reached the backend (before the backend answered, after the client has read the response head,
//     or after it has read the first part of the body) and whose remaining duration is at least 1 s
//     below timeouts.shutdown is received by the client complete: scripted status, scripted body, no
//     read error. The statement makes no exception for any kind of request or response, so what the
//     exchange looks like is drawn: media type of the response (documents, downloads, and the types
//     that announce an event / record / frame stream), its framing (Content-Length, chunked,
//     close-delimited), the number of writes its body arrives in, accompanying response fields,
//     and the request (bare GET, EventSource GET, API GET, body-less POST);
//   - "shutdown always completes within the configured shutdown timeout": the process has exited
//     timeouts.shutdown + 2 s after the signal at the latest (normal: milliseconds after the last
//     request finished) - also when a health probe hangs in the backend (probe timeout up to 9 s,
//     far above the bound) and also when the in-flight request outlasts the shutdown timeout;
//   - "repeated ... shutdown calls are harmless": a second signal during the shutdown changes
//     nothing of the above;
//   - exit status 0 and no panic trace in the log (a clean shutdown is what main documents: it
//     returns from main after "server shutdown complete");
//   - "no health probe is sent after shutdown returns": after the exit the backend sees no further
//     connection or request (trivial for a dead process; kept as a guard for the accounting).
//
// For a request that outlasts the shutdown timeout only "exits within the bound, no panic" is
// asserted; what the client sees then is not stated.
// ---------------------------------------------------------------------------------------------

const l3Name = "signal-at-request-point"

// stepBudget bounds every loopback handshake of the scenario (normal: < 5 ms): exceeding it before
// the signal is a harness problem, after the signal it is the violation "did not finish".
const stepBudget = 5 * time.Second

type l3Case struct {
	ShutdownS int `json:"shutdown_s"`
	// ShutdownOmitted: server.timeouts.shutdown is left out of the file (documented default 30 s; ShutdownS is 30 then)
	ShutdownOmitted bool   `json:"shutdown_omitted,omitempty"`
	Signal          string `json:"signal"` // TERM | INT
	Point           string `json:"point"`  // before-answer | mid-body | after-head | idle | half-sent-head (the client has sent the request line and one header field; the rest of the head follows ReleaseMs after the signal; the backend answers at once); after-head: the client has read the response head, the backend has not produced a body byte yet (a quiet stream / long poll)
	Status          int    `json:"status,omitempty"`
	Framing         string `json:"framing,omitempty"` // cl | chunked | close (no framing header: the backend ends the body by closing its connection)
	// What the in-flight exchange looks like (none of it is anything the statement lets a shutdown depend on):
	// CType: Content-Type of the response ("" = application/octet-stream, "none" = no such field);
	// RespDress: further response fields a service of that kind sends (respDress); Pieces: number of separate
	// writes (events / records / frames) the backend sends the second body part in; Request: what the client's
	// request looks like (requestKinds).
	CType      string `json:"content_type,omitempty"`
	RespDress  string `json:"response_dress,omitempty"`
	Pieces     int    `json:"part2_pieces,omitempty"`
	Request    string `json:"request,omitempty"`
	Part1      int    `json:"part1,omitempty"`
	Part2      int    `json:"part2,omitempty"`
	ReadFirst  int    `json:"client_read_before_signal,omitempty"` // mid-body: bytes of part 1 the client has read when the signal is sent
	Over       bool   `json:"outlasts_timeout,omitempty"`          // the backend never finishes the request
	ReleaseMs  int    `json:"release_after_ms,omitempty"`          // backend continues this long after the signal
	Second     string `json:"second_signal,omitempty"`             // "" | TERM | INT
	SecondMs   int    `json:"second_after_ms,omitempty"`
	Active     bool   `json:"active_checks"`
	IntervalS  int    `json:"interval_s,omitempty"`
	TimeoutS   int    `json:"timeout_s,omitempty"`
	ProbeHangs bool   `json:"probe_hangs,omitempty"` // the backend never answers probes
	Metrics    bool   `json:"metrics_listener,omitempty"`
	// further optional features of the configuration, drawn on/off with the values of the shipped sample
	// file (none of them touches a single proxied request: limits far above one request, breaker closed,
	// plugins that leave status and body alone)
	Rate    bool `json:"rate_limit,omitempty"`
	Breaker bool `json:"circuit_breaker,omitempty"`
	Passive bool `json:"passive_checks,omitempty"`
	Pool    bool `json:"websocket_pool,omitempty"`
	Admin   bool `json:"admin_api,omitempty"`
	Plugins bool `json:"plugins,omitempty"` // logging, request-id, headers
	// UptimeMs: the process has been up at least this long when the request is sent and the signal
	// delivered (0 = as soon as it serves). "Whatever the timing": a shutdown budget counts from the
	// signal, not from anything earlier in the life of the process.
	UptimeMs int `json:"uptime_ms,omitempty"`
}

// halfSent is ready at once for the half-sent-head point (nothing can have arrived at the backend
// yet) and never otherwise.
// notJudged: the half-sent request ended without a response (see above).
const notJudged = "\x00not-judged"

func halfSent(c l3Case) <-chan struct{} {
	ch := make(chan struct{})
	if c.Point == "half-sent-head" {
		close(ch)
	}
	return ch
}

// Media types of in-flight responses. The first group are ordinary documents and downloads; the second
// group announce a response that is produced piece by piece over its lifetime (event streams, record
// streams, frame streams, media segments) - finite all the same: the scripted backend finishes every one.
var plainTypes = []string{"", "none", "text/plain; charset=utf-8", "application/json", "text/html; charset=utf-8", "image/jpeg", "application/pdf"}
var streamTypes = []string{"text/event-stream", "text/event-stream", "text/event-stream; charset=utf-8", "text/event-stream;charset=UTF-8", "application/x-ndjson", "application/stream+json",
	"application/grpc-web+proto", "multipart/x-mixed-replace; boundary=frame", "video/mp2t"}

// streamTyped: the response's media type announces a stream.
func streamTyped(ct string) bool {
	for _, s := range streamTypes {
		if s == ct {
			return true
		}
	}
	return false
}

// respDress: further end-to-end response fields by kind of service.
var respDress = map[string][]lab.KV{
	"":           nil,
	"no-cache":   {{K: "Cache-Control", V: "no-cache"}},
	"sse-hints":  {{K: "Cache-Control", V: "no-cache, no-transform"}, {K: "X-Accel-Buffering", V: "no"}},
	"download":   {{K: "Content-Disposition", V: "attachment; filename=\"export.csv\""}, {K: "Accept-Ranges", V: "none"}},
	"cookie":     {{K: "Set-Cookie", V: "sid=abc123; Path=/; HttpOnly"}, {K: "Vary", V: "Accept"}},
	"long-cache": {{K: "Cache-Control", V: "public, max-age=31536000, immutable"}, {K: "ETag", V: "\"v1-5d41402a\""}},
}
var respDressNames = []string{"", "", "no-cache", "sse-hints", "download", "cookie", "long-cache"}

// requestKinds: "" = a bare GET; event-source = what a browser's EventSource sends; fetch-json = an API
// call; post-empty = a POST that starts a job or a generation and carries no body (Content-Length: 0).
// Requests WITH a body are kept out: the open finding C01/request-body-close-race (net/http, not Helios:
// the server closes the inbound request body at the first response write while the transport may still
// be reading it) occasionally truncates the response of such an exchange with no shutdown anywhere near.
var requestKinds = []string{"", "", "event-source", "event-source", "fetch-json", "post-empty"}

// request renders the client's request: method, the header fields after Host and X-Verif-Case, the body.
func (c l3Case) request() (method string, extra []lab.KV, body []byte) {
	switch c.Request {
	case "event-source":
		return "GET", []lab.KV{{K: "Accept", V: "text/event-stream"}, {K: "Cache-Control", V: "no-cache"}, {K: "Last-Event-ID", V: "17"}}, nil
	case "fetch-json":
		return "GET", []lab.KV{{K: "Accept", V: "application/json, */*;q=0.1"}, {K: "Accept-Encoding", V: "identity"}}, nil
	case "post-empty":
		return "POST", []lab.KV{{K: "Accept", V: "text/event-stream, application/json"}}, []byte{}
	}
	return "GET", nil, nil
}

func genL3(rt *rapid.T) l3Case {
	c := l3Case{ShutdownS: rapid.IntRange(2, 4).Draw(rt, "shutdown"), Signal: rapid.SampledFrom([]string{"TERM", "INT"}).Draw(rt, "signal"),
		Point: rapid.SampledFrom([]string{"before-answer", "before-answer", "mid-body", "mid-body", "after-head", "idle", "half-sent-head", "half-sent-head"}).Draw(rt, "point")}
	if c.Point != "idle" {
		c.Status = rapid.SampledFrom([]int{200, 200, 201, 404}).Draw(rt, "status")
		c.Framing = rapid.SampledFrom([]string{"cl", "chunked", "close"}).Draw(rt, "framing")
		if c.Point == "after-head" {
			// a proxy must pass a response head on before the body exists only if it cannot know how long the
			// body will be; with a Content-Length it may keep the head in its buffers
			c.Framing = rapid.SampledFrom([]string{"chunked", "close"}).Draw(rt, "framing_after_head")
		}
		if rapid.Bool().Draw(rt, "stream_typed") {
			c.CType = rapid.SampledFrom(streamTypes).Draw(rt, "content_type")
		} else {
			c.CType = rapid.SampledFrom(plainTypes).Draw(rt, "content_type")
		}
		c.RespDress = rapid.SampledFrom(respDressNames).Draw(rt, "response_dress")
		c.Request = rapid.SampledFrom(requestKinds).Draw(rt, "request")
		c.Pieces = rapid.SampledFrom([]int{1, 1, 2, 5}).Draw(rt, "part2_pieces")
		c.Part1 = rapid.SampledFrom([]int{1, 100, 4096, 32768}).Draw(rt, "part1")
		c.Part2 = rapid.SampledFrom([]int{1, 1000, 32769, 200000}).Draw(rt, "part2")
		if c.Point == "mid-body" {
			// the proxy may legitimately keep the tail of what the backend has sent so far in its
			// response buffers (net/http: 2 KiB + 4 KiB) unless the response is chunked (then every
			// write is flushed through); the client waits only for bytes that must have been passed on
			// (a close-delimited backend response has no known length either: the proxy re-frames it
			// chunked towards the client)
			c.ReadFirst = c.Part1
			if c.Framing == "cl" {
				c.Part1 = rapid.SampledFrom([]int{16384, 32768, 65536}).Draw(rt, "part1_cl")
				c.ReadFirst = c.Part1 - 8192
			}
		}
		if rapid.IntRange(0, 5).Draw(rt, "shutdown_omitted") == 0 {
			c.ShutdownOmitted, c.ShutdownS = true, 30
		}
		c.Over = c.Point != "half-sent-head" && !c.ShutdownOmitted && rapid.IntRange(0, 6).Draw(rt, "outlasts") == 0
		if c.Point == "half-sent-head" {
			// the rest of the request head follows this long after the signal (well inside the 5 s
			// for which net/http's Shutdown leaves alone a connection whose first request is still
			// being read)
			c.ReleaseMs = rapid.SampledFrom([]int{0, 20, 200, 500}).Draw(rt, "rest_after_ms")
		} else if !c.Over {
			c.ReleaseMs = rapid.SampledFrom([]int{0, 20, 200, 600, (min(c.ShutdownS, 4) - 1) * 1000}).Draw(rt, "release_ms")
		}
	}
	if rapid.IntRange(0, 2).Draw(rt, "second") == 0 {
		c.Second = rapid.SampledFrom([]string{"TERM", "INT"}).Draw(rt, "second_signal")
		c.SecondMs = rapid.SampledFrom([]int{0, 1, 10, 100}).Draw(rt, "second_ms")
		if !c.Over && c.Point != "idle" && c.SecondMs > c.ReleaseMs {
			c.SecondMs = c.ReleaseMs / 2
		}
	}
	c.Active = c.Point == "idle" || rapid.IntRange(0, 1).Draw(rt, "active") == 0
	if c.Active {
		c.ProbeHangs = rapid.IntRange(0, 1).Draw(rt, "probe_hangs") == 0
		if c.ProbeHangs {
			c.IntervalS, c.TimeoutS = 10, 9
		} else {
			c.IntervalS = rapid.SampledFrom([]int{2, 2, 3}).Draw(rt, "interval")
			c.TimeoutS = rapid.IntRange(1, c.IntervalS-1).Draw(rt, "timeout")
		}
	}
	c.Metrics = rapid.IntRange(0, 3).Draw(rt, "metrics") == 0
	c.Rate = rapid.Bool().Draw(rt, "rate_limit")
	c.Breaker = rapid.Bool().Draw(rt, "circuit_breaker")
	c.Passive = rapid.Bool().Draw(rt, "passive_checks")
	c.Pool = rapid.Bool().Draw(rt, "websocket_pool")
	c.Admin = rapid.IntRange(0, 3).Draw(rt, "admin_api") == 0
	c.Plugins = rapid.Bool().Draw(rt, "plugins")
	return c
}

// duringDrain: a second signal arrives while the first one's drain is still waiting for the request.
func (c l3Case) duringDrain() bool {
	return c.Second != "" && c.Point != "idle" && (c.Over || c.SecondMs < c.ReleaseMs)
}

// genL3SecondDuringDrain draws a case in which, by construction, a second signal arrives while a request
// is still being drained (the repeated-shutdown clause at process level): a request in flight, finished by
// the backend 200 ms or more after the first signal (or never), second signal 0-100 ms after the first.
func genL3SecondDuringDrain(rt *rapid.T) l3Case {
	c := genL3(rt)
	for i := 0; i < 8 && c.Point == "idle"; i++ {
		c = genL3(rt)
	}
	if c.Point == "idle" {
		return c
	}
	if c.Second == "" {
		c.Second = rapid.SampledFrom([]string{"TERM", "INT"}).Draw(rt, "forced_second_signal")
	}
	c.SecondMs = rapid.SampledFrom([]int{0, 1, 10, 100}).Draw(rt, "forced_second_ms")
	if !c.Over && c.ReleaseMs < 200 {
		if c.Point == "half-sent-head" {
			c.ReleaseMs = rapid.SampledFrom([]int{200, 500}).Draw(rt, "forced_rest_after_ms")
		} else {
			c.ReleaseMs = rapid.SampledFrom([]int{200, 600, (min(c.ShutdownS, 4) - 1) * 1000}).Draw(rt, "forced_release_ms")
		}
	}
	return c
}

// genL3Aged draws a case in which the process is older than its whole shutdown timeout when the signal
// arrives, with a request in flight that the backend finishes well inside the timeout.
func genL3Aged(rt *rapid.T) l3Case {
	c := genL3(rt)
	for i := 0; i < 8 && c.Point == "idle"; i++ {
		c = genL3(rt)
	}
	if c.Point == "idle" {
		return c
	}
	c.ShutdownOmitted, c.ShutdownS, c.Over = false, 2, false
	c.UptimeMs = c.ShutdownS*1000 + rapid.SampledFrom([]int{100, 300, 1000}).Draw(rt, "aged_beyond_ms")
	if c.Point == "half-sent-head" {
		c.ReleaseMs = rapid.SampledFrom([]int{20, 200, 500}).Draw(rt, "aged_rest_after_ms")
	} else {
		c.ReleaseMs = rapid.SampledFrom([]int{20, 200, 600, 1000}).Draw(rt, "aged_release_ms")
	}
	if c.Second != "" && c.SecondMs > c.ReleaseMs {
		c.SecondMs = c.ReleaseMs / 2
	}
	return c
}

func (c l3Case) yaml(port, metricsPort, adminPort int, backendURL string) string {
	var b strings.Builder
	if c.ShutdownOmitted {
		// documented default: 30 s
		fmt.Fprintf(&b, "server:\n  port: %d\n", port)
	} else {
		fmt.Fprintf(&b, "server:\n  port: %d\n  timeouts:\n    shutdown: %d\n", port, c.ShutdownS)
	}
	fmt.Fprintf(&b, "backends:\n  - name: \"b0\"\n    address: \"%s\"\n    weight: 1\n", backendURL)
	b.WriteString("load_balancer:\n  strategy: \"round_robin\"\n")
	if c.Pool {
		b.WriteString("  websocket_pool:\n    enabled: true\n    max_idle: 10\n    max_active: 100\n    idle_timeout_seconds: 300\n")
	}
	if c.Active || c.Passive {
		b.WriteString("health_checks:\n")
	}
	if c.Active {
		fmt.Fprintf(&b, "  active:\n    enabled: true\n    interval: %d\n    timeout: %d\n    path: \"/healthz\"\n", c.IntervalS, c.TimeoutS)
	}
	if c.Passive {
		b.WriteString("  passive:\n    enabled: true\n    unhealthy_threshold: 3\n    unhealthy_timeout: 30\n")
	}
	if c.Rate {
		b.WriteString("rate_limit:\n  enabled: true\n  max_tokens: 100\n  refill_rate_seconds: 1\n")
	}
	if c.Breaker {
		b.WriteString("circuit_breaker:\n  enabled: true\n  max_requests: 5\n  interval_seconds: 60\n  timeout_seconds: 60\n  failure_threshold: 5\n  success_threshold: 2\n")
	}
	if c.Admin {
		fmt.Fprintf(&b, "admin_api:\n  enabled: true\n  port: %d\n  auth_token: \"change-me\"\n", adminPort)
	}
	if c.Plugins {
		b.WriteString("plugins:\n  enabled: true\n  chain:\n    - name: logging\n    - name: request-id\n    - name: headers\n      config:\n        set:\n          X-App: Helios\n        request_set:\n          X-From: LB\n")
	}
	if c.Metrics {
		fmt.Fprintf(&b, "metrics:\n  enabled: true\n  port: %d\n  path: \"/metrics\"\n", metricsPort)
	}
	b.WriteString("logging:\n  level: \"info\"\n  format: \"json\"\n")
	return b.String()
}

// parts: the write partition of the scripted body: part 1, then part 2 in Pieces separate writes.
func (c l3Case) parts() []int {
	parts := []int{c.Part1}
	k := max(1, min(c.Pieces, c.Part2))
	for i := 0; i < k; i++ {
		n := c.Part2 / k
		if i == k-1 {
			n = c.Part2 - (k-1)*(c.Part2/k)
		}
		parts = append(parts, n)
	}
	return parts
}

// responseHeader: the end-to-end fields of the scripted response.
func (c l3Case) responseHeader() []lab.KV {
	var h []lab.KV
	switch c.CType {
	case "":
		h = append(h, lab.KV{K: "Content-Type", V: "application/octet-stream"})
	case "none":
	default:
		h = append(h, lab.KV{K: "Content-Type", V: c.CType})
	}
	return append(h, respDress[c.RespDress]...)
}

// responseText / requestText describe the exchange in a violation message.
func (c l3Case) responseText() string {
	ct := "no Content-Type"
	if h := c.responseHeader(); len(h) > 0 && h[0].K == "Content-Type" {
		ct = "Content-Type " + h[0].V
	}
	return fmt.Sprintf("%d, %s, %s framing, body %d B + %d B in %d write(s)", c.Status, ct, c.Framing, c.Part1, c.Part2, len(c.parts())-1)
}

func (c l3Case) requestKind() string {
	if c.Request == "" {
		return "bare-get"
	}
	return c.Request
}

func (c l3Case) requestText() string {
	m, extra, body := c.request()
	s := m
	for _, kv := range extra {
		s += fmt.Sprintf(" %s: %s;", kv.K, kv.V)
	}
	if body != nil {
		s += fmt.Sprintf(" %d B body", len(body))
	}
	return s
}

func sigOf(s string) syscall.Signal {
	if s == "INT" {
		return syscall.SIGINT
	}
	return syscall.SIGTERM
}

func scriptedBody(n1, n2 int) []byte {
	b := make([]byte, n1+n2)
	for i := range b {
		b[i] = byte('a' + (i*31+7)%26)
	}
	return b
}

type l3Result struct {
	Viol      string
	Harness   string
	Retry     bool
	NotJudged bool // half-sent-head: the connection ended without a response (not necessarily accepted before the signal)
	ExitCode  int
	ExitAfter time.Duration
	Probes    int
	Log       string
}

var l3Seq atomic.Int64

func probeCount(be *lab.RawBackend) int {
	n := 0
	for _, s := range be.Seen() {
		if s.Target == "/healthz" {
			n++
		}
	}
	return n
}

func runL3(t testing.TB, c l3Case) (r l3Result) {
	be, err := lab.NewRawBackend(0)
	if err != nil {
		r.Harness = err.Error()
		return
	}
	var ex *lab.Exchange
	defer func() {
		if ex != nil {
			lab.ReleaseHold(ex)
			lab.CloseBarrier(ex)
		}
		be.Close()
	}()
	if c.ProbeHangs {
		be.Fallback(&lab.RespScript{Status: 200, Framing: "cl", BarrierAfter: -1, Fault: "hang-before-headers"})
	} else {
		be.Fallback(&lab.RespScript{Status: 200, Framing: "cl", Body: []byte("ok"), BodyLen: 2, BarrierAfter: -1})
	}
	ports := lab.FreePorts(3)
	startedAt := time.Now()
	h := lab.StartHelios(t, c.yaml(ports[0], ports[1], ports[2], be.URL()))
	defer h.Kill()
	defer func() { r.Log = h.Log() }()
	if !h.WaitPort(ports[0], stepBudget) || !h.ListensOn(ports[0]) {
		if exd, code := h.WaitExit(time.Second); exd {
			if strings.Contains(h.Log(), "address already in use") {
				r.Retry = true
				return
			}
			r.Harness = fmt.Sprintf("helios exited with %d before serving: %s", code, h.Log())
			return
		}
		r.Retry = true
		return
	}
	addr := fmt.Sprintf("127.0.0.1:%d", ports[0])
	if d := time.Duration(c.UptimeMs)*time.Millisecond - time.Since(startedAt); d > 0 {
		time.Sleep(d)
	}
	if c.Active {
		// the probe round launched at start-up has reached the backend (and hangs there when scripted)
		deadline := time.Now().Add(stepBudget)
		for probeCount(be) == 0 {
			if time.Now().After(deadline) {
				r.Harness = "active checks are enabled but no probe reached the backend within " + stepBudget.String()
				return
			}
			time.Sleep(2 * time.Millisecond)
		}
	}

	body := scriptedBody(c.Part1, c.Part2)
	var cc *lab.ClientConn
	var out *lab.RawResponse
	var prefix []byte
	readDone := make(chan string, 1) // client's verdict on the response ("" = complete and exact)
	if c.Point != "idle" {
		id := fmt.Sprintf("c19-%d", l3Seq.Add(1))
		script := &lab.RespScript{Status: c.Status, Framing: c.Framing, Body: body, BodyLen: len(body), Parts: c.parts(), BarrierAfter: -1, Header: c.responseHeader()}
		switch c.Point {
		case "before-answer":
			script.Hold = true
		case "mid-body":
			script.BarrierAfter = 0
		case "after-head":
			script.BarrierAfterHead = true
		}
		ex = be.Expect(id, script)
		cc, err = lab.Dial(addr)
		if err != nil {
			r.Harness = "cannot connect to the proxy port: " + err.Error()
			return
		}
		defer cc.Close()
		method, extra, reqBody := c.request()
		req := &lab.RawRequest{Method: method, Target: "/c19/" + id, Framing: "none", Header: append([]lab.KV{{K: "Host", V: "helios.test"}, {K: "X-Verif-Case", V: id}}, extra...)}
		if reqBody != nil {
			req.Framing, req.Body, req.BodyLen = "cl", reqBody, len(reqBody)
		}
		if c.Point == "half-sent-head" {
			// only the beginning of the head is on the wire when the signal is sent
			if _, err := cc.C.Write([]byte(method + " /c19/" + id + " HTTP/1.1\r\nHost: helios.test\r\n")); err != nil {
				r.Harness = "cannot send the request: " + err.Error()
				return
			}
			time.Sleep(100 * time.Millisecond) // let the proxy accept the connection and read what there is
			var rest bytes.Buffer
			for _, kv := range req.Header[1:] {
				fmt.Fprintf(&rest, "%s: %s\r\n", kv.K, kv.V)
			}
			if reqBody != nil {
				fmt.Fprintf(&rest, "Content-Length: %d\r\n", len(reqBody))
			}
			rest.WriteString("\r\n")
			rest.Write(reqBody)
			go func() {
				time.Sleep(time.Duration(c.ReleaseMs) * time.Millisecond) // ~ after the signal: it is sent right below
				// Whether the proxy had already accepted this connection when the signal arrived cannot
				// be observed from outside (a connection still in the listen backlog is reset when the
				// listener closes, and that request was never "in flight" inside Helios). A connection
				// that is closed without any response is therefore not judged; a response is.
				if _, err := cc.C.Write(rest.Bytes()); err != nil {
					readDone <- notJudged
					return
				}
				o, resp, e := cc.ReadHead(method, time.Duration(c.ShutdownS+3)*time.Second)
				if e != nil {
					readDone <- notJudged
					return
				}
				cc.Finish(o, resp, nil, time.Duration(c.ShutdownS+3)*time.Second)
				readDone <- judgeResponse(c, o, body)
			}()
		} else if err := cc.Send(req); err != nil {
			r.Harness = "cannot send the request: " + err.Error()
			return
		}
		select {
		case <-halfSent(c):
		case <-lab.Arrived(ex):
		case <-time.After(stepBudget):
			r.Harness = "the request did not reach the backend within " + stepBudget.String() + " (before any signal)"
			return
		}
		if c.Point == "half-sent-head" {
			// the client goroutine above does the rest
		} else if c.Point == "mid-body" || c.Point == "after-head" {
			var e error
			o, resp, e := cc.ReadHead(method, stepBudget)
			if e != nil {
				r.Harness = "no response head before the signal: " + e.Error()
				return
			}
			if c.Point == "mid-body" {
				prefix, e = lab.ReadN(resp, c.ReadFirst)
				if e != nil {
					r.Harness = "first body part not received before the signal: " + e.Error()
					return
				}
			}
			out = o
			go func() {
				cc.Finish(out, resp, prefix, time.Duration(c.ShutdownS+3)*time.Second)
				readDone <- judgeResponse(c, out, body)
			}()
		} else {
			go func() {
				o, resp, e := cc.ReadHead(method, time.Duration(c.ShutdownS+3)*time.Second)
				if e != nil {
					readDone <- "the client received no response: " + e.Error()
					return
				}
				cc.Finish(o, resp, nil, time.Duration(c.ShutdownS+3)*time.Second)
				readDone <- judgeResponse(c, o, body)
			}()
		}
	}

	bound := time.Duration(c.ShutdownS)*time.Second + 2*time.Second
	sigAt := time.Now()
	if err := h.Signal(sigOf(c.Signal)); err != nil {
		r.Harness = "cannot signal helios: " + err.Error()
		return
	}
	if c.Second != "" {
		time.Sleep(time.Duration(c.SecondMs) * time.Millisecond)
		_ = h.Signal(sigOf(c.Second)) // the process may legitimately be gone already (idle case)
	}
	if c.Point != "idle" && !c.Over {
		if d := time.Duration(c.ReleaseMs)*time.Millisecond - time.Since(sigAt); d > 0 {
			time.Sleep(d)
		}
		lab.ReleaseHold(ex)
		lab.CloseBarrier(ex)
		select {
		case v := <-readDone:
			if v == notJudged {
				r.NotJudged = true
			} else if v != "" {
				r.Viol = fmt.Sprintf("request in flight (%s; %s; response: %s) when SIG%s arrived, backend finished it %d ms later (shutdown timeout %d s): %s", c.Point, c.requestText(), c.responseText(), c.Signal, c.ReleaseMs, c.ShutdownS, v)
			}
		case <-time.After(time.Duration(c.ShutdownS+4) * time.Second):
			r.Viol = "the client of the in-flight request neither received the response nor an error"
		}
	}
	exited, code := h.WaitExit(bound - time.Since(sigAt))
	r.ExitAfter = time.Since(sigAt)
	r.ExitCode = code
	log := h.Log()
	if !exited {
		if r.Viol == "" {
			r.Viol = fmt.Sprintf("helios is still running %v after SIG%s (shutdown timeout %d s): shutdown does not complete", r.ExitAfter.Round(time.Millisecond), c.Signal, c.ShutdownS)
		}
		return
	}
	if r.Viol != "" {
		return
	}
	if lab.HasPanicTrace(log) {
		r.Viol = "panic trace in the log during shutdown"
		return
	}
	if code != 0 && !c.Over {
		r.Viol = fmt.Sprintf("helios exited with status %d after SIG%s (second signal %q); a graceful shutdown ends with status 0", code, c.Signal, c.Second)
		return
	}
	// nothing reaches the backend after the exit
	time.Sleep(100 * time.Millisecond)
	n1, a1 := be.Received(), be.Accepts()
	time.Sleep(200 * time.Millisecond)
	if n2, a2 := be.Received(), be.Accepts(); n2 != n1 || a2 != a1 {
		r.Viol = fmt.Sprintf("after helios had exited the backend still received %d request(s) on %d new connection(s)", n2-n1, a2-a1)
	}
	r.Probes = probeCount(be)
	return
}

func judgeResponse(c l3Case, out *lab.RawResponse, body []byte) string {
	switch {
	case out.BodyErr != "":
		return fmt.Sprintf("response body broke off after %d of %d bytes: %s", len(out.Body), len(body), out.BodyErr)
	case out.Status != c.Status:
		return fmt.Sprintf("status %d, scripted %d", out.Status, c.Status)
	case !bytes.Equal(out.Body, body):
		return fmt.Sprintf("body of %d bytes differs from the scripted %d bytes", len(out.Body), len(body))
	}
	return ""
}

func TestC19Signals(t *testing.T) {
	sub := lab.Sub(l3Name, "rapid: the real helios binary (timeouts.shutdown 2-4 s, one scripted raw TCP backend, optional metrics listener, every further optional feature on or off by draw with the values of the shipped sample file - rate_limit, circuit_breaker, passive checks, websocket_pool, admin_api (1 in 4), a plugin chain [logging, request-id, headers] -, active checks off / interval 2-3 s answered / interval 10 s timeout 9 s with probes that hang in the backend) receives SIGTERM or SIGINT "+
		"at a drawn point: no request in flight; a request of which only the request line and one header field have been sent (the rest of the head follows 0-500 ms after the signal, the backend answers at once); a request that reached the backend which has not answered (released 0-(timeout-1) s after the signal); a response of whose first body part (1 B-64 KiB) the client has read everything the proxy must have passed on (all of it when chunked or close-delimited, all but 8 KiB when CL-framed) while the backend waits on a barrier before part 2 (1 B-200 kB, sent in 1-5 writes; CL, chunked or close-delimited; status 200/201/404); a chunked / close-delimited response of which the client has read the head while the backend has not produced a body byte yet; "+
		"the exchange in flight looks like what real services send, by draw: response media type (half of the cases one that announces a piece-by-piece response - text/event-stream with and without parameters, ndjson, stream+json, grpc-web, multipart/x-mixed-replace, MPEG-TS -, otherwise octet-stream / none / text / JSON / HTML / JPEG / PDF), further response fields (no-cache, SSE proxy hints, download, cookie, long-lived cache), the request (bare GET, a browser EventSource's GET, an API GET, POST with Content-Length 0); every scripted response is finite; "+
		"1 in 7 requests is never finished by the backend (outlasts the shutdown timeout); 1 in 3 cases sends a second SIGTERM/SIGINT 0-100 ms later, during the shutdown, and in two of every six cases a second signal arrives by construction while the request is still being drained (backend finishes >= 200 ms after the first signal or never), and in one of every six the process has been up for longer than its whole shutdown timeout (2 s + 0.1-1 s) when the signal arrives, the request being finished 20-1000 ms later; "+
		"oracle: the in-flight request is received complete and exact, the process exits within shutdown timeout + 2 s with status 0 (status not asserted for the outlasting request) and no panic trace, the backend sees nothing after the exit; non-trivial = a request is in flight when the signal arrives")
	sub.NontrivialFloor(0.60)
	sub.Floor("second-signal-during-drain", 0.25)
	sub.Floor("uptime-beyond-shutdown-timeout", 0.10)
	sub.Floor("stream-typed-response,finishes-inside-timeout", 0.25)
	lab.Assume("L3: requests with a body are not drawn (open finding C01/request-body-close-race of net/http truncates such exchanges now and then, shutdown or not)")
	lab.Assume("L3: loopback only; a request counts as in flight once the scripted backend has parsed it; 'remaining duration below the shutdown timeout' is generated with a 1 s margin; the exit bound is shutdown timeout + 2 s of real time (normal: milliseconds)")
	const par = 6
	// 4 / 50 batches x par binaries: 24 quick, 300 thorough (before sharding)
	lab.Check(t, sub, 4, 50, func(rt *rapid.T) {
		cases := make([]l3Case, par)
		for i := range cases {
			switch {
			case i%3 == 0: // two of the six by construction
				cases[i] = genL3SecondDuringDrain(rt)
			case i == 1: // one of the six: a process older than its shutdown timeout
				cases[i] = genL3Aged(rt)
			default:
				cases[i] = genL3(rt)
			}
		}
		res := make([]l3Result, par)
		var wg sync.WaitGroup
		for i := range cases {
			wg.Add(1)
			go func(i int) {
				defer wg.Done()
				for attempt := 0; attempt < 3; attempt++ {
					res[i] = runL3(t, cases[i])
					if !res[i].Retry {
						return
					}
				}
			}(i)
		}
		wg.Wait()
		for i, c := range cases {
			r := res[i]
			labels := []string{"signal=" + c.Signal, "point=" + c.Point, fmt.Sprintf("shutdown=%ds", c.ShutdownS)}
			if c.Over {
				labels = append(labels, "request-outlasts-timeout")
			}
			if c.Point != "idle" {
				mt := c.CType
				if i := strings.IndexByte(mt, ';'); i >= 0 {
					mt = mt[:i]
				}
				if mt == "" {
					mt = "application/octet-stream"
				}
				labels = append(labels, "framing="+c.Framing, "media-type="+mt, "request="+c.requestKind(), fmt.Sprintf("part2-writes=%d", len(c.parts())-1))
				if c.RespDress != "" {
					labels = append(labels, "response-dress="+c.RespDress)
				}
				if streamTyped(c.CType) {
					labels = append(labels, "stream-typed-response")
					if !c.Over {
						labels = append(labels, "stream-typed-response,finishes-inside-timeout")
					}
				}
			}
			if c.Point == "half-sent-head" {
				if res[i].NotJudged {
					labels = append(labels, "half-sent-head-not-judged")
				} else {
					labels = append(labels, "half-sent-head-answered")
				}
			}
			if c.Second != "" {
				labels = append(labels, "second-signal")
			}
			if c.duringDrain() {
				labels = append(labels, "second-signal-during-drain")
			}
			if c.UptimeMs > c.ShutdownS*1000 && c.Point != "idle" {
				labels = append(labels, "uptime-beyond-shutdown-timeout")
			}
			if c.Active {
				labels = append(labels, "active-checks")
				if c.ProbeHangs {
					labels = append(labels, "probe-hangs-at-signal")
				}
			}
			if c.Metrics {
				labels = append(labels, "metrics-listener")
			}
			for _, f := range []struct {
				on   bool
				name string
			}{{c.Rate, "rate_limit"}, {c.Breaker, "circuit_breaker"}, {c.Passive, "passive_checks"}, {c.Pool, "websocket_pool"}, {c.Admin, "admin_api"}, {c.Plugins, "plugins"}} {
				if f.on {
					labels = append(labels, "on="+f.name)
					if c.Second != "" {
						labels = append(labels, "second-signal,on="+f.name)
					}
				}
			}
			if r.Harness == "" && !r.Retry {
				labels = append(labels, fmt.Sprintf("exit=%d", r.ExitCode))
			}
			sub.Case(c, c.Point != "idle", labels...)
		}
		for i, c := range cases {
			r := res[i]
			switch {
			case r.Retry:
				lab.Problem("%s: no usable free port three times in a row", l3Name)
				rt.Fatalf("harness: ports")
			case r.Harness != "":
				rt.Fatalf("harness: %s\ncase %+v\nlog:\n%s", r.Harness, c, r.Log)
			case r.Viol != "":
				// the one-line summary is repeated at the end: the driver shows the tail of a shard's output
				rt.Fatalf("%s\ncase %+v\nexit status %d, %v after the signal\nlog:\n%s\nviolation in %s: %s", r.Viol, c, r.ExitCode, r.ExitAfter.Round(time.Millisecond), r.Log, l3Name, r.Viol)
			}
		}
	})
}
