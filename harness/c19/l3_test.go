package c19

import (
	"bytes"
	"fmt"
	"strings"
	"sync"
	"sync/atomic"
	"syscall"
	"testing"
	"time"

	"github.com/0xReLogic/Helios/verifharness/lab"
	"pgregory.net/rapid"
)

// ---------------------------------------------------------------------------------------------
// Sub-check 2 (L3, the real binary): SIGTERM / SIGINT delivered at a drawn point of a request.
//
// Asserted (each clause is the statement of C19 read at process level):
//   - "requests in flight when the signal arrives are allowed to finish": a request that has
//     reached the backend (before the backend answered, after the client has read the response head,
//     or after it has read the first part of the body) and whose remaining duration is at least 1 s
//     below timeouts.shutdown is received by the client complete: scripted status, scripted body, no
//     read error. The budget a request in flight has is the configured shutdown timeout ("shutdown -
//     Maximum duration for graceful shutdown", README) - all of it, whatever else is configured: the
//     remaining duration is drawn from "finishes at once" up to "timeout less 1 s" for timeouts of
//     1-6 s, together with the time values of everything else in the file (active checks with probe
//     timeouts below, at and above the shutdown timeout and probes answered or hanging, the other
//     server.timeouts keys - none of which is set low enough to end the exchange itself -, and the
//     time values of passive checks, circuit breaker and websocket pool).
//     The statement makes no exception for any kind of request or response, so what the
//     exchange looks like is drawn: media type of the response (documents, downloads, and the types
//     that announce an event / record / frame stream), its framing (Content-Length, chunked,
//     close-delimited), the number of writes its body arrives in, accompanying response fields,
//     and the request (bare GET, EventSource GET, API GET, body-less POST);
//   - "shutdown always completes within the configured shutdown timeout": the process has exited
//     timeouts.shutdown + 2 s after the signal at the latest (normal: milliseconds after the last
//     request finished) - also when a health probe hangs in the backend (probe timeout up to 9 s,
//     far above the bound) and also when the in-flight request outlasts the shutdown timeout;
//   - "repeated ... shutdown calls are harmless": a second signal during the shutdown changes
//     nothing of the above;
//   - exit status 0 and no panic trace in the log (a clean shutdown is what main documents: it
//     returns from main after "server shutdown complete");
//   - "no health probe is sent after shutdown returns": after the exit the backend sees no further
//     connection or request (trivial for a dead process; kept as a guard for the accounting).
//
// For a request that outlasts the shutdown timeout only "exits within the bound, no panic" is
// asserted; what the client sees then is not stated.
// ---------------------------------------------------------------------------------------------

const l3Name = "signal-at-request-point"

// stepBudget bounds every loopback handshake of the scenario (normal: < 5 ms): exceeding it before
// the signal is a harness problem, after the signal it is the violation "did not finish".
const stepBudget = 5 * time.Second

// judgeSlack: "allowed to finish" is asserted for a request whose response the scripted backend has
// played completely at least this long before the shutdown timeout ends, counted from the instant the
// harness sent the signal (the process starts its budget later than that, never earlier). The generator
// plans every remaining duration 1 s or more below the timeout; on a machine that stalls the harness or
// the backend for more than the difference the precondition of the clause ("remaining duration below the
// shutdown timeout") did not hold in that run, which is measured here (lab.PlayedAt) and not assumed.
const judgeSlack = 800 * time.Millisecond

type l3Case struct {
	ShutdownS int `json:"shutdown_s"`
	// ShutdownOmitted: server.timeouts.shutdown is left out of the file (documented default 30 s; ShutdownS is 30 then)
	ShutdownOmitted bool   `json:"shutdown_omitted,omitempty"`
	Signal          string `json:"signal"` // TERM | INT
	Point           string `json:"point"`  // before-answer | mid-body | after-head | idle | half-sent-head (the client has sent the request line and one header field; the rest of the head follows ReleaseMs after the signal; the backend answers at once); after-head: the client has read the response head, the backend has not produced a body byte yet (a quiet stream / long poll)
	Status          int    `json:"status,omitempty"`
	Framing         string `json:"framing,omitempty"` // cl | chunked | close (no framing header: the backend ends the body by closing its connection)
	// What the in-flight exchange looks like (none of it is anything the statement lets a shutdown depend on):
	// CType: Content-Type of the response ("" = application/octet-stream, "none" = no such field);
	// RespDress: further response fields a service of that kind sends (respDress); Pieces: number of separate
	// writes (events / records / frames) the backend sends the second body part in; Request: what the client's
	// request looks like (requestKinds).
	CType      string `json:"content_type,omitempty"`
	RespDress  string `json:"response_dress,omitempty"`
	Pieces     int    `json:"part2_pieces,omitempty"`
	Request    string `json:"request,omitempty"`
	Part1      int    `json:"part1,omitempty"`
	Part2      int    `json:"part2,omitempty"`
	ReadFirst  int    `json:"client_read_before_signal,omitempty"` // mid-body: bytes of part 1 the client has read when the signal is sent
	Over       bool   `json:"outlasts_timeout,omitempty"`          // the backend never finishes the request
	ReleaseMs  int    `json:"release_after_ms,omitempty"`          // backend continues this long after the signal
	Second     string `json:"second_signal,omitempty"`             // "" | TERM | INT
	SecondMs   int    `json:"second_after_ms,omitempty"`
	Active     bool   `json:"active_checks"`
	IntervalS  int    `json:"interval_s,omitempty"`
	TimeoutS   int    `json:"timeout_s,omitempty"`
	ProbeHangs bool   `json:"probe_hangs,omitempty"` // the backend never answers probes
	Metrics    bool   `json:"metrics_listener,omitempty"`
	// further optional features of the configuration, drawn on/off with the values of the shipped sample
	// file (none of them touches a single proxied request: limits far above one request, breaker closed,
	// plugins that leave status and body alone)
	Rate    bool `json:"rate_limit,omitempty"`
	Breaker bool `json:"circuit_breaker,omitempty"`
	Passive bool `json:"passive_checks,omitempty"`
	Pool    bool `json:"websocket_pool,omitempty"`
	Admin   bool `json:"admin_api,omitempty"`
	Plugins bool `json:"plugins,omitempty"` // logging, request-id, headers
	// UptimeMs: the process has been up at least this long when the request is sent and the signal
	// delivered (0 = as soon as it serves). "Whatever the timing": a shutdown budget counts from the
	// signal, not from anything earlier in the life of the process.
	UptimeMs int `json:"uptime_ms,omitempty"`
	// Late: drawn by genL3LateFinisher - the request in flight still needs more than half of (and at least
	// 1 s less than) the shutdown timeout when the signal arrives.
	Late bool `json:"late_finisher,omitempty"`
	// Times: the other server.timeouts.* keys of the file (0 = key left out; documented defaults apply).
	// None of them is allowed to end the request in flight: see normalize.
	Times l3Times `json:"server_timeouts"`
	// FeatureTimes: the time values of the optional features that are switched on (passive
	// unhealthy_timeout, circuit breaker interval / timeout, websocket pool idle timeout):
	// "" = the shipped sample file's, "short" = 1 s, "budget" = the shutdown timeout, "long" = 600 s.
	FeatureTimes string `json:"feature_timeouts,omitempty"`
}

// l3Times: server.timeouts.* besides shutdown, in seconds; 0 = not in the file.
type l3Times struct {
	Read        int `json:"read,omitempty"`
	Write       int `json:"write,omitempty"`
	Idle        int `json:"idle,omitempty"`
	Handler     int `json:"handler,omitempty"`
	BackendDial int `json:"backend_dial,omitempty"`
	BackendRead int `json:"backend_read,omitempty"`
	BackendIdle int `json:"backend_idle,omitempty"`
}

func (t l3Times) any() bool { return t != l3Times{} }

// usableMs: the longest remaining duration drawn for a request that has to finish inside a shutdown
// timeout of shutdownS seconds: the timeout less a margin of 1 s (scheduling of the harness, of the
// scripted backend and of the proxy on a loaded machine). The documented default of 30 s is not used up
// in the quick tier (wall time); the thorough tier draws remaining durations of up to 24 s there.
func usableMs(shutdownS int, omitted bool) int {
	if omitted {
		return lab.Scale(3000, 24000)
	}
	return (shutdownS - 1) * 1000
}

// needS: the seconds every timeout that bounds a whole exchange (write, handler, backend_read) must
// leave the request in flight: its remaining duration at the signal, rounded up, plus 3 s (the time
// before the signal is milliseconds: the signal is sent as soon as the request has reached its point).
func (c l3Case) needS() int { return (c.ReleaseMs+999)/1000 + 3 }

// normalize makes the other configured timeouts compatible with the drawn remaining duration of the
// request in flight: a documented timeout that legitimately ends the exchange earlier (write: 15 s by
// default, handler and backend_read: 30 s by default) must not be mistaken for the shutdown doing so.
func (c l3Case) normalize() l3Case {
	if c.Point == "idle" {
		return c
	}
	need := c.needS()
	for _, v := range []*int{&c.Times.Write, &c.Times.Handler, &c.Times.BackendRead} {
		if *v != 0 && *v < need {
			*v = need
		}
	}
	if c.Times.Write == 0 && need > 12 { // default 15 s
		c.Times.Write = need + 30
	}
	if c.Times.Handler == 0 && need > 27 { // default 30 s
		c.Times.Handler = need + 30
	}
	if c.Times.BackendRead == 0 && need > 27 { // default 30 s
		c.Times.BackendRead = need + 30
	}
	return c
}

// remainingPct: the remaining duration of the request in flight in percent of the shutdown timeout.
func (c l3Case) remainingPct() int { return c.ReleaseMs / (10 * c.ShutdownS) }

// needsSecondHalf: the request in flight finishes inside the shutdown timeout but only in its second half.
func (c l3Case) needsSecondHalf() bool {
	return c.Point != "idle" && c.Point != "half-sent-head" && !c.Over && c.ReleaseMs*2 > c.ShutdownS*1000
}

// drawActive draws the parameters of enabled active health checks (config rule: 0 < timeout < interval).
// A hanging probe takes the backend out of rotation when it times out, so the request has to be sent
// before that: where the harness sees the request arrive at the backend before it sends the signal the
// probe timeout is 4 s or more (runL3 starts over when the machine was too slow for that) and the probe
// may well time out while the request is being drained; where it cannot see that (half-sent-head) or waits
// before sending (UptimeMs) it is 9 s or more. Answered probes get any interval of 2-30 s and a timeout
// below, at and above the shutdown timeout.
func drawActive(rt *rapid.T, c *l3Case, tag string) {
	c.ProbeHangs = rapid.IntRange(0, 1).Draw(rt, tag+"probe_hangs") == 0
	if c.ProbeHangs {
		pairs := [][2]int{{10, 9}, {10, 9}, {10, 7}, {5, 4}, {30, 7}, {30, 29}}
		if c.UptimeMs > 0 || c.Point == "half-sent-head" {
			pairs = [][2]int{{10, 9}, {10, 9}, {30, 29}}
		}
		p := rapid.SampledFrom(pairs).Draw(rt, tag+"hanging_interval_timeout")
		c.IntervalS, c.TimeoutS = p[0], p[1]
		return
	}
	c.IntervalS = rapid.SampledFrom([]int{2, 2, 3, 5, 10, 30}).Draw(rt, tag+"interval")
	cand := []int{1}
	for _, v := range []int{2, 3, (c.ShutdownS + 1) / 2, c.ShutdownS - 1, c.ShutdownS, c.ShutdownS + 1, 7, c.IntervalS - 1} {
		if v >= 1 && v < c.IntervalS {
			cand = append(cand, v)
		}
	}
	c.TimeoutS = rapid.SampledFrom(cand).Draw(rt, tag+"timeout")
}

// halfSent is ready at once for the half-sent-head point (nothing can have arrived at the backend
// yet) and never otherwise.
// notJudged: the half-sent request ended without a response (see above).
const notJudged = "\x00not-judged"

func halfSent(c l3Case) <-chan struct{} {
	ch := make(chan struct{})
	if c.Point == "half-sent-head" {
		close(ch)
	}
	return ch
}

// Media types of in-flight responses. The first group are ordinary documents and downloads; the second
// group announce a response that is produced piece by piece over its lifetime (event streams, record
// streams, frame streams, media segments) - finite all the same: the scripted backend finishes every one.
var plainTypes = []string{"", "none", "text/plain; charset=utf-8", "application/json", "text/html; charset=utf-8", "image/jpeg", "application/pdf"}
var streamTypes = []string{"text/event-stream", "text/event-stream", "text/event-stream; charset=utf-8", "text/event-stream;charset=UTF-8", "application/x-ndjson", "application/stream+json",
	"application/grpc-web+proto", "multipart/x-mixed-replace; boundary=frame", "video/mp2t"}

// streamTyped: the response's media type announces a stream.
func streamTyped(ct string) bool {
	for _, s := range streamTypes {
		if s == ct {
			return true
		}
	}
	return false
}

// respDress: further end-to-end response fields by kind of service.
var respDress = map[string][]lab.KV{
	"":           nil,
	"no-cache":   {{K: "Cache-Control", V: "no-cache"}},
	"sse-hints":  {{K: "Cache-Control", V: "no-cache, no-transform"}, {K: "X-Accel-Buffering", V: "no"}},
	"download":   {{K: "Content-Disposition", V: "attachment; filename=\"export.csv\""}, {K: "Accept-Ranges", V: "none"}},
	"cookie":     {{K: "Set-Cookie", V: "sid=abc123; Path=/; HttpOnly"}, {K: "Vary", V: "Accept"}},
	"long-cache": {{K: "Cache-Control", V: "public, max-age=31536000, immutable"}, {K: "ETag", V: "\"v1-5d41402a\""}},
}
var respDressNames = []string{"", "", "no-cache", "sse-hints", "download", "cookie", "long-cache"}

// requestKinds: "" = a bare GET; event-source = what a browser's EventSource sends; fetch-json = an API
// call; post-empty = a POST that starts a job or a generation and carries no body (Content-Length: 0).
// Requests WITH a body are kept out: the open finding C01/request-body-close-race (net/http, not Helios:
// the server closes the inbound request body at the first response write while the transport may still
// be reading it) occasionally truncates the response of such an exchange with no shutdown anywhere near.
var requestKinds = []string{"", "", "event-source", "event-source", "fetch-json", "post-empty"}

// request renders the client's request: method, the header fields after Host and X-Verif-Case, the body.
func (c l3Case) request() (method string, extra []lab.KV, body []byte) {
	switch c.Request {
	case "event-source":
		return "GET", []lab.KV{{K: "Accept", V: "text/event-stream"}, {K: "Cache-Control", V: "no-cache"}, {K: "Last-Event-ID", V: "17"}}, nil
	case "fetch-json":
		return "GET", []lab.KV{{K: "Accept", V: "application/json, */*;q=0.1"}, {K: "Accept-Encoding", V: "identity"}}, nil
	case "post-empty":
		return "POST", []lab.KV{{K: "Accept", V: "text/event-stream, application/json"}}, []byte{}
	}
	return "GET", nil, nil
}

func genL3(rt *rapid.T) l3Case {
	c := l3Case{ShutdownS: rapid.SampledFrom([]int{1, 2, 2, 3, 3, 4, 4, 5}).Draw(rt, "shutdown"), Signal: rapid.SampledFrom([]string{"TERM", "INT"}).Draw(rt, "signal"),
		Point: rapid.SampledFrom([]string{"before-answer", "before-answer", "mid-body", "mid-body", "after-head", "idle", "half-sent-head", "half-sent-head"}).Draw(rt, "point")}
	if c.Point == "half-sent-head" && c.ShutdownS < 2 {
		c.ShutdownS = 2 // the rest of the head follows up to 0.5 s after the signal: the 1 s margin of usableMs
	}
	if c.Point != "idle" {
		c.Status = rapid.SampledFrom([]int{200, 200, 201, 404}).Draw(rt, "status")
		c.Framing = rapid.SampledFrom([]string{"cl", "chunked", "close"}).Draw(rt, "framing")
		if c.Point == "after-head" {
			// a proxy must pass a response head on before the body exists only if it cannot know how long the
			// body will be; with a Content-Length it may keep the head in its buffers
			c.Framing = rapid.SampledFrom([]string{"chunked", "close"}).Draw(rt, "framing_after_head")
		}
		if rapid.Bool().Draw(rt, "stream_typed") {
			c.CType = rapid.SampledFrom(streamTypes).Draw(rt, "content_type")
		} else {
			c.CType = rapid.SampledFrom(plainTypes).Draw(rt, "content_type")
		}
		c.RespDress = rapid.SampledFrom(respDressNames).Draw(rt, "response_dress")
		c.Request = rapid.SampledFrom(requestKinds).Draw(rt, "request")
		c.Pieces = rapid.SampledFrom([]int{1, 1, 2, 5}).Draw(rt, "part2_pieces")
		c.Part1 = rapid.SampledFrom([]int{1, 100, 4096, 32768}).Draw(rt, "part1")
		c.Part2 = rapid.SampledFrom([]int{1, 1000, 32769, 200000}).Draw(rt, "part2")
		if c.Point == "mid-body" {
			// the proxy may legitimately keep the tail of what the backend has sent so far in its
			// response buffers (net/http: 2 KiB + 4 KiB) unless the response is chunked (then every
			// write is flushed through); the client waits only for bytes that must have been passed on
			// (a close-delimited backend response has no known length either: the proxy re-frames it
			// chunked towards the client)
			c.ReadFirst = c.Part1
			if c.Framing == "cl" {
				c.Part1 = rapid.SampledFrom([]int{16384, 32768, 65536}).Draw(rt, "part1_cl")
				c.ReadFirst = c.Part1 - 8192
			}
		}
		if rapid.IntRange(0, 5).Draw(rt, "shutdown_omitted") == 0 {
			c.ShutdownOmitted, c.ShutdownS = true, 30
		}
		c.Over = c.Point != "half-sent-head" && !c.ShutdownOmitted && rapid.IntRange(0, 6).Draw(rt, "outlasts") == 0
		if c.Point == "half-sent-head" {
			// the rest of the request head follows this long after the signal (well inside the 5 s
			// for which net/http's Shutdown leaves alone a connection whose first request is still
			// being read)
			c.ReleaseMs = rapid.SampledFrom([]int{0, 20, 200, 500}).Draw(rt, "rest_after_ms")
		} else if !c.Over {
			c.ReleaseMs = drawRelease(rt, c, "release_ms", 0)
		}
	}
	if rapid.IntRange(0, 2).Draw(rt, "second") == 0 {
		c.Second = rapid.SampledFrom([]string{"TERM", "INT"}).Draw(rt, "second_signal")
		c.SecondMs = rapid.SampledFrom([]int{0, 1, 10, 100}).Draw(rt, "second_ms")
		if !c.Over && c.Point != "idle" && c.SecondMs > c.ReleaseMs {
			c.SecondMs = c.ReleaseMs / 2
		}
	}
	c.Active = c.Point == "idle" || rapid.IntRange(0, 1).Draw(rt, "active") == 0
	if c.Active {
		drawActive(rt, &c, "")
	}
	c.Metrics = rapid.IntRange(0, 3).Draw(rt, "metrics") == 0
	c.Rate = rapid.Bool().Draw(rt, "rate_limit")
	c.Breaker = rapid.Bool().Draw(rt, "circuit_breaker")
	c.Passive = rapid.Bool().Draw(rt, "passive_checks")
	c.Pool = rapid.Bool().Draw(rt, "websocket_pool")
	c.Admin = rapid.IntRange(0, 3).Draw(rt, "admin_api") == 0
	c.Plugins = rapid.Bool().Draw(rt, "plugins")
	if rapid.Bool().Draw(rt, "server_timeouts_set") {
		// values below a request's need are raised to it by normalize
		c.Times = l3Times{
			Read:        rapid.SampledFrom([]int{0, 5, 15, 60}).Draw(rt, "read"),
			Write:       rapid.SampledFrom([]int{0, 1, 5, 15, 60}).Draw(rt, "write"),
			Idle:        rapid.SampledFrom([]int{0, 1, 5, 60, 120}).Draw(rt, "idle"),
			Handler:     rapid.SampledFrom([]int{0, 1, 5, 30, 60}).Draw(rt, "handler"),
			BackendDial: rapid.SampledFrom([]int{0, 2, 10}).Draw(rt, "backend_dial"),
			BackendRead: rapid.SampledFrom([]int{0, 1, 5, 30}).Draw(rt, "backend_read"),
			BackendIdle: rapid.SampledFrom([]int{0, 1, 30, 90}).Draw(rt, "backend_idle"),
		}
	}
	c.FeatureTimes = rapid.SampledFrom([]string{"", "", "short", "budget", "long"}).Draw(rt, "feature_timeouts")
	return c.normalize()
}

// drawRelease draws how long after the signal the backend finishes the request in flight: at once, a few
// fixed short durations, and fractions of the usable part of the shutdown timeout up to all of it
// (usableMs), never less than atLeastMs.
func drawRelease(rt *rapid.T, c l3Case, tag string, atLeastMs int) int {
	u := usableMs(c.ShutdownS, c.ShutdownOmitted)
	var cand []int
	for _, v := range []int{0, 20, 200, 600, u / 4, u / 2, u * 6 / 10, u * 7 / 10, u * 8 / 10, u * 9 / 10, u, u} {
		if v = min(v, u); v >= atLeastMs {
			cand = append(cand, v)
		}
	}
	if len(cand) == 0 {
		cand = []int{u}
	}
	return rapid.SampledFrom(cand).Draw(rt, tag)
}

// duringDrain: a second signal arrives while the first one's drain is still waiting for the request.
func (c l3Case) duringDrain() bool {
	return c.Second != "" && c.Point != "idle" && (c.Over || c.SecondMs < c.ReleaseMs)
}

// genL3SecondDuringDrain draws a case in which, by construction, a second signal arrives while a request
// is still being drained (the repeated-shutdown clause at process level): a request in flight, finished by
// the backend 200 ms or more after the first signal (or never), second signal 0-100 ms after the first.
func genL3SecondDuringDrain(rt *rapid.T) l3Case {
	c := genL3(rt)
	for i := 0; i < 8 && c.Point == "idle"; i++ {
		c = genL3(rt)
	}
	if c.Point == "idle" {
		return c
	}
	if c.Second == "" {
		c.Second = rapid.SampledFrom([]string{"TERM", "INT"}).Draw(rt, "forced_second_signal")
	}
	c.SecondMs = rapid.SampledFrom([]int{0, 1, 10, 100}).Draw(rt, "forced_second_ms")
	if !c.Over && c.ShutdownS < 2 {
		c.ShutdownS = 2 // a request that is still being drained 200 ms later and the 1 s margin of usableMs
	}
	if !c.Over && c.ReleaseMs < 200 {
		if c.Point == "half-sent-head" {
			c.ReleaseMs = rapid.SampledFrom([]int{200, 500}).Draw(rt, "forced_rest_after_ms")
		} else {
			c.ReleaseMs = drawRelease(rt, c, "forced_release_ms", 200)
		}
	}
	return c.normalize()
}

// genL3Aged draws a case in which the process is older than its whole shutdown timeout when the signal
// arrives, with a request in flight that the backend finishes well inside the timeout.
func genL3Aged(rt *rapid.T) l3Case {
	c := genL3(rt)
	for i := 0; i < 8 && c.Point == "idle"; i++ {
		c = genL3(rt)
	}
	if c.Point == "idle" {
		return c
	}
	c.ShutdownOmitted, c.ShutdownS, c.Over = false, 2, false
	c.UptimeMs = c.ShutdownS*1000 + rapid.SampledFrom([]int{100, 300, 1000}).Draw(rt, "aged_beyond_ms")
	if c.Point == "half-sent-head" {
		c.ReleaseMs = rapid.SampledFrom([]int{20, 200, 500}).Draw(rt, "aged_rest_after_ms")
	} else {
		c.ReleaseMs = rapid.SampledFrom([]int{20, 200, 600, 1000}).Draw(rt, "aged_release_ms")
	}
	if c.Second != "" && c.SecondMs > c.ReleaseMs {
		c.SecondMs = c.ReleaseMs / 2
	}
	if c.Active && c.ProbeHangs {
		drawActive(rt, &c, "aged_") // the backend must still be in rotation when the request is sent
	}
	return c.normalize()
}

// genL3LateFinisher draws a case in which, by construction, the request in flight needs the later part of
// the shutdown timeout: timeouts.shutdown 3-6 s, the backend finishes the request after more than half of
// it and at least 1 s before its end (in steps of 100 ms). What else is configured is drawn again relative
// to that budget: active checks off (1 in 4) or on with probes answered or hanging and a probe timeout
// below, at or above the shutdown timeout.
func genL3LateFinisher(rt *rapid.T) l3Case {
	c := genL3(rt)
	for i := 0; i < 8 && (c.Point == "idle" || c.Point == "half-sent-head"); i++ {
		c = genL3(rt)
	}
	if c.Point == "idle" || c.Point == "half-sent-head" {
		return c
	}
	c.Late, c.ShutdownOmitted, c.Over, c.UptimeMs = true, false, false, 0
	c.ShutdownS = rapid.IntRange(3, 6).Draw(rt, "late_shutdown")
	lo, hi := c.ShutdownS*500+100, usableMs(c.ShutdownS, false)
	c.ReleaseMs = lo + 100*rapid.IntRange(0, (hi-lo)/100).Draw(rt, "late_release_steps")
	c.Active = rapid.IntRange(0, 3).Draw(rt, "late_active") != 0
	c.ProbeHangs, c.IntervalS, c.TimeoutS = false, 0, 0
	if c.Active {
		drawActive(rt, &c, "late_")
	}
	return c.normalize()
}

func (c l3Case) yaml(port, metricsPort, adminPort int, backendURL string) string {
	var b strings.Builder
	fmt.Fprintf(&b, "server:\n  port: %d\n", port)
	if !c.ShutdownOmitted || c.Times.any() {
		b.WriteString("  timeouts:\n")
	}
	if !c.ShutdownOmitted { // left out: documented default 30 s
		fmt.Fprintf(&b, "    shutdown: %d\n", c.ShutdownS)
	}
	for _, kv := range []struct {
		k string
		v int
	}{{"read", c.Times.Read}, {"write", c.Times.Write}, {"idle", c.Times.Idle}, {"handler", c.Times.Handler},
		{"backend_dial", c.Times.BackendDial}, {"backend_read", c.Times.BackendRead}, {"backend_idle", c.Times.BackendIdle}} {
		if kv.v != 0 {
			fmt.Fprintf(&b, "    %s: %d\n", kv.k, kv.v)
		}
	}
	// time values of the optional features: the sample file's unless drawn otherwise
	passiveTO, breakerIv, breakerTO, poolIdle := 30, 60, 60, 300
	switch c.FeatureTimes {
	case "short":
		passiveTO, breakerIv, breakerTO, poolIdle = 1, 1, 1, 1
	case "budget":
		passiveTO, breakerIv, breakerTO, poolIdle = c.ShutdownS, c.ShutdownS, c.ShutdownS, c.ShutdownS
	case "long":
		passiveTO, breakerIv, breakerTO, poolIdle = 600, 600, 600, 600
	}
	fmt.Fprintf(&b, "backends:\n  - name: \"b0\"\n    address: \"%s\"\n    weight: 1\n", backendURL)
	b.WriteString("load_balancer:\n  strategy: \"round_robin\"\n")
	if c.Pool {
		fmt.Fprintf(&b, "  websocket_pool:\n    enabled: true\n    max_idle: 10\n    max_active: 100\n    idle_timeout_seconds: %d\n", poolIdle)
	}
	if c.Active || c.Passive {
		b.WriteString("health_checks:\n")
	}
	if c.Active {
		fmt.Fprintf(&b, "  active:\n    enabled: true\n    interval: %d\n    timeout: %d\n    path: \"/healthz\"\n", c.IntervalS, c.TimeoutS)
	}
	if c.Passive {
		fmt.Fprintf(&b, "  passive:\n    enabled: true\n    unhealthy_threshold: 3\n    unhealthy_timeout: %d\n", passiveTO)
	}
	if c.Rate {
		b.WriteString("rate_limit:\n  enabled: true\n  max_tokens: 100\n  refill_rate_seconds: 1\n")
	}
	if c.Breaker {
		fmt.Fprintf(&b, "circuit_breaker:\n  enabled: true\n  max_requests: 5\n  interval_seconds: %d\n  timeout_seconds: %d\n  failure_threshold: 5\n  success_threshold: 2\n", breakerIv, breakerTO)
	}
	if c.Admin {
		fmt.Fprintf(&b, "admin_api:\n  enabled: true\n  port: %d\n  auth_token: \"change-me\"\n", adminPort)
	}
	if c.Plugins {
		b.WriteString("plugins:\n  enabled: true\n  chain:\n    - name: logging\n    - name: request-id\n    - name: headers\n      config:\n        set:\n          X-App: Helios\n        request_set:\n          X-From: LB\n")
	}
	if c.Metrics {
		fmt.Fprintf(&b, "metrics:\n  enabled: true\n  port: %d\n  path: \"/metrics\"\n", metricsPort)
	}
	b.WriteString("logging:\n  level: \"info\"\n  format: \"json\"\n")
	return b.String()
}

// parts: the write partition of the scripted body: part 1, then part 2 in Pieces separate writes.
func (c l3Case) parts() []int {
	parts := []int{c.Part1}
	k := max(1, min(c.Pieces, c.Part2))
	for i := 0; i < k; i++ {
		n := c.Part2 / k
		if i == k-1 {
			n = c.Part2 - (k-1)*(c.Part2/k)
		}
		parts = append(parts, n)
	}
	return parts
}

// responseHeader: the end-to-end fields of the scripted response.
func (c l3Case) responseHeader() []lab.KV {
	var h []lab.KV
	switch c.CType {
	case "":
		h = append(h, lab.KV{K: "Content-Type", V: "application/octet-stream"})
	case "none":
	default:
		h = append(h, lab.KV{K: "Content-Type", V: c.CType})
	}
	return append(h, respDress[c.RespDress]...)
}

// responseText / requestText describe the exchange in a violation message.
func (c l3Case) responseText() string {
	ct := "no Content-Type"
	if h := c.responseHeader(); len(h) > 0 && h[0].K == "Content-Type" {
		ct = "Content-Type " + h[0].V
	}
	return fmt.Sprintf("%d, %s, %s framing, body %d B + %d B in %d write(s)", c.Status, ct, c.Framing, c.Part1, c.Part2, len(c.parts())-1)
}

// configText: what else is configured that has a time value, for a violation message.
func (c l3Case) configText() string {
	s := "active checks off"
	if c.Active {
		s = fmt.Sprintf("active checks every %d s with timeout %d s, probes answered", c.IntervalS, c.TimeoutS)
		if c.ProbeHangs {
			s = fmt.Sprintf("active checks every %d s with timeout %d s, probes hang in the backend", c.IntervalS, c.TimeoutS)
		}
	}
	if c.Times.any() {
		s += fmt.Sprintf("; other server.timeouts %+v", c.Times)
	}
	if c.FeatureTimes != "" {
		s += "; feature time values: " + c.FeatureTimes
	}
	return s
}

func (c l3Case) requestKind() string {
	if c.Request == "" {
		return "bare-get"
	}
	return c.Request
}

func (c l3Case) requestText() string {
	m, extra, body := c.request()
	s := m
	for _, kv := range extra {
		s += fmt.Sprintf(" %s: %s;", kv.K, kv.V)
	}
	if body != nil {
		s += fmt.Sprintf(" %d B body", len(body))
	}
	return s
}

func sigOf(s string) syscall.Signal {
	if s == "INT" {
		return syscall.SIGINT
	}
	return syscall.SIGTERM
}

func scriptedBody(n1, n2 int) []byte {
	b := make([]byte, n1+n2)
	for i := range b {
		b[i] = byte('a' + (i*31+7)%26)
	}
	return b
}

type l3Result struct {
	Viol      string
	Harness   string
	Retry     bool
	NotJudged bool // half-sent-head: the connection ended without a response (not necessarily accepted before the signal)
	// LateBackend: the scripted backend finished the request later than planned, less than judgeSlack before
	// the end of the shutdown timeout (a stalled harness): the client's verdict on it is not used.
	LateBackend bool
	PlayedAfter time.Duration // signal -> backend had played the whole response (0 = not observed)
	ExitCode    int
	ExitAfter   time.Duration
	Probes      int
	Log         string
}

var l3Seq atomic.Int64

// probeTimedOut: helios logged a health probe that ran into health_checks.active.timeout. The scripted
// backend answers every probe at once or - by script - never; a probe of the first kind that times out
// means that the machine stalled for longer than the probe timeout.
func probeTimedOut(log string) bool {
	for _, line := range strings.Split(log, "\n") {
		if strings.Contains(line, `"message":"health check failed"`) && (strings.Contains(line, "deadline exceeded") || strings.Contains(line, "Client.Timeout")) {
			return true
		}
	}
	return false
}

func probeCount(be *lab.RawBackend) int {
	n := 0
	for _, s := range be.Seen() {
		if s.Target == "/healthz" {
			n++
		}
	}
	return n
}

func runL3(t testing.TB, c l3Case) (r l3Result) {
	be, err := lab.NewRawBackend(0)
	if err != nil {
		r.Harness = err.Error()
		return
	}
	var ex *lab.Exchange
	defer func() {
		if ex != nil {
			lab.ReleaseHold(ex)
			lab.CloseBarrier(ex)
		}
		be.Close()
	}()
	if c.ProbeHangs {
		be.Fallback(&lab.RespScript{Status: 200, Framing: "cl", BarrierAfter: -1, Fault: "hang-before-headers"})
	} else {
		be.Fallback(&lab.RespScript{Status: 200, Framing: "cl", Body: []byte("ok"), BodyLen: 2, BarrierAfter: -1})
	}
	ports := lab.FreePorts(3)
	startedAt := time.Now()
	h := lab.StartHelios(t, c.yaml(ports[0], ports[1], ports[2], be.URL()))
	defer h.Kill()
	defer func() { r.Log = h.Log() }()
	if !h.WaitPort(ports[0], stepBudget) || !h.ListensOn(ports[0]) {
		if exd, code := h.WaitExit(time.Second); exd {
			if strings.Contains(h.Log(), "address already in use") {
				r.Retry = true
				return
			}
			r.Harness = fmt.Sprintf("helios exited with %d before serving: %s", code, h.Log())
			return
		}
		r.Retry = true
		return
	}
	addr := fmt.Sprintf("127.0.0.1:%d", ports[0])
	if d := time.Duration(c.UptimeMs)*time.Millisecond - time.Since(startedAt); d > 0 {
		time.Sleep(d)
	}
	if c.Active {
		// the probe round launched at start-up has reached the backend (and hangs there when scripted)
		deadline := time.Now().Add(stepBudget)
		for probeCount(be) == 0 {
			if time.Now().After(deadline) {
				r.Harness = "active checks are enabled but no probe reached the backend within " + stepBudget.String()
				return
			}
			time.Sleep(2 * time.Millisecond)
		}
	}

	body := scriptedBody(c.Part1, c.Part2)
	var cc *lab.ClientConn
	var out *lab.RawResponse
	var prefix []byte
	readDone := make(chan string, 1) // client's verdict on the response ("" = complete and exact)
	if c.Point != "idle" {
		id := fmt.Sprintf("c19-%d", l3Seq.Add(1))
		script := &lab.RespScript{Status: c.Status, Framing: c.Framing, Body: body, BodyLen: len(body), Parts: c.parts(), BarrierAfter: -1, Header: c.responseHeader()}
		switch c.Point {
		case "before-answer":
			script.Hold = true
		case "mid-body":
			script.BarrierAfter = 0
		case "after-head":
			script.BarrierAfterHead = true
		}
		ex = be.Expect(id, script)
		cc, err = lab.Dial(addr)
		if err != nil {
			r.Harness = "cannot connect to the proxy port: " + err.Error()
			return
		}
		defer cc.Close()
		method, extra, reqBody := c.request()
		req := &lab.RawRequest{Method: method, Target: "/c19/" + id, Framing: "none", Header: append([]lab.KV{{K: "Host", V: "helios.test"}, {K: "X-Verif-Case", V: id}}, extra...)}
		if reqBody != nil {
			req.Framing, req.Body, req.BodyLen = "cl", reqBody, len(reqBody)
		}
		if c.Point == "half-sent-head" {
			// only the beginning of the head is on the wire when the signal is sent
			if _, err := cc.C.Write([]byte(method + " /c19/" + id + " HTTP/1.1\r\nHost: helios.test\r\n")); err != nil {
				r.Harness = "cannot send the request: " + err.Error()
				return
			}
			time.Sleep(100 * time.Millisecond) // let the proxy accept the connection and read what there is
			var rest bytes.Buffer
			for _, kv := range req.Header[1:] {
				fmt.Fprintf(&rest, "%s: %s\r\n", kv.K, kv.V)
			}
			if reqBody != nil {
				fmt.Fprintf(&rest, "Content-Length: %d\r\n", len(reqBody))
			}
			rest.WriteString("\r\n")
			rest.Write(reqBody)
			go func() {
				time.Sleep(time.Duration(c.ReleaseMs) * time.Millisecond) // ~ after the signal: it is sent right below
				// Whether the proxy had already accepted this connection when the signal arrived cannot
				// be observed from outside (a connection still in the listen backlog is reset when the
				// listener closes, and that request was never "in flight" inside Helios). A connection
				// that is closed without any response is therefore not judged; a response is.
				if _, err := cc.C.Write(rest.Bytes()); err != nil {
					readDone <- notJudged
					return
				}
				o, resp, e := cc.ReadHead(method, time.Duration(c.ShutdownS+3)*time.Second)
				if e != nil {
					readDone <- notJudged
					return
				}
				cc.Finish(o, resp, nil, time.Duration(c.ShutdownS+3)*time.Second)
				readDone <- judgeResponse(c, o, body)
			}()
		} else if err := cc.Send(req); err != nil {
			r.Harness = "cannot send the request: " + err.Error()
			return
		}
		select {
		case <-halfSent(c):
		case <-lab.Arrived(ex):
		case <-time.After(stepBudget):
			if c.Active && probeTimedOut(h.Log()) {
				// the machine was so slow that a probe ran into its timeout before the request could be sent
				// (an answered one that took longer than health_checks.active.timeout, or the scripted
				// hanging one): the backend was out of rotation, which is not what the case is about
				r.Retry = true
				return
			}
			r.Harness = "the request did not reach the backend within " + stepBudget.String() + " (before any signal)"
			return
		}
		if c.Point == "half-sent-head" {
			// the client goroutine above does the rest
		} else if c.Point == "mid-body" || c.Point == "after-head" {
			var e error
			o, resp, e := cc.ReadHead(method, stepBudget)
			if e != nil {
				r.Harness = "no response head before the signal: " + e.Error()
				return
			}
			if c.Point == "mid-body" {
				prefix, e = lab.ReadN(resp, c.ReadFirst)
				if e != nil {
					r.Harness = "first body part not received before the signal: " + e.Error()
					return
				}
			}
			out = o
			go func() {
				cc.Finish(out, resp, prefix, time.Duration(c.ShutdownS+3)*time.Second)
				readDone <- judgeResponse(c, out, body)
			}()
		} else {
			go func() {
				o, resp, e := cc.ReadHead(method, time.Duration(c.ShutdownS+3)*time.Second)
				if e != nil {
					readDone <- "the client received no response: " + e.Error()
					return
				}
				cc.Finish(o, resp, nil, time.Duration(c.ShutdownS+3)*time.Second)
				readDone <- judgeResponse(c, o, body)
			}()
		}
	}

	bound := time.Duration(c.ShutdownS)*time.Second + 2*time.Second
	sigAt := time.Now()
	if err := h.Signal(sigOf(c.Signal)); err != nil {
		r.Harness = "cannot signal helios: " + err.Error()
		return
	}
	if c.Second != "" {
		time.Sleep(time.Duration(c.SecondMs) * time.Millisecond)
		_ = h.Signal(sigOf(c.Second)) // the process may legitimately be gone already (idle case)
	}
	if c.Point != "idle" && !c.Over {
		if d := time.Duration(c.ReleaseMs)*time.Millisecond - time.Since(sigAt); d > 0 {
			time.Sleep(d)
		}
		lab.ReleaseHold(ex)
		lab.CloseBarrier(ex)
		select {
		case v := <-readDone:
			played, ok := lab.PlayedAt(ex)
			for i := 0; i < 200 && !ok && v != "" && v != notJudged; i++ {
				// the client saw a failure: a backend whose connection was cut notices at its next write
				time.Sleep(5 * time.Millisecond)
				played, ok = lab.PlayedAt(ex)
			}
			if ok {
				r.PlayedAfter = played.Sub(sigAt)
			}
			if v != "" && v != notJudged && c.Point == "half-sent-head" && !ok && c.Active && probeTimedOut(h.Log()) {
				// as above: the request - completed after the signal - found its backend out of rotation
				// because a probe had timed out on a stalled machine; the case is started over
				r.Retry = true
				return
			}
			if v == notJudged {
				r.NotJudged = true
			} else if v != "" && ok && r.PlayedAfter > time.Duration(c.ShutdownS)*time.Second-judgeSlack {
				r.LateBackend = true
			} else if v != "" {
				r.Viol = fmt.Sprintf("request in flight (%s; %s; response: %s) when SIG%s arrived, backend finished it %d ms later (measured: %d ms) = after %d %% of the shutdown timeout of %d s (%s): %s", c.Point, c.requestText(), c.responseText(), c.Signal, c.ReleaseMs, r.PlayedAfter.Milliseconds(), c.remainingPct(), c.ShutdownS, c.configText(), v)
			}
		case <-time.After(time.Duration(c.ShutdownS+4) * time.Second):
			r.Viol = "the client of the in-flight request neither received the response nor an error"
		}
	}
	exited, code := h.WaitExit(bound - time.Since(sigAt))
	r.ExitAfter = time.Since(sigAt)
	r.ExitCode = code
	log := h.Log()
	if !exited {
		if r.Viol == "" {
			r.Viol = fmt.Sprintf("helios is still running %v after SIG%s (shutdown timeout %d s): shutdown does not complete", r.ExitAfter.Round(time.Millisecond), c.Signal, c.ShutdownS)
		}
		return
	}
	if r.Viol != "" {
		return
	}
	if lab.HasPanicTrace(log) {
		r.Viol = "panic trace in the log during shutdown"
		return
	}
	if code != 0 && !c.Over {
		r.Viol = fmt.Sprintf("helios exited with status %d after SIG%s (second signal %q); a graceful shutdown ends with status 0", code, c.Signal, c.Second)
		return
	}
	// nothing reaches the backend after the exit
	time.Sleep(100 * time.Millisecond)
	n1, a1 := be.Received(), be.Accepts()
	time.Sleep(200 * time.Millisecond)
	if n2, a2 := be.Received(), be.Accepts(); n2 != n1 || a2 != a1 {
		r.Viol = fmt.Sprintf("after helios had exited the backend still received %d request(s) on %d new connection(s)", n2-n1, a2-a1)
	}
	r.Probes = probeCount(be)
	return
}

func judgeResponse(c l3Case, out *lab.RawResponse, body []byte) string {
	switch {
	case out.BodyErr != "":
		return fmt.Sprintf("response body broke off after %d of %d bytes: %s", len(out.Body), len(body), out.BodyErr)
	case out.Status != c.Status:
		return fmt.Sprintf("status %d, scripted %d", out.Status, c.Status)
	case !bytes.Equal(out.Body, body):
		return fmt.Sprintf("body of %d bytes differs from the scripted %d bytes", len(out.Body), len(body))
	}
	return ""
}

func TestC19Signals(t *testing.T) {
	sub := lab.Sub(l3Name, "rapid: the real helios binary (timeouts.shutdown 1-5 s or left out = 30 s, one scripted raw TCP backend, optional metrics listener, every further optional feature on or off by draw - rate_limit, circuit_breaker, passive checks, websocket_pool, admin_api (1 in 4), a plugin chain [logging, request-id, headers]; their time values (unhealthy_timeout, breaker interval / timeout, pool idle timeout) are the sample file's, 1 s, the shutdown timeout or 600 s -, "+
		"active checks off / answered with interval 2-30 s and a probe timeout of 1 s ... interval-1 s (below, at and above the shutdown timeout) / probes that hang in the backend with interval,timeout 5,4 10,7 10,9 30,7 30,29 s; in half of the cases the other server.timeouts keys are set too: read 5-60, idle 1-120, backend_dial 2-10, backend_idle 1-90 s, and write / handler / backend_read from 1 s up, raised to the remaining duration of the request in flight + 3 s where they would end it themselves) receives SIGTERM or SIGINT "+
		"at a drawn point: no request in flight; a request of which only the request line and one header field have been sent (the rest of the head follows 0-500 ms after the signal, the backend answers at once); a request that reached the backend which has not answered (released after the signal at once, 20-600 ms later or after 25-100 % of [timeout - 1 s]); a response of whose first body part (1 B-64 KiB) the client has read everything the proxy must have passed on (all of it when chunked or close-delimited, all but 8 KiB when CL-framed) while the backend waits on a barrier before part 2 (1 B-200 kB, sent in 1-5 writes; CL, chunked or close-delimited; status 200/201/404); a chunked / close-delimited response of which the client has read the head while the backend has not produced a body byte yet; "+
		"the exchange in flight looks like what real services send, by draw: response media type (half of the cases one that announces a piece-by-piece response - text/event-stream with and without parameters, ndjson, stream+json, grpc-web, multipart/x-mixed-replace, MPEG-TS -, otherwise octet-stream / none / text / JSON / HTML / JPEG / PDF), further response fields (no-cache, SSE proxy hints, download, cookie, long-lived cache), the request (bare GET, a browser EventSource's GET, an API GET, POST with Content-Length 0); every scripted response is finite; "+
		"1 in 7 requests is never finished by the backend (outlasts the shutdown timeout); 1 in 3 cases sends a second SIGTERM/SIGINT 0-100 ms later, during the shutdown, and in two of every six cases a second signal arrives by construction while the request is still being drained (backend finishes >= 200 ms after the first signal or never), and in one of every six the process has been up for longer than its whole shutdown timeout (2 s + 0.1-1 s) when the signal arrives, the request being finished 20-1000 ms later; in one of every six the request in flight needs the later part of the budget by construction: timeouts.shutdown 3-6 s, the backend finishes it after more than half of the timeout and at least 1 s before its end (100 ms steps), active checks off (1 in 4) or on with the probe timeouts above; "+
		"oracle: the in-flight request is received complete and exact, the process exits within shutdown timeout + 2 s with status 0 (status not asserted for the outlasting request) and no panic trace, the backend sees nothing after the exit; non-trivial = a request is in flight when the signal arrives")
	sub.NontrivialFloor(0.60)
	sub.Floor("second-signal-during-drain", 0.25)
	sub.Floor("uptime-beyond-shutdown-timeout", 0.10)
	sub.Floor("stream-typed-response,finishes-inside-timeout", 0.25)
	sub.Floor("finishes-in-second-half-of-timeout", 0.10)
	lab.Assume("L3: requests with a body are not drawn (open finding C01/request-body-close-race of net/http truncates such exchanges now and then, shutdown or not)")
	lab.Assume("L3: loopback only; a request counts as in flight once the scripted backend has parsed it; 'remaining duration below the shutdown timeout' is generated with a 1 s margin and measured: a failed exchange whose response the backend finished playing less than 0.8 s before the end of the timeout (stalled harness) is labelled not-judged; the exit bound is shutdown timeout + 2 s of real time (normal: milliseconds)")
	lab.Assume("L3: the other documented timeouts that bound a whole exchange (server.timeouts.write, handler, backend_read; defaults 15 / 30 / 30 s) are never configured below the remaining duration of the request in flight + 3 s; with the shutdown key left out (30 s) the quick tier uses at most 3 s of the budget, the thorough tier up to 24 s")
	const par = 6
	// 4 / 50 batches x par binaries: 24 quick, 300 thorough (before sharding)
	lab.Check(t, sub, 4, 50, func(rt *rapid.T) {
		cases := make([]l3Case, par)
		for i := range cases {
			switch {
			case i%3 == 0: // two of the six by construction
				cases[i] = genL3SecondDuringDrain(rt)
			case i == 1: // one of the six: a process older than its shutdown timeout
				cases[i] = genL3Aged(rt)
			case i == 4: // one of the six: the request in flight needs the later part of the shutdown timeout
				cases[i] = genL3LateFinisher(rt)
			default:
				cases[i] = genL3(rt)
			}
		}
		res := make([]l3Result, par)
		var wg sync.WaitGroup
		for i := range cases {
			wg.Add(1)
			go func(i int) {
				defer wg.Done()
				for attempt := 0; attempt < 3; attempt++ {
					res[i] = runL3(t, cases[i])
					if !res[i].Retry {
						return
					}
				}
			}(i)
		}
		wg.Wait()
		for i, c := range cases {
			r := res[i]
			labels := []string{"signal=" + c.Signal, "point=" + c.Point, fmt.Sprintf("shutdown=%ds", c.ShutdownS)}
			if c.Over {
				labels = append(labels, "request-outlasts-timeout")
			} else if c.Point != "idle" && c.Point != "half-sent-head" {
				// how much of the shutdown timeout the request in flight still needs at the signal
				pct := c.remainingPct()
				switch {
				case pct < 10:
					labels = append(labels, "remaining<10%-of-timeout")
				case pct <= 50:
					labels = append(labels, "remaining=10-50%-of-timeout")
				case pct <= 70:
					labels = append(labels, "remaining=50-70%-of-timeout")
				default:
					labels = append(labels, "remaining>70%-of-timeout")
				}
			}
			if c.needsSecondHalf() {
				labels = append(labels, "finishes-in-second-half-of-timeout")
				switch {
				case !c.Active:
					labels = append(labels, "finishes-in-second-half-of-timeout,no-active-checks")
				case c.TimeoutS*2 >= c.ShutdownS:
					labels = append(labels, "finishes-in-second-half-of-timeout,probe-timeout>=half-of-timeout")
				default:
					labels = append(labels, "finishes-in-second-half-of-timeout,probe-timeout<half-of-timeout")
				}
				if c.Active && c.ProbeHangs && c.TimeoutS*1000 < c.ReleaseMs {
					labels = append(labels, "hanging-probe-times-out-during-drain")
				}
			}
			if c.Times.any() {
				labels = append(labels, "server-timeouts-set")
			}
			if c.FeatureTimes != "" && (c.Passive || c.Breaker || c.Pool) {
				labels = append(labels, "feature-timeouts="+c.FeatureTimes)
			}
			if c.Point != "idle" {
				mt := c.CType
				if i := strings.IndexByte(mt, ';'); i >= 0 {
					mt = mt[:i]
				}
				if mt == "" {
					mt = "application/octet-stream"
				}
				labels = append(labels, "framing="+c.Framing, "media-type="+mt, "request="+c.requestKind(), fmt.Sprintf("part2-writes=%d", len(c.parts())-1))
				if c.RespDress != "" {
					labels = append(labels, "response-dress="+c.RespDress)
				}
				if streamTyped(c.CType) {
					labels = append(labels, "stream-typed-response")
					if !c.Over {
						labels = append(labels, "stream-typed-response,finishes-inside-timeout")
					}
				}
			}
			if r.LateBackend {
				labels = append(labels, "not-judged:backend-finished-later-than-planned")
			}
			if c.Point == "half-sent-head" {
				if res[i].NotJudged {
					labels = append(labels, "half-sent-head-not-judged")
				} else {
					labels = append(labels, "half-sent-head-answered")
				}
			}
			if c.Second != "" {
				labels = append(labels, "second-signal")
			}
			if c.duringDrain() {
				labels = append(labels, "second-signal-during-drain")
			}
			if c.UptimeMs > c.ShutdownS*1000 && c.Point != "idle" {
				labels = append(labels, "uptime-beyond-shutdown-timeout")
			}
			if c.Active {
				labels = append(labels, "active-checks", fmt.Sprintf("probe-interval=%ds", c.IntervalS))
				switch {
				case c.TimeoutS < c.ShutdownS:
					labels = append(labels, "probe-timeout<shutdown-timeout")
				case c.TimeoutS == c.ShutdownS:
					labels = append(labels, "probe-timeout=shutdown-timeout")
				default:
					labels = append(labels, "probe-timeout>shutdown-timeout")
				}
				if c.ProbeHangs {
					labels = append(labels, "probe-hangs-at-signal")
				}
			}
			if c.Metrics {
				labels = append(labels, "metrics-listener")
			}
			for _, f := range []struct {
				on   bool
				name string
			}{{c.Rate, "rate_limit"}, {c.Breaker, "circuit_breaker"}, {c.Passive, "passive_checks"}, {c.Pool, "websocket_pool"}, {c.Admin, "admin_api"}, {c.Plugins, "plugins"}} {
				if f.on {
					labels = append(labels, "on="+f.name)
					if c.Second != "" {
						labels = append(labels, "second-signal,on="+f.name)
					}
				}
			}
			if r.Harness == "" && !r.Retry {
				labels = append(labels, fmt.Sprintf("exit=%d", r.ExitCode))
			}
			sub.Case(c, c.Point != "idle", labels...)
		}
		for i, c := range cases {
			r := res[i]
			switch {
			case r.Retry:
				lab.Problem("%s: no usable free port, or a machine too slow to send the request before a hanging probe timed out, three times in a row", l3Name)
				rt.Fatalf("harness: ports / slow machine")
			case r.Harness != "":
				rt.Fatalf("harness: %s\ncase %+v\nlog:\n%s", r.Harness, c, r.Log)
			case r.Viol != "":
				// the one-line summary is repeated at the end: the driver shows the tail of a shard's output
				rt.Fatalf("%s\ncase %+v\nexit status %d, %v after the signal\nlog:\n%s\nviolation in %s: %s", r.Viol, c, r.ExitCode, r.ExitAfter.Round(time.Millisecond), r.Log, l3Name, r.Viol)
			}
		}
	})
}
