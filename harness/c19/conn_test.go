package c19

import (
	"fmt"
	"io"
	"net"
	"os"
	"runtime"
	"sort"
	"strings"
	"sync"
	"sync/atomic"
	"syscall"
	"time"
)

// poolConn is the fake net.Conn handed to the websocket pool. It records Close, and - when it was made
// by newPoolConn - it behaves towards its owner like a TCP connection whose PEER follows a script:
// blocking reads and writes honour the deadlines set on the connection (as every real net.Conn does),
// Close unblocks them, and every Read / Write the owner performs is logged. All waiting is done on
// timers and channels created by the goroutine that made the connection, so inside a synctest bubble
// it costs virtual time only.
//
// The zero peer ("" - what &poolConn{backend: b} gives) is the connection the older sub-checks use:
// Read and Write return at once.
//
// Peer scripts (what the other end of an idle, pooled connection may be doing when Helios shuts down):
//
//	answers       alive WebSocket endpoint: consumes what is sent, answers the first thing it is sent
//	              with a Close frame at once and then closes its side
//	answers-late  the same, but the answer arrives DelayMs after the first write (a busy or far peer)
//	silent        alive at TCP level, consumes what is sent, never says anything (hung / paused process,
//	              partition, a peer that is itself shutting down)
//	stalled       alive at TCP level but not reading, its receive window and the local send buffer are
//	              full: a write blocks, a read blocks
//	chatty        has unsolicited frames (pings) in flight all the time: a read returns one at once
//	gone-fin      the peer has closed its side already (FIN received): read = EOF, write = EPIPE
//	gone-rst      the peer has reset the connection: read and write = ECONNRESET
//
// The statement of C19 gives the peers of pooled connections no say in how long a shutdown takes, so
// none of these may delay a shutdown call beyond its bound or keep a pooled connection open.
type poolConn struct {
	backend  int
	closed   atomic.Int32
	accepted bool

	peer    string
	delay   time.Duration // answers-late
	gone    chan struct{} // closed by Close (or abandon): unblocks pending reads / writes
	once    sync.Once
	mu      sync.Mutex
	rdl     time.Time // read deadline (zero = none)
	wdl     time.Time // write deadline
	replyAt time.Time // answers*: when the peer's answer to the first write is readable
	wrote   bool
	replied bool
	// script (may be nil): while script.linger > 0, Close takes that many scheduler yields before it returns
	// (a close that takes a moment: close_notify, a lingering socket) and announces that it has begun
	script *closeScript
	io      []string // what the owner did on the connection: "Write 8 B", "Read blocks (deadline in 2s)", "-> deadline exceeded after 2s" ...
}

// closeScript is shared by the connections of one history: how long a Close takes (in scheduler yields, no
// clock involved) while the harness has armed it, and a signal that some Close has begun.
type closeScript struct {
	linger  atomic.Int32
	entered chan struct{}
}

// peerKinds lists the peer scripts newPoolConn understands (without the legacy "").
var peerKinds = []string{"answers", "answers-late", "silent", "stalled", "chatty", "gone-fin", "gone-rst"}

// unresponsive: a peer that never answers promptly, whatever is sent to it.
func unresponsive(peer string, delayMs int) bool {
	return peer == "silent" || peer == "stalled" || (peer == "answers-late" && delayMs >= 1000)
}

func newPoolConn(backend int, peer string, delayMs int) *poolConn {
	return &poolConn{backend: backend, peer: peer, delay: time.Duration(delayMs) * time.Millisecond, gone: make(chan struct{})}
}

type poolAddr string

func (a poolAddr) Network() string { return "fake" }
func (a poolAddr) String() string  { return string(a) }

func (c *poolConn) note(format string, args ...any) {
	c.mu.Lock()
	if len(c.io) < 16 {
		c.io = append(c.io, fmt.Sprintf(format, args...))
	}
	c.mu.Unlock()
}

// ioLog: what the owner of the connection did on it so far.
func (c *poolConn) ioLog() string {
	c.mu.Lock()
	defer c.mu.Unlock()
	if len(c.io) == 0 {
		return "no I/O"
	}
	return strings.Join(c.io, ", ")
}

// block waits until the deadline passes, the connection is closed, or (until non-zero) the instant
// until is reached. It returns nil only in the last case.
func (c *poolConn) block(what string, deadline, until time.Time) error {
	start := time.Now()
	var dl, ready <-chan time.Time
	if !deadline.IsZero() {
		d := time.Until(deadline)
		if d <= 0 {
			c.note("%s: deadline already passed", what)
			return os.ErrDeadlineExceeded
		}
		t := time.NewTimer(d)
		defer t.Stop()
		dl = t.C
		c.note("%s blocks (deadline in %v)", what, d)
	} else {
		c.note("%s blocks (no deadline set)", what)
	}
	if !until.IsZero() {
		t := time.NewTimer(time.Until(until))
		defer t.Stop()
		ready = t.C
	}
	select {
	case <-ready:
		c.note("-> the peer answered after %v", time.Since(start))
		return nil
	case <-dl:
		c.note("-> deadline exceeded after %v", time.Since(start))
		return os.ErrDeadlineExceeded
	case <-c.gone:
		c.note("-> connection closed after %v", time.Since(start))
		return net.ErrClosed
	}
}

var closeFrame = []byte{0x88, 0x02, 0x03, 0xE8} // unmasked (server to client) Close, status 1000
var pingFrame = []byte{0x89, 0x00}

func (c *poolConn) Read(b []byte) (int, error) {
	if c.closed.Load() > 0 {
		return 0, net.ErrClosed
	}
	if c.peer == "" {
		return 0, nil
	}
	c.mu.Lock()
	dl, replyAt, replied := c.rdl, c.replyAt, c.replied
	c.mu.Unlock()
	switch c.peer {
	case "gone-fin":
		c.note("Read: EOF")
		return 0, io.EOF
	case "gone-rst":
		c.note("Read: reset")
		return 0, &net.OpError{Op: "read", Net: "fake", Err: syscall.ECONNRESET}
	case "chatty":
		c.note("Read: a ping frame")
		return copy(b, pingFrame), nil
	case "answers", "answers-late":
		if replied {
			c.note("Read: EOF")
			return 0, io.EOF
		}
		if !replyAt.IsZero() {
			if err := c.block("Read", dl, replyAt); err != nil {
				return 0, err
			}
			c.mu.Lock()
			c.replied = true
			c.mu.Unlock()
			c.note("Read: the peer's Close frame")
			return copy(b, closeFrame), nil
		}
	}
	// nothing to read and nothing on its way
	return 0, c.block("Read", dl, time.Time{})
}

func (c *poolConn) Write(b []byte) (int, error) {
	if c.closed.Load() > 0 {
		return 0, net.ErrClosed
	}
	if c.peer == "" {
		return len(b), nil
	}
	switch c.peer {
	case "gone-fin":
		c.note("Write %d B: broken pipe", len(b))
		return 0, &net.OpError{Op: "write", Net: "fake", Err: syscall.EPIPE}
	case "gone-rst":
		c.note("Write %d B: reset", len(b))
		return 0, &net.OpError{Op: "write", Net: "fake", Err: syscall.ECONNRESET}
	case "stalled":
		c.mu.Lock()
		dl := c.wdl
		c.mu.Unlock()
		return 0, c.block(fmt.Sprintf("Write %d B", len(b)), dl, time.Time{})
	}
	c.mu.Lock()
	if !c.wrote {
		c.wrote = true
		c.replyAt = time.Now().Add(c.delay)
	}
	c.mu.Unlock()
	c.note("Write %d B", len(b))
	return len(b), nil
}

func (c *poolConn) Close() error {
	c.closed.Add(1)
	if cs := c.script; cs != nil {
		if n := int(cs.linger.Load()); n > 0 {
			select {
			case cs.entered <- struct{}{}:
			default:
			}
			for i := 0; i < n; i++ {
				runtime.Gosched()
			}
		}
	}
	c.abandon()
	return nil
}

// abandon unblocks pending reads and writes without counting as a Close by the owner (the harness
// gives up on a case).
func (c *poolConn) abandon() {
	if c.gone != nil {
		c.once.Do(func() { close(c.gone) })
	}
}

func (c *poolConn) LocalAddr() net.Addr  { return poolAddr("local") }
func (c *poolConn) RemoteAddr() net.Addr { return poolAddr(fmt.Sprintf("backend%d", c.backend)) }
func (c *poolConn) SetDeadline(t time.Time) error {
	c.mu.Lock()
	c.rdl, c.wdl = t, t
	c.mu.Unlock()
	return nil
}
func (c *poolConn) SetReadDeadline(t time.Time) error {
	c.mu.Lock()
	c.rdl = t
	c.mu.Unlock()
	return nil
}
func (c *poolConn) SetWriteDeadline(t time.Time) error {
	c.mu.Lock()
	c.wdl = t
	c.mu.Unlock()
	return nil
}

// describePooled renders, for a violation message, the connections that were idle in the pool when a
// shutdown call was issued: how many per peer script, and what the pool did on those it touched.
func describePooled(conns []*poolConn, ids []int) string {
	if len(conns) == 0 {
		return "no connection was idle in the pool when the call was issued"
	}
	return describeConns(conns, ids, "were idle in the pool when the call was issued")
}

// describeConns: conns (with their case-wide numbers ids) "<what>", by peer script, and the I/O done on them.
func describeConns(conns []*poolConn, ids []int, what string) string {
	count := map[string]int{}
	var touched []string
	for i, pc := range conns {
		k := pc.peer
		if k == "" {
			k = "instant"
		}
		count[k]++
		if l := pc.ioLog(); l != "no I/O" && len(touched) < 6 {
			state := "still open"
			if pc.closed.Load() > 0 {
				state = "closed"
			}
			touched = append(touched, fmt.Sprintf("#%d (peer %s, %s): %s", ids[i], k, state, l))
		}
	}
	var kinds []string
	for k, n := range count {
		kinds = append(kinds, fmt.Sprintf("%d x %s", n, k))
	}
	sort.Strings(kinds)
	s := fmt.Sprintf("%d connection(s) %s (peers: %s)", len(conns), what, strings.Join(kinds, ", "))
	if len(touched) > 0 {
		s += "; I/O the pool performed on them meanwhile: " + strings.Join(touched, " | ")
	} else {
		s += "; the pool performed no I/O on them"
	}
	return s
}
