package c19

import (
	"fmt"
	"net"
	"sync/atomic"
	"time"
)

// poolConn is the fake net.Conn handed to the websocket pool: it only records Close.
type poolConn struct {
	backend  int
	closed   atomic.Int32
	accepted bool
}

type poolAddr string

func (a poolAddr) Network() string { return "fake" }
func (a poolAddr) String() string  { return string(a) }

func (c *poolConn) Read(b []byte) (int, error) {
	if c.closed.Load() > 0 {
		return 0, net.ErrClosed
	}
	return 0, nil
}
func (c *poolConn) Write(b []byte) (int, error) {
	if c.closed.Load() > 0 {
		return 0, net.ErrClosed
	}
	return len(b), nil
}
func (c *poolConn) Close() error                       { c.closed.Add(1); return nil }
func (c *poolConn) LocalAddr() net.Addr                { return poolAddr("local") }
func (c *poolConn) RemoteAddr() net.Addr               { return poolAddr(fmt.Sprintf("backend%d", c.backend)) }
func (c *poolConn) SetDeadline(t time.Time) error      { return nil }
func (c *poolConn) SetReadDeadline(t time.Time) error  { return nil }
func (c *poolConn) SetWriteDeadline(t time.Time) error { return nil }
