package c19

import (
	"bufio"
	"bytes"
	"encoding/json"
	"fmt"
	"os"
	"os/exec"
	"runtime"
	"strconv"
	"strings"
	"sync"
	"sync/atomic"
	"syscall"
	"testing"
	"time"

	"github.com/0xReLogic/Helios/internal/config"
	"github.com/0xReLogic/Helios/internal/loadbalancer"
	"github.com/0xReLogic/Helios/verifharness/lab"
)

// ---------------------------------------------------------------------------------------------
// Sub-check 3 (real threads, no virtual time): Stop racing the launch of a probe round.
//
// Inside a synctest bubble goroutines practically run one at a time, so the overlap "Stop while the
// checker goroutine is registering the probes of a round" is only reachable on real threads. The
// probe round that the checker launches at construction is the same code as a tick round, so no
// real 2 s interval has to be waited for: every round of this stress builds a balancer and calls
// Stop 0-20 scheduler yields later from 1-3 goroutines released by a spin barrier.
//
// A misuse of the wait group between the checker and Stop ends in a panic in a background
// goroutine, i.e. it kills the process. The rounds therefore run in a CHILD process (the test
// binary re-executed); the parent turns a crash into a violation with the child's trace.
// ---------------------------------------------------------------------------------------------

const stressName = "stop-race-stress"

type stressBatch struct {
	Seed    uint64 `json:"seed"`
	Workers int    `json:"workers"`
	Rounds  int    `json:"rounds_per_worker"`
}

type stressRound struct {
	N       int    `json:"n"`
	Probes  string `json:"probes"` // ok | held | mixed
	Stops   int    `json:"stops"`
	Yields  []int  `json:"yields"` // scheduler yields of each stopper between the barrier and Stop
	Pool    int    `json:"pool_conns"`
	Clients int    `json:"clients"`
	// optional features of the configuration (drawn on/off; values of the shipped sample file)
	Rate    bool `json:"rate_limit,omitempty"`
	Breaker bool `json:"circuit_breaker,omitempty"`
	Passive bool `json:"passive_checks,omitempty"`
}

// stressRateRounds: rate limiting is drawn only in the first rounds of every worker - each limiter
// leaves its janitor goroutine behind, which bounds what a long batch accumulates.
const stressRateRounds = 1024

func splitmix(x uint64) uint64 {
	x += 0x9e3779b97f4a7c15
	x = (x ^ (x >> 30)) * 0xbf58476d1ce4e5b9
	x = (x ^ (x >> 27)) * 0x94d049bb133111eb
	return x ^ (x >> 31)
}

// roundOf derives the parameters of one round from (seed, worker, round): deterministic, no RNG state.
func roundOf(seed uint64, w, r int) stressRound {
	h := splitmix(seed ^ uint64(w)<<40 ^ uint64(r))
	next := func(n int) int { h = splitmix(h); return int(h % uint64(n)) }
	c := stressRound{N: []int{1, 2, 3, 4, 8, 16}[next(6)], Probes: []string{"ok", "held", "mixed"}[next(3)], Stops: 1 + next(3)}
	for i := 0; i < c.Stops; i++ {
		c.Yields = append(c.Yields, next(21))
	}
	if next(3) == 0 {
		c.Pool = 1 + next(3)
	}
	if next(3) == 0 {
		c.Clients = 1
	}
	c.Breaker = next(2) == 0
	c.Passive = next(2) == 0
	c.Rate = next(3) == 0 && r < stressRateRounds
	return c
}

func TestC19StopRaceStress(t *testing.T) {
	if os.Getenv("C19_CHILD") == "1" {
		stressChild(t)
		return
	}
	sub := lab.Sub(stressName, "real threads, child process: W=2xCPU (max 32) workers x rounds; each round builds a real balancer (1/2/3/4/8/16 backends, active checks interval 2 s timeout 1 s, probes all-200 / all-held / mixed, optional websocket pool with 1-3 idle connections, optional client request parked in a backend, circuit breaker / passive checks on or off by draw, rate limiting on in a third of the first 1024 rounds of every worker) "+
		"and calls Stop from 1-3 goroutines released by a spin barrier 0-20 scheduler yields after construction, i.e. while the checker goroutine launches its first probe round (the same code as a tick round); oracle: the process does not crash, no Stop panics, every Stop returns (20 s watchdog), "+
		"pooled idle connections are closed at the first return, no probe round-trip starts after the first return (checked at the end of the round and again 2.2 s = one interval later for the last balancers), parked client requests complete when released; every round is non-trivial (stop within microseconds of probe round 0); schedules are sampled, not enumerated")
	sub.NontrivialFloor(0.99)
	sub.Floor("several-stops,on=rate_limit", 0.01)
	sub.Floor("several-stops,on=circuit_breaker", 0.20)
	sub.Floor("several-stops,on=passive_checks", 0.20)
	lab.Assume("stress: interleavings are sampled by real parallelism (probabilistic); the probe round launched at construction stands in for a tick round (same function)")
	var b stressBatch
	if lab.Replaying() {
		if !lab.ReplayCase(stressName, &b) {
			t.Skip("replay of another sub-check")
		}
	} else {
		w := 2 * runtime.NumCPU()
		if w > 32 {
			w = 32
		}
		total := lab.Share(lab.Scale(96000, 3200000))
		b = stressBatch{Seed: lab.SubSeed(stressName), Workers: w, Rounds: (total + w - 1) / w}
	}
	out, code, err := runChild(b)
	if err != nil {
		lab.Problem("%s: cannot run the child process: %v", stressName, err)
		t.Fatalf("harness: %v", err)
	}
	// completed rounds, as reported by the child
	done := map[int]int{}
	var viols []string
	sc := bufio.NewScanner(bytes.NewReader(out))
	sc.Buffer(make([]byte, 1<<20), 1<<20)
	finished := false
	for sc.Scan() {
		line := sc.Text()
		switch {
		case strings.HasPrefix(line, "C19P "):
			var w, r int
			if _, e := fmt.Sscanf(line, "C19P %d %d", &w, &r); e == nil && r > done[w] {
				done[w] = r
			}
		case strings.HasPrefix(line, "C19V "):
			viols = append(viols, line[5:])
		case line == "C19DONE":
			finished = true
		}
	}
	for w := 0; w < b.Workers; w++ {
		for r := 0; r < done[w]; r++ {
			c := roundOf(b.Seed, w, r)
			labels := []string{fmt.Sprintf("n=%d", c.N), "probes=" + c.Probes, fmt.Sprintf("stops=%d", c.Stops)}
			if c.Pool > 0 {
				labels = append(labels, "pool")
			}
			if c.Clients > 0 {
				labels = append(labels, "client-in-flight")
			}
			for _, f := range []struct {
				on   bool
				name string
			}{{c.Rate, "rate_limit"}, {c.Breaker, "circuit_breaker"}, {c.Passive, "passive_checks"}} {
				if f.on {
					labels = append(labels, "on="+f.name)
					if c.Stops > 1 {
						labels = append(labels, "several-stops,on="+f.name)
					}
				}
			}
			sub.Case(c, true, labels...)
		}
	}
	if len(viols) > 0 {
		lab.Violation(t, stressName, b, "%s", strings.Join(viols, "\n"))
	}
	if code != 0 || !finished {
		lab.Violation(t, stressName, b, "the process running Stop concurrently with the probe-round launch died (exit code %d) after %d completed rounds:\n%s", code, sub.Evaluations(), crashExcerpt(out))
	}
}

func crashExcerpt(out []byte) string {
	lines := strings.Split(string(out), "\n")
	var keep []string
	on := false
	for _, l := range lines {
		if strings.HasPrefix(l, "C19P ") {
			continue
		}
		if strings.HasPrefix(l, "panic:") || strings.HasPrefix(l, "fatal error:") {
			on = true
		}
		if on {
			keep = append(keep, l)
			if len(keep) >= 40 {
				break
			}
		}
	}
	if len(keep) == 0 {
		if len(lines) > 30 {
			lines = lines[len(lines)-30:]
		}
		keep = lines
	}
	return strings.Join(keep, "\n")
}

func runChild(b stressBatch) (out []byte, code int, err error) {
	runtime.LockOSThread() // Pdeathsig is tied to the creating thread
	defer runtime.UnlockOSThread()
	cmd := exec.Command(os.Args[0], "-test.run=^TestC19StopRaceStress$", "-test.count=1", "-test.timeout=900s")
	var env []string
	for _, kv := range os.Environ() {
		if strings.HasPrefix(kv, "VERIF_REPORT=") || strings.HasPrefix(kv, "VERIF_REPLAY") || strings.HasPrefix(kv, "C19_") {
			continue
		}
		env = append(env, kv)
	}
	cmd.Env = append(env, "C19_CHILD=1", "C19_SEED="+strconv.FormatUint(b.Seed, 10), "C19_WORKERS="+strconv.Itoa(b.Workers), "C19_ROUNDS="+strconv.Itoa(b.Rounds))
	cmd.SysProcAttr = &syscall.SysProcAttr{Pdeathsig: syscall.SIGKILL}
	var buf bytes.Buffer
	cmd.Stdout, cmd.Stderr = &buf, &buf
	if e := cmd.Start(); e != nil {
		return nil, 0, e
	}
	e := cmd.Wait()
	if e != nil {
		if cmd.ProcessState == nil {
			return buf.Bytes(), -1, e
		}
		return buf.Bytes(), cmd.ProcessState.ExitCode(), nil
	}
	return buf.Bytes(), 0, nil
}

// ---------------------------------------------------------------------------------------------
// child
// ---------------------------------------------------------------------------------------------

var childOut sync.Mutex

func say(format string, args ...any) {
	childOut.Lock()
	fmt.Printf(format+"\n", args...)
	childOut.Unlock()
}

func stressChild(t *testing.T) {
	seed, _ := strconv.ParseUint(os.Getenv("C19_SEED"), 10, 64)
	workers, _ := strconv.Atoi(os.Getenv("C19_WORKERS"))
	rounds, _ := strconv.Atoi(os.Getenv("C19_ROUNDS"))
	fn := lab.NewFakeNet()
	lastSample := make([]int, workers)
	var failed atomic.Bool
	fn.WithDefaultTransport(func() {
		var wg sync.WaitGroup
		for w := 0; w < workers; w++ {
			wg.Add(1)
			go func(w int) {
				defer wg.Done()
				for r := 0; r < rounds && !failed.Load(); r++ {
					c := roundOf(seed, w, r)
					sample, viol := stressOne(fn, w, c)
					if viol != "" {
						failed.Store(true)
						b, _ := json.Marshal(c)
						say("C19V worker %d round %d %s: %s", w, r, b, viol)
						return
					}
					lastSample[w] = sample
					if (r+1)%256 == 0 || r+1 == rounds {
						say("C19P %d %d", w, r+1)
					}
				}
			}(w)
		}
		wg.Wait()
		if failed.Load() {
			return
		}
		// one probe interval later: a checker that survived Stop would have probed again
		time.Sleep(2200 * time.Millisecond)
		for w := 0; w < workers; w++ {
			if got := workerProbes(fn, w); got != lastSample[w] {
				failed.Store(true)
				say("C19V worker %d: %d health probe(s) were started after the last Stop had returned (counted 2.2 s after the end of the run; interval 2 s)", w, got-lastSample[w])
			}
		}
	})
	if !failed.Load() {
		say("C19DONE")
	}
}

const stressMaxN = 16

func stressHost(w, i int) string { return fmt.Sprintf("w%db%d.test", w, i) }

func workerProbes(fn *lab.FakeNet, w int) int {
	n := 0
	for i := 0; i < stressMaxN; i++ {
		n += fn.Probes(stressHost(w, i))
	}
	return n
}

// stressOne runs one round; it returns the number of probes started on this worker's hosts when the
// first Stop returned.
func stressOne(fn *lab.FakeNet, w int, c stressRound) (sample int, viol string) {
	cfg := &config.Config{}
	cfg.Server.Port = 8080
	cfg.LoadBalancer.Strategy = "round_robin"
	for i := 0; i < c.N; i++ {
		cfg.Backends = append(cfg.Backends, config.BackendConfig{Name: lab.BackendName(i), Address: "http://" + stressHost(w, i), Weight: 1})
		pb := lab.Good
		if c.Probes == "held" || (c.Probes == "mixed" && i%2 == 1) {
			pb = lab.Park
		}
		fn.SetProbeBehaviour(stressHost(w, i), pb)
		fn.Set(stressHost(w, i), lab.Park)
	}
	cfg.HealthChecks.Active.Enabled = true
	cfg.HealthChecks.Active.Interval, cfg.HealthChecks.Active.Timeout, cfg.HealthChecks.Active.Path = 2, 1, "/healthz"
	if c.Pool > 0 {
		cfg.LoadBalancer.WebSocketPool.Enabled = true
		cfg.LoadBalancer.WebSocketPool.MaxIdle = 4
		cfg.LoadBalancer.WebSocketPool.MaxActive = 100
		cfg.LoadBalancer.WebSocketPool.IdleTimeoutSeconds = 3600
	}
	if c.Rate {
		cfg.RateLimit.Enabled, cfg.RateLimit.MaxTokens, cfg.RateLimit.RefillRate = true, 100, 1
	}
	if c.Breaker {
		cfg.CircuitBreaker = config.CircuitBreakerConfig{Enabled: true, MaxRequests: 5, IntervalSeconds: 60, TimeoutSeconds: 60, FailureThreshold: 5, SuccessThreshold: 2}
	}
	if c.Passive {
		cfg.HealthChecks.Passive.Enabled, cfg.HealthChecks.Passive.UnhealthyThreshold, cfg.HealthChecks.Passive.UnhealthyTimeout = true, 3, 30
	}
	if err := cfg.Validate(); err != nil {
		return 0, "harness: config rejected: " + err.Error()
	}
	lb, err := loadbalancer.NewLoadBalancer(cfg)
	if err != nil {
		return 0, "harness: " + err.Error()
	}
	fn.Install(lb)
	var conns []*poolConn
	if c.Pool > 0 {
		pool := lb.VerifWebSocketPool()
		for i := 0; i < c.Pool; i++ {
			pc := &poolConn{backend: i % c.N}
			pc.accepted = pool.Put(stressHost(w, i%c.N), pc)
			conns = append(conns, pc)
		}
	}
	open := func() int {
		n := 0
		for _, pc := range conns {
			if pc.accepted && pc.closed.Load() == 0 {
				n++
			}
		}
		return n
	}
	var clientDone atomic.Int32
	var clientStatus atomic.Int32
	for j := 0; j < c.Clients; j++ {
		go func() {
			st, _, _, _ := lab.Serve(lb, lab.Request("GET", "/inflight", "10.0.0.1:4000", nil))
			clientStatus.Store(int32(st))
			clientDone.Add(1)
		}()
	}
	var ready, goFlag, returned, seq atomic.Int32
	var firstSample, firstOpen atomic.Int32
	panics := make([]string, c.Stops)
	stopper := func(i int) {
		defer returned.Add(1)
		defer func() {
			if p := recover(); p != nil {
				panics[i] = fmt.Sprint(p)
			}
		}()
		ready.Add(1)
		for goFlag.Load() == 0 {
			runtime.Gosched()
		}
		for k := 0; k < c.Yields[i]; k++ {
			runtime.Gosched()
		}
		lb.Stop()
		if seq.Add(1) == 1 {
			firstSample.Store(int32(workerProbes(fn, w)))
			firstOpen.Store(int32(open()))
		}
	}
	for i := 1; i < c.Stops; i++ {
		go stopper(i)
	}
	for int(ready.Load()) < c.Stops-1 {
		runtime.Gosched()
	}
	goFlag.Store(1)
	stopper(0)
	deadline := time.Now().Add(lab.NoProgress)
	for int(returned.Load()) < c.Stops {
		if time.Now().After(deadline) {
			return 0, fmt.Sprintf("%d of %d concurrent Stop calls had not returned %v after they were made", c.Stops-int(returned.Load()), c.Stops, lab.NoProgress)
		}
		runtime.Gosched()
	}
	for i, p := range panics {
		if p != "" {
			return 0, fmt.Sprintf("Stop call #%d panicked: %s", i+1, p)
		}
	}
	if n := firstOpen.Load(); n > 0 {
		return 0, fmt.Sprintf("%d connection(s) the pool held idle were not closed when the first Stop returned", n)
	}
	// requests in flight may finish: release whatever reached a backend
	if c.Clients > 0 {
		deadline = time.Now().Add(lab.NoProgress)
		for int(clientDone.Load()) < c.Clients {
			for i := 0; i < c.N; i++ {
				for fn.Release(stressHost(w, i), lab.Good) {
				}
			}
			if time.Now().After(deadline) {
				return 0, "a client request that was in flight across Stop did not complete after its backend answered"
			}
			runtime.Gosched()
		}
		if st := clientStatus.Load(); st != 200 && st != 503 {
			return 0, fmt.Sprintf("a client request in flight across Stop ended with status %d although its backend answered 200", st)
		}
	}
	sample = int(firstSample.Load())
	if got := workerProbes(fn, w); got != sample {
		return 0, fmt.Sprintf("%d health probe(s) were started after the first Stop had returned", got-sample)
	}
	return sample, ""
}
