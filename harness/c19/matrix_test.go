package c19

import (
	"fmt"
	"runtime"
	"sync"
	"sync/atomic"
	"testing"

	"github.com/0xReLogic/Helios/internal/config"
	"github.com/0xReLogic/Helios/internal/loadbalancer"
	"github.com/0xReLogic/Helios/verifharness/lab"
)

// ---------------------------------------------------------------------------------------------
// Sub-check "stop-feature-matrix" (real balancer, real threads, no virtual time): "repeated or
// concurrent shutdown calls are harmless" for EVERY on/off combination of the optional features a
// balancer is configured with. Stop tears down what the configuration switched on (probe checker,
// websocket pool, and whatever else an enabled feature owns), so whether a second or a concurrent
// Stop is harmless is a property of the configuration as much as of the schedule: the schedule
// sub-checks vary the timing with few feature combinations, this one enumerates the combinations
// with a handful of call patterns.
//
// Asserted (statement of C19, nothing more): no Stop call panics; every Stop call returns (real-time
// no-progress watchdog); every connection the pool held idle reports closed when the first call has
// returned.
// ---------------------------------------------------------------------------------------------

const matrixName = "stop-feature-matrix"

// Features a balancer can be configured with (config.Config sections that loadbalancer.NewLoadBalancer reads).
var matrixFeatures = []string{"rate_limit", "circuit_breaker", "passive_checks", "active_checks", "websocket_pool"}

// Call patterns: groups of Stop calls; the calls of one group are released together by a spin barrier,
// groups follow each other.
var matrixPatterns = map[string][]int{
	"twice":                 {1, 1},
	"three-times":           {1, 1, 1},
	"two-concurrent":        {2},
	"three-concurrent":      {3},
	"concurrent-then-again": {2, 1},
	"again-then-concurrent": {1, 3},
}

var matrixPatternNames = []string{"twice", "three-times", "two-concurrent", "three-concurrent", "concurrent-then-again", "again-then-concurrent"}

type matrixCase struct {
	Strategy string   `json:"strategy"`
	N        int      `json:"n"`
	On       []string `json:"features_on"`
	Probes   string   `json:"probes,omitempty"` // active_checks on: ok | held (probe round of the construction is answered / stays in the backend)
	Pattern  string   `json:"pattern"`
}

func (c matrixCase) has(f string) bool {
	for _, x := range c.On {
		if x == f {
			return true
		}
	}
	return false
}

func (c matrixCase) config(id int) *config.Config {
	cfg := &config.Config{}
	cfg.Server.Port = 8080
	cfg.LoadBalancer.Strategy = c.Strategy
	for i := 0; i < c.N; i++ {
		cfg.Backends = append(cfg.Backends, config.BackendConfig{Name: lab.BackendName(i), Address: "http://" + matrixHost(id, i), Weight: 1 + i})
	}
	// every enabled feature with the values of the shipped sample file
	if c.has("rate_limit") {
		cfg.RateLimit.Enabled, cfg.RateLimit.MaxTokens, cfg.RateLimit.RefillRate = true, 100, 1
	}
	if c.has("circuit_breaker") {
		cfg.CircuitBreaker = config.CircuitBreakerConfig{Enabled: true, MaxRequests: 5, IntervalSeconds: 60, TimeoutSeconds: 60, FailureThreshold: 5, SuccessThreshold: 2}
	}
	if c.has("passive_checks") {
		cfg.HealthChecks.Passive.Enabled, cfg.HealthChecks.Passive.UnhealthyThreshold, cfg.HealthChecks.Passive.UnhealthyTimeout = true, 3, 30
	}
	if c.has("active_checks") {
		cfg.HealthChecks.Active.Enabled = true
		cfg.HealthChecks.Active.Interval, cfg.HealthChecks.Active.Timeout, cfg.HealthChecks.Active.Path = 3600, 1800, "/healthz"
	}
	if c.has("websocket_pool") {
		cfg.LoadBalancer.WebSocketPool = config.WebSocketPoolConfig{Enabled: true, MaxIdle: 10, MaxActive: 100, IdleTimeoutSeconds: 300}
	}
	return cfg
}

func matrixHost(id, i int) string { return fmt.Sprintf("m%db%d.test", id, i) }

// runMatrixCase returns "" or the violation ("harness: ..." for set-up problems).
func runMatrixCase(fn *lab.FakeNet, id int, c matrixCase) string {
	cfg := c.config(id)
	if err := cfg.Validate(); err != nil {
		return "harness: config rejected: " + err.Error()
	}
	for i := 0; i < c.N; i++ {
		pb := lab.Good
		if c.Probes == "held" {
			pb = lab.Park
		}
		fn.SetProbeBehaviour(matrixHost(id, i), pb)
		fn.Set(matrixHost(id, i), lab.Good)
	}
	lb, err := loadbalancer.NewLoadBalancer(cfg)
	if err != nil {
		return "harness: " + err.Error()
	}
	fn.Install(lb)
	var conns []*poolConn
	if pool := lb.VerifWebSocketPool(); pool != nil {
		for i := 0; i < 3; i++ {
			pc := &poolConn{backend: i % c.N}
			pc.accepted = pool.Put(matrixHost(id, i%c.N), pc)
			conns = append(conns, pc)
		}
	}
	// one request through the balancer before the shutdown: the features have seen traffic
	lab.Serve(lb, lab.Request("GET", "/before-stop", "10.0.0.1:4000", nil))
	call := 0
	for g, size := range matrixPatterns[c.Pattern] {
		var ready, goFlag int32
		panics := make([]string, size)
		var wg sync.WaitGroup
		for k := 0; k < size; k++ {
			wg.Add(1)
			go func(k int) {
				defer wg.Done()
				defer func() {
					if p := recover(); p != nil {
						panics[k] = fmt.Sprint(p)
					}
				}()
				atomic.AddInt32(&ready, 1)
				for atomic.LoadInt32(&goFlag) == 0 {
					runtime.Gosched()
				}
				lb.Stop()
			}(k)
		}
		for atomic.LoadInt32(&ready) < int32(size) {
			runtime.Gosched()
		}
		atomic.StoreInt32(&goFlag, 1)
		wg.Wait() // guarded by the caller's watchdog
		for k, p := range panics {
			if p != "" {
				return fmt.Sprintf("Stop call #%d (group %d of pattern %q, %d concurrent call(s) in the group) panicked: %s", call+k+1, g+1, c.Pattern, size, p)
			}
		}
		call += size
		if g == 0 {
			for i, pc := range conns {
				if pc.accepted && pc.closed.Load() == 0 {
					return fmt.Sprintf("connection #%d, idle in the websocket pool, was not closed when the first shutdown call had returned", i)
				}
			}
		}
	}
	return ""
}

// TestC19StopFeatureMatrix enumerates features x strategies x call patterns.
func TestC19StopFeatureMatrix(t *testing.T) {
	sub := lab.Sub(matrixName, fmt.Sprintf("ALL %d on/off combinations of the optional features a balancer is configured with %v (values of the shipped sample file; active checks with the construction-time probe round answered or held in the backend) "+
		"x all 5 strategies x %d call patterns %v (calls of a group released together by a spin barrier on real threads, groups one after the other), 1-3 backends, 3 idle connections in the pool when it is on, one proxied request before the first call; "+
		"oracle: no Stop call panics, every call returns (no-progress watchdog), idle pooled connections are closed when the first call has returned; every case is non-trivial (>= 2 shutdown calls on one balancer); the timing of the calls is sampled, the feature/strategy/pattern space is enumerated",
		1<<len(matrixFeatures), matrixFeatures, len(matrixPatternNames), matrixPatternNames))
	var rc matrixCase
	replay := lab.ReplayCase(matrixName, &rc)
	if lab.Replaying() && !replay {
		t.Skip("replay of another sub-check")
	}
	var cur atomic.Value
	cur.Store(matrixCase{})
	fn := lab.NewFakeNet()
	fn.WithDefaultTransport(func() {
		if replay {
			wd := lab.StartWatchdog(t.Name(), matrixName, lab.NoProgress, func() any { return rc })
			v := runMatrixCase(fn, 0, rc)
			wd.Stop()
			if v != "" {
				lab.Violation(t, matrixName, rc, "%s (features on: %v, strategy %s)", v, rc.On, rc.Strategy)
			}
			return
		}
		idx := 0
		for mask := 0; mask < 1<<len(matrixFeatures); mask++ {
			var on []string
			for i, f := range matrixFeatures {
				if mask&(1<<i) != 0 {
					on = append(on, f)
				}
			}
			for si, strategy := range lab.Strategies {
				for pi, pattern := range matrixPatternNames {
					idx++
					if idx%lab.Shards() != lab.Shard() {
						continue
					}
					c := matrixCase{Strategy: strategy, N: 1 + (mask+si+pi)%3, On: on, Pattern: pattern}
					if c.has("active_checks") {
						c.Probes = []string{"ok", "held"}[(si+pi)%2]
					}
					cur.Store(c)
					wd := lab.StartWatchdog(t.Name(), matrixName, lab.NoProgress, func() any { return cur.Load() })
					v := runMatrixCase(fn, idx, c)
					wd.Stop()
					labels := []string{"pattern=" + pattern, "strategy=" + strategy, fmt.Sprintf("features-on=%d", len(on))}
					for _, f := range on {
						labels = append(labels, "on="+f)
					}
					sub.Case(c, true, labels...)
					if v != "" {
						lab.Violation(t, matrixName, c, "%s (features on: %v, strategy %s, %d backend(s))", v, c.On, c.Strategy, c.N)
						return
					}
				}
			}
		}
		// not marked exhaustive: the feature / strategy / pattern space is enumerated completely, the
		// real-time interleaving of the concurrent calls is sampled
	})
}
