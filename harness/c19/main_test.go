package c19

import (
	"testing"

	"github.com/0xReLogic/Helios/verifharness/lab"
)

func TestMain(m *testing.M) {
	lab.Quiet()
	lab.Main(m, "C19")
}
