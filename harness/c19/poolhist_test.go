//go:build go1.25

package c19

import (
	"fmt"
	"net"
	"sync/atomic"
	"testing"
	"testing/synctest"
	"time"

	"github.com/0xReLogic/Helios/internal/config"
	"github.com/0xReLogic/Helios/internal/loadbalancer"
	"github.com/0xReLogic/Helios/verifharness/lab"
	"pgregory.net/rapid"
)

// ---------------------------------------------------------------------------------------------
// Sub-check "stop-pool-history" (L1, virtual time): histories in which pool traffic is interleaved
// BETWEEN and WITH repeated shutdown calls.
//
// What is asserted, and why it is no more than the statement of C19:
//
//	P1 "pooled connections are closed" + "repeated or concurrent shutdown calls are harmless": the
//	   clause is about every shutdown call, not about the first one. Whenever a shutdown call (or a
//	   group of concurrent calls) has returned, every connection that was idle in the pool when the
//	   call was issued - its Put had returned true before, no Get has handed it out since, also not a
//	   Get running concurrently with the call - reports closed. It does not matter whether the
//	   connection entered the pool before the first shutdown or between two shutdowns.
//	P2 after the call returned the pool does not report idle connections it held before the call:
//	   Stats(backend).idle is 0 when no Put ran concurrently with the call, and otherwise at most the
//	   number of Puts accepted concurrently with the call (those may legitimately land after it; the
//	   NEXT call has to close them, which P1 checks).
//	P3 no call panics and every call returns (within one probe timeout of virtual time when active
//	   probing is on, as in stop-vs-probe-schedule).
//	P4 "shutdown always completes within the configured shutdown timeout ... pooled connections are
//	   closed": no shutdown call takes longer than server.timeouts.shutdown of the configuration
//	   (documented default 30 s), whatever the pool holds and whatever the peers of the pooled
//	   connections do. The statement lists what a shutdown may wait for (requests in flight); the far
//	   end of an IDLE pooled connection is not on that list, so every fresh connection gets a drawn
//	   peer script (conn_test.go): answering, answering late, silent, not reading, chatty, closed,
//	   reset. P1 applies to all of them alike.
//
// Deliberately NOT asserted (the statement does not say it): that Put is refused after a shutdown,
// that Get returns nil after a shutdown, that a refused Put closes the connection, that the janitor
// goroutine ends, any idle-timeout or max_idle behaviour (C20 owns the pool's own invariants).
// ---------------------------------------------------------------------------------------------

type phOp struct {
	Kind string `json:"op"`                // put-new | put-burst | get | put-back | close-held | advance | cleanup | stop
	B    int    `json:"backend,omitempty"` // put-new, put-burst, get
	// Peer (put-new, put-burst): how the other end of the fresh connection behaves (conn_test.go: answers |
	// answers-late | silent | stalled | chatty | gone-fin | gone-rst); DelayMs: answers-late. Count: put-burst,
	// that many fresh connections are offered one after the other (the pool keeps max_idle per backend).
	Peer    string   `json:"peer,omitempty"`
	DelayMs int      `json:"delay_ms,omitempty"`
	Count   int      `json:"count,omitempty"`
	Pick    int      `json:"pick,omitempty"` // put-back, close-held: selects among the connections currently checked out (mod their number)
	Ms      int      `json:"ms,omitempty"`   // advance: virtual milliseconds
	Via     []string `json:"via,omitempty"`  // stop: one entry per call, "lb.Stop" | "pool.Shutdown"; more than one = concurrent calls
	With    []phOp   `json:"with,omitempty"` // stop: pool operations issued concurrently with the call(s)
	// Janitor (stop): a janitor pass of the pool (what its 30 s ticker runs) is in progress concurrently with the
	// call(s): "with" = started together with them, "mid-pass" = the call(s) are issued while the pass is inside
	// the Close of a stale connection (or, if it met none, right after it). CloseYields: how many scheduler
	// yields a Close takes while this group runs (a close that takes a moment; no clock involved).
	Janitor     string `json:"janitor,omitempty"`
	CloseYields int    `json:"close_yields,omitempty"`
}

type phCase struct {
	N            int `json:"n"`
	MaxIdle      int `json:"max_idle"`       // 0 = not set (Helios default 10)
	IdleTimeoutS int `json:"idle_timeout_s"` // 0 = not set (Helios default 5 min)
	// ShutdownS: server.timeouts.shutdown of the configuration (0 = not set, documented default 30 s). The
	// statement's bound: no shutdown call may take longer than this, whatever the pool holds.
	ShutdownS int      `json:"shutdown_s"`
	Active    bool     `json:"active_probing"`
	IntervalS int      `json:"interval_s,omitempty"`
	TimeoutS  int      `json:"timeout_s,omitempty"`
	Probe     []string `json:"probe,omitempty"` // ok | held
	Ops       []phOp   `json:"ops"`             // a final sequential lb.Stop() is always appended
	// optional features of the configuration, drawn on/off (values of the shipped sample file). Rate
	// limiting is only drawn without active probing: the limiter owns a never-ending janitor goroutine,
	// so that balancer is built outside the bubble, where a probe checker cannot live.
	Rate    bool `json:"rate_limit,omitempty"`
	Breaker bool `json:"circuit_breaker,omitempty"`
	Passive bool `json:"passive_checks,omitempty"`
}

// genPeer draws the behaviour of the other end of a fresh connection.
func genPeer(rt *rapid.T, op phOp) phOp {
	op.Peer = rapid.SampledFrom(peerKinds).Draw(rt, "peer")
	if op.Peer == "answers-late" {
		op.DelayMs = rapid.SampledFrom([]int{1, 50, 900, 1100, 2500, 60_000}).Draw(rt, "peer_delay_ms")
	}
	return op
}

func genTraffic(rt *rapid.T, n int) phOp {
	switch rapid.IntRange(0, 2).Draw(rt, "traffic") {
	case 0:
		return genPeer(rt, phOp{Kind: "put-new", B: rapid.IntRange(0, n-1).Draw(rt, "backend")})
	case 1:
		return phOp{Kind: "get", B: rapid.IntRange(0, n-1).Draw(rt, "backend")}
	}
	return phOp{Kind: "put-back", Pick: rapid.IntRange(0, 7).Draw(rt, "pick")}
}

func genStop(rt *rapid.T, n int) phOp {
	op := phOp{Kind: "stop"}
	calls := rapid.SampledFrom([]int{1, 1, 1, 2, 3}).Draw(rt, "calls")
	for i := 0; i < calls; i++ {
		op.Via = append(op.Via, rapid.SampledFrom([]string{"lb.Stop", "lb.Stop", "lb.Stop", "pool.Shutdown"}).Draw(rt, "via"))
	}
	if rapid.IntRange(0, 9).Draw(rt, "with_traffic") < 4 {
		k := rapid.IntRange(1, 3).Draw(rt, "with")
		for i := 0; i < k; i++ {
			op.With = append(op.With, genTraffic(rt, n))
		}
	}
	if rapid.IntRange(0, 9).Draw(rt, "with_janitor") < 3 {
		op.Janitor = rapid.SampledFrom([]string{"with", "mid-pass", "mid-pass"}).Draw(rt, "janitor")
		op.CloseYields = rapid.SampledFrom([]int{1, 20, 200, 800}).Draw(rt, "close_yields")
	}
	return op
}

func genPoolHistory(rt *rapid.T) phCase {
	c := phCase{N: rapid.IntRange(1, 3).Draw(rt, "n"), MaxIdle: rapid.SampledFrom([]int{0, 1, 1, 2, 3, 4}).Draw(rt, "max_idle"),
		IdleTimeoutS: rapid.SampledFrom([]int{0, 1, 5, 60, 3600, 3600}).Draw(rt, "idle_timeout"),
		ShutdownS:    rapid.SampledFrom([]int{0, 1, 2, 3, 5, 10}).Draw(rt, "shutdown_timeout")}
	if rapid.IntRange(0, 2).Draw(rt, "active") == 0 {
		c.Active = true
		c.IntervalS = rapid.IntRange(2, 10).Draw(rt, "interval")
		c.TimeoutS = rapid.IntRange(1, c.IntervalS-1).Draw(rt, "timeout")
		for i := 0; i < c.N; i++ {
			c.Probe = append(c.Probe, rapid.SampledFrom([]string{"ok", "ok", "held"}).Draw(rt, "probe"))
		}
	}
	c.Breaker = rapid.Bool().Draw(rt, "circuit_breaker")
	c.Passive = rapid.Bool().Draw(rt, "passive_checks")
	if !c.Active {
		c.Rate = rapid.Bool().Draw(rt, "rate_limit")
	}
	idleMs := c.IdleTimeoutS * 1000
	if idleMs == 0 {
		idleMs = 300_000
	}
	n := rapid.IntRange(3, 24).Draw(rt, "ops")
	for i := 0; i < n; i++ {
		switch k := rapid.IntRange(0, 20).Draw(rt, "op"); {
		case k < 1:
			// the pool of one backend is filled (up to its max_idle: Helios's default is 10) with connections to
			// peers of one kind - what a backend that hangs or restarts leaves behind
			c.Ops = append(c.Ops, genPeer(rt, phOp{Kind: "put-burst", B: rapid.IntRange(0, c.N-1).Draw(rt, "backend"), Count: rapid.IntRange(2, 12).Draw(rt, "burst")}))
		case k < 4:
			c.Ops = append(c.Ops, genPeer(rt, phOp{Kind: "put-new", B: rapid.IntRange(0, c.N-1).Draw(rt, "backend")}))
		case k < 8:
			c.Ops = append(c.Ops, phOp{Kind: "get", B: rapid.IntRange(0, c.N-1).Draw(rt, "backend")})
		case k < 12:
			c.Ops = append(c.Ops, phOp{Kind: "put-back", Pick: rapid.IntRange(0, 7).Draw(rt, "pick")})
		case k < 13:
			c.Ops = append(c.Ops, phOp{Kind: "close-held", Pick: rapid.IntRange(0, 7).Draw(rt, "pick")})
		case k < 15:
			c.Ops = append(c.Ops, phOp{Kind: "advance", Ms: rapid.SampledFrom([]int{1, 500, 1000, idleMs - 1, idleMs + 1, 30_000, 31_000}).Draw(rt, "ms")})
		case k < 16:
			c.Ops = append(c.Ops, phOp{Kind: "cleanup"})
		default:
			st := genStop(rt, c.N)
			if st.Janitor != "" && rapid.Bool().Draw(rt, "stale_at_stop") {
				// the signal lands on a janitor tick that has work to do: what is idle has just gone stale
				c.Ops = append(c.Ops, phOp{Kind: "advance", Ms: idleMs + 1})
			}
			c.Ops = append(c.Ops, st)
		}
	}
	return c
}

const (
	phHeld    = iota // checked out: the harness (a tunnel) owns it
	phPooled         // Put returned true and no Get has handed it out since
	phRefused        // Put returned false
	phDone           // closed by a shutdown, by Close, or handed out closed: no longer followed
)

type phConn struct {
	c          *poolConn
	id         int
	state      int
	putAtOp    int  // index of the op whose Put was accepted
	heldAtStop bool // it was checked out while an earlier shutdown call ran
}

type phResult struct {
	Viol, Harness string
	Deadlock      string
	StopGroups    int
	OpenAtRepeat  int // repeat shutdown calls issued while >= 1 open connection was idle in the pool
	ReturnedIdle  int // ... at least one of which had been checked out while an earlier shutdown call ran
	ConcTraffic   int // shutdown groups with concurrent pool traffic
	ConcStops     int
	LateLanded    int // Puts accepted concurrently with a shutdown whose connection stayed open (closed by a later call)
	ClosedHandout int // Get handed out a connection a shutdown had closed (not judged here)
	Noop          int
	ConcJanitor   int // shutdown groups with a janitor pass in progress
	MidPass       int // ... issued while that pass was inside the Close of a stale connection
	Unresponsive  int // shutdown groups issued while >= 1 open idle connection had a peer that never answers promptly
	MaxIdleAtStop int // largest number of open idle connections a shutdown call found
	Peers         map[string]bool
	// live: while a shutdown call (group) is running, a func() string describing it and what the pool held
	// (for the real-time watchdog, should the call freeze the bubble)
	live atomic.Value
}

type phCall struct {
	via      string
	callAt   time.Duration
	retAt    time.Duration
	panicked string
	returned atomic.Bool
}

type phTraffic struct {
	op       phOp
	conn     *phConn  // put-new / put-back: the connection offered
	got      net.Conn // get: what the pool returned
	accepted bool
	panicked string
	done     atomic.Bool
}

// config renders the case's configuration.
func (c phCase) config() *config.Config {
	cfg := lab.BaseConfig("round_robin", lab.Ones(c.N))
	if c.Active {
		cfg.HealthChecks.Active.Enabled = true
		cfg.HealthChecks.Active.Interval, cfg.HealthChecks.Active.Timeout, cfg.HealthChecks.Active.Path = c.IntervalS, c.TimeoutS, "/healthz"
	}
	cfg.LoadBalancer.WebSocketPool.Enabled = true
	cfg.LoadBalancer.WebSocketPool.MaxIdle = c.MaxIdle
	cfg.LoadBalancer.WebSocketPool.MaxActive = 100
	cfg.LoadBalancer.WebSocketPool.IdleTimeoutSeconds = c.IdleTimeoutS
	cfg.Server.Timeouts.Shutdown = c.ShutdownS
	if c.Rate {
		cfg.RateLimit.Enabled, cfg.RateLimit.MaxTokens, cfg.RateLimit.RefillRate = true, 100, 1
	}
	if c.Breaker {
		cfg.CircuitBreaker = config.CircuitBreakerConfig{Enabled: true, MaxRequests: 5, IntervalSeconds: 60, TimeoutSeconds: 60, FailureThreshold: 5, SuccessThreshold: 2}
	}
	if c.Passive {
		cfg.HealthChecks.Passive.Enabled, cfg.HealthChecks.Passive.UnhealthyThreshold, cfg.HealthChecks.Passive.UnhealthyTimeout = true, 3, 30
	}
	return cfg
}

// inBubble plays the history. pre: the balancer, if it had to be built outside the bubble (rate
// limiting on, no active probing); nil = built here.
func (c phCase) inBubble(fn *lab.FakeNet, r *phResult, pre *loadbalancer.LoadBalancer) {
	const eps = time.Millisecond
	to := time.Second
	cfg := c.config()
	if c.Active {
		to = time.Duration(c.TimeoutS) * time.Second
	}
	if err := cfg.Validate(); err != nil {
		r.Harness = "config rejected: " + err.Error()
		return
	}
	for i := 0; i < c.N; i++ {
		b := lab.Good
		if c.Active && c.Probe[i] == "held" {
			b = lab.Park
		}
		fn.SetProbeBehaviour(lab.BackendHost(i), b)
	}
	t0 := time.Now()
	lb := pre
	if lb == nil {
		var err error
		if lb, err = loadbalancer.NewLoadBalancer(cfg); err != nil {
			r.Harness = err.Error()
			return
		}
	}
	fn.Install(lb)
	defer func() {
		fn.ReleaseAll()
		synctest.Wait()
	}()
	pool := lb.VerifWebSocketPool()
	if pool == nil {
		r.Harness = "pool enabled in the configuration but VerifWebSocketPool() is nil"
		lb.Stop()
		return
	}
	synctest.Wait() // the first probe round has been launched

	var conns []*phConn
	script := &closeScript{entered: make(chan struct{}, 1)}
	byConn := map[net.Conn]*phConn{}
	r.Peers = map[string]bool{}
	newConn := func(op phOp) *phConn {
		pc := &phConn{c: newPoolConn(op.B, op.Peer, op.DelayMs), id: len(conns), state: phHeld}
		pc.c.script = script
		conns = append(conns, pc)
		byConn[pc.c] = pc
		r.Peers[op.Peer] = true
		return pc
	}
	// whatever a misbehaving shutdown call may still be waiting for on a connection ends with the case
	defer func() {
		for _, pc := range conns {
			pc.c.abandon()
		}
	}()
	// the statement's bound for one shutdown call: the configured shutdown timeout (documented default 30 s)
	budget := 30 * time.Second
	if c.ShutdownS > 0 {
		budget = time.Duration(c.ShutdownS) * time.Second
	}
	held := func() []*phConn {
		var out []*phConn
		for _, pc := range conns {
			if pc.state == phHeld {
				out = append(out, pc)
			}
		}
		return out
	}
	// handed: bookkeeping for a connection returned by Get
	handed := func(got net.Conn) bool {
		pc := byConn[got]
		if pc == nil {
			r.Viol = fmt.Sprintf("Get returned a connection (%v) that was never given to the pool", got.RemoteAddr())
			return false
		}
		if pc.c.closed.Load() > 0 {
			r.ClosedHandout++ // C20's business ("never hands out ..."), not a clause of C19
			pc.state = phDone
			return true
		}
		pc.state = phHeld
		return true
	}

	stopsSoFar := 0
	runStop := func(opIdx int, op phOp) bool {
		// what is idle in the pool at the moment the call is issued
		var before []*phConn
		openIdle, returnedIdle, deaf := 0, 0, 0
		for _, pc := range conns {
			if pc.state == phPooled {
				before = append(before, pc)
				if pc.c.closed.Load() == 0 {
					openIdle++
					if unresponsive(pc.c.peer, int(pc.c.delay/time.Millisecond)) {
						deaf++
					}
					if pc.heldAtStop {
						returnedIdle++
					}
				}
			}
		}
		if deaf > 0 {
			r.Unresponsive++
		}
		if openIdle > r.MaxIdleAtStop {
			r.MaxIdleAtStop = openIdle
		}
		// pooled: for a violation message, what the pool held when the call was issued and what it did with it
		pooled := func() string {
			var cs []*poolConn
			var ids []int
			for _, pc := range before {
				cs, ids = append(cs, pc.c), append(ids, pc.id)
			}
			return describePooled(cs, ids)
		}
		if stopsSoFar > 0 && openIdle > 0 {
			r.OpenAtRepeat++
			if returnedIdle > 0 {
				r.ReturnedIdle++
			}
		}
		// resolve the concurrent traffic against the current state, one connection per operation
		avail := held()
		var traffic []*phTraffic
		for _, w := range op.With {
			tr := &phTraffic{op: w}
			switch w.Kind {
			case "put-new":
				tr.conn = newConn(w)
			case "put-back":
				if len(avail) == 0 {
					r.Noop++
					continue
				}
				i := w.Pick % len(avail)
				tr.conn = avail[i]
				avail = append(avail[:i:i], avail[i+1:]...)
			}
			traffic = append(traffic, tr)
		}
		for _, pc := range conns {
			if pc.state == phHeld {
				pc.heldAtStop = true
			}
		}
		var janDone atomic.Bool
		var janPanicked atomic.Value
		r.live.Store(func() string {
			d := fmt.Sprintf("history op %d, shutdown call(s) %v with %d concurrent pool operation(s) running: %s", opIdx, op.Via, len(traffic), pooled())
			if op.Janitor != "" {
				d = fmt.Sprintf("history op %d, shutdown call(s) %v issued while a janitor pass of the pool was in progress (%s; the pass has returned: %v) and with %d concurrent pool operation(s) running: %s", opIdx, op.Via, op.Janitor, janDone.Load(), len(traffic), pooled())
			}
			var cs []*poolConn
			var ids []int
			for _, tr := range traffic {
				if tr.conn != nil {
					cs, ids = append(cs, tr.conn.c), append(ids, tr.conn.id)
				}
			}
			if len(cs) > 0 {
				d += "; " + describeConns(cs, ids, "were offered to the pool concurrently with the call(s)")
			}
			return d
		})
		defer r.live.Store(func() string { return "" })
		calls := make([]*phCall, len(op.Via))
		for i, via := range op.Via {
			calls[i] = &phCall{via: via}
		}
		if op.Janitor != "" {
			r.ConcJanitor++
			select {
			case <-script.entered:
			default:
			}
			script.linger.Store(int32(op.CloseYields))
			defer script.linger.Store(0)
			passed := make(chan struct{})
			go func() {
				defer close(passed)
				defer janDone.Store(true)
				defer func() {
					if p := recover(); p != nil {
						janPanicked.Store(fmt.Sprint(p))
					}
				}()
				pool.VerifCleanup()
			}()
			if op.Janitor == "mid-pass" {
				select {
				case <-script.entered:
					r.MidPass++
				case <-passed:
				}
			}
		}
		for _, cl := range calls {
			go func(cl *phCall) {
				defer func() {
					if p := recover(); p != nil {
						cl.panicked = fmt.Sprint(p)
						cl.returned.Store(true)
					}
				}()
				cl.callAt = time.Since(t0)
				if cl.via == "pool.Shutdown" {
					pool.Shutdown()
				} else {
					lb.Stop()
				}
				cl.retAt = time.Since(t0)
				cl.returned.Store(true)
			}(cl)
		}
		for _, tr := range traffic {
			go func(tr *phTraffic) {
				defer func() {
					if p := recover(); p != nil {
						tr.panicked = fmt.Sprint(p)
					}
					tr.done.Store(true)
				}()
				switch tr.op.Kind {
				case "get":
					tr.got = pool.Get(lab.BackendHost(tr.op.B))
				default:
					tr.accepted = pool.Put(lab.BackendHost(tr.conn.c.backend), tr.conn.c)
				}
			}(tr)
		}
		synctest.Wait()
		all := true
		for _, cl := range calls {
			all = all && cl.returned.Load()
		}
		if !all {
			time.Sleep(min(to, budget) + eps)
			synctest.Wait()
		}
		for i, cl := range calls {
			if !cl.returned.Load() {
				r.Viol = fmt.Sprintf("op %d: %s call #%d (called at t0+%v) has not returned %v of virtual time later (configured shutdown timeout %v): shutdown does not complete; %s", opIdx, cl.via, i+1, cl.callAt, time.Since(t0)-cl.callAt, budget, pooled())
				return false
			}
			if cl.panicked != "" {
				r.Viol = fmt.Sprintf("op %d: %s call #%d panicked: %s", opIdx, cl.via, i+1, cl.panicked)
				return false
			}
			if c.Active && cl.retAt-cl.callAt > to+eps {
				r.Viol = fmt.Sprintf("op %d: %s call #%d took %v of virtual time; the probe timeout is %v; %s", opIdx, cl.via, i+1, cl.retAt-cl.callAt, to, pooled())
				return false
			}
			if cl.retAt-cl.callAt > budget {
				r.Viol = fmt.Sprintf("op %d: %s call #%d took %v of virtual time; the configured shutdown timeout is %v; %s", opIdx, cl.via, i+1, cl.retAt-cl.callAt, budget, pooled())
				return false
			}
		}
		if op.Janitor != "" {
			if p, _ := janPanicked.Load().(string); p != "" {
				r.Viol = fmt.Sprintf("op %d: the janitor pass running concurrently with the shutdown call(s) panicked: %s", opIdx, p)
				return false
			}
			if !janDone.Load() {
				r.Viol = fmt.Sprintf("op %d: the janitor pass running concurrently with the shutdown call(s) has not returned", opIdx)
				return false
			}
		}
		acceptedDuring := map[int]int{}
		for _, tr := range traffic {
			if !tr.done.Load() {
				r.Viol = fmt.Sprintf("op %d: a pool %s issued concurrently with the shutdown call(s) has not returned", opIdx, tr.op.Kind)
				return false
			}
			if tr.panicked != "" {
				r.Viol = fmt.Sprintf("op %d: a pool %s issued concurrently with the shutdown call(s) panicked: %s", opIdx, tr.op.Kind, tr.panicked)
				return false
			}
			if tr.op.Kind != "get" {
				if tr.accepted {
					tr.conn.state, tr.conn.putAtOp = phPooled, opIdx
					acceptedDuring[tr.conn.c.backend]++
				} else {
					tr.conn.state = phRefused
				}
			}
		}
		// Gets are booked after the Puts: a concurrent Get may hand out a connection that a concurrent Put stored
		for _, tr := range traffic {
			if tr.op.Kind == "get" && tr.got != nil && !handed(tr.got) {
				return false
			}
		}
		// P1
		for _, pc := range before {
			if pc.state != phPooled {
				continue // a concurrent Get handed it out
			}
			if pc.c.closed.Load() == 0 {
				r.Viol = fmt.Sprintf("op %d: after %v returned, connection #%d (backend %d; its Put at op %d was accepted, no Get handed it out since, so it was idle in the pool when the call was issued; %d shutdown call group(s) before this one) is still open",
					opIdx, op.Via, pc.id, pc.c.backend, pc.putAtOp, stopsSoFar)
				return false
			}
			pc.state = phDone
		}
		// P2
		for b := 0; b < c.N; b++ {
			idle, _ := pool.Stats(lab.BackendHost(b))
			if idle > acceptedDuring[b] {
				r.Viol = fmt.Sprintf("op %d: after %v returned, Stats(%s) reports %d idle pooled connection(s); %d Put(s) for that backend were accepted concurrently with the call (%d shutdown call group(s) before this one)",
					opIdx, op.Via, lab.BackendHost(b), idle, acceptedDuring[b], stopsSoFar)
				return false
			}
		}
		for _, tr := range traffic {
			if tr.conn != nil && tr.conn.state == phPooled && tr.conn.c.closed.Load() == 0 {
				r.LateLanded++
			}
		}
		stopsSoFar++
		r.StopGroups++
		if len(op.Via) > 1 {
			r.ConcStops++
		}
		if len(traffic) > 0 {
			r.ConcTraffic++
		}
		return true
	}

	ops := append(append([]phOp{}, c.Ops...), phOp{Kind: "stop", Via: []string{"lb.Stop"}})
	for i, op := range ops {
		switch op.Kind {
		case "put-new", "put-burst":
			for k := 0; k < max(op.Count, 1); k++ {
				pc := newConn(op)
				if pool.Put(lab.BackendHost(op.B), pc.c) {
					pc.state, pc.putAtOp = phPooled, i
				} else {
					pc.state = phRefused
				}
			}
		case "get":
			if got := pool.Get(lab.BackendHost(op.B)); got != nil {
				if !handed(got) {
					return
				}
			}
		case "put-back", "close-held":
			h := held()
			if len(h) == 0 {
				r.Noop++
				continue
			}
			pc := h[op.Pick%len(h)]
			if op.Kind == "close-held" {
				pool.Close(lab.BackendHost(pc.c.backend), pc.c)
				pc.state = phDone
			} else if pool.Put(lab.BackendHost(pc.c.backend), pc.c) {
				pc.state, pc.putAtOp = phPooled, i
			} else {
				pc.state = phRefused
			}
		case "advance":
			time.Sleep(time.Duration(op.Ms) * time.Millisecond)
			synctest.Wait()
		case "cleanup":
			pool.VerifCleanup()
		case "stop":
			if !runStop(i, op) {
				return
			}
		}
	}
}

func TestC19StopPoolHistories(t *testing.T) {
	const name = "stop-pool-history"
	sub := lab.Sub(name, "rapid histories in virtual time against the real balancer with websocket_pool enabled (1-3 backends, max_idle unset/1-4, idle_timeout unset/1 s/5 s/60 s/1 h, active probing off or on with probes answered or held; circuit breaker and passive checks on or off by draw, rate limiting on or off by draw when active probing is off - that balancer is built outside the bubble because of the limiter's janitor): 3-24 operations over "+
		"{Put of a fresh fake connection, a burst of 2-12 such Puts for one backend (Helios's default max_idle is 10), Get, Put back / Close of a connection obtained from Get, virtual time passes (1 ms .. idle timeout +-1 ms .. past the janitor tick), janitor pass, shutdown call} where a shutdown call is 1-3 concurrent calls of lb.Stop() or pool.Shutdown(), optionally with 1-3 pool operations (Put fresh, Get, Put back) issued concurrently, and optionally while a janitor pass of the pool is in progress (started together with the call(s), or the call(s) issued while the pass is inside the Close of a stale connection, a Close taking 1-800 scheduler yields; half of these right after what is idle went stale); a final lb.Stop() ends every history; "+
		"the other end of every fresh connection follows a drawn script - answers a Close frame at once / after 1 ms-60 s, alive but silent, alive but not reading (writes block), sends pings all the time, has closed (EOF / EPIPE), has reset - with reads and writes that block until the deadline set on the connection or its Close, as on a real TCP connection; server.timeouts.shutdown of the configuration is unset (30 s) or 1-10 s; "+
		"oracle after EVERY shutdown call (group) has returned: each connection that was idle in the pool when it was issued (Put accepted, not handed out since, not handed out by a concurrent Get) reports closed, Stats reports no idle connection beyond the Puts accepted concurrently with the call, no call panics, every call returns (within one probe timeout of virtual time when probing is on, and never later than the configured shutdown timeout - whatever the peers of the pooled connections do); "+
		"non-trivial = a repeat shutdown call (not the first of the history) is issued while at least one open connection is idle in the pool")
	sub.NontrivialFloor(0.40)
	sub.Floor("returned-between-stops", 0.15)
	sub.Floor("stop-with-concurrent-traffic", 0.25)
	sub.Floor("concurrent-stops", 0.25)
	sub.Floor("on=rate_limit", 0.20)
	sub.Floor("on=circuit_breaker", 0.35)
	sub.Floor("on=passive_checks", 0.35)
	sub.Floor("unresponsive-peer-idle-at-stop", 0.35)
	sub.Floor("idle-at-stop>=4", 0.15)
	lab.Assume("stop-pool-history: the peers of pooled connections are played by fake net.Conns that block, time out (deadlines are honoured, in virtual time), fail or answer as a TCP connection to such a peer would; a shutdown call that waits on a connection while pool operations queue on the pool's lock freezes the bubble and is reported by the real-time watchdog instead of the virtual-time bound")
	lab.Assume("stop-pool-history: the websocket pool is not wired into the proxy path, so 'a tunnel checks a connection out and returns it when its session ends' is played through the pool's exported Get/Put/Close with counting fake net.Conns; nothing is claimed about what Put/Get do after a shutdown, only that every shutdown call closes what is idle in the pool when it is issued")
	lab.Check(t, sub, 8000, 120000, func(rt *rapid.T) {
		c := genPoolHistory(rt)
		var r phResult
		wd := lab.StartWatchdogDetail(t.Name(), name, lab.NoProgress, func() any { return map[string]any{"case": c} }, func() string {
			if f, ok := r.live.Load().(func() string); ok {
				return f()
			}
			return ""
		})
		fn := lab.NewFakeNet()
		var panicked any
		var pre *loadbalancer.LoadBalancer
		if c.Rate && !c.Active {
			// the limiter's janitor never ends: this balancer is built outside the bubble
			var err error
			if pre, err = loadbalancer.NewLoadBalancer(c.config()); err != nil {
				wd.Stop()
				rt.Fatalf("harness: %v (case %+v)", err, c)
			}
		}
		fn.WithDefaultTransport(func() {
			r.Deadlock, panicked = runBubble(t, func() { c.inBubble(fn, &r, pre) })
		})
		if pre != nil {
			func() {
				defer func() { _ = recover() }() // a panicking Stop has been reported from inside the history
				pre.Stop()
			}()
		}
		wd.Stop()
		labels := []string{fmt.Sprintf("n=%d", c.N), fmt.Sprintf("max_idle=%d", c.MaxIdle), fmt.Sprintf("idle_timeout=%ds", c.IdleTimeoutS), fmt.Sprintf("stop-groups=%d", min(r.StopGroups, 6))}
		if c.Active {
			labels = append(labels, "active-probing")
		}
		for _, f := range []struct {
			on   bool
			name string
		}{{c.Rate, "rate_limit"}, {c.Breaker, "circuit_breaker"}, {c.Passive, "passive_checks"}} {
			if f.on {
				labels = append(labels, "on="+f.name)
			}
		}
		labels = append(labels, fmt.Sprintf("shutdown_timeout=%ds", c.ShutdownS))
		for _, k := range peerKinds {
			if r.Peers[k] {
				labels = append(labels, "peer="+k)
			}
		}
		if r.Unresponsive > 0 {
			labels = append(labels, "unresponsive-peer-idle-at-stop")
		}
		if r.MaxIdleAtStop >= 4 {
			labels = append(labels, "idle-at-stop>=4")
		}
		if r.OpenAtRepeat > 0 {
			labels = append(labels, "open-idle-at-repeat-stop")
		}
		if r.ReturnedIdle > 0 {
			labels = append(labels, "returned-between-stops")
		}
		if r.ConcTraffic > 0 {
			labels = append(labels, "stop-with-concurrent-traffic")
		}
		if r.ConcStops > 0 {
			labels = append(labels, "concurrent-stops")
		}
		if r.ConcJanitor > 0 {
			labels = append(labels, "stop-with-janitor-pass-in-progress")
		}
		if r.MidPass > 0 {
			labels = append(labels, "stop-while-janitor-closes-stale-connection")
		}
		if r.LateLanded > 0 {
			labels = append(labels, "put-landed-after-concurrent-stop")
		}
		if r.ClosedHandout > 0 {
			labels = append(labels, "closed-connection-handed-out(not-judged)")
		}
		for _, op := range c.Ops {
			if op.Kind == "stop" {
				for _, v := range op.Via {
					labels = append(labels, "via="+v)
				}
			}
		}
		sub.Case(c, r.OpenAtRepeat > 0, dedup(labels)...)
		switch {
		case r.Harness != "":
			rt.Fatalf("harness: %s (case %+v)", r.Harness, c)
		case r.Viol != "":
			rt.Fatalf("%s\ncase: %+v", r.Viol, c)
		case panicked != nil:
			rt.Fatalf("panic inside the bubble: %v\ncase: %+v", panicked, c)
		}
		// the pool's janitor goroutine legitimately outlives the bubble (r.Deadlock is not judged)
	})
}
