package c20

import (
	"fmt"
	"sync"
	"testing"

	"github.com/0xReLogic/Helios/internal/config"
	"github.com/0xReLogic/Helios/verifharness/lab"
	"pgregory.net/rapid"
)

// ---------------------------------------------------------------------------------------------
// Sub-check "tunnel-quiet-periods": sessions that stay quiet - in both directions, or in one while the
// other keeps talking - for longer than EVERY timeout the operator configured, and then go on.
//
// The statement: a session "relays every byte in both directions ... until either side closes". A
// period without traffic is not a close, whatever timers the configuration arms: after it the tunnel
// must still be open and must still relay in both directions. The lab therefore runs with the
// smallest values the configuration accepts (1 s; 0 means "not set" = the built-in default) for the
// server.timeouts fields and for the other configurable timers, so that a quiet period of 1.2-2.5 s
// of real time is longer than each of them. All that is asserted about time is "at least": the
// quiet period starts when everything sent before it has been received and lasts at least the drawn
// duration; nothing is asserted about how long anything takes except through the 5 s no-progress
// watchdog of the tunnel checks.
// ---------------------------------------------------------------------------------------------

type quietTimeouts struct {
	Read, Write, Idle, Handler, Shutdown, BackendDial, BackendRead, BackendIdle int
}

type quietLab struct {
	tunnelLab
	Timeouts  quietTimeouts `json:"server_timeouts_s"`     // 0 = not set (default applies), 1 = the smallest accepted value
	ActiveHC  bool          `json:"active_health_checks"`  // interval 2 s, timeout 1 s, backends answer 200
	PassiveHC bool          `json:"passive_health_checks"` // threshold 1, unhealthy_timeout 1 s
	Breaker   bool          `json:"circuit_breaker"`       // interval 1 s, timeout 1 s
	RateLimit bool          `json:"rate_limit"`            // 1000 tokens, refill 1 s
	WSPool    bool          `json:"websocket_pool"`        // idle_timeout 1 s
}

func (q quietLab) apply(cfg *config.Config) {
	t := &cfg.Server.Timeouts
	t.Read, t.Write, t.Idle, t.Handler, t.Shutdown = q.Timeouts.Read, q.Timeouts.Write, q.Timeouts.Idle, q.Timeouts.Handler, q.Timeouts.Shutdown
	t.BackendDial, t.BackendRead, t.BackendIdle = q.Timeouts.BackendDial, q.Timeouts.BackendRead, q.Timeouts.BackendIdle
	cfg.Logging.RequestID.Enabled, cfg.Logging.Trace.Enabled = q.ReqID, q.Trace
	if len(q.Chain) > 0 {
		cfg.Plugins.Enabled = true
		for _, p := range q.Chain {
			cfg.Plugins.Chain = append(cfg.Plugins.Chain, pluginConfig(p))
		}
	}
	if q.ActiveHC {
		cfg.HealthChecks.Active.Enabled = true
		cfg.HealthChecks.Active.Interval, cfg.HealthChecks.Active.Timeout, cfg.HealthChecks.Active.Path = 2, 1, healthPath
	}
	if q.PassiveHC {
		cfg.HealthChecks.Passive.Enabled = true
		cfg.HealthChecks.Passive.UnhealthyThreshold, cfg.HealthChecks.Passive.UnhealthyTimeout = 1, 1
	}
	if q.Breaker {
		cfg.CircuitBreaker.Enabled = true
		cfg.CircuitBreaker.FailureThreshold, cfg.CircuitBreaker.SuccessThreshold = 5, 1
		cfg.CircuitBreaker.IntervalSeconds, cfg.CircuitBreaker.TimeoutSeconds = 1, 1
	}
	if q.RateLimit {
		cfg.RateLimit.Enabled = true
		cfg.RateLimit.MaxTokens, cfg.RateLimit.RefillRate = 1000, 1
	}
	if q.WSPool {
		cfg.LoadBalancer.WebSocketPool.Enabled = true
		cfg.LoadBalancer.WebSocketPool.MaxIdle, cfg.LoadBalancer.WebSocketPool.MaxActive, cfg.LoadBalancer.WebSocketPool.IdleTimeoutSeconds = 2, 10, 1
	}
}

// tunnelTimersSet: every server.timeouts field that is armed on a connection of the session
// (client side: read, write, idle, handler; backend side: dial, read, idle) is configured.
func (q quietTimeouts) tunnelTimersSet() bool {
	return q.Read > 0 && q.Write > 0 && q.Idle > 0 && q.Handler > 0 && q.BackendDial > 0 && q.BackendRead > 0 && q.BackendIdle > 0
}

func genQuietLab(rt *rapid.T) quietLab {
	q := quietLab{tunnelLab: tunnelLab{Strategy: rapid.SampledFrom(lab.Strategies).Draw(rt, "strategy"), Backends: rapid.IntRange(1, 2).Draw(rt, "backends"),
		ReqID: rapid.Bool().Draw(rt, "reqid"), Trace: rapid.Bool().Draw(rt, "trace"), BigFrames: rapid.Bool().Draw(rt, "bigframes")}}
	nc := rapid.IntRange(0, 4).Draw(rt, "chainlen")
	for i := 0; i < nc; i++ {
		q.Chain = append(q.Chain, rapid.SampledFrom(pluginPool).Draw(rt, "plugin"))
	}
	if rapid.IntRange(0, 4).Draw(rt, "timeouts") < 4 {
		q.Timeouts = quietTimeouts{1, 1, 1, 1, 1, 1, 1, 1}
	} else {
		one := func(l string) int { return rapid.SampledFrom([]int{1, 1, 1, 0}).Draw(rt, l) }
		q.Timeouts = quietTimeouts{one("read"), one("write"), one("idle"), one("handler"), one("shutdown"), one("backend_dial"), one("backend_read"), one("backend_idle")}
	}
	q.ActiveHC = rapid.IntRange(0, 2).Draw(rt, "active_hc") == 0
	q.PassiveHC = rapid.IntRange(0, 2).Draw(rt, "passive_hc") == 0
	q.Breaker = rapid.IntRange(0, 2).Draw(rt, "breaker") == 0
	q.RateLimit = rapid.IntRange(0, 2).Draw(rt, "rate_limit") == 0
	q.WSPool = rapid.IntRange(0, 2).Draw(rt, "ws_pool") == 0
	return q
}

// genTrafficStep: traffic around the quiet periods (any size, the >= 64 KiB ones less often than in websocket-tunnel)
func genTrafficStep(rt *rapid.T) step {
	var st step
	switch k := rapid.IntRange(0, 9).Draw(rt, "op"); {
	case k < 3:
		st = genData(rt, "c-send")
	case k < 5:
		st = genData(rt, "c-send-echo")
	case k < 8:
		st = genData(rt, "b-send")
	case k < 9:
		return step{Op: "c-ping", Size: rapid.SampledFrom([]int{0, 1, 125}).Draw(rt, "pingsize"), Salt: rapid.IntRange(0, 255).Draw(rt, "salt")}
	default:
		return step{Op: "b-ping", Size: rapid.SampledFrom([]int{0, 1, 125}).Draw(rt, "pingsize"), Salt: rapid.IntRange(0, 255).Draw(rt, "salt")}
	}
	if st.Size >= 65535 && rapid.Bool().Draw(rt, "smaller") {
		st.Size = rapid.SampledFrom([]int{0, 1, 125, 126}).Draw(rt, "small_size")
	}
	return st
}

// genQuietConversation: traffic, quiet period, traffic in both directions, optionally a second quiet
// period and again traffic in both directions, then the close of genConversation.
func genQuietConversation(rt *rapid.T, chatter string) conversation {
	cv := genConversation(rt, 0) // close side / mode / burst
	pre := rapid.IntRange(0, 5).Draw(rt, "pre")
	for i := 0; i < pre; i++ {
		cv.Steps = append(cv.Steps, genTrafficStep(rt))
	}
	periods := rapid.SampledFrom([]int{1, 1, 2}).Draw(rt, "quiet_periods")
	for p := 0; p < periods; p++ {
		ch := chatter
		if p > 0 {
			ch = rapid.SampledFrom([]string{"", "client", "backend"}).Draw(rt, "chatter")
		}
		cv.Steps = append(cv.Steps, step{Op: "quiet", Ms: rapid.IntRange(1200, 2500).Draw(rt, "quiet_ms"), Chatter: ch, Salt: rapid.IntRange(0, 255).Draw(rt, "salt")})
		// after the quiet period: traffic in both directions, in a drawn order
		both := []step{genData(rt, "c-send-echo"), genData(rt, "b-send"), genData(rt, "c-send")}
		for _, i := range rapid.Permutation([]int{0, 1, 2}).Draw(rt, "after_order") {
			cv.Steps = append(cv.Steps, both[i])
		}
		post := rapid.IntRange(0, 3).Draw(rt, "post")
		for i := 0; i < post; i++ {
			cv.Steps = append(cv.Steps, genTrafficStep(rt))
		}
	}
	return cv
}

func TestC20TunnelQuietPeriods(t *testing.T) {
	const name = "tunnel-quiet-periods"
	sub := lab.Sub(name, "rapid: lab as in websocket-tunnel (5 strategies x 1-2 gorilla/websocket backends x plugin chain of length 0-4 x request_id/trace x single-frame/fragmented) whose configuration sets the server.timeouts fields {read, write, idle, handler, shutdown, backend_dial, backend_read, backend_idle} to 1 s, the smallest accepted value (all eight in 4 of 5 labs, otherwise each one 1 s or, 1 time in 4, unset), "+
		"and enables, each in 1 of 3 labs, active health checks (interval 2 s, timeout 1 s, origin answers 200), passive health checks (timeout 1 s), the circuit breaker (interval 1 s, timeout 1 s), the rate limiter (refill 1 s) and the websocket pool (idle timeout 1 s); the front http.Server gets read/write/idle timeouts from that configuration as cmd/helios does; "+
		"6 sessions run in parallel per lab, each: 0-5 messages (vocabulary of websocket-tunnel), then 1-2 quiet periods of AT LEAST 1.2-2.5 s of real time that begin once everything sent before has been received - silent in both directions, or only backend->client silent while the client keeps sending a small message every 200 ms, or only client->backend silent while the backend keeps sending (each session of a lab starts with a different one of the three) - "+
		"each followed by an echoed client message, an unsolicited backend message and a client message in a drawn order plus 0-3 more, then burst and close as in websocket-tunnel; "+
		"oracle: during a quiet period neither side's read ends (neither side closed), afterwards each side has received exactly what the other side's writer sent (so traffic flowed in both directions after the quiet period), pongs match pings, the close arrives, every wait is the 5 s no-progress watchdog; one case = one session; "+
		"non-trivial = every server.timeouts field that is armed on a connection of the session (read, write, idle, handler, backend_dial, backend_read, backend_idle) is configured (1 s), so every quiet period is longer than each of them")
	sub.NontrivialFloor(0.25) // a lab is 6 cases and the quick tier has 4 labs: the floor asks for at least one fully configured lab
	sub.Floor("quiet-both-directions", 0.25)
	sub.Floor("quiet-backend-to-client-only", 0.25)
	sub.Floor("quiet-client-to-backend-only", 0.25)
	lab.Assume("tunnel-quiet-periods runs on the real clock (timeouts of socket servers and transports cannot be virtualised): a quiet period is a real wait of at least the drawn 1.2-2.5 s, measured from the moment everything sent before it had been received, against configured timeouts of 1 s; no upper bound on any duration is assumed or asserted; timeouts left unset keep their defaults (15-90 s) and are not outlasted; an opening handshake that such a lab refuses (a starved machine can stretch it beyond a 1 s timeout, which Helios may then enforce) is retried up to 3 times, spaced by more than the configured timers, and reported only if it fails every time")
	const perCase = 6
	lab.Check(t, sub, 4, 96, func(rt *rapid.T) {
		q := genQuietLab(rt)
		// every lab has sessions of all three kinds
		kinds := rapid.Permutation([]string{"", "", "client", "client", "backend", "backend"}).Draw(rt, "kinds")
		convs := make([]conversation, perCase)
		for i := range convs {
			convs[i] = genQuietConversation(rt, kinds[i])
		}
		l, err := newWSLab(q.Strategy, q.Backends, q.apply)
		if err != nil {
			if envProblem(err.Error()) {
				return
			}
			rt.Fatalf("harness: %v", err)
		}
		defer l.Close()
		viols := make([]string, perCase)
		var wg sync.WaitGroup
		for i := range convs {
			wg.Add(1)
			go func(i int) {
				defer wg.Done()
				viols[i] = runTaggedConversation(l, q.tunnelLab, convs[i], fmt.Sprintf("s%d", i))
			}(i)
		}
		wg.Wait()
		for _, v := range viols {
			if envProblem(v) {
				return
			}
		}
		first := -1
		for i, cv := range convs {
			labels, _ := tunnelLabels(q.tunnelLab, cv)
			periods, maxMs := 0, 0
			for _, st := range cv.Steps {
				if st.Op != "quiet" {
					continue
				}
				periods++
				maxMs = max(maxMs, st.Ms)
				switch st.Chatter {
				case "":
					labels = append(labels, "quiet-both-directions")
				case "client":
					labels = append(labels, "quiet-backend-to-client-only")
				case "backend":
					labels = append(labels, "quiet-client-to-backend-only")
				}
			}
			labels = append(labels, fmt.Sprintf("quiet-periods=%d", periods))
			if maxMs > 2000 {
				labels = append(labels, "quiet>2s(active-probe-interval)")
			}
			if q.Timeouts == (quietTimeouts{1, 1, 1, 1, 1, 1, 1, 1}) {
				labels = append(labels, "all-server-timeouts-1s")
			}
			for k, on := range []bool{q.ActiveHC, q.PassiveHC, q.Breaker, q.RateLimit, q.WSPool} {
				if on {
					labels = append(labels, []string{"active-hc", "passive-hc", "breaker", "rate-limit", "ws-pool"}[k])
				}
			}
			sub.Case(map[string]any{"lab": q, "session": i, "conversation": cv}, q.Timeouts.tunnelTimersSet(), uniq(labels)...)
			if viols[i] != "" && first < 0 {
				first = i
			}
		}
		if first >= 0 {
			rt.Fatalf("lab %+v\nsession #%d (of %d in parallel): %d steps %+v\nclose %+v\n=> %s", q, first, perCase, len(convs[first].Steps), convs[first].Steps, convs[first].Close, viols[first])
		}
		if p := l.panicLines(); len(p) > 0 {
			rt.Fatalf("handler panicked: %v", p)
		}
	})
}

func uniq(in []string) []string {
	seen := map[string]bool{}
	var out []string
	for _, s := range in {
		if !seen[s] {
			seen[s] = true
			out = append(out, s)
		}
	}
	return out
}
