package c20

import (
	"fmt"
	"runtime"
	"sort"
	"strings"
	"sync"
	"sync/atomic"
	"testing"
	"time"

	"github.com/0xReLogic/Helios/verifharness/lab"
	"github.com/anishathalye/porcupine"
	"pgregory.net/rapid"
)

// ---------------------------------------------------------------------------------------------
// Concurrent form: scripted actors on real threads against one pool; exclusivity by an atomic owner
// mark on every fake connection, idle bound through Stats, every history checked for linearizability
// against a sequential specification that says no more than the statement.
// ---------------------------------------------------------------------------------------------

type actorOp struct {
	Op string `json:"op"` // put-fresh | put-held | get | close | stats | cleanup | shutdown
	B  int    `json:"b"`
	// put-fresh: index into closeKinds (conn_kinds.go) - what the freshly dialled connection reports when
	// it is closed; 0 = nil. Delays of the catalogue are dropped in this real-clock form (close_spin stands in).
	Close int `json:"close,omitempty"`
}

type concCase struct {
	Backends int         `json:"backends"`
	MaxIdle  int         `json:"max_idle"`
	Scripts  [][]actorOp `json:"scripts"` // one per actor
	Spin     int         `json:"close_spin"`
}

// one recorded call
type callIn struct {
	Op   string
	B    int
	Conn int // connection argument (put, close) / observed connection (observe)
}
type callOut struct {
	OK     bool // put: accepted
	Conn   int  // get: connection id, 0 = nil
	Idle   int  // stats
	Closed bool // observe
}

type concResult struct {
	ops     []porcupine.Operation
	viol    string
	conns   []*fakeConn
	leaked  []int // accepted by the pool, never handed out again, still open after the final shutdown
	overlap bool  // some put overlapped a shutdown in real time
	// every leaked connection was accepted by a put that overlapped a non-final shutdown
	orphanSignature bool
}

// runConc executes the scripts. All actors are released by a spin barrier.
func runConc(c concCase) concResult {
	var res concResult
	pool, stale := cachedPool(c.MaxIdle, 0, time.Hour, c.Backends) // nothing goes stale: time does not pass in this form
	if stale != "" {
		res.viol = stale
		return res
	}
	var clock, nextID int64
	var mu sync.Mutex // protects res (appended after each call, outside the measured interval)
	violate := func(format string, a ...any) {
		mu.Lock()
		if res.viol == "" {
			res.viol = fmt.Sprintf(format, a...)
		}
		mu.Unlock()
	}
	record := func(actor int, in callIn, out callOut, call, ret int64) {
		mu.Lock()
		res.ops = append(res.ops, porcupine.Operation{ClientId: actor, Input: in, Call: call, Output: out, Return: ret})
		mu.Unlock()
	}
	var ready, goFlag int32
	var wg sync.WaitGroup
	for a := range c.Scripts {
		wg.Add(1)
		go func(a int) {
			defer wg.Done()
			held := map[int][]*fakeConn{} // by backend
			fresh := func(b, kind int) *fakeConn {
				fc, _, _ := newConn(int(atomic.AddInt64(&nextID, 1)), b, closeKinds[kind], false) // fake kinds only: no peer, no error
				fc.spin = c.Spin
				fc.owner.Store(int32(a + 1))
				mu.Lock()
				res.conns = append(res.conns, fc)
				mu.Unlock()
				return fc
			}
			atomic.AddInt32(&ready, 1)
			for atomic.LoadInt32(&goFlag) == 0 {
				runtime.Gosched()
			}
			for _, op := range c.Scripts[a] {
				key := backendKey(op.B)
				switch op.Op {
				case "put-fresh", "put-held":
					var fc *fakeConn
					if hs := held[op.B]; op.Op == "put-held" && len(hs) > 0 {
						fc, held[op.B] = hs[0], hs[1:]
					} else {
						fc = fresh(op.B, op.Close)
					}
					fc.owner.Store(0) // given up before the call: the pool may hand it out at once
					call := atomic.AddInt64(&clock, 1)
					ok := pool.Put(key, fc)
					ret := atomic.AddInt64(&clock, 1)
					if !ok {
						if !fc.isClosed() {
							violate("actor %d: put(%d, connection %d) was refused but the connection was left open", a, op.B, fc.ID)
						}
					}
					record(a, callIn{"put", op.B, fc.ID}, callOut{OK: ok}, call, ret)
				case "get":
					call := atomic.AddInt64(&clock, 1)
					nc := pool.Get(key)
					ret := atomic.AddInt64(&clock, 1)
					out := callOut{}
					if nc != nil {
						fc := nc.(*fakeConn)
						out.Conn = fc.ID
						if !fc.owner.CompareAndSwap(0, int32(a+1)) {
							violate("actor %d: get(%d) returned connection %d while actor %d holds it (one connection, two holders)", a, op.B, fc.ID, fc.owner.Load()-1)
						}
						if fc.isClosed() {
							violate("actor %d: get(%d) returned connection %d, which is closed", a, op.B, fc.ID)
						}
						held[fc.Backend] = append(held[fc.Backend], fc)
					}
					record(a, callIn{"get", op.B, 0}, out, call, ret)
				case "close":
					hs := held[op.B]
					if len(hs) == 0 {
						continue
					}
					fc := hs[0]
					held[op.B] = hs[1:]
					call := atomic.AddInt64(&clock, 1)
					pool.Close(key, fc)
					ret := atomic.AddInt64(&clock, 1)
					record(a, callIn{"close", op.B, fc.ID}, callOut{}, call, ret)
				case "stats":
					call := atomic.AddInt64(&clock, 1)
					idle, _ := pool.Stats(key)
					ret := atomic.AddInt64(&clock, 1)
					if idle > c.MaxIdle {
						violate("actor %d: Stats(%d) reports %d idle connections, max_idle is %d", a, op.B, idle, c.MaxIdle)
					}
					record(a, callIn{"stats", op.B, 0}, callOut{Idle: idle}, call, ret)
				case "cleanup":
					pool.VerifCleanup() // nothing is stale; runs for its locking only
				case "shutdown":
					call := atomic.AddInt64(&clock, 1)
					pool.Shutdown()
					ret := atomic.AddInt64(&clock, 1)
					record(a, callIn{"shutdown", 0, 0}, callOut{}, call, ret)
				}
			}
		}(a)
	}
	for atomic.LoadInt32(&ready) < int32(len(c.Scripts)) {
		runtime.Gosched()
	}
	atomic.StoreInt32(&goFlag, 1)
	wg.Wait()
	// quiescent end: shutdown, then look at every connection
	call := atomic.AddInt64(&clock, 1)
	pool.Shutdown()
	ret := atomic.AddInt64(&clock, 1)
	res.ops = append(res.ops, porcupine.Operation{ClientId: len(c.Scripts), Input: callIn{"shutdown", 0, 0}, Output: callOut{}, Call: call, Return: ret})
	for b := 0; b < c.Backends; b++ {
		if idle, active := pool.Stats(backendKey(b)); idle != 0 || active != 0 {
			violate("after the final shutdown Stats(%d) = %d idle / %d active, want 0/0", b, idle, active)
		}
	}
	sort.Slice(res.conns, func(i, j int) bool { return res.conns[i].ID < res.conns[j].ID })
	// a connection's life alternates put-accepted / get, so it is in the pool at the end iff it was
	// accepted once more often than it was handed out
	inPool := map[int]int{}
	for _, o := range res.ops {
		switch in, out := o.Input.(callIn), o.Output.(callOut); {
		case in.Op == "put" && out.OK:
			inPool[in.Conn]++
		case in.Op == "get" && out.Conn != 0:
			inPool[out.Conn]--
		}
	}
	for _, fc := range res.conns {
		t := atomic.AddInt64(&clock, 1)
		res.ops = append(res.ops, porcupine.Operation{ClientId: len(c.Scripts), Input: callIn{"observe", fc.Backend, fc.ID}, Output: callOut{Closed: fc.isClosed()}, Call: t, Return: atomic.AddInt64(&clock, 1)})
		if inPool[fc.ID] > 0 && !fc.isClosed() {
			res.leaked = append(res.leaked, fc.ID)
		}
	}
	// did a put overlap a (non-final) shutdown? and is every leaked connection one of those?
	overlapping := map[int]bool{}
	for _, s := range res.ops {
		if s.Input.(callIn).Op != "shutdown" {
			continue
		}
		for _, p := range res.ops {
			if p.Input.(callIn).Op == "put" && p.Call < s.Return && s.Call < p.Return {
				res.overlap = true
				if p.Output.(callOut).OK {
					overlapping[p.Input.(callIn).Conn] = true
				}
			}
		}
	}
	res.orphanSignature = len(res.leaked) > 0
	for _, id := range res.leaked {
		if !overlapping[id] {
			res.orphanSignature = false
		}
	}
	return res
}

// ---- sequential specification (relaxed to what the statement promises) --------------------------
//
// state: the set of connections the pool holds idle per backend, and the set of closed connections.
//   put(b,c) -> accepted : only if fewer than max_idle are idle for b; c becomes idle
//   put(b,c) -> refused  : always possible; c is closed
//   get(b)   -> c        : only if c is idle for b; c leaves the pool
//   get(b)   -> nil      : always possible
//   close(b,c)           : c is closed
//   stats(b) -> i        : i <= max_idle
//   shutdown             : every idle connection is closed, nothing stays idle
//   observe(c) -> closed : closed <=> c is in the closed set

type specState struct {
	idle   string // "b:id,id|b:id" sorted
	closed string // ",id,id," sorted
}

func parseIdle(s string) map[int][]int {
	out := map[int][]int{}
	if s == "" {
		return out
	}
	for _, part := range strings.Split(s, "|") {
		var b int
		var rest string
		i := strings.IndexByte(part, ':')
		fmt.Sscanf(part[:i], "%d", &b)
		rest = part[i+1:]
		for _, x := range strings.Split(rest, ",") {
			var id int
			fmt.Sscanf(x, "%d", &id)
			out[b] = append(out[b], id)
		}
	}
	return out
}

func formatIdle(m map[int][]int) string {
	var bs []int
	for b, ids := range m {
		if len(ids) > 0 {
			bs = append(bs, b)
		}
	}
	sort.Ints(bs)
	var parts []string
	for _, b := range bs {
		ids := append([]int(nil), m[b]...)
		sort.Ints(ids)
		ss := make([]string, len(ids))
		for i, id := range ids {
			ss[i] = fmt.Sprint(id)
		}
		parts = append(parts, fmt.Sprintf("%d:%s", b, strings.Join(ss, ",")))
	}
	return strings.Join(parts, "|")
}

func addClosed(closed string, ids ...int) string {
	if closed == "" {
		closed = ","
	}
	var all []int
	for _, x := range strings.Split(strings.Trim(closed, ","), ",") {
		if x != "" {
			var id int
			fmt.Sscanf(x, "%d", &id)
			all = append(all, id)
		}
	}
	all = append(all, ids...)
	sort.Ints(all)
	var sb strings.Builder
	sb.WriteByte(',')
	last := -1
	for _, id := range all {
		if id == last {
			continue
		}
		last = id
		fmt.Fprintf(&sb, "%d,", id)
	}
	return sb.String()
}

func poolSpec(maxIdle int) porcupine.Model {
	return porcupine.Model{
		Init: func() interface{} { return specState{closed: ","} },
		Step: func(state, input, output interface{}) (bool, interface{}) {
			st, in, out := state.(specState), input.(callIn), output.(callOut)
			switch in.Op {
			case "put":
				if !out.OK {
					return true, specState{st.idle, addClosed(st.closed, in.Conn)}
				}
				m := parseIdle(st.idle)
				if len(m[in.B]) >= maxIdle {
					return false, st
				}
				m[in.B] = append(m[in.B], in.Conn)
				return true, specState{formatIdle(m), st.closed}
			case "get":
				if out.Conn == 0 {
					return true, st
				}
				m := parseIdle(st.idle)
				for i, id := range m[in.B] {
					if id == out.Conn {
						m[in.B] = append(m[in.B][:i:i], m[in.B][i+1:]...)
						return true, specState{formatIdle(m), st.closed}
					}
				}
				return false, st
			case "close":
				return true, specState{st.idle, addClosed(st.closed, in.Conn)}
			case "stats":
				return out.Idle <= maxIdle, st
			case "shutdown":
				var ids []int
				for _, l := range parseIdle(st.idle) {
					ids = append(ids, l...)
				}
				return true, specState{"", addClosed(st.closed, ids...)}
			case "observe":
				isClosed := strings.Contains(st.closed, fmt.Sprintf(",%d,", in.Conn))
				return out.Closed == isClosed, st
			}
			return false, st
		},
		DescribeOperation: func(input, output interface{}) string {
			return fmt.Sprintf("%+v -> %+v", input, output)
		},
	}
}

func describeOps(ops []porcupine.Operation) string {
	sorted := append([]porcupine.Operation(nil), ops...)
	sort.Slice(sorted, func(i, j int) bool { return sorted[i].Call < sorted[j].Call })
	var sb strings.Builder
	for _, o := range sorted {
		in, out := o.Input.(callIn), o.Output.(callOut)
		if in.Op == "observe" && out.Closed {
			continue
		}
		fmt.Fprintf(&sb, "\n  [%d..%d] actor %d: %s b=%d conn=%d -> ok=%v conn=%d idle=%d closed=%v", o.Call, o.Return, o.ClientId, in.Op, in.B, in.Conn, out.OK, out.Conn, out.Idle, out.Closed)
	}
	return sb.String()
}

var orphanSeen int

// judge applies the oracles to one executed history; open = the Shutdown-vs-Put finding is open.
func judge(sub *lab.SubCheck, c concCase, res concResult) (viol string, labels []string) {
	if res.viol != "" {
		return res.viol, nil
	}
	orphanRegion := false
	if len(res.leaked) > 0 {
		if lab.Open("shutdown-put-orphan") && res.orphanSignature {
			// open finding: a put that overlapped a shutdown left its connection in a pool object the
			// pool no longer knows; excluded (counted), the rest of the history is still judged
			orphanRegion = true
			orphanSeen++
			sub.Excluded("shutdown-put-orphan")
		} else {
			failing := ""
			for _, fc := range res.conns {
				if fc.closeFails() {
					failing += fmt.Sprintf(" %d (%s)", fc.ID, fc.closeReport())
				}
			}
			if failing != "" {
				failing = "; connections of this history whose Close reports an error:" + failing
			}
			return fmt.Sprintf("after the final shutdown connection(s) %v are still open although the pool accepted them (put returned true) and never handed them out again%s%s", res.leaked, failing, describeOps(res.ops)), nil
		}
	}
	if !orphanRegion {
		r := porcupine.CheckOperationsTimeout(poolSpec(c.MaxIdle), res.ops, 2*time.Second)
		switch r {
		case porcupine.Illegal:
			return "the history is not linearizable with respect to the pool specification (put accepted only below max_idle, get returns only idle connections, shutdown closes all idle connections)" + describeOps(res.ops), nil
		case porcupine.Unknown:
			labels = append(labels, "linearizability-undecided-in-2s")
		default:
			labels = append(labels, "linearizable")
		}
	}
	if res.overlap {
		labels = append(labels, "put-overlaps-shutdown")
	}
	return "", labels
}

// genCloseKind: 65 % of freshly dialled connections close cleanly, the others report one of the
// catalogue's errors from Close (and are closed all the same).
func genCloseKind(rt *rapid.T) int {
	if rapid.IntRange(0, 99).Draw(rt, "closekind") < 65 {
		return kindClean
	}
	return rapid.IntRange(kindErrFirst, kindErrLast).Draw(rt, "errkind")
}

func genConc(rt *rapid.T) concCase {
	c := concCase{Backends: rapid.IntRange(1, 2).Draw(rt, "backends"), MaxIdle: rapid.IntRange(0, 3).Draw(rt, "maxidle"),
		Spin: rapid.SampledFrom([]int{0, 0, 50, 400}).Draw(rt, "spin")}
	actors := rapid.IntRange(2, 16).Draw(rt, "actors")
	shutdowns := 0
	for a := 0; a < actors; a++ {
		n := rapid.IntRange(1, 8).Draw(rt, "ops")
		var s []actorOp
		for i := 0; i < n; i++ {
			b := rapid.IntRange(0, c.Backends-1).Draw(rt, "b")
			k := rapid.IntRange(0, 99).Draw(rt, "kind")
			switch {
			case k < 25:
				s = append(s, actorOp{Op: "put-fresh", B: b, Close: genCloseKind(rt)})
			case k < 40:
				// falls back to a fresh connection when the actor holds none at that point
				s = append(s, actorOp{Op: "put-held", B: b, Close: genCloseKind(rt)})
			case k < 70:
				s = append(s, actorOp{Op: "get", B: b})
			case k < 78:
				s = append(s, actorOp{Op: "close", B: b})
			case k < 88:
				s = append(s, actorOp{Op: "stats", B: b})
			case k < 93:
				s = append(s, actorOp{Op: "cleanup", B: b})
			default:
				if shutdowns < 2 {
					shutdowns++
					s = append(s, actorOp{Op: "shutdown", B: 0})
				} else {
					s = append(s, actorOp{Op: "get", B: b})
				}
			}
		}
		c.Scripts = append(c.Scripts, s)
	}
	return c
}

func TestC20PoolConcurrent(t *testing.T) {
	const name = "pool-concurrent-histories"
	sub := lab.Sub(name, "rapid-drawn scripts for 2-16 actors (1-8 operations each over {put fresh, put held, get, close held, stats, cleanup, shutdown (at most 2)}), 1-2 backends, max_idle 0..3, executed on real threads released by a spin barrier against one pool "+
		"(fake connections whose Close costs 0/50/400 busy iterations and, for 35 % of the freshly dialled ones, reports an error - TLS close_notify undeliverable, connection reset, use of closed connection, bare I/O error - while closing all the same; the race detector is on for the package); oracle: an atomic owner mark on every connection (a get that returns a connection whose mark is set = two holders), a returned connection is not closed, "+
		"a refused put has closed its connection, Stats idle <= max_idle at every call, after a final quiescent shutdown every accepted and not re-issued connection is closed and Stats is 0/0, and the recorded call/return history is linearizable "+
		"(porcupine) w.r.t. a specification that only states the property; non-trivial = some get returned a connection, or a shutdown ran concurrently with other actors")
	sub.NontrivialFloor(0.50)
	lab.Assume("concurrent pool histories run on the real clock with idle_timeout 1 h (nothing is stale); interleavings are sampled by real parallelism, not enumerated; not replayable step by step")
	lab.Check(t, sub, 1500, 40000, func(rt *rapid.T) {
		c := genConc(rt)
		res := runConc(c)
		viol, labels := judge(sub, c, res)
		hit, sd := false, false
		for _, o := range res.ops {
			if o.Input.(callIn).Op == "get" && o.Output.(callOut).Conn != 0 {
				hit = true
			}
		}
		for _, s := range c.Scripts {
			for _, op := range s {
				if op.Op == "shutdown" {
					sd = true
				}
			}
		}
		if hit {
			labels = append(labels, "get-hit")
		}
		sawErr := false
		for _, fc := range res.conns {
			if e, _ := fc.lastErr.Load().(string); e != "" {
				sawErr = true
			}
		}
		if sawErr {
			labels = append(labels, "pool-saw-close-error")
		}
		if sd {
			labels = append(labels, "concurrent-shutdown")
		}
		labels = append(labels, fmt.Sprintf("actors-%d", len(c.Scripts)))
		sub.Case(c, hit || sd, labels...)
		if viol != "" {
			rt.Fatalf("pool max_idle=%d backends=%d close_spin=%d scripts=%+v\n=> %s", c.MaxIdle, c.Backends, c.Spin, c.Scripts, viol)
		}
	})
}
