package c20

import (
	"crypto/ecdsa"
	"crypto/elliptic"
	"crypto/rand"
	"crypto/tls"
	"crypto/x509"
	"crypto/x509/pkix"
	"errors"
	"fmt"
	"io"
	"math/big"
	"net"
	"os"
	"sync"
	"syscall"
	"time"
)

// ---------------------------------------------------------------------------------------------
// How a pooled connection behaves when the pool acts on it.
//
// The pool only ever does one thing to a connection it owns: Close it (a refused Put, a stale entry
// met by Get or the janitor, Close, Shutdown). What that call does is a property of the connection,
// not of the pool: a plain TCP socket returns nil at once; a *tls.Conn whose peer has gone reports
// that close_notify could not be delivered ("but connection was closed anyway"); one whose peer is
// alive but not reading takes its 5 s alert deadline and then reports a timeout; a socket that was
// reset or torn down underneath reports ECONNRESET / "use of closed network connection"; a lingering
// socket simply takes time. In every one of these the connection IS closed when Close returns - the
// error only says the goodbye was not clean. The statement's pool clauses ("closes everything it holds
// on shutdown", a refused Put / a stale entry is closed, ...) quantify over connections, so over all
// of these.
// ---------------------------------------------------------------------------------------------

type closeKind struct {
	Name  string
	Err   func() error  // what Close reports (nil = clean)
	Delay time.Duration // time spent inside Close; only used in virtual time (sequential form)
	Real  string        // "" = fake; otherwise a real connection is built and wrapped (see dialReal)
}

func errCloseNotify() error {
	return fmt.Errorf("tls: failed to send closeNotify alert (but connection was closed anyway): %w",
		&net.OpError{Op: "write", Net: "tcp", Err: os.NewSyscallError("write", syscall.EPIPE)})
}
func errReset() error {
	return &net.OpError{Op: "close", Net: "tcp", Err: os.NewSyscallError("close", syscall.ECONNRESET)}
}
func errUseOfClosed() error { return &net.OpError{Op: "close", Net: "tcp", Err: net.ErrClosed} }
func errTimeout() error {
	return fmt.Errorf("tls: failed to send closeNotify alert (but connection was closed anyway): %w",
		&net.OpError{Op: "write", Net: "tcp", Err: os.ErrDeadlineExceeded})
}
func errBare() error { return errors.New("close: input/output error") }

// closeKinds is the catalogue; index 0 is the behaviour every connection had before this dimension
// existed. The first fakeKinds entries need nothing but the fake; the rest wrap real connections.
var closeKinds = []closeKind{
	{Name: "clean"},
	{Name: "err-tls-close-notify", Err: errCloseNotify},
	{Name: "err-conn-reset", Err: errReset},
	{Name: "err-use-of-closed", Err: errUseOfClosed},
	{Name: "err-bare", Err: errBare},
	{Name: "slow-1ms", Delay: time.Millisecond},
	{Name: "slow-200ms", Delay: 200 * time.Millisecond},
	{Name: "slow-1s", Delay: time.Second},
	{Name: "slow-5s", Delay: 5 * time.Second},
	{Name: "slow-5s-then-timeout", Delay: 5 * time.Second, Err: errTimeout},
	{Name: "slow-1s-then-reset", Delay: time.Second, Err: errReset},
	{Name: "real-pipe", Real: "pipe"},
	{Name: "real-tls-live-peer", Real: "tls-live"},
	{Name: "real-tls-dead-peer", Real: "tls-dead"},
}

// index ranges of the catalogue
const (
	kindClean     = 0
	kindErrFirst  = 1
	kindErrLast   = 4
	kindSlowFirst = 5
	kindSlowLast  = 10
	kindRealFirst = 11
	kindRealLast  = 13
)

func (k closeKind) slow() bool { return k.Delay > 0 }

var tlsOnce struct {
	sync.Once
	cert tls.Certificate
	err  error
}

// labCert is a self-signed certificate made once per process.
func labCert() (tls.Certificate, error) {
	tlsOnce.Do(func() {
		key, err := ecdsa.GenerateKey(elliptic.P256(), rand.Reader)
		if err != nil {
			tlsOnce.err = err
			return
		}
		tmpl := &x509.Certificate{
			SerialNumber: big.NewInt(20),
			Subject:      pkix.Name{CommonName: "c20-backend"},
			NotBefore:    time.Unix(0, 0),
			NotAfter:     time.Date(2099, 1, 1, 0, 0, 0, 0, time.UTC),
			KeyUsage:     x509.KeyUsageDigitalSignature,
			ExtKeyUsage:  []x509.ExtKeyUsage{x509.ExtKeyUsageServerAuth},
		}
		der, err := x509.CreateCertificate(rand.Reader, tmpl, tmpl, &key.PublicKey, key)
		if err != nil {
			tlsOnce.err = err
			return
		}
		tlsOnce.cert = tls.Certificate{Certificate: [][]byte{der}, PrivateKey: key}
	})
	return tlsOnce.cert, tlsOnce.err
}

// realConn is a real connection to a scripted peer, to be wrapped in a fakeConn (which records the
// Close call and passes on what the real Close reports). release ends the peer and whatever else the
// harness started for it; it is harness housekeeping for the end of a case, not part of the history.
type realConn struct {
	conn    net.Conn
	release func()
}

// dialReal builds the connection for a real kind (net.Pipe, no sockets). It must be called OUTSIDE a
// synctest bubble: the pool's janitor goroutine lives outside every bubble and may close any pooled
// connection, and a channel born inside a bubble must not be touched from outside it. (That is also why
// a TLS peer that is alive but does not read - Close then waits 5 s for its alert deadline and reports a
// timeout - is only emulated by the fake kind slow-5s-then-timeout: on real connections made outside a
// bubble it would cost 5 s of real time.)
//
//	pipe      a plain in-memory connection; Close returns nil
//	tls-live  TLS 1.2 session whose peer keeps reading: close_notify is delivered, Close returns nil
//	tls-dead  the peer's socket is gone: close_notify cannot be written, Close reports it
func dialReal(kind string) (realConn, error) {
	cliRaw, srvRaw := net.Pipe()
	if kind == "pipe" {
		return realConn{conn: cliRaw, release: func() { _ = cliRaw.Close(); _ = srvRaw.Close() }}, nil
	}
	cert, err := labCert()
	if err != nil {
		return realConn{}, err
	}
	srv := tls.Server(srvRaw, &tls.Config{Certificates: []tls.Certificate{cert}, MaxVersion: tls.VersionTLS12})
	cli := tls.Client(cliRaw, &tls.Config{InsecureSkipVerify: true, MaxVersion: tls.VersionTLS12})
	hs := make(chan error, 1)
	go func() { hs <- srv.Handshake() }()
	if err := cli.Handshake(); err != nil {
		_ = cliRaw.Close()
		_ = srvRaw.Close()
		<-hs
		return realConn{}, fmt.Errorf("client handshake: %w", err)
	}
	if err := <-hs; err != nil {
		_ = cliRaw.Close()
		_ = srvRaw.Close()
		return realConn{}, fmt.Errorf("server handshake: %w", err)
	}
	rc := realConn{conn: cli}
	switch kind {
	case "tls-live":
		done := make(chan struct{})
		go func() { // the backend reads until the session ends, then closes its side
			defer close(done)
			_, _ = io.Copy(io.Discard, srv)
			_ = srvRaw.Close()
		}()
		rc.release = func() { _ = cliRaw.Close(); _ = srvRaw.Close(); <-done }
	case "tls-dead":
		_ = srvRaw.Close() // the backend went away without saying goodbye
		rc.release = func() { _ = cliRaw.Close() }
	default:
		return realConn{}, fmt.Errorf("unknown real connection kind %q", kind)
	}
	return rc, nil
}

// newConn makes connection id for backend b with close behaviour k. virtualDelays: Close may spend
// k.Delay of (virtual) time; false = delays are dropped (real-clock forms).
func newConn(id, b int, k closeKind, virtualDelays bool) (*fakeConn, func(), error) {
	fc := &fakeConn{ID: id, Backend: b, kind: k.Name}
	if k.Err != nil {
		fc.closeErr = k.Err()
	}
	if virtualDelays {
		fc.delay = k.Delay
	}
	if k.Real == "" {
		return fc, nil, nil
	}
	rc, err := dialReal(k.Real)
	if err != nil {
		return nil, nil, err
	}
	fc.inner = rc.conn
	return fc, func() { fc.released.Store(true); rc.release() }, nil
}
