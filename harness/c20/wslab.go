package c20

import (
	"bytes"
	"context"
	"errors"
	"fmt"
	"log"
	"net"
	"net/http"
	"strings"
	"sync"
	"sync/atomic"
	"syscall"
	"time"

	"github.com/0xReLogic/Helios/internal/config"
	"github.com/0xReLogic/Helios/internal/loadbalancer"
	"github.com/0xReLogic/Helios/verifharness/lab"
	"github.com/gorilla/websocket"
)

// ---------------------------------------------------------------------------------------------
// A socket lab like lab.NewSocketLab (real http.Server in front of the real handler chain built by
// lab.BuildHandler), but with gorilla/websocket servers as backends.
// ---------------------------------------------------------------------------------------------

type syncBuffer struct {
	mu sync.Mutex
	b  bytes.Buffer
}

func (s *syncBuffer) Write(p []byte) (int, error) {
	s.mu.Lock()
	defer s.mu.Unlock()
	return s.b.Write(p)
}
func (s *syncBuffer) String() string { s.mu.Lock(); defer s.mu.Unlock(); return s.b.String() }

// wsBackend is one WebSocket origin server.
type wsBackend struct {
	index    int
	ln       net.Listener
	srv      *http.Server
	accepted chan *peer // every upgraded session is handed to the test here
	notify   chan struct{}
	refused  atomic.Int64
}

func (b *wsBackend) url() string { return "http://" + b.ln.Addr().String() }

var upgrader = websocket.Upgrader{ReadBufferSize: 4096, WriteBufferSize: 4096, Subprotocols: []string{"chat.v1"},
	CheckOrigin: func(r *http.Request) bool { return true }}

func (b *wsBackend) ServeHTTP(w http.ResponseWriter, r *http.Request) {
	if r.URL.Path == healthPath { // active health probes of labs that enable them: the origin is healthy
		w.WriteHeader(http.StatusOK)
		return
	}
	up := upgrader
	if r.Header.Get("X-Verif-Bigframes") == "1" {
		up.WriteBufferSize = 256 << 10 // whole messages as single frames (16-bit and 64-bit length encodings)
	}
	// the scripted part of the answer (handshake.go): a pause, interim responses, further fields on the 101
	ans := parseAnswer(r)
	ans.sendInterim(w)
	up.EnableCompression = ans.Deflate
	rh := http.Header{"X-Backend": {fmt.Sprint(b.index)}}
	for _, kv := range ans.Extra {
		rh.Add(kv[0], kv[1])
	}
	c, err := up.Upgrade(w, r, rh)
	if err != nil {
		b.refused.Add(1)
		return
	}
	p := newPeer(fmt.Sprintf("backend%d", b.index), c, b.notify)
	p.handshake = r.Header.Clone()
	p.echoAll = r.Header.Get("X-Verif-Echo-All") == "1" // an echo server: every data message is sent back
	p.start()
	b.accepted <- p
}

// envPrefix marks a failure of the environment (ephemeral ports exhausted by TIME_WAIT sockets when many
// socket checks run at once), not of Helios: the run is then inconclusive, never a violation.
const envPrefix = "environment: "

func portExhausted(err error) bool {
	return err != nil && (errors.Is(err, syscall.EADDRINUSE) || errors.Is(err, syscall.EADDRNOTAVAIL))
}

// listenLoopback listens on 127.0.0.1:0, waiting (budget 30 s) while the host has no free port.
func listenLoopback() (net.Listener, error) {
	var err error
	for i := 0; i < 150; i++ {
		var ln net.Listener
		if ln, err = net.Listen("tcp", "127.0.0.1:0"); err == nil {
			return ln, nil
		}
		if !portExhausted(err) {
			return nil, err
		}
		time.Sleep(200 * time.Millisecond)
	}
	return nil, fmt.Errorf("%sno free loopback port for 30 s: %w", envPrefix, err)
}

// dialRetry runs dial, waiting (budget 30 s) while the host cannot assign a local port.
func dialRetry(dial func() error) error {
	var err error
	for i := 0; i < 150; i++ {
		if err = dial(); !portExhausted(err) {
			return err
		}
		time.Sleep(200 * time.Millisecond)
	}
	return fmt.Errorf("%sno local port for an outgoing connection for 30 s: %w", envPrefix, err)
}

// envProblem records an environment failure as a harness problem (exit 2) and reports true.
func envProblem(msg string) bool {
	if strings.Contains(msg, envPrefix) {
		lab.Problem("C20: %s", msg)
		return true
	}
	return false
}

// healthPath is the active health-check path of labs that enable probing.
const healthPath = "/healthz"

type wsLab struct {
	pmu      sync.Mutex
	pending  map[string][]*peer // accepted sessions not yet claimed, by the X-Verif-Session tag of their handshake
	Cfg      *config.Config
	LB       *loadbalancer.LoadBalancer
	Server   *http.Server
	Addr     string
	ErrLog   *syncBuffer
	backends []*wsBackend
	notify   chan struct{} // poked on every event of every peer
	done     chan struct{}
}

func newWSLab(strategy string, nBackends int, mutate func(*config.Config)) (*wsLab, error) {
	lab.Quiet()
	l := &wsLab{ErrLog: &syncBuffer{}, notify: make(chan struct{}, 1), done: make(chan struct{}), pending: map[string][]*peer{}}
	cfg := &config.Config{}
	cfg.Server.Port = 8080
	cfg.LoadBalancer.Strategy = strategy
	for i := 0; i < nBackends; i++ {
		ln, err := listenLoopback()
		if err != nil {
			l.Close()
			return nil, err
		}
		b := &wsBackend{index: i, ln: ln, accepted: make(chan *peer, 64), notify: l.notify}
		b.srv = &http.Server{Handler: b, ErrorLog: lab.DiscardLogger()}
		go func() { _ = b.srv.Serve(ln) }()
		l.backends = append(l.backends, b)
		cfg.Backends = append(cfg.Backends, config.BackendConfig{Name: lab.BackendName(i), Address: b.url(), Weight: 1})
	}
	if mutate != nil {
		mutate(cfg)
	}
	if err := cfg.Validate(); err != nil {
		l.Close()
		return nil, fmt.Errorf("generated configuration rejected: %w", err)
	}
	l.Cfg = cfg
	lb, err := loadbalancer.NewLoadBalancer(cfg)
	if err != nil {
		l.Close()
		return nil, err
	}
	l.LB = lb
	for _, b := range lb.VerifBackends() {
		b.ReverseProxy.ErrorLog = lab.DiscardLogger()
	}
	h, err := lab.BuildHandler(cfg, lb)
	if err != nil {
		l.Close()
		return nil, err
	}
	ln, err := listenLoopback()
	if err != nil {
		l.Close()
		return nil, err
	}
	l.Addr = ln.Addr().String()
	// timeouts as cmd/helios/server.go createHTTPServer sets them: the configured value, 0 = default
	l.Server = &http.Server{Handler: h, ReadTimeout: secsOr(cfg.Server.Timeouts.Read, 15), WriteTimeout: secsOr(cfg.Server.Timeouts.Write, 15),
		IdleTimeout: secsOr(cfg.Server.Timeouts.Idle, 60), ErrorLog: log.New(l.ErrLog, "", 0)}
	go func() {
		_ = l.Server.Serve(ln)
		close(l.done)
	}()
	return l, nil
}

func secsOr(v, def int) time.Duration {
	if v == 0 {
		v = def
	}
	return time.Duration(v) * time.Second
}

// claim returns the backend end of the session whose opening handshake carried X-Verif-Session: tag
// (tag "" = no such header), waiting up to budget for the backend to report it. Sessions of several
// clients running in parallel on one lab are told apart this way.
func (l *wsLab) claim(tag string, budget time.Duration) *peer {
	deadline := time.Now().Add(budget)
	for {
		l.pmu.Lock()
		for _, b := range l.backends {
			for more := true; more; {
				select {
				case p := <-b.accepted:
					k := p.handshake.Get("X-Verif-Session")
					l.pending[k] = append(l.pending[k], p)
				default:
					more = false
				}
			}
		}
		if q := l.pending[tag]; len(q) > 0 {
			p := q[0]
			l.pending[tag] = q[1:]
			l.pmu.Unlock()
			return p
		}
		l.pmu.Unlock()
		if time.Now().After(deadline) {
			return nil
		}
		time.Sleep(time.Millisecond)
	}
}

func (l *wsLab) Close() {
	if l.Server != nil {
		ctx, cancel := context.WithTimeout(context.Background(), 2*time.Second)
		_ = l.Server.Shutdown(ctx)
		cancel()
		_ = l.Server.Close()
		<-l.done
	}
	if l.LB != nil {
		l.LB.Stop()
		for _, b := range l.LB.VerifBackends() {
			if tr, ok := b.ReverseProxy.Transport.(*http.Transport); ok {
				tr.CloseIdleConnections()
			}
		}
	}
	for _, b := range l.backends {
		_ = b.srv.Close()
		for {
			select {
			case p := <-b.accepted:
				p.kill()
				continue
			default:
			}
			break
		}
	}
	l.pmu.Lock()
	for _, q := range l.pending {
		for _, p := range q {
			p.kill()
		}
	}
	l.pending = map[string][]*peer{}
	l.pmu.Unlock()
}

func (l *wsLab) panicLines() []string {
	var out []string
	for _, line := range strings.Split(l.ErrLog.String(), "\n") {
		if strings.Contains(line, "http: panic serving") && !strings.Contains(line, "net/http: abort Handler") {
			out = append(out, line)
		}
	}
	return out
}

// ---------------------------------------------------------------------------------------------
// peer: one end of a WebSocket session (used for the client and for the backend alike)
// ---------------------------------------------------------------------------------------------

const (
	kText   = websocket.TextMessage   // 1
	kBinary = websocket.BinaryMessage // 2
	kPing   = websocket.PingMessage   // 9
)

type msg struct {
	Type    int
	Payload []byte
}

type sendItem struct {
	m     msg
	close string // "" | clean | abrupt  (performed by the writer after everything queued before it)
	code  int
	text  string
}

type peer struct {
	name      string
	c         *websocket.Conn
	handshake http.Header
	notify    chan struct{}
	sendq     chan sendItem

	mu       sync.Mutex
	sent     []msg    // data and ping messages in the order the writer sent them
	recv     []msg    // data and ping messages in the order they were received
	pongs    [][]byte // pong payloads received
	nData    int      // data messages received
	echo     map[int]bool
	echoAll  bool
	writeErr error
	readErr  error
	events   int64

	readEnd   chan struct{}
	writerEnd chan struct{}
	killed    atomic.Bool
	// pauseUntil (unix ns): the reader does not touch its socket before this instant (a peer that
	// is slow to read)
	pauseUntil atomic.Int64
	readDelay  atomic.Int64 // ns the reader waits before every read once set (a peer that reads slowly)
}

// stallReads makes the peer stop reading from its socket for d and read slowly afterwards (one
// message per `each`).
func (p *peer) stallReads(d, each time.Duration) {
	p.pauseUntil.Store(time.Now().Add(d).UnixNano())
	p.readDelay.Store(int64(each))
}

func newPeer(name string, c *websocket.Conn, notify chan struct{}) *peer {
	return &peer{name: name, c: c, notify: notify, sendq: make(chan sendItem, 256), echo: map[int]bool{},
		readEnd: make(chan struct{}), writerEnd: make(chan struct{})}
}

func (p *peer) poke() {
	select {
	case p.notify <- struct{}{}:
	default:
	}
}

func (p *peer) start() {
	p.c.SetPingHandler(func(appData string) error {
		p.mu.Lock()
		p.recv = append(p.recv, msg{kPing, []byte(appData)})
		p.events++
		p.mu.Unlock()
		p.poke()
		// reply as every WebSocket endpoint must (RFC 6455 5.5.3): pong with the same application data
		err := p.c.WriteControl(websocket.PongMessage, []byte(appData), time.Now().Add(ioBudget))
		if err == websocket.ErrCloseSent {
			return nil
		}
		return err
	})
	p.c.SetPongHandler(func(appData string) error {
		p.mu.Lock()
		p.pongs = append(p.pongs, []byte(appData))
		p.events++
		p.mu.Unlock()
		p.poke()
		return nil
	})
	go p.readLoop()
	go p.writeLoop()
}

func (p *peer) readLoop() {
	defer close(p.readEnd)
	for {
		if d := time.Until(time.Unix(0, p.pauseUntil.Load())); d > 0 {
			time.Sleep(d)
		}
		if d := p.readDelay.Load(); d > 0 {
			time.Sleep(time.Duration(d))
		}
		mt, data, err := p.c.ReadMessage()
		if err != nil {
			p.mu.Lock()
			p.readErr = err
			p.events++
			p.mu.Unlock()
			p.poke()
			return
		}
		p.mu.Lock()
		p.recv = append(p.recv, msg{mt, data})
		k := p.nData
		p.nData++
		doEcho := p.echo[k] || p.echoAll
		p.events++
		p.mu.Unlock()
		p.poke()
		if doEcho {
			select {
			case p.sendq <- sendItem{m: msg{mt, data}}:
			case <-p.writerEnd:
			}
		}
	}
}

func (p *peer) writeLoop() {
	defer close(p.writerEnd)
	for it := range p.sendq {
		if p.killed.Load() {
			return
		}
		switch it.close {
		case "clean":
			err := p.c.WriteControl(websocket.CloseMessage, websocket.FormatCloseMessage(it.code, it.text), time.Now().Add(ioBudget))
			p.setWriteErr(err)
			return
		case "abrupt":
			_ = p.c.UnderlyingConn().Close()
			return
		}
		p.mu.Lock()
		p.sent = append(p.sent, it.m)
		p.events++
		p.mu.Unlock()
		var err error
		if it.m.Type == kPing {
			err = p.c.WriteControl(websocket.PingMessage, it.m.Payload, time.Now().Add(ioBudget))
		} else {
			err = p.c.WriteMessage(it.m.Type, it.m.Payload)
		}
		p.poke()
		if err != nil {
			p.setWriteErr(err)
			return
		}
	}
}

func (p *peer) setWriteErr(err error) {
	if err == nil {
		return
	}
	p.mu.Lock()
	if p.writeErr == nil {
		p.writeErr = err
	}
	p.events++
	p.mu.Unlock()
	p.poke()
}

// kill tears the peer down (cleanup; not part of any oracle).
func (p *peer) kill() {
	if p.killed.Swap(true) {
		return
	}
	_ = p.c.Close()
	select {
	case p.sendq <- sendItem{close: "abrupt"}:
	default:
	}
}

type peerSnap struct {
	sent, recv []msg
	pongs      [][]byte
	readErr    error
	writeErr   error
	events     int64
	readEnded  bool
}

func (p *peer) snap() peerSnap {
	p.mu.Lock()
	defer p.mu.Unlock()
	s := peerSnap{sent: append([]msg(nil), p.sent...), recv: append([]msg(nil), p.recv...), pongs: append([][]byte(nil), p.pongs...),
		readErr: p.readErr, writeErr: p.writeErr, events: p.events}
	select {
	case <-p.readEnd:
		s.readEnded = true
	default:
	}
	return s
}

func (p *peer) markEcho(k int) { p.mu.Lock(); p.echo[k] = true; p.mu.Unlock() }

// ioBudget bounds single control-frame writes (budget, not an oracle).
const ioBudget = 10 * time.Second
