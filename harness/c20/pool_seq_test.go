//go:build go1.25

package c20

import (
	"fmt"
	"sort"
	"testing"
	"time"

	"github.com/0xReLogic/Helios/verifharness/lab"
	"pgregory.net/rapid"
)

type poolEvent struct {
	Op    string `json:"op"` // put-fresh | put-held | get | close | advance | cleanup | shutdown
	Actor int    `json:"a,omitempty"`
	B     int    `json:"b,omitempty"`
	Conn  int    `json:"conn,omitempty"`
	Kind  string `json:"close_behaviour,omitempty"` // put-fresh: how the new connection answers Close (conn_kinds.go)
	D     string `json:"d,omitempty"`
	Res   string `json:"res,omitempty"`
}

type poolCfg struct {
	Backends    int `json:"backends"`
	MaxIdle     int `json:"max_idle"`
	MaxActive   int `json:"max_active"`
	IdleTimeout int `json:"idle_timeout_s"`
	Actors      int `json:"actors"`
	// real connections (net.Pipe / TLS over it) dialled before the history starts, outside the virtual
	// clock; a put-fresh event may take the next one instead of a fake
	Real []string `json:"real_conns,omitempty"`
}

// TestC20PoolSequential: generated histories over the pool's exported API in virtual time.
func TestC20PoolSequential(t *testing.T) {
	const name = "pool-sequential-histories"
	sub := lab.Sub(name, "rapid state machine in virtual time (testing/synctest; pool constructed outside the bubble): 1-2 backends, max_idle 0..3, idle_timeout 1..60 s, 1-3 actors; history of <= 40 (quick) / 80 (thorough) events over "+
		"{put(b, fresh connection), put(b, a connection the actor holds), get(b), close(b, held), advance (below / above idle_timeout, 1 ms, 31 s), cleanup (VerifCleanup hook), shutdown}; actors only return or close connections they hold; fake net.Conns record Close; "+
		"every freshly dialled connection draws how it answers Close: 55 % return nil at once, 25 % report an error while closing all the same (TLS close_notify undeliverable, connection reset, use of closed connection, bare I/O error), 20 % take 1 ms-5 s of virtual time (some then report a timeout / reset), "+
		"and one history in four carries 1-3 real connections dialled beforehand (net.Pipe; TLS 1.2 over it with a peer that keeps reading; TLS 1.2 whose peer is gone, so that tls.Conn.Close itself reports the failed close_notify); "+
		"oracle after every event: a connection returned by get is not closed, is not held by any actor, and was returned to the pool <= idle_timeout ago; Stats idle <= max_idle and the number of open connections the pool holds <= max_idle; a refused put has closed the connection; "+
		"after shutdown every connection the pool held is closed and Stats is 0/0 for every backend; non-trivial = a get after an advance, or a put while the pool holds max_idle connections")
	sub.NontrivialFloor(0.50)
	sub.Floor("get-hit", 0.30)
	sub.Floor("get-after-stale", 0.10)
	sub.Floor("put-refused", 0.30)
	sub.Floor("shutdown-with-idle", 0.15)
	sub.Floor("max_idle-0", 0.08)
	sub.Floor("conn-close-reports-error", 0.30)
	sub.Floor("shutdown-meets-failing-close", 0.10)
	lab.Assume("pool: the WebSocket pool is not wired into the proxy path of this codebase, so its invariants are decided on the pool object (loadbalancer.NewWebSocketPool) through its exported API; the janitor is driven through the VerifCleanup hook; the pool's own 30 s ticker stays on the real clock")
	lab.Assume("pool objects are reused between cases (one per (max_idle, max_active, idle_timeout) triple, because the janitor goroutine of a pool can never be stopped): every case starts from Shutdown + verified Stats 0/0 and ends with Shutdown; a real-clock janitor tick that lands inside a case (about 1 case in 10^5) can only close idle connections early, which no clause of the oracle forbids")
	lab.Assume("pool callers are sound: Put/Close only with a connection the caller holds (freshly dialled or obtained from Get) and for the backend it belongs to; nil connections and double returns are not generated")
	maxLen := lab.Scale(40, 80)
	lab.Check(t, sub, 5000, 300000, func(rt *rapid.T) {
		pc := poolCfg{Backends: rapid.IntRange(1, 2).Draw(rt, "backends"), MaxIdle: rapid.SampledFrom([]int{0, 1, 1, 2, 2, 3, 3}).Draw(rt, "maxidle"),
			IdleTimeout: rapid.SampledFrom([]int{1, 1, 2, 5, 29, 30, 31, 59, 60}).Draw(rt, "idletimeout"), Actors: rapid.IntRange(1, 3).Draw(rt, "actors")}
		pc.MaxActive = pc.MaxIdle + rapid.IntRange(0, 5).Draw(rt, "maxactive")
		n := rapid.IntRange(1, maxLen).Draw(rt, "n")
		// connection behaviours: most histories use fakes only; about one in six also gets 1-3 real connections
		nReal := rapid.SampledFrom([]int{0, 0, 0, 0, 0, 0, 0, 0, 0, 0, 1, 2, 3}).Draw(rt, "realconns")
		var realKinds []closeKind
		for i := 0; i < nReal; i++ {
			k := closeKinds[rapid.IntRange(kindRealFirst, kindRealLast).Draw(rt, "realkind")]
			realKinds = append(realKinds, k)
			pc.Real = append(pc.Real, k.Name)
		}
		T := time.Duration(pc.IdleTimeout) * time.Second
		// outside the bubble: the pool owns a never-ending janitor goroutine (one pool per parameter triple, emptied by Shutdown)
		pool, stale := cachedPool(pc.MaxIdle, pc.MaxActive, T, pc.Backends)
		if stale != "" {
			rt.Fatalf("pool %+v: %s", pc, stale)
		}
		var evs []poolEvent
		var viol string
		labels := map[string]bool{}
		nontrivial := false
		wd := lab.StartWatchdog(t.Name(), name, lab.NoProgress, func() any { return map[string]any{"cfg": pc, "events": evs} })
		defer wd.Stop()
		defer pool.Shutdown() // also when the case fails half-way: the next case starts from an empty pool
		// real connections are dialled here, on the real clock, and torn down when the case is over
		var releases []func()
		defer func() {
			for _, r := range releases {
				r()
			}
		}()
		var all, prepared []*fakeConn
		for _, k := range realKinds {
			c, release, err := newConn(0, 0, k, true)
			if err != nil {
				rt.Fatalf("harness: could not build a %s connection: %v", k.Name, err)
			}
			releases = append(releases, release)
			prepared = append(prepared, c)
		}
		rapid.SyncTest(rt, func(rt *rapid.T) {
			m := newPoolModel(pc.MaxIdle, T)
			nextID := 0
			advanced := false
			// a freshly dialled connection: its close behaviour is drawn (55 % clean, 25 % Close reports an
			// error, 20 % Close takes 1 ms..5 s of virtual time, some of those also reporting an error);
			// while real connections are left for this case, three in ten take the next one
			fresh := func(b int) *fakeConn {
				nextID++
				k := closeKinds[kindClean]
				if len(prepared) > 0 && rapid.IntRange(0, 9).Draw(rt, "takereal") >= 7 {
					c := prepared[0]
					prepared = prepared[1:]
					c.ID, c.Backend = nextID, b
					labels["conn-real"] = true
					labels["conn-"+c.kind] = true
					all = append(all, c)
					return c
				} else {
					switch w := rapid.IntRange(0, 99).Draw(rt, "closekind"); {
					case w < 55:
					case w < 80:
						k = closeKinds[rapid.IntRange(kindErrFirst, kindErrLast).Draw(rt, "errkind")]
					default:
						k = closeKinds[rapid.IntRange(kindSlowFirst, kindSlowLast).Draw(rt, "slowkind")]
					}
				}
				c, _, _ := newConn(nextID, b, k, true) // fake kinds need no peer
				if k.Err != nil {
					labels["conn-close-reports-error"] = true
				}
				if k.slow() {
					labels["conn-close-takes-time"] = true
				}
				all = append(all, c)
				return c
			}
			// the connections the pool holds for backend b according to the model, oldest first, with what
			// each one does on Close - for messages
			describeIdle := func(held []*fakeConn) string {
				out := ""
				for _, c := range held {
					state := "closed"
					if !c.isClosed() {
						state = "STILL OPEN"
					}
					out += fmt.Sprintf("\n    connection %d (backend %d, %s): %s", c.ID, c.Backend, c.closeReport(), state)
				}
				return out
			}
			// invariants that hold after every event
			check := func(i int) string {
				for b := 0; b < pc.Backends; b++ {
					idle, _ := pool.Stats(backendKey(b))
					if idle > pc.MaxIdle {
						return fmt.Sprintf("event #%d: Stats(%d) reports %d idle connections, max_idle is %d", i, b, idle, pc.MaxIdle)
					}
					if n := m.openIdle(b); n > pc.MaxIdle {
						return fmt.Sprintf("event #%d: the pool holds %d open connections for backend %d, max_idle is %d", i, n, b, pc.MaxIdle)
					}
				}
				return ""
			}
			for i := 0; i < n && viol == ""; i++ {
				a := rapid.IntRange(0, pc.Actors-1).Draw(rt, "actor")
				b := rapid.IntRange(0, pc.Backends-1).Draw(rt, "backend")
				k := rapid.IntRange(0, 99).Draw(rt, "kind")
				holds := m.held[a]
				switch {
				case k < 22 || (k < 34 && len(holds) == 0): // put fresh
					c := fresh(b)
					atLimit := m.openIdle(b) >= pc.MaxIdle
					ok := pool.Put(backendKey(b), c)
					evs = append(evs, poolEvent{Op: "put-fresh", Actor: a, B: b, Conn: c.ID, Kind: c.kind, Res: fmt.Sprint(ok)})
					viol = afterPut(m, pc, i, b, c, ok, labels)
					if atLimit {
						nontrivial = true
						labels["put-at-limit"] = true
					}
				case k < 34: // put a held connection back (to the backend it belongs to)
					c := holds[rapid.IntRange(0, len(holds)-1).Draw(rt, "which")]
					atLimit := m.openIdle(c.Backend) >= pc.MaxIdle
					m.unhold(a, c)
					ok := pool.Put(backendKey(c.Backend), c)
					evs = append(evs, poolEvent{Op: "put-held", Actor: a, B: c.Backend, Conn: c.ID, Res: fmt.Sprint(ok)})
					viol = afterPut(m, pc, i, c.Backend, c, ok, labels)
					if atLimit {
						nontrivial = true
						labels["put-at-limit"] = true
					}
				case k < 62: // get
					now := time.Now()
					predicted := m.predictGet(b, now)
					staleOnTop := len(m.idle[b]) > 0 && now.Sub(m.idle[b][len(m.idle[b])-1].since) > T
					c := pool.Get(backendKey(b))
					ev := poolEvent{Op: "get", Actor: a, B: b, Res: "nil"}
					if advanced {
						nontrivial = true
					}
					if c != nil {
						fc, isFake := c.(*fakeConn)
						if !isFake {
							viol = fmt.Sprintf("event #%d: get returned a connection the harness never handed to the pool (%T)", i, c)
							break
						}
						ev.Conn, ev.Res = fc.ID, "conn"
						evs = append(evs, ev)
						labels["get-hit"] = true
						if staleOnTop {
							labels["get-after-stale"] = true
						}
						if holder, held := m.holderOf(fc); held {
							viol = fmt.Sprintf("event #%d: get(%d) by actor %d returned connection %d, which actor %d still holds (one connection, two holders)", i, b, a, fc.ID, holder)
							break
						}
						if fc.isClosed() {
							viol = fmt.Sprintf("event #%d: get(%d) returned connection %d, which is closed", i, b, fc.ID)
							break
						}
						if bb, idx, ok := m.findIdle(fc); ok {
							// idle time at the moment the connection is handed over (the call itself may have
							// taken time: stale entries it met on the way were closed first)
							age := time.Since(m.idle[bb][idx].since)
							if age > T {
								viol = fmt.Sprintf("event #%d: get(%d) returned connection %d, idle for %v, idle_timeout is %v", i, b, fc.ID, age, T)
								break
							}
							m.idle[bb] = append(m.idle[bb][:idx:idx], m.idle[bb][idx+1:]...)
						}
						m.held[a] = append(m.held[a], fc)
						if predicted != fc {
							labels["differs-from-documented-reuse-order"] = true
						}
					} else {
						evs = append(evs, ev)
						if staleOnTop {
							labels["get-after-stale"] = true
						}
						if predicted != nil {
							labels["get-miss-although-fresh-idle"] = true
						}
					}
				case k < 72 && len(holds) > 0: // close a held connection through the pool
					c := holds[rapid.IntRange(0, len(holds)-1).Draw(rt, "which")]
					m.unhold(a, c)
					pool.Close(backendKey(c.Backend), c)
					evs = append(evs, poolEvent{Op: "close", Actor: a, B: c.Backend, Conn: c.ID})
					if !c.isClosed() {
						viol = fmt.Sprintf("event #%d: Close(%d, connection %d) returned but the connection is not closed", i, c.Backend, c.ID)
					}
				case k < 88: // time passes
					below := []time.Duration{time.Millisecond, T / 2, T - time.Millisecond, T/3 + 7*time.Millisecond}
					above := []time.Duration{T + time.Millisecond, 2*T + 3*time.Millisecond, 31*time.Second + T}
					ds := below
					if rapid.IntRange(0, 99).Draw(rt, "above") < 45 {
						ds = above
					}
					d := rapid.SampledFrom(ds).Draw(rt, "d")
					time.Sleep(d)
					advanced = true
					evs = append(evs, poolEvent{Op: "advance", D: d.String()})
				case k < 94: // janitor pass
					pool.VerifCleanup()
					evs = append(evs, poolEvent{Op: "cleanup"})
					if m.sweep() > 0 {
						labels["cleanup-closed-stale"] = true
					}
				default: // shutdown
					var heldByPool []*fakeConn
					for b := 0; b < pc.Backends; b++ {
						for _, e := range m.idle[b] {
							if !e.c.isClosed() {
								heldByPool = append(heldByPool, e.c)
							}
						}
					}
					shutdownLabels(m, pc, labels)
					pool.Shutdown()
					evs = append(evs, poolEvent{Op: "shutdown", Res: fmt.Sprintf("%d idle", len(heldByPool))})
					labels["shutdown"] = true
					if len(heldByPool) > 0 {
						labels["shutdown-with-idle"] = true
					}
					for _, c := range heldByPool {
						if !c.isClosed() {
							viol = fmt.Sprintf("event #%d: after shutdown connection %d (idle in the pool of backend %d) is still open; the pool held, oldest first:%s", i, c.ID, c.Backend, describeIdle(heldByPool))
							break
						}
					}
					for b := 0; b < pc.Backends && viol == ""; b++ {
						if idle, active := pool.Stats(backendKey(b)); idle != 0 || active != 0 {
							viol = fmt.Sprintf("event #%d: after shutdown Stats(%d) = %d idle / %d active, want 0/0", i, b, idle, active)
						}
					}
					m.idle = map[int][]idleEntry{}
				}
				m.sweep()
				if viol == "" {
					viol = check(i)
				}
			}
			// end of history: shut the pool down; whatever it still holds must be closed
			if viol == "" {
				var heldByPool []*fakeConn
				for b := 0; b < pc.Backends; b++ {
					for _, e := range m.idle[b] {
						heldByPool = append(heldByPool, e.c)
					}
				}
				shutdownLabels(m, pc, labels)
				pool.Shutdown()
				for _, c := range heldByPool {
					if !c.isClosed() {
						viol = fmt.Sprintf("final shutdown: connection %d (idle in the pool of backend %d) is still open; the pool held, oldest first:%s", c.ID, c.Backend, describeIdle(heldByPool))
						break
					}
				}
			} else {
				pool.Shutdown()
			}
		})
		wd.Stop() // the guarded calls have returned; what follows is harness bookkeeping
		for _, c := range all {
			if e, _ := c.lastErr.Load().(string); e != "" {
				labels["pool-saw-close-error"] = true
			}
		}
		ls := []string{fmt.Sprintf("max_idle-%d", pc.MaxIdle), fmt.Sprintf("backends-%d", pc.Backends)}
		for l := range labels {
			ls = append(ls, l)
		}
		sort.Strings(ls)
		sub.Case(map[string]any{"cfg": pc, "events": evs}, nontrivial, ls...)
		if viol != "" {
			rt.Fatalf("pool %+v\nhistory %+v\n=> %s", pc, evs, viol)
		}
	})
}

func afterPut(m *poolModel, pc poolCfg, i, b int, c *fakeConn, ok bool, labels map[string]bool) string {
	if ok {
		m.idle[b] = append(m.idle[b], idleEntry{c, time.Now()})
		if c.isClosed() {
			// the pool now holds a closed connection; handing it out later is the violation (checked at get)
			labels["accepted-but-closed"] = true
		}
		return ""
	}
	labels["put-refused"] = true
	if !c.isClosed() {
		return fmt.Sprintf("event #%d: put(%d, connection %d) was refused but the connection was left open", i, b, c.ID)
	}
	return ""
}

// shutdownLabels classifies what a shutdown is about to meet: idle connections whose Close reports an
// error or takes time, and whether such a connection is followed (in the order they were returned)
// by another one of the same backend.
func shutdownLabels(m *poolModel, pc poolCfg, labels map[string]bool) {
	for b := 0; b < pc.Backends; b++ {
		es := m.idle[b]
		for i, e := range es {
			if e.c.isClosed() {
				continue
			}
			if e.c.closeFails() || e.c.kind == "real-tls-dead-peer" {
				labels["shutdown-meets-failing-close"] = true
				if i < len(es)-1 {
					labels["shutdown-meets-failing-close-then-others"] = true
				}
			}
			if e.c.delay > 0 {
				labels["shutdown-meets-slow-close"] = true
			}
		}
	}
}
