package c20

import (
	"fmt"
	"sync"
	"testing"
	"time"

	"github.com/0xReLogic/Helios/internal/loadbalancer"
	"github.com/0xReLogic/Helios/verifharness/lab"
	"pgregory.net/rapid"
)

// ---------------------------------------------------------------------------------------------
// Schedules in which the pool is in the middle of closing a connection - and that Close takes a
// while - when other callers arrive. The pool closes connections in three places (a put beyond
// max_idle, a get that meets a stale entry, the janitor); a real Close is a system call or a TLS
// close_notify to a peer that may be gone, so other operations do overlap with it. The other
// concurrent form samples interleavings with Closes of a few hundred busy iterations; here the
// overlap is constructed: the Close of one connection blocks on a gate the harness holds, the
// overlapping operations are started once the pool is inside that Close, and the gate is opened
// after a drawn hold time.
// ---------------------------------------------------------------------------------------------

type slowCloseCase struct {
	Backends  int      `json:"backends"`
	MaxIdle   int      `json:"max_idle"`
	TimeoutMS int      `json:"idle_timeout_ms"`
	Blocker   string   `json:"blocker"`     // which pool operation runs into the slow Close: cleanup | get | put-surplus
	Older     int      `json:"older"`       // stale clean connections parked on backend 0 before the slow one
	Fresh     []int    `json:"fresh"`       // per backend: connections parked after the ageing pause (not stale)
	Overlap   []string `json:"overlapping"` // started while the pool is inside the slow Close: shutdown | get-<b> | stats-<b> | cleanup
	HoldUS    int      `json:"hold_us"`     // how long the slow Close is held after the overlapping calls were started
}

var slowPools = struct {
	mu sync.Mutex
	m  map[[2]int]*loadbalancer.WebSocketPool
}{m: map[[2]int]*loadbalancer.WebSocketPool{}}

// slowPool: one pool per (max_idle, idle_timeout ms), reused for the reason given at cachedPool.
func slowPool(maxIdle, timeoutMS int) *loadbalancer.WebSocketPool {
	slowPools.mu.Lock()
	defer slowPools.mu.Unlock()
	k := [2]int{maxIdle, timeoutMS}
	p, ok := slowPools.m[k]
	if !ok {
		p = loadbalancer.NewWebSocketPool(maxIdle, maxIdle+4, time.Duration(timeoutMS)*time.Millisecond)
		slowPools.m[k] = p
	}
	p.Shutdown()
	return p
}

func genSlowClose(rt *rapid.T) slowCloseCase {
	c := slowCloseCase{Backends: rapid.IntRange(1, 2).Draw(rt, "backends"), MaxIdle: rapid.IntRange(1, 3).Draw(rt, "maxidle"),
		TimeoutMS: rapid.SampledFrom([]int{20, 35}).Draw(rt, "timeout"),
		Blocker:   rapid.SampledFrom([]string{"cleanup", "cleanup", "get", "put-surplus"}).Draw(rt, "blocker")}
	room := c.MaxIdle - 1 // besides the slow connection
	if c.Blocker == "put-surplus" {
		room = c.MaxIdle // the slow connection is the surplus one; backend 0 is filled up below
	}
	c.Older = rapid.IntRange(0, room).Draw(rt, "older")
	c.Fresh = make([]int, c.Backends)
	switch c.Blocker {
	case "cleanup":
		c.Fresh[0] = rapid.IntRange(0, room-c.Older).Draw(rt, "fresh0")
	case "put-surplus":
		c.Fresh[0] = room - c.Older
	} // get: the slow connection must be the most recently returned one
	if c.Backends == 2 {
		c.Fresh[1] = rapid.IntRange(0, c.MaxIdle).Draw(rt, "fresh1")
	}
	n := rapid.IntRange(1, 3).Draw(rt, "overlapping")
	sd := false
	for i := 0; i < n; i++ {
		b := rapid.IntRange(0, c.Backends-1).Draw(rt, "b")
		switch k := rapid.IntRange(0, 9).Draw(rt, "op"); {
		case k < 4 && !sd:
			sd = true
			c.Overlap = append(c.Overlap, "shutdown")
		case k < 7:
			c.Overlap = append(c.Overlap, fmt.Sprintf("get-%d", b))
		case k < 9:
			c.Overlap = append(c.Overlap, fmt.Sprintf("stats-%d", b))
		default:
			c.Overlap = append(c.Overlap, "cleanup")
		}
	}
	c.HoldUS = rapid.SampledFrom([]int{0, 200, 2000, 2000, 10000}).Draw(rt, "hold")
	return c
}

func TestC20PoolSlowCloseOverlap(t *testing.T) {
	const name = "pool-slow-close-overlap"
	sub := lab.Sub(name, "schedules in which other pool operations arrive while the pool is inside the Close of a connection that takes time (real clock, idle_timeout 20/35 ms, 1-2 backends, max_idle 1..3): "+
		"backend 0 holds 0..max_idle-1 stale connections, one connection whose Close blocks on a gate, and connections returned after the ageing pause; the blocking operation is a janitor pass, a get that meets the stale slow connection, or a put beyond max_idle whose surplus connection is the slow one; "+
		"once the pool is inside that Close, 1-3 of {shutdown, get(b), stats(b), cleanup} are started on their own goroutines, the gate is opened 0-10 ms later; oracle (only what the statement says, no timing): a get returns an open connection nobody holds, a refused put closed its connection, Stats idle <= max_idle, "+
		"and when every call has returned and a final shutdown has run, every connection the pool accepted and did not hand out again is closed and Stats is 0/0; non-trivial = the pool really was inside the slow Close when the overlapping calls were started")
	sub.NontrivialFloor(0.80)
	sub.Floor("shutdown-overlaps-slow-close", 0.25)
	lab.Assume("slow-close overlap schedules run on the real clock with millisecond idle timeouts; pauses only shape the schedule (which connections are stale, how long the Close is held), no oracle reads the clock")
	lab.Check(t, sub, 120, 4000, func(rt *rapid.T) {
		c := genSlowClose(rt)
		pool := slowPool(c.MaxIdle, c.TimeoutMS)
		defer pool.Shutdown()
		wd := lab.StartWatchdog(t.Name(), name, lab.NoProgress, func() any { return c })
		defer wd.Stop()
		var mu sync.Mutex
		viol := ""
		violate := func(format string, a ...any) {
			mu.Lock()
			if viol == "" {
				viol = fmt.Sprintf(format, a...)
			}
			mu.Unlock()
		}
		var all []*fakeConn
		inPool := map[int]bool{} // accepted and not handed out again
		mk := func(b int) *fakeConn {
			fc, _, _ := newConn(len(all)+1, b, closeKinds[kindClean], false)
			all = append(all, fc)
			return fc
		}
		park := func(fc *fakeConn) {
			if pool.Put(backendKey(fc.Backend), fc) {
				inPool[fc.ID] = true
			} else {
				violate("put(%d, connection %d) was refused with fewer than max_idle=%d connections parked", fc.Backend, fc.ID, c.MaxIdle)
			}
		}
		slow := mk(0)
		slow.kind = "close-blocks-until-released"
		slow.gate, slow.entered = make(chan struct{}), make(chan struct{})
		var release sync.Once
		open := func() { release.Do(func() { close(slow.gate) }) }
		defer open()
		for i := 0; i < c.Older; i++ {
			park(mk(0))
		}
		if c.Blocker != "put-surplus" {
			park(slow)
			time.Sleep(time.Duration(c.TimeoutMS)*time.Millisecond + 3*time.Millisecond) // everything parked so far goes stale
		} else if c.Older > 0 {
			time.Sleep(time.Duration(c.TimeoutMS)*time.Millisecond + 3*time.Millisecond)
		}
		for b, n := range c.Fresh {
			for i := 0; i < n; i++ {
				park(mk(b))
			}
		}
		got := func(who string, b int, nc interface{ Close() error }) {
			fc, ok := nc.(*fakeConn)
			if !ok {
				violate("%s: get(%d) returned a connection the harness never handed to the pool (%T)", who, b, nc)
				return
			}
			mu.Lock()
			was := inPool[fc.ID]
			delete(inPool, fc.ID)
			mu.Unlock()
			if !was {
				violate("%s: get(%d) returned connection %d, which the pool does not hold (refused, or already handed out: one connection, two holders)", who, b, fc.ID)
			}
			if fc.isClosed() {
				violate("%s: get(%d) returned connection %d, which is closed", who, b, fc.ID)
			}
		}
		blockerDone := make(chan struct{})
		go func() {
			defer close(blockerDone)
			switch c.Blocker {
			case "cleanup":
				pool.VerifCleanup()
			case "get":
				if nc := pool.Get(backendKey(0)); nc != nil {
					got("blocking get", 0, nc)
				}
			case "put-surplus":
				if pool.Put(backendKey(0), slow) {
					mu.Lock()
					inPool[slow.ID] = true
					mu.Unlock()
				} else if !slow.isClosed() {
					violate("put(0, connection %d) was refused but the connection was left open", slow.ID)
				}
			}
		}()
		inside := false
		select {
		case <-slow.entered:
			inside = true
		case <-blockerDone: // the pool did not close the slow connection in this operation (e.g. put accepted it)
		}
		var wg sync.WaitGroup
		for i, o := range c.Overlap {
			wg.Add(1)
			go func(i int, o string) {
				defer wg.Done()
				var b int
				switch {
				case o == "shutdown":
					pool.Shutdown()
				case o == "cleanup":
					pool.VerifCleanup()
				case o[:4] == "get-":
					fmt.Sscanf(o[4:], "%d", &b)
					if nc := pool.Get(backendKey(b)); nc != nil {
						got("overlapping "+o, b, nc)
					}
				default:
					fmt.Sscanf(o[6:], "%d", &b)
					if idle, _ := pool.Stats(backendKey(b)); idle > c.MaxIdle {
						violate("overlapping %s: Stats reports %d idle connections, max_idle is %d", o, idle, c.MaxIdle)
					}
				}
			}(i, o)
		}
		time.Sleep(time.Duration(c.HoldUS) * time.Microsecond)
		open()
		<-blockerDone
		wg.Wait()
		// everything has returned; a final shutdown, then every connection the pool still had is closed
		pool.Shutdown()
		wd.Stop()
		for b := 0; b < c.Backends && viol == ""; b++ {
			if idle, active := pool.Stats(backendKey(b)); idle != 0 || active != 0 {
				violate("after the final shutdown Stats(%d) = %d idle / %d active, want 0/0", b, idle, active)
			}
		}
		var leaked []string
		for _, fc := range all {
			if inPool[fc.ID] && !fc.isClosed() {
				leaked = append(leaked, fmt.Sprintf("%d (backend %d)", fc.ID, fc.Backend))
			}
		}
		if len(leaked) > 0 {
			violate("connection(s) %v were accepted by the pool, never handed out again, and are still open after every call returned and a final shutdown ran: the pool did not close everything it held on shutdown "+
				"(the pool was inside the slow Close of connection %d, backend 0, reached through %s, when %v were called)", leaked, slow.ID, c.Blocker, c.Overlap)
		}
		labels := []string{"blocker-" + c.Blocker, fmt.Sprintf("max_idle-%d", c.MaxIdle), fmt.Sprintf("backends-%d", c.Backends)}
		sd := false
		for _, o := range c.Overlap {
			if o == "shutdown" {
				sd = true
			}
		}
		if sd && inside {
			labels = append(labels, "shutdown-overlaps-slow-close")
		}
		if inside {
			labels = append(labels, "pool-inside-slow-close")
		}
		sub.Case(c, inside, labels...)
		if viol != "" {
			rt.Fatalf("%+v\n=> %s", c, viol)
		}
	})
}
