package c20

import (
	"fmt"
	"testing"
	"time"

	"github.com/0xReLogic/Helios/verifharness/lab"
)

// orphanCase is the fixed reproduction of the open finding "shutdown-put-orphan": one backend,
// max_idle 3, 8 actors that each return 4 freshly dialled connections, and one actor that calls
// Shutdown once, all released together. A Put that has looked up the per-backend pool object but
// not yet locked it when Shutdown empties that object and swaps the map appends its connection to
// the orphaned object and returns true: the connection is never handed out and never closed, not
// even by a later Shutdown.
func orphanCase() concCase {
	c := concCase{Backends: 1, MaxIdle: 3}
	for a := 0; a < 8; a++ {
		c.Scripts = append(c.Scripts, []actorOp{{Op: "put-fresh", B: 0}, {Op: "put-fresh", B: 0}, {Op: "put-fresh", B: 0}, {Op: "put-fresh", B: 0}})
	}
	c.Scripts = append(c.Scripts, []actorOp{{Op: "get", B: 0}, {Op: "shutdown", B: 0}})
	return c
}

// reproOrphan runs the fixed case until it manifests or the budget is used up.
func reproOrphan(maxRounds int, budget time.Duration) (rounds int, leaked []int, history string) {
	c := orphanCase()
	deadline := time.Now().Add(budget)
	for rounds = 1; rounds <= maxRounds; rounds++ {
		res := runConc(c)
		if len(res.leaked) > 0 && res.viol == "" && res.orphanSignature {
			return rounds, res.leaked, describeOps(res.ops)
		}
		if time.Now().After(deadline) {
			break
		}
	}
	return rounds, nil, ""
}

// TestC20KnownFindings re-runs the reproduction of every open finding of C20 and prints its
// KNOWN-FINDING line while it still fails.
func TestC20KnownFindings(t *testing.T) {
	if lab.Replaying() || lab.Shard() != 0 {
		t.Skip()
	}
	if lab.Open("shutdown-put-orphan") {
		rounds, leaked, _ := reproOrphan(60000, 10*time.Second)
		if len(leaked) > 0 {
			lab.KnownFinding("shutdown-put-orphan", fmt.Sprintf("schedule-dependent: WebSocketPool.Put concurrent with Shutdown: after %d round(s) of {8 actors x 4 Put(b0, fresh) || 1 actor Shutdown}, connection(s) %v were accepted (Put returned true), "+
				"never handed out again and are still open after a further, quiescent Shutdown (Stats 0/0): Put released the pool-map lock before locking the per-backend pool, Shutdown emptied that per-backend pool and replaced the map in between, the connection went into the orphaned object; "+
				"%d generated concurrent histor(ies) of this run showed the same signature and were excluded", rounds, leaked, orphanSeen))
		} else {
			t.Logf("shutdown-put-orphan did not manifest in %d rounds (schedule-dependent)", rounds)
		}
	}
}
