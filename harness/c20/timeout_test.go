package c20

import (
	"bufio"
	"bytes"
	"crypto/sha1"
	"encoding/base64"
	"encoding/binary"
	"errors"
	"fmt"
	"io"
	"net"
	"net/http"
	"os"
	"strings"
	"sync"
	"testing"
	"time"

	"github.com/0xReLogic/Helios/internal/config"
	"github.com/0xReLogic/Helios/verifharness/lab"
	"pgregory.net/rapid"
)

// ---------------------------------------------------------------------------------------------
// Sub-check "tunnel-outlives-handler-timeout": a WebSocket session that stays silent for longer than
// server.timeouts.handler must stay up (the statement: relayed "until either side closes"). The
// client is a minimal raw-TCP WebSocket client so that the handshake can carry every legal spelling
// of the Connection header (RFC 7230 6.1: a comma-separated, case-insensitive token list that may be
// split over several field lines), which gorilla's dialer cannot produce.
// ---------------------------------------------------------------------------------------------

const handlerTimeoutS = 1 // server.timeouts.handler of the lab, seconds

// Connection header spellings: every one of them contains the token "upgrade".
var connSpellings = map[string][]string{
	"Upgrade":                   {"Upgrade"},
	"upgrade":                   {"upgrade"},
	"keep-alive, Upgrade":       {"keep-alive, Upgrade"},
	"Upgrade, keep-alive":       {"Upgrade, keep-alive"},
	"split(keep-alive|Upgrade)": {"keep-alive", "Upgrade"}, // two field lines
}
var connTrivial = []string{"Upgrade", "upgrade"}
var connListed = []string{"keep-alive, Upgrade", "Upgrade, keep-alive", "split(keep-alive|Upgrade)"}

type idleSession struct {
	Connection string `json:"connection_header"`
	SilenceMS  int    `json:"silence_ms"` // real time, beyond the handler timeout
	Type1      string `json:"type1"`
	Size1      int    `json:"size1"`
	Type2      string `json:"type2"`
	Size2      int    `json:"size2"`
	Salt       int    `json:"salt"`
}

func (s idleSession) listed() bool {
	for _, c := range connListed {
		if c == s.Connection {
			return true
		}
	}
	return false
}

const wsGUID = "258EAFA5-E914-47DA-95CA-C5AB0DC85B11"

type rawWS struct {
	c  net.Conn
	br *bufio.Reader
}

// dialRawWS performs the opening handshake with the given Connection field lines.
func dialRawWS(addr string, connLines []string, salt int) (*rawWS, string) {
	var c net.Conn
	err := dialRetry(func() (e error) {
		c, e = net.DialTimeout("tcp", addr, ioBudget)
		return e
	})
	if err != nil {
		if strings.Contains(err.Error(), envPrefix) {
			return nil, err.Error()
		}
		return nil, "harness: dial: " + err.Error()
	}
	key := base64.StdEncoding.EncodeToString(payload(16, salt, false))
	var b bytes.Buffer
	b.WriteString("GET /ws/echo?room=7 HTTP/1.1\r\nHost: helios.test\r\nUpgrade: websocket\r\n")
	for _, v := range connLines {
		fmt.Fprintf(&b, "Connection: %s\r\n", v)
	}
	fmt.Fprintf(&b, "Sec-WebSocket-Key: %s\r\nSec-WebSocket-Version: 13\r\nAccept-Encoding: gzip\r\nX-Verif-Echo-All: 1\r\n\r\n", key)
	_ = c.SetDeadline(time.Now().Add(ioBudget))
	if _, err := c.Write(b.Bytes()); err != nil {
		c.Close()
		return nil, "harness: writing the handshake: " + err.Error()
	}
	br := bufio.NewReader(c)
	resp, err := http.ReadResponse(br, &http.Request{Method: "GET"})
	if err != nil {
		c.Close()
		return nil, fmt.Sprintf("the WebSocket session could not be established through Helios: no response to the opening handshake: %v", err)
	}
	if resp.StatusCode != 101 {
		c.Close()
		return nil, fmt.Sprintf("the WebSocket session could not be established through Helios: the backend accepts every upgrade, Helios answered %s", resp.Status)
	}
	h := sha1.Sum([]byte(key + wsGUID))
	if want := base64.StdEncoding.EncodeToString(h[:]); resp.Header.Get("Sec-WebSocket-Accept") != want {
		c.Close()
		return nil, fmt.Sprintf("101 response carries Sec-WebSocket-Accept %q, the backend computed %q for the key the client sent", resp.Header.Get("Sec-WebSocket-Accept"), want)
	}
	_ = c.SetDeadline(time.Time{})
	return &rawWS{c: c, br: br}, ""
}

// writeFrame sends one masked, unfragmented client frame (payload < 126 bytes).
func (w *rawWS) writeFrame(opcode byte, p []byte, maskSalt int) error {
	if len(p) >= 126 {
		return errors.New("harness: raw client only sends payloads < 126 bytes")
	}
	mask := payload(4, maskSalt, false)
	f := make([]byte, 0, 6+len(p))
	f = append(f, 0x80|opcode, 0x80|byte(len(p)))
	f = append(f, mask...)
	for i, x := range p {
		f = append(f, x^mask[i%4])
	}
	_ = w.c.SetWriteDeadline(time.Now().Add(ioBudget))
	_, err := w.c.Write(f)
	return err
}

// readFrame reads one server frame (unmasked) before the deadline.
func (w *rawWS) readFrame(within time.Duration) (opcode byte, p []byte, err error) {
	_ = w.c.SetReadDeadline(time.Now().Add(within))
	var h [2]byte
	if _, err = io.ReadFull(w.br, h[:]); err != nil {
		return 0, nil, err
	}
	if h[0]&0x80 == 0 {
		return 0, nil, errors.New("fragmented frame from the echo backend (never sent)")
	}
	if h[1]&0x80 != 0 {
		return 0, nil, errors.New("masked frame from the server side (a server never masks)")
	}
	n := int(h[1] & 0x7f)
	switch n {
	case 126:
		var l [2]byte
		if _, err = io.ReadFull(w.br, l[:]); err != nil {
			return 0, nil, err
		}
		n = int(binary.BigEndian.Uint16(l[:]))
	case 127:
		return 0, nil, errors.New("64-bit frame length from the echo backend (never sent)")
	}
	p = make([]byte, n)
	if _, err = io.ReadFull(w.br, p); err != nil {
		return 0, nil, err
	}
	return h[0] & 0x0f, p, nil
}

// silent waits d of real time while watching the connection: nothing may arrive and it may not end.
func (w *rawWS) silent(d time.Duration) string {
	start := time.Now()
	_ = w.c.SetReadDeadline(start.Add(d))
	b, err := w.br.Peek(1)
	if err == nil {
		return fmt.Sprintf("%v into the silence the client received an unsolicited byte 0x%02x (the backend only echoes)", time.Since(start).Round(time.Millisecond), b[0])
	}
	if errors.Is(err, os.ErrDeadlineExceeded) {
		return ""
	}
	return fmt.Sprintf("the tunnel was torn down although neither side had closed: %v into the silence (handler timeout %d s) the client's read ended with: %v", time.Since(start).Round(time.Millisecond), handlerTimeoutS, err)
}

func opcodeOf(t string) byte {
	if t == "text" {
		return 1
	}
	return 2
}

// runIdleSession plays: message 1 -> echo; silence beyond the handler timeout; message 2 -> echo;
// clean close. It returns the first violation.
func runIdleSession(addr string, s idleSession) string {
	w, v := dialRawWS(addr, connSpellings[s.Connection], s.Salt)
	if v != "" {
		return v
	}
	defer w.c.Close()
	exchange := func(n int, typ string, size, salt int, after string) string {
		m := payload(size, salt, typ == "text")
		if err := w.writeFrame(opcodeOf(typ), m, salt+7); err != nil {
			return fmt.Sprintf("message %d (%s): the client could not write it: %v: the tunnel was torn down although neither side had closed", n, after, err)
		}
		op, p, err := w.readFrame(closeWatchdog)
		if err != nil {
			return fmt.Sprintf("message %d (%s): no echo within the %v no-progress watchdog: %v: the tunnel was torn down (or stalled) although neither side had closed", n, after, closeWatchdog, err)
		}
		if op != opcodeOf(typ) || !bytes.Equal(p, m) {
			return fmt.Sprintf("message %d (%s): sent %s frame of %d bytes %x, the echo is opcode %d with %d bytes %x", n, after, typ, len(m), m, op, len(p), p)
		}
		return ""
	}
	if v := exchange(1, s.Type1, s.Size1, s.Salt, "right after the handshake"); v != "" {
		return v
	}
	silence := time.Duration(s.SilenceMS) * time.Millisecond
	if v := w.silent(silence); v != "" {
		return v
	}
	if v := exchange(2, s.Type2, s.Size2, s.Salt+1, fmt.Sprintf("after %v of silence, handler timeout %d s", silence, handlerTimeoutS)); v != "" {
		return v
	}
	// clean close initiated by the client: close frame 1000, the backend answers with a close frame
	cl := []byte{0x03, 0xe8}
	if err := w.writeFrame(8, cl, s.Salt+3); err != nil {
		return fmt.Sprintf("the client could not send its close frame: %v", err)
	}
	op, p, err := w.readFrame(closeWatchdog)
	if err != nil || op != 8 || len(p) < 2 || !bytes.Equal(p[:2], cl) {
		return fmt.Sprintf("client sent a close frame (1000); expected the backend's close frame (1000) within %v, got opcode %d payload %x err %v", closeWatchdog, op, p, err)
	}
	return ""
}

func TestC20TunnelOutlivesHandlerTimeout(t *testing.T) {
	const name = "tunnel-outlives-handler-timeout"
	sub := lab.Sub(name, "rapid: lab with server.timeouts.handler = 1 s (5 strategies x 1-2 echoing gorilla/websocket backends x plugin chain = any sequence of length 0-4 over {logging, size_limit, gzip, headers, request-id} x request_id/trace on/off) and 6 sessions run in parallel, "+
		"each from a minimal raw-TCP WebSocket client whose opening handshake carries a drawn legal spelling of the Connection header {Upgrade, upgrade, 'keep-alive, Upgrade', 'Upgrade, keep-alive', two field lines keep-alive + Upgrade}; "+
		"script: message 1 (text|binary, 0-125 B, masked) -> echo; 1.3-2.0 s of REAL silence (beyond the handler timeout) during which the client's read must neither end nor deliver anything; message 2 -> echo; clean close (1000) answered by the backend's close frame; "+
		"oracle (the statement: relayed until either side closes): every echo arrives unmodified within the 5 s no-progress watchdog and the connection does not end before the client closes it; one case = one session; non-trivial = list-valued or split Connection header")
	sub.NontrivialFloor(0.50)
	sub.Floor("connection-split-field-lines", 0.10)
	lab.Assume("tunnel-outlives-handler-timeout runs on the real clock (the handler timeout of a socket server cannot be virtualised): the silence is a real wait of 1.3-2.0 s against a 1 s handler timeout; only the waits for an echo are oracles, as 5 s no-progress watchdogs")
	lab.Assume("the raw client sends unfragmented masked frames with payloads < 126 bytes; mask keys and the Sec-WebSocket-Key derive from a drawn salt")
	const perCase = 6
	lab.Check(t, sub, 4, 64, func(rt *rapid.T) {
		tl := tunnelLab{Strategy: rapid.SampledFrom(lab.Strategies).Draw(rt, "strategy"), Backends: rapid.IntRange(1, 2).Draw(rt, "backends"),
			ReqID: rapid.Bool().Draw(rt, "reqid"), Trace: rapid.Bool().Draw(rt, "trace")}
		nc := rapid.IntRange(0, 4).Draw(rt, "chainlen")
		for i := 0; i < nc; i++ {
			tl.Chain = append(tl.Chain, rapid.SampledFrom(pluginPool).Draw(rt, "plugin"))
		}
		// all five spellings in every case, plus one more listed/split one, in a drawn order
		spell := append(append([]string{}, connTrivial...), connListed...)
		spell = append(spell, rapid.SampledFrom(connListed).Draw(rt, "extra"))
		spell = rapid.Permutation(spell).Draw(rt, "order")
		sessions := make([]idleSession, perCase)
		for i := range sessions {
			sessions[i] = idleSession{Connection: spell[i], SilenceMS: rapid.IntRange(1300, 2000).Draw(rt, "silence"),
				Type1: rapid.SampledFrom([]string{"text", "binary"}).Draw(rt, "type1"), Size1: rapid.SampledFrom([]int{0, 1, 17, 125}).Draw(rt, "size1"),
				Type2: rapid.SampledFrom([]string{"text", "binary"}).Draw(rt, "type2"), Size2: rapid.SampledFrom([]int{0, 1, 17, 125}).Draw(rt, "size2"),
				Salt: rapid.IntRange(0, 255).Draw(rt, "salt")}
		}
		l, err := newWSLab(tl.Strategy, tl.Backends, func(cfg *config.Config) {
			cfg.Server.Timeouts.Handler = handlerTimeoutS
			cfg.Logging.RequestID.Enabled, cfg.Logging.Trace.Enabled = tl.ReqID, tl.Trace
			if len(tl.Chain) > 0 {
				cfg.Plugins.Enabled = true
				for _, p := range tl.Chain {
					cfg.Plugins.Chain = append(cfg.Plugins.Chain, pluginConfig(p))
				}
			}
		})
		if err != nil {
			if envProblem(err.Error()) {
				return
			}
			rt.Fatalf("harness: %v", err)
		}
		defer l.Close()
		// backend side: an endpoint that answers a close by closing its connection
		stop := make(chan struct{})
		var bwg sync.WaitGroup
		for _, b := range l.backends {
			bwg.Add(1)
			go func(b *wsBackend) {
				defer bwg.Done()
				var peers []*peer
				defer func() {
					for _, p := range peers {
						p.kill()
					}
				}()
				for {
					select {
					case p := <-b.accepted:
						peers = append(peers, p)
						go func() { <-p.readEnd; _ = p.c.Close() }()
					case <-stop:
						return
					}
				}
			}(b)
		}
		viols := make([]string, perCase)
		var wg sync.WaitGroup
		for i := range sessions {
			wg.Add(1)
			go func(i int) {
				defer wg.Done()
				viols[i] = runIdleSession(l.Addr, sessions[i])
			}(i)
		}
		wg.Wait()
		close(stop)
		bwg.Wait()
		for _, v := range viols {
			if envProblem(v) {
				return
			}
		}
		first := -1
		for i, s := range sessions {
			labels := []string{fmt.Sprintf("chain-len-%d", len(tl.Chain))}
			switch {
			case strings.HasPrefix(s.Connection, "split"):
				labels = append(labels, "connection-split-field-lines")
			case s.listed():
				labels = append(labels, "connection-list-valued")
			default:
				labels = append(labels, "connection-single-token")
			}
			sub.Case(map[string]any{"lab": tl, "handler_timeout_s": handlerTimeoutS, "session": s}, s.listed(), labels...)
			if viols[i] != "" && first < 0 {
				first = i
			}
		}
		if first >= 0 {
			rt.Fatalf("lab %+v handler timeout %d s\nsession #%d %+v\n=> %s", tl, handlerTimeoutS, first, sessions[first], viols[first])
		}
		if p := l.panicLines(); len(p) > 0 {
			rt.Fatalf("handler panicked: %v", p)
		}
	})
}
