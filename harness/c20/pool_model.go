package c20

import (
	"errors"
	"fmt"
	"net"
	"runtime"
	"sync"
	"sync/atomic"
	"time"

	"github.com/0xReLogic/Helios/internal/loadbalancer"
)

// Pools are constructed once per parameter triple and reused: every NewWebSocketPool starts a janitor
// goroutine that can never be stopped (Shutdown does not end it), so one pool per case would leave
// tens of thousands of 30 s tickers behind in a thorough run and starve the test goroutine when they
// fire together. A case starts and ends with Shutdown, which leaves the pool observably empty (the
// case verifies Stats 0/0 before it begins); the parameter space is small (<= 192 + 4 pools).
var poolCache = struct {
	mu sync.Mutex
	m  map[[3]int]*loadbalancer.WebSocketPool
}{m: map[[3]int]*loadbalancer.WebSocketPool{}}

// cachedPool returns the process-wide pool for the parameters, emptied by Shutdown. It must be called
// from outside a synctest bubble (the janitor goroutine is started on first use).
func cachedPool(maxIdle, maxActive int, idleTimeout time.Duration, backends int) (*loadbalancer.WebSocketPool, string) {
	poolCache.mu.Lock()
	defer poolCache.mu.Unlock()
	k := [3]int{maxIdle, maxActive, int(idleTimeout / time.Second)}
	p, ok := poolCache.m[k]
	if !ok {
		p = loadbalancer.NewWebSocketPool(maxIdle, maxActive, idleTimeout)
		poolCache.m[k] = p
	}
	p.Shutdown()
	for b := 0; b < backends; b++ {
		if idle, active := p.Stats(backendKey(b)); idle != 0 || active != 0 {
			return p, fmt.Sprintf("before the first event: after Shutdown, Stats(%d) = %d idle / %d active, want 0/0", b, idle, active)
		}
	}
	return p, ""
}

// fakeConn is a net.Conn that records Close calls. Concurrent sub-checks use the owner mark: 0 =
// nobody holds it outside the pool, k+1 = actor k holds it.
type fakeConn struct {
	ID      int
	Backend int // the backend it was dialled for
	closed  atomic.Int32
	owner   atomic.Int32
	spin    int // busy iterations inside Close (a real Close is a system call, not instantaneous)
	// close behaviour (conn_kinds.go): what the connection does when somebody closes it
	kind     string        // name of the closeKind ("" = clean)
	closeErr error         // what Close reports; the connection is closed all the same
	delay    time.Duration // time spent inside Close (virtual time only)
	inner    net.Conn      // a real connection underneath: its Close is called and its result passed on
	released atomic.Bool   // the harness has torn the real connection down (end of case)
	lastErr  atomic.Value  // string: what the most recent Close reported ("" = nil)
	// gated close (pool_slowclose_test.go): Close announces itself on entered and then waits until the
	// harness opens gate - a Close that takes as long as the schedule says, on the real clock; nil = off
	gate      chan struct{}
	entered   chan struct{}
	enterOnce sync.Once
}

type fakeAddr string

func (a fakeAddr) Network() string { return "fake" }
func (a fakeAddr) String() string  { return string(a) }

// virtualEra: instants before it can only be read from a synctest bubble's clock.
var virtualEra = time.Date(2010, 1, 1, 0, 0, 0, 0, time.UTC)

var errClosed = errors.New("fake connection is closed")

func (c *fakeConn) Read(b []byte) (int, error) {
	if c.closed.Load() > 0 {
		return 0, errClosed
	}
	return 0, nil
}
func (c *fakeConn) Write(b []byte) (int, error) {
	if c.closed.Load() > 0 {
		return 0, errClosed
	}
	return len(b), nil
}
func (c *fakeConn) Close() error {
	for i := 0; i < c.spin; i++ {
		if i%64 == 63 {
			runtime.Gosched()
		}
	}
	if c.gate != nil {
		c.enterOnce.Do(func() { close(c.entered) })
		<-c.gate
	}
	if c.delay > 0 && time.Now().Before(virtualEra) {
		// only on a virtual clock (synctest bubbles start at 2000-01-01): the pool's janitor runs on the
		// real clock outside every bubble and must not be held up - with the pool's locks - for real seconds
		time.Sleep(c.delay)
	}
	err := c.closeErr
	if c.inner != nil && !c.released.Load() {
		err = c.inner.Close()
	}
	if err != nil {
		c.lastErr.Store(err.Error())
	} else {
		c.lastErr.Store("")
	}
	c.closed.Add(1)
	return err
}

// closeReport says, for messages, how the connection answers Close.
func (c *fakeConn) closeReport() string {
	k := c.kind
	if k == "" {
		k = "clean"
	}
	if e, _ := c.lastErr.Load().(string); e != "" {
		return fmt.Sprintf("%s; its Close reported %q", k, e)
	}
	if c.closeErr != nil {
		return fmt.Sprintf("%s; its Close reports %q", k, c.closeErr.Error())
	}
	return k
}

// closeFails: a Close of this connection reports (or has reported) an error.
func (c *fakeConn) closeFails() bool {
	if c.closeErr != nil {
		return true
	}
	e, _ := c.lastErr.Load().(string)
	return e != ""
}
func (c *fakeConn) LocalAddr() net.Addr                { return fakeAddr("local") }
func (c *fakeConn) RemoteAddr() net.Addr               { return fakeAddr(fmt.Sprintf("backend%d", c.Backend)) }
func (c *fakeConn) SetDeadline(t time.Time) error      { return nil }
func (c *fakeConn) SetReadDeadline(t time.Time) error  { return nil }
func (c *fakeConn) SetWriteDeadline(t time.Time) error { return nil }
func (c *fakeConn) isClosed() bool                     { return c.closed.Load() > 0 }

func backendKey(b int) string { return fmt.Sprintf("http://10.9.0.%d:8080", b+1) }

// ---------------------------------------------------------------------------------------------
// Reference model for sequential histories: an independent statement of what a pool may do.
// Per backend the connections the pool accepted and has not handed out again, most recent last
// (the documented reuse order is most-recently-returned first), each with the instant it was
// returned; per actor the connections it holds.
// ---------------------------------------------------------------------------------------------

type idleEntry struct {
	c     *fakeConn
	since time.Time
}

type poolModel struct {
	maxIdle     int
	idleTimeout time.Duration
	idle        map[int][]idleEntry // by backend
	held        map[int][]*fakeConn // by actor
}

func newPoolModel(maxIdle int, idleTimeout time.Duration) *poolModel {
	return &poolModel{maxIdle: maxIdle, idleTimeout: idleTimeout, idle: map[int][]idleEntry{}, held: map[int][]*fakeConn{}}
}

// sweep forgets connections the pool has closed itself (it no longer holds them).
func (m *poolModel) sweep() (dropped int) {
	for b, es := range m.idle {
		keep := es[:0:0]
		for _, e := range es {
			if e.c.isClosed() {
				dropped++
				continue
			}
			keep = append(keep, e)
		}
		m.idle[b] = keep
	}
	return dropped
}

func (m *poolModel) openIdle(b int) int {
	n := 0
	for _, e := range m.idle[b] {
		if !e.c.isClosed() {
			n++
		}
	}
	return n
}

func (m *poolModel) holderOf(c *fakeConn) (actor int, ok bool) {
	for a, cs := range m.held {
		for _, x := range cs {
			if x == c {
				return a, true
			}
		}
	}
	return 0, false
}

func (m *poolModel) findIdle(c *fakeConn) (b, i int, ok bool) {
	for b, es := range m.idle {
		for i, e := range es {
			if e.c == c {
				return b, i, true
			}
		}
	}
	return 0, 0, false
}

func (m *poolModel) unhold(actor int, c *fakeConn) {
	cs := m.held[actor]
	for i, x := range cs {
		if x == c {
			m.held[actor] = append(cs[:i:i], cs[i+1:]...)
			return
		}
	}
}

// predictGet is the documented reuse order: most recently returned first, skipping (and dropping)
// entries idle for longer than idle_timeout. Used for labels only, never as an oracle.
func (m *poolModel) predictGet(b int, now time.Time) *fakeConn {
	es := m.idle[b]
	for i := len(es) - 1; i >= 0; i-- {
		if now.Sub(es[i].since) > m.idleTimeout {
			continue
		}
		return es[i].c
	}
	return nil
}
