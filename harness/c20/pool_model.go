package c20

import (
	"errors"
	"fmt"
	"net"
	"runtime"
	"sync/atomic"
	"time"
)

// fakeConn is a net.Conn that records Close calls. Concurrent sub-checks use the owner mark: 0 =
// nobody holds it outside the pool, k+1 = actor k holds it.
type fakeConn struct {
	ID      int
	Backend int // the backend it was dialled for
	closed  atomic.Int32
	owner   atomic.Int32
	spin    int // busy iterations inside Close (a real Close is a system call, not instantaneous)
}

type fakeAddr string

func (a fakeAddr) Network() string { return "fake" }
func (a fakeAddr) String() string  { return string(a) }

var errClosed = errors.New("fake connection is closed")

func (c *fakeConn) Read(b []byte) (int, error) {
	if c.closed.Load() > 0 {
		return 0, errClosed
	}
	return 0, nil
}
func (c *fakeConn) Write(b []byte) (int, error) {
	if c.closed.Load() > 0 {
		return 0, errClosed
	}
	return len(b), nil
}
func (c *fakeConn) Close() error {
	for i := 0; i < c.spin; i++ {
		if i%64 == 63 {
			runtime.Gosched()
		}
	}
	c.closed.Add(1)
	return nil
}
func (c *fakeConn) LocalAddr() net.Addr                { return fakeAddr("local") }
func (c *fakeConn) RemoteAddr() net.Addr               { return fakeAddr(fmt.Sprintf("backend%d", c.Backend)) }
func (c *fakeConn) SetDeadline(t time.Time) error      { return nil }
func (c *fakeConn) SetReadDeadline(t time.Time) error  { return nil }
func (c *fakeConn) SetWriteDeadline(t time.Time) error { return nil }
func (c *fakeConn) isClosed() bool                     { return c.closed.Load() > 0 }

func backendKey(b int) string { return fmt.Sprintf("http://10.9.0.%d:8080", b+1) }

// ---------------------------------------------------------------------------------------------
// Reference model for sequential histories: an independent statement of what a pool may do.
// Per backend the connections the pool accepted and has not handed out again, most recent last
// (the documented reuse order is most-recently-returned first), each with the instant it was
// returned; per actor the connections it holds.
// ---------------------------------------------------------------------------------------------

type idleEntry struct {
	c     *fakeConn
	since time.Time
}

type poolModel struct {
	maxIdle     int
	idleTimeout time.Duration
	idle        map[int][]idleEntry // by backend
	held        map[int][]*fakeConn // by actor
}

func newPoolModel(maxIdle int, idleTimeout time.Duration) *poolModel {
	return &poolModel{maxIdle: maxIdle, idleTimeout: idleTimeout, idle: map[int][]idleEntry{}, held: map[int][]*fakeConn{}}
}

// sweep forgets connections the pool has closed itself (it no longer holds them).
func (m *poolModel) sweep() (dropped int) {
	for b, es := range m.idle {
		keep := es[:0:0]
		for _, e := range es {
			if e.c.isClosed() {
				dropped++
				continue
			}
			keep = append(keep, e)
		}
		m.idle[b] = keep
	}
	return dropped
}

func (m *poolModel) openIdle(b int) int {
	n := 0
	for _, e := range m.idle[b] {
		if !e.c.isClosed() {
			n++
		}
	}
	return n
}

func (m *poolModel) holderOf(c *fakeConn) (actor int, ok bool) {
	for a, cs := range m.held {
		for _, x := range cs {
			if x == c {
				return a, true
			}
		}
	}
	return 0, false
}

func (m *poolModel) findIdle(c *fakeConn) (b, i int, ok bool) {
	for b, es := range m.idle {
		for i, e := range es {
			if e.c == c {
				return b, i, true
			}
		}
	}
	return 0, 0, false
}

func (m *poolModel) unhold(actor int, c *fakeConn) {
	cs := m.held[actor]
	for i, x := range cs {
		if x == c {
			m.held[actor] = append(cs[:i:i], cs[i+1:]...)
			return
		}
	}
}

// predictGet is the documented reuse order: most recently returned first, skipping (and dropping)
// entries idle for longer than idle_timeout. Used for labels only, never as an oracle.
func (m *poolModel) predictGet(b int, now time.Time) *fakeConn {
	es := m.idle[b]
	for i := len(es) - 1; i >= 0; i-- {
		if now.Sub(es[i].since) > m.idleTimeout {
			continue
		}
		return es[i].c
	}
	return nil
}
