package c20

import (
	"bytes"
	"context"
	"errors"
	"fmt"
	"net"
	"net/http"
	"strings"
	"testing"
	"time"

	"github.com/0xReLogic/Helios/internal/config"
	"github.com/0xReLogic/Helios/verifharness/lab"
	"github.com/gorilla/websocket"
	"pgregory.net/rapid"
)

// closeWatchdog is the no-progress watchdog of the statement's termination clause ("then closes the
// other side"): >= 1000x the normal latency of a loopback relay (milliseconds at most).
const closeWatchdog = 5 * time.Second

// ---------------------------------------------------------------------------------------------
// Generator
// ---------------------------------------------------------------------------------------------

var pluginPool = []string{"logging", "size_limit", "gzip", "headers", "request-id"}

func pluginConfig(name string) config.PluginConfig {
	switch name {
	case "size_limit":
		return config.PluginConfig{Name: name, Config: map[string]interface{}{"max_request_body": 64, "max_response_body": 8}}
	case "gzip":
		return config.PluginConfig{Name: name, Config: map[string]interface{}{"level": 5.0, "min_size": 1.0,
			"content_types": []interface{}{"text/", "application/"}}}
	case "headers":
		return config.PluginConfig{Name: name, Config: map[string]interface{}{
			"set":         map[string]interface{}{"X-App": "Helios"},
			"request_set": map[string]interface{}{"X-From": "LB"}}}
	}
	return config.PluginConfig{Name: name}
}

type tunnelLab struct {
	Strategy  string   `json:"strategy"`
	Backends  int      `json:"backends"`
	Chain     []string `json:"chain"`
	ReqID     bool     `json:"request_id"`
	Trace     bool     `json:"trace"`
	BigFrames bool     `json:"single_frame_messages"` // write buffers of 256 KiB: a message is one frame (else 4 KiB fragments)
	Subproto  bool     `json:"subprotocol"`
	// NoGzipOffer: the client's handshake carries no Accept-Encoding (the gzip plugin then stays passive)
	NoGzipOffer bool `json:"no_accept_encoding,omitempty"`
	// Answer scripts what precedes and accompanies the backend's 101 (handshake.go); nil = a bare 101 at once
	Answer *answerSpec `json:"backend_answer,omitempty"`
}

type step struct {
	Op      string `json:"op"`             // c-send | c-send-echo | b-send | c-ping | b-ping | sync | quiet
	Type    string `json:"type,omitempty"` // text | binary
	Size    int    `json:"size,omitempty"`
	Salt    int    `json:"salt,omitempty"`
	Ms      int    `json:"ms,omitempty"`      // quiet: at least this much real time without traffic
	Chatter string `json:"chatter,omitempty"` // quiet: "" = both directions silent | client | backend = that side keeps sending small messages, the opposite direction is silent
}

type closeStep struct {
	Side  string `json:"side"` // client | backend
	Mode  string `json:"mode"` // clean | abrupt
	Code  int    `json:"code,omitempty"`
	Text  string `json:"text,omitempty"`
	Burst []step `json:"burst,omitempty"` // sent by the closing side immediately before it closes
	// Flood: this many further 100 KiB messages are sent by the closing side right before it closes,
	// while the other side does not read from its socket for StallMs and reads slowly afterwards (a slow reader): more than the
	// receiver's socket buffers hold is then still on its way when the closing side closes.
	Flood   int `json:"flood_100k,omitempty"`
	StallMs int `json:"reader_stall_ms,omitempty"`
}

type conversation struct {
	Steps []step    `json:"steps"`
	Close closeStep `json:"close"`
}

var sizesAll = []int{0, 1, 125, 126, 65535, 65536, 100 << 10}

func genSize(t *rapid.T) int {
	// small sizes twice as likely as the three >= 64 KiB ones (volume), all seven are drawn
	return rapid.SampledFrom([]int{0, 1, 125, 126, 0, 1, 125, 126, 65535, 65536, 100 << 10}).Draw(t, "size")
}

func genData(t *rapid.T, op string) step {
	return step{Op: op, Type: rapid.SampledFrom([]string{"text", "binary"}).Draw(t, "type"), Size: genSize(t), Salt: rapid.IntRange(0, 255).Draw(t, "salt")}
}

func genConversation(t *rapid.T, maxSteps int) conversation {
	var cv conversation
	n := rapid.IntRange(0, maxSteps).Draw(t, "steps")
	for i := 0; i < n; i++ {
		switch k := rapid.IntRange(0, 11).Draw(t, "op"); {
		case k < 3:
			cv.Steps = append(cv.Steps, genData(t, "c-send"))
		case k < 5:
			cv.Steps = append(cv.Steps, genData(t, "c-send-echo"))
		case k < 8:
			cv.Steps = append(cv.Steps, genData(t, "b-send"))
		case k < 9:
			cv.Steps = append(cv.Steps, step{Op: "c-ping", Size: rapid.SampledFrom([]int{0, 1, 125}).Draw(t, "pingsize"), Salt: rapid.IntRange(0, 255).Draw(t, "salt")})
		case k < 10:
			cv.Steps = append(cv.Steps, step{Op: "b-ping", Size: rapid.SampledFrom([]int{0, 1, 125}).Draw(t, "pingsize"), Salt: rapid.IntRange(0, 255).Draw(t, "salt")})
		default:
			cv.Steps = append(cv.Steps, step{Op: "sync"})
		}
	}
	cv.Close.Side = rapid.SampledFrom([]string{"client", "backend"}).Draw(t, "closer")
	cv.Close.Mode = rapid.SampledFrom([]string{"clean", "abrupt"}).Draw(t, "closemode")
	if cv.Close.Mode == "clean" {
		cv.Close.Code = rapid.SampledFrom([]int{websocket.CloseNormalClosure, websocket.CloseGoingAway, 3000, 4999}).Draw(t, "code")
		cv.Close.Text = rapid.SampledFrom([]string{"", "bye", strings.Repeat("r", 123)}).Draw(t, "reason")
	}
	nb := rapid.IntRange(0, 3).Draw(t, "burst")
	for i := 0; i < nb; i++ {
		op := "c-send"
		if cv.Close.Side == "backend" {
			op = "b-send"
		}
		cv.Close.Burst = append(cv.Close.Burst, genData(t, op))
	}
	if rapid.IntRange(0, 5).Draw(t, "flood") == 0 {
		cv.Close.Flood = rapid.SampledFrom([]int{16, 64}).Draw(t, "flood_n")
		cv.Close.StallMs = rapid.SampledFrom([]int{300, 600}).Draw(t, "stall_ms")
	}
	return cv
}

// payload builds n deterministic bytes from a salt; text messages are ASCII (valid UTF-8, as a
// conforming endpoint must send).
func payload(n, salt int, text bool) []byte {
	b := make([]byte, n)
	x := uint32(salt)*2654435761 + 12345
	for i := range b {
		x = x*1664525 + 1013904223
		if text {
			b[i] = byte(0x20 + (x>>24)%95)
		} else {
			b[i] = byte(x >> 24)
		}
	}
	return b
}

func (s step) msg() msg {
	switch s.Op {
	case "c-ping", "b-ping":
		return msg{kPing, payload(s.Size, s.Salt, false)}
	}
	if s.Type == "text" {
		return msg{kText, payload(s.Size, s.Salt, true)}
	}
	return msg{kBinary, payload(s.Size, s.Salt, false)}
}

// ---------------------------------------------------------------------------------------------
// Driver and oracle
// ---------------------------------------------------------------------------------------------

type session struct {
	l      *wsLab
	client *peer
	server *peer
}

// waitFor blocks until cond holds. It fails (returns a description) only when NOTHING was received,
// sent or ended on either peer for closeWatchdog.
func (s *session) waitFor(what string, cond func() bool) string {
	last := int64(-1)
	timer := time.NewTimer(closeWatchdog)
	defer timer.Stop()
	for {
		if cond() {
			return ""
		}
		ev := s.client.snapEvents() + s.server.snapEvents()
		if ev != last {
			last = ev
			if !timer.Stop() {
				select {
				case <-timer.C:
				default:
				}
			}
			timer.Reset(closeWatchdog)
		}
		select {
		case <-s.l.notify:
		case <-time.After(20 * time.Millisecond): // re-evaluate; progress is measured by the event counters, not by this tick
		case <-timer.C:
			if cond() {
				return ""
			}
			return fmt.Sprintf("no progress for %v while waiting for: %s", closeWatchdog, what)
		}
	}
}

func (p *peer) snapEvents() int64 { p.mu.Lock(); defer p.mu.Unlock(); return p.events }

func sameMsgs(a, b []msg) (int, bool) {
	n := len(a)
	if len(b) < n {
		n = len(b)
	}
	for i := 0; i < n; i++ {
		if a[i].Type != b[i].Type || !bytes.Equal(a[i].Payload, b[i].Payload) {
			return i, false
		}
	}
	if len(a) != len(b) {
		return n, false
	}
	return 0, true
}

func describe(m []msg, i int) string {
	if i >= len(m) {
		return "nothing"
	}
	names := map[int]string{kText: "text", kBinary: "binary", kPing: "ping"}
	p := m[i].Payload
	if len(p) > 12 {
		p = p[:12]
	}
	return fmt.Sprintf("%s message of %d bytes (starts %x)", names[m[i].Type], len(m[i].Payload), p)
}

// compare: receiver must have received exactly the sender's sequence.
func compare(from, to string, sent, recv []msg) string {
	if i, ok := sameMsgs(sent, recv); !ok {
		at := ""
		if i < len(sent) && i < len(recv) && sent[i].Type == recv[i].Type {
			a, b := sent[i].Payload, recv[i].Payload
			k := 0
			for k < len(a) && k < len(b) && a[k] == b[k] {
				k++
			}
			at = fmt.Sprintf(" (payloads differ first at byte %d)", k)
		}
		return at2(at, fmt.Sprintf("%s -> %s: %s sent %d messages, %s received %d; first difference at #%d: sent %s, received %s",
			from, to, from, len(sent), to, len(recv), i, describe(sent, i), describe(recv, i)))
	}
	return ""
}

func at2(at, s string) string { return s + at }

func pingPayloads(sent []msg) [][]byte {
	var out [][]byte
	for _, m := range sent {
		if m.Type == kPing {
			out = append(out, m.Payload)
		}
	}
	return out
}

func samePayloads(a, b [][]byte) bool {
	if len(a) != len(b) {
		return false
	}
	for i := range a {
		if !bytes.Equal(a[i], b[i]) {
			return false
		}
	}
	return true
}

// runConversation plays cv over a fresh session through the lab; it returns the first violation.
func runConversation(l *wsLab, tl tunnelLab, cv conversation) (viol string) {
	return runTaggedConversation(l, tl, cv, "")
}

// chatterEvery is the pace of the talking side during a one-directional quiet period (not an oracle).
const chatterEvery = 200 * time.Millisecond

// runTaggedConversation is runConversation for one of several sessions that run in parallel on the
// same lab: tag travels in the handshake (X-Verif-Session) and selects the backend end of this session.
func runTaggedConversation(l *wsLab, tl tunnelLab, cv conversation, tag string) (viol string) {
	return runObservedConversation(l, tl, cv, tag, nil)
}

// runObservedConversation also reports what the client saw of the handshake answer (obs may be nil).
func runObservedConversation(l *wsLab, tl tunnelLab, cv conversation, tag string, obs *handshakeObs) (viol string) {
	d := websocket.Dialer{HandshakeTimeout: ioBudget, ReadBufferSize: 4096, WriteBufferSize: 4096}
	hdr := http.Header{"Accept-Encoding": {"gzip"}, "X-Client-Tag": {"c20"}}
	if tl.NoGzipOffer {
		hdr.Del("Accept-Encoding")
	}
	if tl.Answer != nil {
		if obs == nil {
			obs = &handshakeObs{}
		}
		hdr.Set(answerHeader, tl.Answer.encode())
		d.EnableCompression = tl.Answer.Deflate
		// the client reads over interim responses, as every HTTP/1.1 client does
		d.NetDialContext = func(ctx context.Context, network, addr string) (net.Conn, error) {
			c, err := (&net.Dialer{}).DialContext(ctx, network, addr)
			if err != nil {
				return nil, err
			}
			*obs = handshakeObs{}
			return newSkipInterimConn(c, obs), nil
		}
	} else {
		obs = nil
	}
	if tag != "" {
		hdr.Set("X-Verif-Session", tag)
	}
	if tl.BigFrames {
		d.WriteBufferSize = 256 << 10
		hdr.Set("X-Verif-Bigframes", "1")
	}
	if tl.Subproto {
		d.Subprotocols = []string{"chat.v1"}
	}
	var cc *websocket.Conn
	var resp *http.Response
	var err error
	// A lab with 1 s timeouts may legitimately refuse an opening handshake that a starved machine stretched
	// beyond a configured timeout (read, backend_dial, backend_read as response-header timeout, a probe that
	// timed out). That is no clause of C20: such sessions (tag != "") get up to 4 attempts, spaced by more
	// than the configured 1-2 s timers; only a handshake that fails every time is reported.
	attempts := 1
	if tag != "" {
		attempts = 4
	}
	for a := 1; a <= attempts; a++ {
		if tag != "" {
			tag = fmt.Sprintf("%s-a%d", strings.SplitN(tag, "-a", 2)[0], a) // a backend end left over from a failed attempt is never claimed
			hdr.Set("X-Verif-Session", tag)
		}
		err = dialRetry(func() (e error) {
			cc, resp, e = d.Dial("ws://"+l.Addr+"/ws/session?room=1", hdr)
			return e
		})
		if err == nil || strings.Contains(err.Error(), envPrefix) {
			break
		}
		if a < attempts {
			time.Sleep(time.Duration(a) * 1200 * time.Millisecond)
		}
	}
	if err != nil && strings.Contains(err.Error(), envPrefix) {
		return err.Error()
	}
	if err != nil {
		st := ""
		if resp != nil {
			st = fmt.Sprintf(" (Helios answered %s)", resp.Status)
		}
		return fmt.Sprintf("the WebSocket session could not be established through Helios%s: %v%s%s", st, err, tl.Answer.describe(), obs.describe())
	}
	s := &session{l: l, client: newPeer("client", cc, l.notify)}
	defer s.client.kill()
	// the backend that accepted the upgrade
	if s.server = l.claim(tag, ioBudget); s.server == nil {
		return "harness: the client completed the handshake but no backend reported an accepted session"
	}
	defer s.server.kill()
	s.client.start()
	if tl.Subproto && (cc.Subprotocol() != "chat.v1" || s.server.c.Subprotocol() != "chat.v1") {
		return fmt.Sprintf("negotiated subprotocol: client %q, backend %q, want chat.v1 on both", cc.Subprotocol(), s.server.c.Subprotocol())
	}

	toServer, toClient := 0, 0 // data+ping messages queued towards each side (echoes included)
	cData := 0                 // data messages the client queued (ordinal for echo marks)
	cPings, bPings := 0, 0
	quiescent := func() bool {
		c, b := s.client.snap(), s.server.snap()
		return len(b.recv) >= toServer && len(c.recv) >= toClient && len(c.pongs) >= cPings && len(b.pongs) >= bPings ||
			c.readEnded || b.readEnded
	}
	play := func(st step) {
		switch st.Op {
		case "c-send", "c-send-echo":
			if st.Op == "c-send-echo" {
				s.server.markEcho(cData)
				toClient++
			}
			cData++
			toServer++
			s.client.sendq <- sendItem{m: st.msg()}
		case "b-send":
			toClient++
			s.server.sendq <- sendItem{m: st.msg()}
		case "c-ping":
			toServer++
			cPings++
			s.client.sendq <- sendItem{m: st.msg()}
		case "b-ping":
			toClient++
			bPings++
			s.server.sendq <- sendItem{m: st.msg()}
		}
	}
	for i, st := range cv.Steps {
		if st.Op == "sync" || st.Op == "quiet" {
			if v := s.waitFor(fmt.Sprintf("step %d (%s): delivery of everything sent so far", i, st.Op), quiescent); v != "" {
				return v + s.progressText(toServer, toClient)
			}
			if st.Op == "sync" {
				continue
			}
			// quiet: everything sent so far has been received, so from here on the silent direction(s) carry
			// nothing for AT LEAST st.Ms of real time (no upper bound is assumed or asserted). Neither side
			// closes, so neither side's read may end.
			start := time.Now()
			want := time.Duration(st.Ms) * time.Millisecond
			sent := 0
			for {
				el := time.Since(start)
				if c, b := s.client.snap(), s.server.snap(); c.readEnded || b.readEnded {
					dir := "in both directions"
					switch st.Chatter {
					case "client":
						dir = "backend -> client (the client kept sending)"
					case "backend":
						dir = "client -> backend (the backend kept sending)"
					}
					return fmt.Sprintf("the session was torn down although neither side had closed: step %d, %v into a quiet period of %v %s: client read error %v, backend read error %v%s",
						i, el.Round(time.Millisecond), want, dir, c.readErr, b.readErr, s.progressText(toServer, toClient))
				}
				if el >= want {
					break
				}
				if st.Chatter != "" && el >= time.Duration(sent)*chatterEvery {
					op := "c-send"
					if st.Chatter == "backend" {
						op = "b-send"
					}
					play(step{Op: op, Type: []string{"text", "binary"}[sent%2], Size: 1 + (st.Salt+sent)%125, Salt: st.Salt + sent})
					sent++
				}
				time.Sleep(min(20*time.Millisecond, want-el))
			}
			continue
		}
		play(st)
	}
	// nothing may be in flight towards the side that is about to close (it could not be delivered anyway)
	if v := s.waitFor("delivery of everything sent before the close", quiescent); v != "" {
		return v + s.progressText(toServer, toClient)
	}
	if c, b := s.client.snap(), s.server.snap(); c.readEnded || b.readEnded {
		return fmt.Sprintf("the session ended before either side closed it: client read error %v, backend read error %v%s", c.readErr, b.readErr, s.progressText(toServer, toClient))
	}
	closer, other := s.client, s.server
	if cv.Close.Side == "backend" {
		closer, other = s.server, s.client
	}
	for _, st := range cv.Close.Burst {
		play(st)
	}
	if cv.Close.Flood > 0 {
		other.stallReads(time.Duration(cv.Close.StallMs)*time.Millisecond, 3*time.Millisecond)
		op := "c-send"
		if cv.Close.Side == "backend" {
			op = "b-send"
		}
		for i := 0; i < cv.Close.Flood; i++ {
			play(step{Op: op, Type: "binary", Size: 100 << 10, Salt: 200 + i})
		}
	}
	closer.sendq <- sendItem{close: cv.Close.Mode, code: cv.Close.Code, text: cv.Close.Text}
	// after one side closes, the other side's read must end
	if v := s.waitFor(fmt.Sprintf("%s's read to end after %s closed (%s)", other.name, closer.name, cv.Close.Mode), func() bool { return other.snap().readEnded }); v != "" {
		return v + s.progressText(toServer, toClient)
	}
	// the other side answers the close as an endpoint does: it closes its connection
	_ = other.c.Close()
	if v := s.waitFor(fmt.Sprintf("%s's own read to end after it closed (%s)", closer.name, cv.Close.Mode), func() bool { return closer.snap().readEnded }); v != "" {
		return v
	}
	_ = closer.c.Close()

	c, b := s.client.snap(), s.server.snap()
	if v := compare("client", "backend", c.sent, b.recv); v != "" {
		return v
	}
	if v := compare("backend", "client", b.sent, c.recv); v != "" {
		return v
	}
	if !samePayloads(pingPayloads(c.sent), c.pongs) {
		return fmt.Sprintf("client sent %d pings, received %d pongs (payloads must match in order)", len(pingPayloads(c.sent)), len(c.pongs))
	}
	if !samePayloads(pingPayloads(b.sent), b.pongs) {
		return fmt.Sprintf("backend sent %d pings, received %d pongs (payloads must match in order)", len(pingPayloads(b.sent)), len(b.pongs))
	}
	o := other.snap()
	if cv.Close.Mode == "clean" {
		var ce *websocket.CloseError
		if !errors.As(o.readErr, &ce) || ce.Code != cv.Close.Code || ce.Text != cv.Close.Text {
			return fmt.Sprintf("%s sent a close frame (code %d, reason %q); %s's read ended with: %v", closer.name, cv.Close.Code, cv.Close.Text, other.name, o.readErr)
		}
	}
	return ""
}

func (s *session) progressText(toServer, toClient int) string {
	c, b := s.client.snap(), s.server.snap()
	return fmt.Sprintf(" [client sent %d, backend received %d of %d; backend sent %d, client received %d of %d; client pongs %d, backend pongs %d; client read err %v write err %v; backend read err %v write err %v]",
		len(c.sent), len(b.recv), toServer, len(b.sent), len(c.recv), toClient, len(c.pongs), len(b.pongs), c.readErr, c.writeErr, b.readErr, b.writeErr)
}

func TestC20Tunnel(t *testing.T) {
	sub := lab.Sub("websocket-tunnel", "rapid: lab (5 strategies x 1-2 gorilla/websocket backends x plugin chain = any sequence of length 0-4 over {logging, size_limit(8 B response limit), gzip, headers, request-id} x request_id/trace on/off x "+
		"single-frame or 4 KiB-fragmented messages x subprotocol) behind a real http.Server with the real handler chain, gorilla client sending Accept-Encoding: gzip (none in 1 lab of 3); 1-2 sessions, "+
		"each with its own drawn backend answer to the opening handshake: after 0/10/60 ms, 0-3 interim responses (103 Early Hints with Link fields, 102 Processing, 100 Continue; optionally 15 ms apart) before the 101, "+
		"the 101 optionally carrying further fields (two Set-Cookie, a 3000-byte token, Server + Cache-Control, Vary + an empty field) and, in 1 of 8, agreeing on permessage-deflate (the client reads over interim responses like any HTTP/1.1 client and then requires one complete 101); each session a script of <= 40 steps over "+
		"{client sends text|binary of 0,1,125,126,65535,65536,102400 B, same with backend echo, backend sends unsolicited, ping from either side, sync}, queued without waiting (both directions in flight together), ended by a drawn side with a close frame (drawn code/reason) or an abrupt TCP close, preceded by a burst of 0-3 messages from the closing side and, in 1 of 6 sessions, by a flood of 16 or 64 further 100 KiB messages while the other side does not read for 300/600 ms and then reads one message per 3 ms (more than its socket buffers hold is still on its way when the closing side closes); "+
		"oracle: each side received exactly the (type, payload) sequence the other side's writer sent, pongs match pings, a close frame arrives with its code and reason, and after one side closes the other side's read ends within a 5 s no-progress watchdog; "+
		"non-trivial = data in both directions and a non-empty plugin chain")
	sub.NontrivialFloor(0.40)
	sub.Floor("close-abrupt-client", 0.10)
	sub.Floor("close-abrupt-backend", 0.10)
	sub.Floor("size>=64KiB", 0.30)
	sub.Floor("answer-interim-before-101", 0.25)
	sub.Floor("answer-interim-chain-writes-through", 0.12)
	lab.Assume("L2 (C20): handler composition replicates cmd/helios/server.go (lab.BuildHandler) with the default server timeouts; gorilla/websocket v1.5.3 is both client and backend; loopback TCP; no TLS; permessage-deflate only as negotiated by gorilla (no context takeover)")
	lab.Assume("interim (1xx) responses of the backend are not judged themselves (the statement is about the session): the client skips whatever interim responses reach it and the oracle starts at the final response, which must be a complete 101; how many reached the client is recorded as a label")
	lab.Assume("a close is issued at a quiescent point: messages still in flight TOWARDS a side that closes are not explored (they cannot be delivered); messages sent BY the closing side right before closing must arrive")
	lab.Assume("frame masking keys are chosen by the client library, so 'unmodified' is decided on (type, payload, order, close code/reason), not on raw wire bytes")
	maxSteps := 40
	lab.Check(t, sub, 300, 10000, func(rt *rapid.T) {
		tl := tunnelLab{Strategy: rapid.SampledFrom(lab.Strategies).Draw(rt, "strategy"), Backends: rapid.IntRange(1, 2).Draw(rt, "backends"),
			ReqID: rapid.Bool().Draw(rt, "reqid"), Trace: rapid.Bool().Draw(rt, "trace"), BigFrames: rapid.Bool().Draw(rt, "bigframes"), Subproto: rapid.Bool().Draw(rt, "subproto"),
			NoGzipOffer: rapid.IntRange(0, 2).Draw(rt, "nogzipoffer") == 0}
		nc := rapid.IntRange(0, 4).Draw(rt, "chainlen")
		for i := 0; i < nc; i++ {
			tl.Chain = append(tl.Chain, rapid.SampledFrom(pluginPool).Draw(rt, "plugin"))
		}
		sessions := rapid.IntRange(1, 2).Draw(rt, "sessions")
		l, err := newWSLab(tl.Strategy, tl.Backends, func(cfg *config.Config) {
			cfg.Logging.RequestID.Enabled, cfg.Logging.Trace.Enabled = tl.ReqID, tl.Trace
			if len(tl.Chain) > 0 {
				cfg.Plugins.Enabled = true
				for _, p := range tl.Chain {
					cfg.Plugins.Chain = append(cfg.Plugins.Chain, pluginConfig(p))
				}
			}
		})
		if err != nil {
			if envProblem(err.Error()) {
				return
			}
			rt.Fatalf("harness: %v", err)
		}
		defer l.Close()
		for si := 0; si < sessions; si++ {
			tl := tl
			tl.Answer = genAnswer(rt) // every session's handshake is answered in its own way
			cv := genConversation(rt, maxSteps)
			var obs handshakeObs
			viol := runObservedConversation(l, tl, cv, "", &obs)
			if envProblem(viol) {
				return
			}
			labels, nt := tunnelLabels(tl, cv)
			labels = append(labels, answerLabels(tl, &obs)...)
			sub.Case(map[string]any{"lab": tl, "session": si, "conversation": cv}, nt, labels...)
			if viol != "" {
				if !strings.Contains(viol, "the backend's answer to the handshake was") {
					viol += tl.Answer.describe() + obs.describe()
				}
				rt.Fatalf("lab %+v answer %+v\nsession #%d: %d steps %+v\nclose %+v\n=> %s", tl, *tl.Answer, si, len(cv.Steps), cv.Steps, cv.Close, viol)
			}
		}
		if p := l.panicLines(); len(p) > 0 {
			rt.Fatalf("handler panicked: %v", p)
		}
	})
}

func tunnelLabels(tl tunnelLab, cv conversation) (labels []string, nontrivial bool) {
	c2b, b2c, big := false, false, false
	all := append(append([]step{}, cv.Steps...), cv.Close.Burst...)
	for _, st := range all {
		switch st.Op {
		case "c-send":
			c2b = true
		case "c-send-echo":
			c2b, b2c = true, true
		case "b-send":
			b2c = true
		}
		if st.Size >= 65535 {
			big = true
		}
	}
	labels = append(labels, fmt.Sprintf("chain-len-%d", len(tl.Chain)), "close-"+cv.Close.Mode+"-"+cv.Close.Side)
	for _, p := range pluginPool {
		for _, q := range tl.Chain {
			if p == q {
				labels = append(labels, "plugin-"+p)
				break
			}
		}
	}
	if c2b && b2c {
		labels = append(labels, "both-directions")
	}
	if big {
		labels = append(labels, "size>=64KiB")
	}
	if cv.Close.Flood > 0 {
		labels = append(labels, "flood-before-close-slow-reader")
	}
	if len(cv.Close.Burst) > 0 {
		labels = append(labels, "burst-before-close")
	}
	if tl.BigFrames {
		labels = append(labels, "single-frame")
	} else {
		labels = append(labels, "fragmented")
	}
	return labels, c2b && b2c && len(tl.Chain) > 0
}

// answerLabels classifies how the backend answered the handshake and what the client saw of it
// (what it saw is recorded, not judged: the statement says nothing about interim responses themselves).
func answerLabels(tl tunnelLab, obs *handshakeObs) (labels []string) {
	a := tl.Answer
	if a == nil {
		return nil
	}
	if len(a.Interim) == 0 {
		labels = append(labels, "answer-bare-101")
	} else {
		labels = append(labels, "answer-interim-before-101", fmt.Sprintf("answer-interim-x%d", len(a.Interim)))
		seen := map[int]bool{}
		for _, in := range a.Interim {
			if !seen[in.Code] {
				seen[in.Code] = true
				labels = append(labels, fmt.Sprintf("answer-interim-%d", in.Code))
			}
		}
		passive := true // no plugin of the chain that holds back the response head is in the way
		for _, p := range tl.Chain {
			if p == "size_limit" || (p == "gzip" && !tl.NoGzipOffer) {
				passive = false
			}
		}
		if passive {
			labels = append(labels, "answer-interim-chain-writes-through")
		}
		switch n := len(obs.Interim); {
		case n == len(a.Interim):
			labels = append(labels, "interim-all-reached-client")
		case n == 0:
			labels = append(labels, "interim-none-reached-client")
		default:
			labels = append(labels, "interim-some-reached-client")
		}
	}
	if a.DelayMs > 0 {
		labels = append(labels, "answer-delayed")
	}
	if len(a.Extra) > 0 {
		labels = append(labels, "answer-101-extra-fields")
	}
	if a.Deflate {
		labels = append(labels, "permessage-deflate")
	}
	if tl.NoGzipOffer {
		labels = append(labels, "no-accept-encoding")
	}
	return labels
}
