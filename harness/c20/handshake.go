package c20

import (
	"bufio"
	"bytes"
	"encoding/json"
	"fmt"
	"net"
	"net/http"
	"strconv"
	"strings"
	"time"

	"pgregory.net/rapid"
)

// ---------------------------------------------------------------------------------------------
// What precedes and accompanies the backend's answer to the opening handshake.
//
// A WebSocket origin does not have to answer an Upgrade request with a bare 101 at once. It is an
// HTTP/1.1 server: it may take its time, it may send interim responses first (103 Early Hints from a
// framework middleware or an intermediate proxy, 102 Processing, an unsolicited 100 Continue), its 101
// may carry further fields (cookies, a long token, Server, Cache-Control) and may agree on a
// subprotocol and on the permessage-deflate extension. A client - like every HTTP/1.1 client - reads
// over interim responses and then expects exactly one complete 101 (Upgrade, Connection,
// Sec-WebSocket-Accept); from the byte after its blank line on, the connection carries frames.
// The statement quantifies over WebSocket sessions through Helios with any plugin chain, so over the
// sessions of all these origins.
// ---------------------------------------------------------------------------------------------

type interimResp struct {
	Code    int         `json:"code"`
	Header  [][2]string `json:"header,omitempty"`
	PauseMs int         `json:"pause_ms,omitempty"` // the origin waits this long after sending it
}

// answerSpec scripts the origin's answer to one opening handshake. It travels to the backend in the
// X-Verif-Answer request header (JSON); a handshake without that header is answered with a bare 101 at once.
type answerSpec struct {
	DelayMs int           `json:"delay_ms,omitempty"` // before the first byte of the answer
	Interim []interimResp `json:"interim,omitempty"`  // sent, in this order, before the 101
	Extra   [][2]string   `json:"extra_101_header,omitempty"`
	Deflate bool          `json:"permessage_deflate,omitempty"` // client offers and origin accepts the extension
}

const answerHeader = "X-Verif-Answer"

func (a *answerSpec) encode() string {
	b, _ := json.Marshal(a)
	return string(b)
}

func parseAnswer(r *http.Request) answerSpec {
	var a answerSpec
	if v := r.Header.Get(answerHeader); v != "" {
		_ = json.Unmarshal([]byte(v), &a)
	}
	return a
}

// sendInterim plays the part of the answer that comes before the 101 on the origin's ResponseWriter.
func (a answerSpec) sendInterim(w http.ResponseWriter) {
	if a.DelayMs > 0 {
		time.Sleep(time.Duration(a.DelayMs) * time.Millisecond)
	}
	for _, in := range a.Interim {
		for _, kv := range in.Header {
			w.Header().Add(kv[0], kv[1])
		}
		w.WriteHeader(in.Code) // net/http writes and flushes an interim response for 1xx codes other than 101
		for _, kv := range in.Header {
			w.Header().Del(kv[0]) // RFC 8297: the header map is not cleared by the server
		}
		if in.PauseMs > 0 {
			time.Sleep(time.Duration(in.PauseMs) * time.Millisecond)
		}
	}
}

var extra101 = [][][2]string{
	{{"Set-Cookie", "sid=abc123; Path=/; HttpOnly"}, {"Set-Cookie", "region=eu; Path=/ws"}},
	{{"X-Session-Token", strings.Repeat("t0k3n-", 500)}}, // 3000 bytes in one field
	{{"Server", "origin/1.0"}, {"Cache-Control", "no-store"}},
	{{"Vary", "Origin"}, {"X-Empty", ""}},
}

func genInterim(rt *rapid.T) interimResp {
	in := interimResp{Code: rapid.SampledFrom([]int{103, 103, 102, 100}).Draw(rt, "interimcode")}
	if in.Code == 103 {
		in.Header = append(in.Header, [2]string{"Link", "</app.js>; rel=preload; as=script"})
		if rapid.Bool().Draw(rt, "twolinks") {
			in.Header = append(in.Header, [2]string{"Link", "</style.css>; rel=preload; as=style"}, [2]string{"X-Hint-Source", "origin"})
		}
	}
	in.PauseMs = rapid.SampledFrom([]int{0, 0, 0, 15}).Draw(rt, "interimpause")
	return in
}

// genAnswer: three answers in seven are the bare immediate 101 plus possibly extras; the others are
// preceded by 1-3 interim responses.
func genAnswer(rt *rapid.T) *answerSpec {
	a := &answerSpec{DelayMs: rapid.SampledFrom([]int{0, 0, 0, 0, 10, 60}).Draw(rt, "answerdelay")}
	n := rapid.SampledFrom([]int{0, 0, 0, 1, 1, 2, 3}).Draw(rt, "interims")
	for i := 0; i < n; i++ {
		a.Interim = append(a.Interim, genInterim(rt))
	}
	if k := rapid.IntRange(0, 2*len(extra101)-1).Draw(rt, "extra101"); k < len(extra101) {
		a.Extra = extra101[k]
	}
	a.Deflate = rapid.IntRange(0, 7).Draw(rt, "deflate") == 0
	return a
}

// ---------------------------------------------------------------------------------------------
// Client side: an HTTP/1.1 client reads over interim responses (RFC 9110 15.2). gorilla/websocket's
// Dialer takes the first response it reads for the final one, so the interim responses are taken out
// of the byte stream underneath it - recorded, never judged - and everything from the first
// non-interim status line on is passed through untouched.
// ---------------------------------------------------------------------------------------------

type seenResp struct {
	Code   int
	Header []string // raw field lines
}

type handshakeObs struct {
	Interim []seenResp // interim responses the client read before the final one
	Final   string     // the final response's head as received (status line + fields), for messages
}

type skipInterimConn struct {
	net.Conn
	br      *bufio.Reader
	final   bool
	pending bytes.Buffer
	rerr    error
	obs     *handshakeObs
}

func newSkipInterimConn(c net.Conn, obs *handshakeObs) *skipInterimConn {
	return &skipInterimConn{Conn: c, br: bufio.NewReaderSize(c, 4096), obs: obs}
}

// readHead reads one response head (through its blank line). code 0 = not an HTTP status line.
func (c *skipInterimConn) readHead() (raw []byte, code int, fields []string, err error) {
	for {
		line, e := c.br.ReadBytes('\n')
		raw = append(raw, line...)
		if e != nil {
			return raw, code, fields, e
		}
		t := strings.TrimRight(string(line), "\r\n")
		if len(raw) == len(line) { // status line
			parts := strings.SplitN(t, " ", 3)
			if len(parts) < 2 || !strings.HasPrefix(parts[0], "HTTP/") {
				return raw, 0, nil, nil
			}
			code, _ = strconv.Atoi(parts[1])
			continue
		}
		if t == "" {
			return raw, code, fields, nil
		}
		fields = append(fields, t)
		if len(raw) > 1<<20 {
			return raw, code, fields, nil
		}
	}
}

func (c *skipInterimConn) Read(p []byte) (int, error) {
	for !c.final {
		raw, code, fields, err := c.readHead()
		if err == nil && code >= 100 && code < 200 && code != http.StatusSwitchingProtocols {
			c.obs.Interim = append(c.obs.Interim, seenResp{code, fields})
			continue
		}
		c.final = true
		c.pending.Write(raw)
		c.rerr = err
		c.obs.Final = strings.TrimRight(string(raw), "\r\n")
	}
	if c.pending.Len() > 0 {
		return c.pending.Read(p)
	}
	if c.rerr != nil {
		err := c.rerr
		c.rerr = nil
		return 0, err
	}
	return c.br.Read(p)
}

func (o *handshakeObs) describe() string {
	if o == nil {
		return ""
	}
	var codes []string
	for _, in := range o.Interim {
		codes = append(codes, fmt.Sprint(in.Code))
	}
	final := o.Final
	if len(final) > 700 {
		final = final[:700] + "..."
	}
	return fmt.Sprintf("; before the final response the client read %d interim response(s) %v; the final response head it received was:\n%s\n", len(o.Interim), codes, indent(final))
}

func indent(s string) string {
	return "      | " + strings.ReplaceAll(strings.ReplaceAll(s, "\r\n", "\n"), "\n", "\n      | ")
}

func (a *answerSpec) describe() string {
	if a == nil {
		return ""
	}
	var parts []string
	if a.DelayMs > 0 {
		parts = append(parts, fmt.Sprintf("after %d ms", a.DelayMs))
	}
	for _, in := range a.Interim {
		parts = append(parts, fmt.Sprintf("%d %s (%d field(s))", in.Code, http.StatusText(in.Code), len(in.Header)))
	}
	x := ""
	if len(a.Extra) > 0 {
		x = fmt.Sprintf(" carrying %d further field(s)", len(a.Extra))
	}
	if a.Deflate {
		x += " and accepting permessage-deflate"
	}
	parts = append(parts, "101 Switching Protocols"+x)
	return "; the backend's answer to the handshake was: " + strings.Join(parts, ", then ")
}
