package c05

import (
	"fmt"
	"reflect"
	"testing"
	"unsafe"

	"github.com/0xReLogic/Helios/verifharness/lab"
)

// A rotation that has already served 2^32 requests (hours of production traffic, not reachable by
// sending them): the strategy's rotation counter is moved close to 2^32 by reflection - whatever
// unsigned integer field of the strategy object holds it, whatever its width - and a window of
// picks is taken across that point. round_robin must go on giving each of the n backends exactly
// one of every n consecutive requests.
func fastForwardRotation(lb any, to uint64) (string, bool) {
	v := reflect.ValueOf(lb)
	for v.Kind() == reflect.Pointer || v.Kind() == reflect.Interface {
		v = v.Elem()
	}
	sf := v.FieldByName("strategy")
	if !sf.IsValid() {
		return "", false
	}
	s := sf
	for s.Kind() == reflect.Pointer || s.Kind() == reflect.Interface {
		if s.IsNil() {
			return "", false
		}
		s = s.Elem()
	}
	if s.Kind() != reflect.Struct {
		return "", false
	}
	for i := 0; i < s.NumField(); i++ {
		f := s.Field(i)
		if !f.CanAddr() {
			return "", false
		}
		switch f.Kind() {
		case reflect.Uint64, reflect.Uint, reflect.Uintptr:
			*(*uint64)(unsafe.Pointer(f.UnsafeAddr())) = to
			return fmt.Sprintf("%s.%s (%s)", s.Type().Name(), s.Type().Field(i).Name, f.Kind()), true
		case reflect.Uint32:
			*(*uint32)(unsafe.Pointer(f.UnsafeAddr())) = uint32(to)
			return fmt.Sprintf("%s.%s (%s)", s.Type().Name(), s.Type().Field(i).Name, f.Kind()), true
		case reflect.Int64, reflect.Int:
			*(*int64)(unsafe.Pointer(f.UnsafeAddr())) = int64(to)
			return fmt.Sprintf("%s.%s (%s)", s.Type().Name(), s.Type().Field(i).Name, f.Kind()), true
		case reflect.Int32:
			*(*int32)(unsafe.Pointer(f.UnsafeAddr())) = int32(uint32(to))
			return fmt.Sprintf("%s.%s (%s)", s.Type().Name(), s.Type().Field(i).Name, f.Kind()), true
		}
	}
	return "", false
}

type rrWrapCase struct {
	N      int    `json:"backends"`
	Before int    `json:"picks_before_2^32"`
	Field  string `json:"counter_field,omitempty"`
}

func TestC05RRAfter2to32Requests(t *testing.T) {
	const name = "rr-window-across-2^32-requests"
	sub := lab.Sub(name, "complete enumeration: round_robin pools of 1..8 backends x rotation counter moved by reflection to 2^32 - k (k = 0..2n+1; also 2^31 - k: a signed 32-bit counter) x a window of 4n picks through lb.NextBackend across that point; "+
		"oracle: every n consecutive picks of the window hit each backend exactly once; non-trivial = n >= 2; if the strategy object has no integer field to move (a different representation) the case is counted as not applicable")
	lab.Assume("rr-window-across-2^32-requests: the rotation counter is located by reflection (first integer field of the round_robin strategy object) - an implementation that keeps its position elsewhere is not covered by this sub-check")
	if lab.Replaying() {
		t.Skip()
	}
	for n := 1; n <= 8; n++ {
		for _, base := range []uint64{1 << 32, 1 << 31} {
			for k := 0; k <= 2*n+1; k++ {
				p, err := newPool("round_robin", lab.Ones(n))
				if err != nil {
					t.Fatalf("harness: %v", err)
				}
				field, ok := fastForwardRotation(p.lb, base-uint64(k))
				c := rrWrapCase{N: n, Before: k, Field: field}
				if !ok {
					sub.Case(c, false, "not-applicable")
					p.close()
					continue
				}
				var picks []string
				for i := 0; i < 4*n; i++ {
					b, _ := p.pick("next")
					picks = append(picks, b)
				}
				p.close()
				sub.Case(c, n >= 2, fmt.Sprintf("n%d", n))
				for i := 0; i+n <= len(picks); i++ {
					seen := map[string]bool{}
					for _, b := range picks[i : i+n] {
						seen[b] = true
					}
					if len(seen) != n || seen[""] {
						lab.Violation(t, name, c, "round_robin over %d backends, rotation counter %s set to %d - %d (a rotation that has served that many requests): picks %d..%d of the following window are %v - not each backend once; whole window %v",
							n, field, base, k, i, i+n-1, picks[i:i+n], picks)
						return
					}
				}
			}
		}
	}
}
