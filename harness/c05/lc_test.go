//go:build go1.25

package c05

import (
	"fmt"
	"sort"
	"testing"
	"testing/synctest"
	"time"

	"github.com/0xReLogic/Helios/verifharness/lab"
	"pgregory.net/rapid"
)

// least_connections, model-based. The model is the harness's own count of requests that are in
// flight at each backend: requests dispatched through lb.ServeHTTP that are parked inside the
// backend's scripted transport (the real path), plus - in part of the cases - an initial vector
// put there with the exported Backend.IncrementConnections (how "all in-flight count vectors" are
// reached without thousands of parked goroutines). After every `start`, the backend that received
// the request must be eligible and its in-flight count (before this request) must be minimal
// among the eligible backends. Ties: any minimal backend is accepted.

type lcEvent struct {
	K string `json:"k"` // start | finish | eject | recover | add | remove
	I int    `json:"i,omitempty"`
	D string `json:"d,omitempty"`
}

func TestC05LeastConnections(t *testing.T) {
	const openKey = keyLC
	sub := lab.Sub("lc-model", "rapid histories (5..60 events of start/finish(j)/eject/recover/add/remove, pool 1..8, in half of the cases with drawn non-uniform weights 0..10) against lb.ServeHTTP with every backend holding its "+
		"requests (before answering, after the response head or mid-body, drawn per backend) in the L1 fake network, virtual time; half of the cases start from a drawn in-flight vector (each from {0,1,2,3,5,6,99,100,101,500}) set through Backend.IncrementConnections; "+
		"oracle after every start: the request arrived at an eligible backend whose in-flight count was minimal among eligible backends; "+
		"non-trivial = at least one start with >=2 eligible backends whose in-flight counts were not all equal")
	sub.NontrivialFloor(0.6)
	sub.Floor("parked-only", 0.3)
	sub.Floor("preloaded-vector", 0.3)
	sub.Floor("finish-used", 0.5)
	sub.Floor("inflight-99plus", 0.2)
	sub.Floor("non-uniform-weights", 0.4)
	excl := excluded(openKey)
	if excl {
		sub.Floor("start-while-ejected", 0.15) // most such starts fall into the excluded region
	} else {
		sub.Floor("start-while-ejected", 0.3)
	}
	lab.Assume("C05 lc-model: in-flight = requests parked in the scripted RoundTripper (L1) plus, where labelled preloaded-vector, counts set through the exported Backend.IncrementConnections")
	maxEv := lab.Scale(60, 120)
	lab.Check(t, sub, 2000, 40000, func(rt *rapid.T) {
		n0 := rapid.IntRange(1, 8).Draw(rt, "n0")
		preload := rapid.Bool().Draw(rt, "preload")
		weighted := rapid.Bool().Draw(rt, "weighted")
		nev := rapid.IntRange(5, maxEv).Draw(rt, "events")
		var evs []lcEvent
		var pre []int
		var viol string
		dressLabel := ""
		informative, startsWhileEjected, finishes, ties, excludedStarts := 0, 0, 0, 0, 0
		rapid.SyncTest(rt, func(rt *rapid.T) {
			// weights play no part in least_connections (the statement compares in-flight counts
			// only): half of the pools carry drawn, non-uniform weights
			ws := lab.Ones(n0)
			if weighted {
				for i := range ws {
					ws[i] = rapid.SampledFrom([]int{0, 1, 1, 2, 3, 5, 10}).Draw(rt, "weight")
				}
			}
			p, err := newPool("least_connections", ws)
			if err != nil {
				rt.Fatalf("harness: %v", err)
			}
			defer p.close()
			p.dressFrom(rt)
			dressLabel = p.dress.Label()
			t0 := time.Now()
			inflight := map[string]int{} // the model
			parked := map[string]int{}
			until := map[string]time.Time{}
			done := make(chan int, 4096)
			outstanding := 0
			defer func() {
				p.fn.ReleaseAll()
				for ; outstanding > 0; outstanding-- {
					<-done
				}
			}()
			for i := 0; i < n0; i++ {
				// where an in-flight request is held: before the backend answers, after its response head, or mid-body
				// (a download, an event stream): it is in flight in all three
				p.fn.Set(lab.BackendHost(i), rapid.SampledFrom([]lab.Behaviour{lab.Park, lab.Park, lab.ParkHead, lab.ParkMidBody}).Draw(rt, "park_phase"))
			}
			if preload {
				for i := 0; i < n0; i++ {
					c := rapid.SampledFrom(lcMagnitudes).Draw(rt, "pre")
					pre = append(pre, c)
					for j := 0; j < c; j++ {
						p.backend(lab.BackendName(i)).IncrementConnections()
					}
					inflight[lab.BackendName(i)] = c
				}
			}
			sweep := func() {
				now := time.Now()
				for _, n := range p.names {
					if p.ejected[n] && now.After(until[n]) {
						if !p.lb.IsBackendHealthy(p.backend(n)) {
							panic("harness: backend not healthy after its ejection window")
						}
						p.ejected[n] = false
					}
				}
			}
			for e := 0; e < nev && viol == ""; e++ {
				var ej, busy []int
				for i, n := range p.names {
					if p.ejected[n] {
						ej = append(ej, i)
					}
					if parked[n] > 0 {
						busy = append(busy, i)
					}
				}
				k := rapid.IntRange(0, 99).Draw(rt, "ev")
				switch {
				case k < 50: // start
					E := p.eligible()
					if len(E) == 0 {
						continue // the statement says nothing about an empty eligible set
					}
					min := -1
					for _, b := range E {
						if min < 0 || inflight[b] < min {
							min = inflight[b]
						}
					}
					if excl {
						// open finding: the strategy ignores health; excluded region = some ejected
						// member holds an in-flight count <= the minimum among eligible backends
						hit := false
						for _, b := range p.names {
							hit = hit || (p.ejected[b] && inflight[b] <= min)
						}
						if hit {
							excludedStarts++
							continue
						}
					}
					evs = append(evs, lcEvent{K: "start"})
					before := p.fn.Arrivals()
					outstanding++
					req := p.nextReq()
					go func() {
						st, _, _, _ := lab.Serve(p.lb, req)
						done <- st
					}()
					synctest.Wait()
					if p.fn.Arrivals() != before+1 {
						st := -1
						select {
						case st = <-done:
							outstanding--
						default:
						}
						viol = fmt.Sprintf("event #%d start: the request was given to no backend (status %d) although %v are eligible (in-flight %v, ejected %v)", len(evs), st, E, inflight, keysOf(p.ejected))
						break
					}
					got := hostName(p.fn.HostAt(before))
					isE, nmin, distinct := false, 0, map[int]bool{}
					for _, b := range E {
						isE = isE || b == got
						distinct[inflight[b]] = true
						if inflight[b] == min {
							nmin++
						}
					}
					if len(E) >= 2 && len(distinct) >= 2 {
						informative++
					}
					if nmin >= 2 {
						ties++
					}
					if len(E) < len(p.names) {
						startsWhileEjected++
					}
					if !isE {
						viol = fmt.Sprintf("event #%d start: the request went to %s, which is not eligible (eligible %v)", len(evs), got, E)
						break
					}
					if inflight[got] != min {
						viol = fmt.Sprintf("event #%d start: the request went to %s with %d requests in flight; the minimum among eligible backends %v is %d (in-flight %v)",
							len(evs), got, inflight[got], E, min, inflight)
						break
					}
					inflight[got]++
					parked[got]++
				case k < 72 && len(busy) > 0: // finish the oldest request parked at a drawn backend
					i := rapid.SampledFrom(busy).Draw(rt, "j")
					evs = append(evs, lcEvent{K: "finish", I: i})
					name := p.names[i]
					if !p.fn.Release(name+".test", lab.Good) {
						panic("harness: nothing parked at " + name)
					}
					synctest.Wait()
					if st := <-done; st != 200 {
						panic(fmt.Sprintf("harness: released request finished with %d", st))
					}
					outstanding--
					inflight[name]--
					parked[name]--
					finishes++
				case k < 82:
					i := rapid.IntRange(0, len(p.names)-1).Draw(rt, "i")
					d := rapid.SampledFrom(ejectFor).Draw(rt, "d")
					p.lb.MarkBackendUnhealthy(p.backend(p.names[i]), d)
					p.ejected[p.names[i]] = true
					until[p.names[i]] = time.Now().Add(d)
					evs = append(evs, lcEvent{K: "eject", I: i, D: d.String()})
				case k < 90 && len(ej) > 0 && time.Since(t0) < 12*time.Hour: // parked requests live for a day of virtual time (handler timeout)
					i := rapid.SampledFrom(ej).Draw(rt, "i")
					d := time.Until(until[p.names[i]]) + time.Second
					time.Sleep(d)
					evs = append(evs, lcEvent{K: "recover", I: i, D: d.String()})
					sweep()
				case k < 95 && len(p.names) < 8:
					aw := 1
					if weighted {
						aw = rapid.SampledFrom([]int{0, 1, 2, 3, 5, 10}).Draw(rt, "add_weight")
					}
					name, err := p.add(aw)
					if err != nil {
						rt.Fatalf("harness: %v", err)
					}
					p.fn.Set(name+".test", rapid.SampledFrom([]lab.Behaviour{lab.Park, lab.ParkHead, lab.ParkMidBody}).Draw(rt, "park_phase_added"))
					evs = append(evs, lcEvent{K: "add"})
				case len(p.names) > 1:
					// remove a backend that has nothing parked (its in-flight requests would finish
					// outside the pool; the statement is about the eligible members)
					var idle []int
					for i, n := range p.names {
						if parked[n] == 0 {
							idle = append(idle, i)
						}
					}
					if len(idle) == 0 {
						continue
					}
					i := rapid.SampledFrom(idle).Draw(rt, "i")
					evs = append(evs, lcEvent{K: "remove", I: i})
					delete(inflight, p.names[i])
					delete(until, p.names[i])
					p.remove(p.names[i])
				}
			}
		})
		labels := []string{}
		if preload {
			labels = append(labels, "preloaded-vector")
			for _, c := range pre {
				if c >= 99 {
					labels = append(labels, "inflight-99plus")
					break
				}
			}
		} else {
			labels = append(labels, "parked-only")
		}
		if startsWhileEjected > 0 {
			labels = append(labels, "start-while-ejected")
		}
		if finishes > 0 {
			labels = append(labels, "finish-used")
		}
		if ties > 0 {
			labels = append(labels, "tie-at-minimum")
		}
		for i := 0; i < excludedStarts; i++ {
			sub.Excluded(openKey)
		}
		if excludedStarts > 0 {
			labels = append(labels, "starts-excluded-open-finding")
		}
		if weighted {
			labels = append(labels, "non-uniform-weights")
		}
		sub.Case(map[string]any{"n0": n0, "preload": pre, "weighted": weighted, "events": evs, "dress": dressLabel}, informative > 0, append(labels, dressLabel)...)
		if viol != "" {
			rt.Fatalf("least_connections n0=%d preload=%v events=%+v: %s", n0, pre, evs, viol)
		}
	})
}

// in-flight counts an initial vector is drawn from: small ones (ties and near-ties) and the
// magnitudes around 100 and beyond
var lcMagnitudes = []int{0, 1, 2, 3, 0, 1, 5, 6, 99, 100, 101, 500, 100, 99}

func keysOf(m map[string]bool) []string {
	var out []string
	for k, v := range m {
		if v {
			out = append(out, k)
		}
	}
	sort.Strings(out)
	return out
}
