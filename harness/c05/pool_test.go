package c05

import (
	"fmt"
	"net/http"
	"strings"

	"github.com/0xReLogic/Helios/internal/config"
	"github.com/0xReLogic/Helios/internal/loadbalancer"
	"github.com/0xReLogic/Helios/verifharness/lab"
)

// pool drives one real LoadBalancer through its exported API (plus the read-only VerifBackends
// accessor) and the L1 fake network. It keeps the harness-side view of membership and configured
// weights, which is what the oracles are computed from (never from Helios's own state).
type pool struct {
	lb      *loadbalancer.LoadBalancer
	fn      *lab.FakeNet
	nextID  int
	names   []string       // members in the order they were added (removed ones deleted)
	weight  map[string]int // configured weight as given by the operator (may be < 1)
	ejected map[string]bool
}

// eff is the statement's "weights below 1 count as 1".
func eff(w int) int {
	if w < 1 {
		return 1
	}
	return w
}

func newPool(strategy string, weights []int) (*pool, error) {
	lb, err := loadbalancer.NewLoadBalancer(lab.BaseConfig(strategy, weights))
	if err != nil {
		return nil, err
	}
	p := &pool{lb: lb, fn: lab.NewFakeNet(), weight: map[string]int{}, ejected: map[string]bool{}}
	for i, w := range weights {
		p.names = append(p.names, lab.BackendName(i))
		p.weight[lab.BackendName(i)] = w
	}
	p.nextID = len(weights)
	p.fn.Install(lb)
	return p, nil
}

// add registers one more backend the way the admin API does (lb.AddBackend with the operator's
// BackendConfig, weight unvalidated).
func (p *pool) add(w int) (string, error) {
	name := lab.BackendName(p.nextID)
	err := p.lb.AddBackend(config.BackendConfig{Name: name, Address: "http://" + lab.BackendHost(p.nextID), Weight: w})
	if err != nil {
		return "", err
	}
	p.nextID++
	p.names = append(p.names, name)
	p.weight[name] = w
	p.fn.Install(p.lb)
	return name, nil
}

func (p *pool) remove(name string) {
	p.lb.RemoveBackend(name)
	for i, n := range p.names {
		if n == name {
			p.names = append(p.names[:i:i], p.names[i+1:]...)
			break
		}
	}
	delete(p.weight, name)
	delete(p.ejected, name)
}

func (p *pool) backend(name string) *loadbalancer.Backend {
	for _, b := range p.lb.VerifBackends() {
		if b.Name == name {
			return b
		}
	}
	return nil
}

// eligible returns the members that are not ejected, in membership order.
func (p *pool) eligible() []string {
	var e []string
	for _, n := range p.names {
		if !p.ejected[n] {
			e = append(e, n)
		}
	}
	return e
}

// totalWeight is the total configured (effective) weight of all current members.
func (p *pool) totalWeight() int {
	t := 0
	for _, n := range p.names {
		t += eff(p.weight[n])
	}
	return t
}

var pickReq = func() *http.Request { return lab.Request("GET", "/", "10.0.0.1:4000", nil) }
var sharedReq = pickReq()

// pick performs one request/pick and returns the name of the backend that got it ("" = none).
// via "next": lb.NextBackend (the strategy decision alone); via "serve": lb.ServeHTTP through the
// fake network (the backend that actually received the request).
func (p *pool) pick(via string) (name string, status int) {
	if via == "next" {
		b := p.lb.NextBackend(sharedReq) // none of the three strategies reads the request
		if b == nil {
			return "", 0
		}
		return b.Name, 0
	}
	st, _, hdr, _ := lab.Serve(p.lb, pickReq())
	host := hdr.Get("X-Backend")
	if st != 200 || host == "" {
		return "", st
	}
	return strings.TrimSuffix(host, ".test"), st
}

func hostName(host string) string { return strings.TrimSuffix(host, ".test") }

// everyWindowExact checks that every window of `size` consecutive picks of seq contains each
// backend b exactly want[b] times and nothing else. It returns "" or a description.
func everyWindowExact(seq []string, size int, want map[string]int) string {
	if len(seq) < size {
		return ""
	}
	cnt := map[string]int{}
	for i := 0; i < size; i++ {
		cnt[seq[i]]++
	}
	check := func(off int) string {
		for b, w := range want {
			if cnt[b] != w {
				return fmt.Sprintf("window of %d consecutive requests starting at offset %d gave backend %s %d requests, want exactly %d (window: %q)", size, off, b, cnt[b], w, seq[off:off+size])
			}
		}
		for b, c := range cnt {
			if _, ok := want[b]; !ok && c != 0 {
				return fmt.Sprintf("window starting at offset %d: %d requests went to %q, which is not an eligible member", off, c, b)
			}
		}
		return ""
	}
	if v := check(0); v != "" {
		return v
	}
	for off := 1; off+size <= len(seq); off++ {
		cnt[seq[off-1]]--
		cnt[seq[off+size-1]]++
		if v := check(off); v != "" {
			return v
		}
	}
	return ""
}
