package c05

import (
	"fmt"
	"net/http"
	"net/http/httptest"
	"runtime"
	"strings"

	"github.com/0xReLogic/Helios/internal/adminapi"

	"github.com/0xReLogic/Helios/internal/config"
	"github.com/0xReLogic/Helios/internal/loadbalancer"
	"github.com/0xReLogic/Helios/verifharness/lab"
	"pgregory.net/rapid"
)

// pool drives one real LoadBalancer through its exported API (plus the read-only VerifBackends
// accessor) and the L1 fake network. It keeps the harness-side view of membership and configured
// weights, which is what the oracles are computed from (never from Helios's own state).
type pool struct {
	lb      *loadbalancer.LoadBalancer
	cfg     *config.Config
	admin   http.Handler // admin API mux on the same balancer (built on first use)
	done    chan int     // statuses of requests that were parked by park()
	nParked int
	fn      *lab.FakeNet
	nextID  int
	names   []string       // members in the order they were added (removed ones deleted)
	weight  map[string]int // configured weight as given by the operator (may be < 1)
	ejected map[string]bool
	dress   lab.DressPlan // how the requests are dressed (method, headers): no strategy of this property reads them
	nPick   int
}

// dressFrom draws how this pool's requests are dressed.
func (p *pool) dressFrom(rt *rapid.T) { p.dress = lab.DrawDressPlan(rt) }

func (p *pool) nextReq() *http.Request { return p.nextReqFrom("10.0.0.1:4000") }

// nextReqFrom is nextReq for a given client address (what the rate limiter keys on).
func (p *pool) nextReqFrom(remote string) *http.Request {
	p.nPick++
	return p.dress.At(p.nPick).Request("/", remote)
}

// eff is the statement's "weights below 1 count as 1".
func eff(w int) int {
	if w < 1 {
		return 1
	}
	return w
}

// rrWeights: round_robin takes no notice of configured weights (the statement gives every backend
// one of every n requests); a third of the round_robin pools carry drawn non-uniform weights.
func rrWeights(rt *rapid.T, n int) []int {
	ws := lab.Ones(n)
	if rapid.IntRange(0, 2).Draw(rt, "rr_weighted") == 0 {
		for i := range ws {
			ws[i] = rapid.SampledFrom([]int{0, 1, 2, 3, 5, 10}).Draw(rt, "rr_weight")
		}
	}
	return ws
}

func newPool(strategy string, weights []int) (*pool, error) {
	return newPoolWith(strategy, weights, nil)
}

// newPoolWith is newPool with the rest of the configuration (circuit breaker, rate limit, passive
// health checks, ...) filled in by configure before the balancer is built.
func newPoolWith(strategy string, weights []int, configure func(*config.Config)) (*pool, error) {
	cfg := lab.BaseConfig(strategy, weights)
	if configure != nil {
		configure(cfg)
		if err := cfg.Validate(); err != nil {
			return nil, fmt.Errorf("generated configuration rejected: %w", err)
		}
	}
	lb, err := loadbalancer.NewLoadBalancer(cfg)
	if err != nil {
		return nil, err
	}
	p := &pool{lb: lb, cfg: cfg, fn: lab.NewFakeNet(), weight: map[string]int{}, ejected: map[string]bool{}, done: make(chan int, 64)}
	for i, w := range weights {
		p.names = append(p.names, lab.BackendName(i))
		p.weight[lab.BackendName(i)] = w
	}
	p.nextID = len(weights)
	p.fn.Install(lb)
	return p, nil
}

// add registers one more backend the way the admin API does (lb.AddBackend with the operator's
// BackendConfig, weight unvalidated).
func (p *pool) add(w int) (string, error) {
	name := lab.BackendName(p.nextID)
	err := p.lb.AddBackend(config.BackendConfig{Name: name, Address: "http://" + lab.BackendHost(p.nextID), Weight: w})
	if err != nil {
		return "", err
	}
	p.nextID++
	p.names = append(p.names, name)
	p.weight[name] = w
	p.fn.Install(p.lb)
	return name, nil
}

func (p *pool) remove(name string) {
	p.lb.RemoveBackend(name)
	for i, n := range p.names {
		if n == name {
			p.names = append(p.names[:i:i], p.names[i+1:]...)
			break
		}
	}
	delete(p.weight, name)
	delete(p.ejected, name)
}

func (p *pool) backend(name string) *loadbalancer.Backend {
	for _, b := range p.lb.VerifBackends() {
		if b.Name == name {
			return b
		}
	}
	return nil
}

// eligible returns the members that are not ejected, in membership order.
func (p *pool) eligible() []string {
	var e []string
	for _, n := range p.names {
		if !p.ejected[n] {
			e = append(e, n)
		}
	}
	return e
}

// totalWeight is the total configured (effective) weight of all current members.
func (p *pool) totalWeight() int {
	t := 0
	for _, n := range p.names {
		t += eff(p.weight[n])
	}
	return t
}

var pickReq = func() *http.Request { return lab.Request("GET", "/", "10.0.0.1:4000", nil) }
var sharedReq = pickReq()

// pick performs one request/pick and returns the name of the backend that got it ("" = none).
// via "next": lb.NextBackend (the strategy decision alone); via "serve": lb.ServeHTTP through the
// fake network (the backend that actually received the request).
func (p *pool) pick(via string) (name string, status int) {
	if via == "next" {
		req := sharedReq // none of the three strategies reads the request
		if p.dress.Step != 0 {
			req = p.nextReq()
		}
		b := p.lb.NextBackend(req)
		if b == nil {
			return "", 0
		}
		return b.Name, 0
	}
	st, _, hdr, _ := lab.Serve(p.lb, p.nextReq())
	host := hdr.Get("X-Backend")
	if st != 200 || host == "" {
		return "", st
	}
	return strings.TrimSuffix(host, ".test"), st
}

func hostName(host string) string { return strings.TrimSuffix(host, ".test") }

// everyWindowExact checks that every window of `size` consecutive picks of seq contains each
// backend b exactly want[b] times and nothing else. It returns "" or a description.
func everyWindowExact(seq []string, size int, want map[string]int) string {
	if len(seq) < size {
		return ""
	}
	cnt := map[string]int{}
	for i := 0; i < size; i++ {
		cnt[seq[i]]++
	}
	check := func(off int) string {
		for b, w := range want {
			if cnt[b] != w {
				return fmt.Sprintf("window of %d consecutive requests starting at offset %d gave backend %s %d requests, want exactly %d (window: %q)", size, off, b, cnt[b], w, seq[off:off+size])
			}
		}
		for b, c := range cnt {
			if _, ok := want[b]; !ok && c != 0 {
				return fmt.Sprintf("window starting at offset %d: %d requests went to %q, which is not an eligible member", off, c, b)
			}
		}
		return ""
	}
	if v := check(0); v != "" {
		return v
	}
	for off := 1; off+size <= len(seq); off++ {
		cnt[seq[off-1]]--
		cnt[seq[off+size-1]]++
		if v := check(off); v != "" {
			return v
		}
	}
	return ""
}

// close releases whatever park() left in flight, waits for those requests and stops the balancer.
func (p *pool) close() {
	p.fn.ReleaseAll()
	for ; p.nParked > 0; p.nParked-- {
		<-p.done
	}
	p.lb.Stop()
}

// ---------------------------------------------------------------------------------------------
// Observers: admin and monitoring calls on the same balancer. They are read-only by contract, so
// interleaving them with the requests of a window must not change who gets which request.
// ---------------------------------------------------------------------------------------------

const nObservers = 8

var observerNames = [nObservers]string{"admin GET /v1/health", "admin GET /v1/backends", "admin GET /v1/metrics", "MetricsHandler", "HealthHandler",
	"lb.ListBackends", "lb.IsBackendHealthy(healthy members)", "GetMetrics"}

func (p *pool) observe(kind int) {
	get := func(h http.Handler, path string) {
		h.ServeHTTP(httptest.NewRecorder(), httptest.NewRequest("GET", "http://admin.test"+path, nil))
	}
	if p.admin == nil {
		p.admin = adminapi.NewMux(p.lb, p.cfg, p.lb.GetMetricsCollector())
	}
	switch ((kind % nObservers) + nObservers) % nObservers {
	case 0:
		get(p.admin, "/v1/health")
	case 1:
		get(p.admin, "/v1/backends")
	case 2:
		get(p.admin, "/v1/metrics")
	case 3:
		get(p.lb.GetMetricsCollector().MetricsHandler(), "/metrics")
	case 4:
		get(p.lb.GetMetricsCollector().HealthHandler(), "/health")
	case 5:
		_ = p.lb.ListBackends()
	case 6:
		for _, b := range p.lb.VerifBackends() {
			if !p.ejected[b.Name] {
				_ = p.lb.IsBackendHealthy(b)
			}
		}
	case 7:
		_ = p.lb.GetMetricsCollector().GetMetrics()
	}
}

// obsPlan says which observer calls are interleaved with the requests of a window: before every
// Period-th request one call, the kind cycling through all observers starting at Start.
type obsPlan struct {
	Period int `json:"period,omitempty"` // 0 = no observers
	Start  int `json:"start,omitempty"`
}

// windowPick is pick() preceded by the plan's observer call for the i-th request of a window.
func (p *pool) windowPick(via string, plan obsPlan, i int) (string, int) {
	if plan.Period > 0 && i%plan.Period == 0 {
		p.observe(plan.Start + i/plan.Period)
	}
	return p.pick(via)
}

// ---------------------------------------------------------------------------------------------
// In-flight load. The number of requests a backend has in flight is an input to
// least_connections only; round_robin and weighted_round_robin must ignore it.
// ---------------------------------------------------------------------------------------------

var inflightMagnitudes = []int{0, 1, 99, 100, 101, 500}

// preload gives member name c more requests in flight through the exported gauge API.
func (p *pool) preload(name string, c int) {
	b := p.backend(name)
	for i := 0; i < c; i++ {
		b.IncrementConnections()
	}
}

// park sends one request through ServeHTTP that stays in flight (parked inside the scripted
// transport of whichever backend the strategy gives it to) until close(). It returns that backend
// ("" if the request was not dispatched). It takes one turn of the strategy, like any request.
func (p *pool) park() string {
	for _, n := range p.names {
		p.fn.Set(n+".test", lab.Park)
	}
	defer func() {
		for _, n := range p.names {
			p.fn.Set(n+".test", lab.Good)
		}
	}()
	before := p.fn.Arrivals()
	fin := make(chan int, 1)
	go func() {
		st, _, _, _ := lab.Serve(p.lb, pickReq())
		fin <- st
	}()
	for p.fn.Arrivals() == before {
		select {
		case <-fin:
			return "" // answered without reaching a backend
		default:
			runtime.Gosched()
		}
	}
	p.nParked++
	go func() { p.done <- <-fin }()
	return hostName(p.fn.HostAt(before))
}
