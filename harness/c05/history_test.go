//go:build go1.25

package c05

import (
	"fmt"
	"testing"
	"time"

	"github.com/0xReLogic/Helios/verifharness/lab"
	"pgregory.net/rapid"
)

// Health events and what "eligible" means here. eject(i) is the exported
// lb.MarkBackendUnhealthy(backend, D). A backend whose window has run out is turned healthy again
// by Helios lazily, by lb.IsBackendHealthy, the next time a request looks at it; in between it is
// neither clearly eligible nor clearly ineligible. The statement conditions on a STABLE eligible
// set, so the harness only opens a window in unambiguous states: after every advance of (virtual)
// time it calls the exported lb.IsBackendHealthy on every backend whose window has run out (what
// any request reaching that backend does). Then "eligible" = member and not inside an ejection
// window, identically for picks through lb.NextBackend and requests through lb.ServeHTTP.

type hEvent struct {
	K string `json:"k"` // add | remove | eject | recover | adv | picks
	I int    `json:"i,omitempty"`
	W int    `json:"w,omitempty"`
	D string `json:"d,omitempty"`
	N int    `json:"n,omitempty"`
}

type histState struct {
	p     *pool
	until map[string]time.Time
	whist int // largest total configured weight the pool has had
	evs   []hEvent
	nEj   int
	nRec  int
	nMem  int
}

var ejectFor = []time.Duration{30 * time.Second, 5 * time.Minute, time.Hour}

func (h *histState) sweep() {
	now := time.Now()
	for _, n := range h.p.names {
		if h.p.ejected[n] && now.After(h.until[n]) {
			if !h.p.lb.IsBackendHealthy(h.p.backend(n)) {
				panic("harness: backend not healthy after its ejection window")
			}
			h.p.ejected[n] = false
			h.nRec++
		}
	}
}

func (h *histState) noteWeight() {
	if t := h.p.totalWeight(); t > h.whist {
		h.whist = t
	}
}

// step draws and applies one history event. weights: generator for the weight of an added backend.
func (h *histState) step(rt *rapid.T, weight func() int, via string) {
	p := h.p
	var ej []int
	for i, n := range p.names {
		if p.ejected[n] {
			ej = append(ej, i)
		}
	}
	k := rapid.IntRange(0, 99).Draw(rt, "ev")
	switch {
	case k < 14 && len(p.names) < 8:
		w := weight()
		if _, err := p.add(w); err != nil {
			rt.Fatalf("harness: %v", err)
		}
		h.evs = append(h.evs, hEvent{K: "add", W: w})
		h.nMem++
		h.noteWeight()
	case k < 28 && len(p.names) > 1:
		i := rapid.IntRange(0, len(p.names)-1).Draw(rt, "i")
		h.evs = append(h.evs, hEvent{K: "remove", I: i})
		delete(h.until, p.names[i])
		p.remove(p.names[i])
		h.nMem++
	case k < 48:
		i := rapid.IntRange(0, len(p.names)-1).Draw(rt, "i")
		d := rapid.SampledFrom(ejectFor).Draw(rt, "d")
		p.lb.MarkBackendUnhealthy(p.backend(p.names[i]), d)
		p.ejected[p.names[i]] = true
		h.until[p.names[i]] = time.Now().Add(d)
		h.evs = append(h.evs, hEvent{K: "eject", I: i, D: d.String()})
		h.nEj++
	case k < 60 && len(ej) > 0:
		i := rapid.SampledFrom(ej).Draw(rt, "i")
		d := time.Until(h.until[p.names[i]]) + time.Second
		time.Sleep(d)
		h.evs = append(h.evs, hEvent{K: "recover", I: i, D: d.String()})
		h.sweep()
	case k < 66:
		d := rapid.SampledFrom([]time.Duration{time.Second, 31 * time.Second, 6 * time.Minute}).Draw(rt, "d")
		time.Sleep(d)
		h.evs = append(h.evs, hEvent{K: "adv", D: d.String()})
		h.sweep()
	default:
		m := rapid.IntRange(1, 12).Draw(rt, "m")
		for j := 0; j < m; j++ {
			p.pick(via)
		}
		h.evs = append(h.evs, hEvent{K: "picks", N: m})
	}
}

// ensureEligible makes the eligible set non-empty before the window (recovering one backend).
func (h *histState) ensureEligible(rt *rapid.T) {
	if len(h.p.eligible()) > 0 {
		return
	}
	i := rapid.IntRange(0, len(h.p.names)-1).Draw(rt, "revive")
	d := time.Until(h.until[h.p.names[i]]) + time.Second
	time.Sleep(d)
	h.evs = append(h.evs, hEvent{K: "recover", I: i, D: d.String()})
	h.sweep()
}

func drawWeights(rt *rapid.T, n int) []int {
	big := rapid.IntRange(0, 5).Draw(rt, "bigWeights") == 0
	ws := make([]int, n)
	for i := range ws {
		if big {
			ws[i] = rapid.IntRange(0, 30).Draw(rt, "w")
		} else {
			ws[i] = rapid.IntRange(0, 6).Draw(rt, "w")
		}
	}
	return ws
}

// TestC05WRRHistory: after any history of membership and health changes, over any window of
// consecutive requests with a stable eligible set E:
//
//	| c_i - N*w_i/W_E | <= 2 * W_hist / W_E        for every member i (w_i := 0 outside E)
//
// W_hist = the largest total configured weight the pool has had during the history (DESIGN C05:
// the current total is not an invariant of smooth weighted round robin). "Any window" is checked
// for every sub-window [a,b) of the drawn window at once: with d_i(t) = W_E*c_i(0,t) - t*w_i the
// claim for [a,b) is |d_i(b)-d_i(a)| <= 2*W_hist, i.e. max_t d_i - min_t d_i <= 2*W_hist.
func TestC05WRRHistory(t *testing.T) {
	sub := lab.Sub("wrr-history", "rapid histories (0..30 events of add(w)/remove/eject(30s|5m|1h)/recover/advance/requests, pool 1..8, weights 0..6 or 0..30) in "+
		"virtual time, then a window of N requests (N up to 3 periods, or up to 2000 / 20000 thorough) with a stable eligible set through lb.NextBackend or "+
		"lb.ServeHTTP(L1); admin/monitoring calls interleaved with the window and in-flight counts {0,1,99,100,101,500} (+ parked requests) on the backends in 2/3 of the cases; "+
		"oracle: for every sub-window and every member, |count - share| <= 2*W_hist/W_E (W_hist = largest total configured weight so far); "+
		"non-trivial = n>=2 and non-empty history and (non-uniform weights or an ejected backend during the window)")
	sub.NontrivialFloor(0.5)
	sub.Floor("ejected-in-window", 0.25)
	sub.Floor("recovered-before-window", 0.10)
	sub.Floor("long-window", 0.15)
	sub.Floor("observers-interleaved", 0.4)
	sub.Floor("inflight-99plus", 0.3)
	lab.Assume("C05 wrr-history: the bound 2*W_hist/W_E was validated against an independent simulation of smooth weighted round robin (random and greedy-adversarial histories: worst observed 1.71*W_hist/W_E)")
	longN := lab.Scale(2000, 20000)
	lab.Check(t, sub, 3000, 60000, func(rt *rapid.T) {
		n0 := rapid.IntRange(1, 6).Draw(rt, "n0")
		ws := drawWeights(rt, n0)
		big := false
		for _, w := range ws {
			big = big || w > 6
		}
		via := rapid.SampledFrom([]string{"next", "next", "serve"}).Draw(rt, "via")
		nev := rapid.IntRange(0, 30).Draw(rt, "events")
		var viol string
		var h *histState
		var N, WE int
		var inWindowEjected bool
		var load loadPlan
		var obs obsPlan
		rapid.SyncTest(rt, func(rt *rapid.T) {
			p, err := newPool("weighted_round_robin", ws)
			if err != nil {
				rt.Fatalf("harness: %v", err)
			}
			defer p.close()
			p.dressFrom(rt)
			h = &histState{p: p, until: map[string]time.Time{}}
			h.noteWeight()
			for i := 0; i < nev; i++ {
				h.step(rt, func() int {
					if big {
						return rapid.IntRange(0, 30).Draw(rt, "w")
					}
					return rapid.IntRange(0, 6).Draw(rt, "w")
				}, via)
			}
			h.ensureEligible(rt)
			E := p.eligible()
			share := map[string]int{} // w_i for i in E, 0 otherwise
			for _, m := range p.names {
				share[m] = 0
			}
			for _, m := range E {
				share[m] = eff(p.weight[m])
				WE += share[m]
			}
			inWindowEjected = len(E) < len(p.names)
			load = drawLoad(rt, len(p.names), true)
			obs = drawObs(rt)
			p.applyLoad(load) // parked requests are part of the history (they take turns of the strategy)
			if rapid.IntRange(0, 3).Draw(rt, "long") == 0 {
				N = rapid.IntRange(3*WE+1, longN).Draw(rt, "N")
			} else {
				N = rapid.IntRange(1, 3*WE).Draw(rt, "N")
			}
			cnt := map[string]int{}
			lo := map[string]int{}
			hi := map[string]int{}
			for tt := 1; tt <= N; tt++ {
				name, _ := p.windowPick(via, obs, tt-1)
				if _, member := share[name]; !member && name != "" {
					viol = fmt.Sprintf("request %d of the window went to %q, which is not a member of the pool", tt, name)
					return
				}
				if name != "" {
					cnt[name]++
				}
				for m, w := range share {
					d := WE*cnt[m] - tt*w
					if d < lo[m] {
						lo[m] = d
					}
					if d > hi[m] {
						hi[m] = d
					}
					if hi[m]-lo[m] > 2*h.whist {
						viol = fmt.Sprintf("backend %s (weight %d, eligible weight W_E=%d, W_hist=%d): within the first %d requests of the window there is a sub-window in which "+
							"its count deviates from its proportional share by %.3f requests; bound 2*W_hist/W_E = %.3f (eligible=%v weights=%v)",
							m, w, WE, h.whist, tt, float64(hi[m]-lo[m])/float64(WE), 2*float64(h.whist)/float64(WE), E, p.weight)
						return
					}
				}
			}
		})
		labels := append([]string{"via-" + via}, planLabels(load, obs)...)
		if inWindowEjected {
			labels = append(labels, "ejected-in-window")
		}
		if h.nRec > 0 {
			labels = append(labels, "recovered-before-window")
		}
		if h.nMem > 0 {
			labels = append(labels, "membership-changed")
		}
		if N > 3*WE {
			labels = append(labels, "long-window")
		}
		if big {
			labels = append(labels, "weights-up-to-30")
		}
		weightsNow := []int{}
		for _, m := range h.p.names {
			weightsNow = append(weightsNow, h.p.weight[m])
		}
		nt := len(h.p.names) >= 2 && len(h.evs) > 0 && (nonUniform(weightsNow) || inWindowEjected)
		sub.Case(map[string]any{"weights": ws, "events": h.evs, "N": N, "via": via, "inflight": load, "observers": obs, "dress": h.p.dress}, nt, append(labels, h.p.dress.Label())...)
		if viol != "" {
			rt.Fatalf("weighted_round_robin weights=%v history=%+v window N=%d via=%s: %s", ws, h.evs, N, via, viol)
		}
	})
}

// TestC05RRHealthHistory: round_robin after a history that includes ejections and recoveries.
// With m eligible backends (stable), every m consecutive requests give each eligible backend
// exactly one and m*k requests exactly k; nothing goes to an ejected backend. Requests are
// observed where they arrive (lb.ServeHTTP through the fake network) whenever a backend is
// ejected during the window, because only there "a request is given to a backend" is defined.
func TestC05RRHealthHistory(t *testing.T) {
	const openKey = keyRR
	sub := lab.Sub("rr-health-history", "rapid histories (0..20 events of add/remove/eject/recover/advance/requests, pool 1..8) in virtual time, then m*k requests "+
		"(m = eligible backends, k 1..4) plus a drawn offset; through lb.ServeHTTP(L1) when a backend is ejected during the window, else also lb.NextBackend; "+
		"oracle: every m consecutive requests give each eligible backend exactly one, m*k give exactly k; non-trivial = m>=2 and non-empty history")
	sub.NontrivialFloor(0.4)
	excl := excluded(openKey)
	sub.Floor("ejected-in-window", 0.2)
	sub.Floor("recovered-before-window", 0.10)
	sub.Floor("observers-interleaved", 0.4)
	sub.Floor("inflight-99plus", 0.3)
	lab.Check(t, sub, 1500, 30000, func(rt *rapid.T) {
		n0 := rapid.IntRange(1, 8).Draw(rt, "n0")
		via := rapid.SampledFrom([]string{"next", "serve"}).Draw(rt, "via")
		nev := rapid.IntRange(0, 20).Draw(rt, "events")
		var viol string
		var h *histState
		var m, k, offset int
		var inWindowEjected, excluded bool
		var load loadPlan
		var obs obsPlan
		rapid.SyncTest(rt, func(rt *rapid.T) {
			p, err := newPool("round_robin", rrWeights(rt, n0))
			if err != nil {
				rt.Fatalf("harness: %v", err)
			}
			defer p.close()
			p.dressFrom(rt)
			h = &histState{p: p, until: map[string]time.Time{}}
			for i := 0; i < nev; i++ {
				h.step(rt, func() int { return 1 }, "serve")
			}
			h.ensureEligible(rt)
			E := p.eligible()
			m = len(E)
			inWindowEjected = m < len(p.names)
			if inWindowEjected {
				via = "serve"
				if excl && len(p.names)-m >= 3 {
					excluded = true
					return
				}
			}
			offset = rapid.IntRange(0, 2*m+1).Draw(rt, "offset")
			k = rapid.IntRange(1, 4).Draw(rt, "k")
			load = drawLoad(rt, len(p.names), true)
			obs = drawObs(rt)
			p.applyLoad(load)
			for i := 0; i < offset; i++ {
				p.pick(via)
			}
			seq := make([]string, 0, m*k)
			for i := 0; i < m*k; i++ {
				name, _ := p.windowPick(via, obs, i)
				seq = append(seq, name)
			}
			one, kk := map[string]int{}, map[string]int{}
			for _, b := range E {
				one[b], kk[b] = 1, k
			}
			if viol = everyWindowExact(seq, m, one); viol == "" {
				viol = everyWindowExact(seq, m*k, kk)
			}
			if viol != "" {
				viol = fmt.Sprintf("members=%v eligible=%v: %s", p.names, E, viol)
			}
		})
		if excluded {
			sub.Excluded(openKey)
			sub.Case(map[string]any{"n0": n0, "events": h.evs, "excluded": openKey}, false, "excluded-open-finding")
			return
		}
		labels := append([]string{"via-" + via, fmt.Sprintf("m%d", m)}, planLabels(load, obs)...)
		if inWindowEjected {
			labels = append(labels, "ejected-in-window")
		}
		if h.nRec > 0 {
			labels = append(labels, "recovered-before-window")
		}
		if h.nMem > 0 {
			labels = append(labels, "membership-changed")
		}
		sub.Case(map[string]any{"n0": n0, "events": h.evs, "offset": offset, "k": k, "via": via, "inflight": load, "observers": obs, "dress": h.p.dress}, m >= 2 && len(h.evs) > 0, append(labels, h.p.dress.Label())...)
		if viol != "" {
			rt.Fatalf("round_robin n0=%d history=%+v offset=%d k=%d via=%s: %s", n0, h.evs, offset, k, via, viol)
		}
	})
}
