package c05

import (
	"fmt"
	"runtime"
	"sync"
	"sync/atomic"
	"testing"

	"github.com/0xReLogic/Helios/verifharness/lab"
)

type wrrStressCase struct {
	G       int    `json:"goroutines"`
	Weights []int  `json:"weights"`
	K       int    `json:"k"` // the round issues k*sum(w) requests: backend i must receive exactly k*w_i
	Via     string `json:"via"`
	Round   int    `json:"round,omitempty"`
}

// wrrRound: a fresh weighted_round_robin pool; G goroutines released at once (real threads) issue
// exactly k*sum(w) requests together. Picks are made one after another whatever the number of
// callers, so the k*sum(w) picks are k complete cycles: backend i receives exactly k*w_i.
func wrrRound(c wrrStressCase) string {
	p, err := newPool("weighted_round_robin", c.Weights)
	if err != nil {
		return "harness: " + err.Error()
	}
	defer p.close()
	S := 0
	for _, w := range c.Weights {
		S += max(w, 1)
	}
	total := c.K * S
	var ready, goFlag int32
	var wg sync.WaitGroup
	per := make([]map[string]int, c.G)
	for g := 0; g < c.G; g++ {
		mine := total / c.G
		if g < total%c.G {
			mine++
		}
		per[g] = map[string]int{}
		wg.Add(1)
		go func(g, mine int) {
			defer wg.Done()
			atomic.AddInt32(&ready, 1)
			for atomic.LoadInt32(&goFlag) == 0 {
				runtime.Gosched()
			}
			for i := 0; i < mine; i++ {
				name, _ := p.pick(c.Via)
				per[g][name]++
			}
		}(g, mine)
	}
	for atomic.LoadInt32(&ready) < int32(c.G) {
		runtime.Gosched()
	}
	atomic.StoreInt32(&goFlag, 1)
	wg.Wait()
	sum := map[string]int{}
	for _, m := range per {
		for b, v := range m {
			sum[b] += v
		}
	}
	for i, b := range p.names {
		if want := c.K * max(c.Weights[i], 1); sum[b] != want {
			return fmt.Sprintf("%d goroutines issued %d = %d x sum(w) requests against a fresh weighted_round_robin pool with weights %v; backend %s (weight %d) received %d, want exactly %d (all counts: %v)",
				c.G, total, c.K, c.Weights, b, c.Weights[i], sum[b], want, sum)
		}
	}
	if sum[""] != 0 {
		return fmt.Sprintf("%d requests were given to no backend", sum[""])
	}
	return ""
}

func TestC05WRRConcurrent(t *testing.T) {
	const name = "wrr-concurrent"
	sub := lab.Sub(name, "spin-barrier stress on real threads: G in {2,4,8,16,32} goroutines issue k*sum(w) requests in total (2-5 backends, weights from {0,1,2,3,5,8}, k 1..40) through lb.NextBackend or lb.ServeHTTP(L1) "+
		"against one FRESH weighted_round_robin pool; oracle: backend i received exactly k*max(w_i,1) - the k*sum(w) picks are k complete cycles whatever the number of concurrent callers; "+
		"non-trivial = effective weights not all equal; distinct = distinct (G, weights, k, via) cells, rounds repeat cells to sample schedules")
	sub.NontrivialFloor(0.6)
	var rc wrrStressCase
	if lab.ReplayCase(name, &rc) {
		for i := 0; i < 500; i++ {
			if v := wrrRound(rc); v != "" {
				lab.Violation(t, name, rc, "replay round %d: %s", i, v)
				return
			}
		}
		return
	}
	if lab.Replaying() {
		t.Skip("replay of another sub-check")
	}
	gs := []int{2, 4, 8, 16, 32}
	wpool := []int{0, 1, 2, 3, 5, 8}
	rounds := lab.Share(lab.Scale(2400, 60000))
	for r := 0; r < rounds; r++ {
		k := r*lab.Shards() + lab.Shard() + int(lab.Seed()%997)
		n := 2 + k%4
		ws := make([]int, n)
		for i := range ws {
			ws[i] = wpool[(k/(i+2)+i*3)%len(wpool)]
		}
		via := "next"
		if k%5 == 0 {
			via = "serve"
		}
		c := wrrStressCase{G: gs[k%len(gs)], Weights: ws, K: 1 + (k/7)%40, Via: via, Round: r}
		if via == "serve" {
			c.K = 1 + (k/7)%6
		}
		v := wrrRound(c)
		sub.Case(wrrStressCase{G: c.G, Weights: c.Weights, K: c.K, Via: c.Via}, nonUniform(ws), fmt.Sprintf("G%d", c.G), "via-"+via)
		if v != "" {
			lab.Violation(t, name, c, "%s", v)
			return
		}
	}
}
