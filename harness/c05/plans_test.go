package c05

import "pgregory.net/rapid"

// loadPlan: requests in flight at the members (by position in p.names) when a window opens.
type loadPlan struct {
	Pre    []int `json:"preload,omitempty"` // via Backend.IncrementConnections
	Parked int   `json:"parked,omitempty"`  // really parked requests (each takes a turn of the strategy before the window)
}

func (l loadPlan) big() bool {
	for _, c := range l.Pre {
		if c >= 99 {
			return true
		}
	}
	return false
}

func drawLoad(rt *rapid.T, n int, allowPark bool) loadPlan {
	var l loadPlan
	if rapid.IntRange(0, 2).Draw(rt, "loaded") == 0 {
		return l
	}
	l.Pre = make([]int, n)
	for i := range l.Pre {
		l.Pre[i] = rapid.SampledFrom(inflightMagnitudes).Draw(rt, "inflight")
	}
	if allowPark {
		l.Parked = rapid.SampledFrom([]int{0, 1, 2, 1}).Draw(rt, "parked")
	}
	return l
}

// applyLoad puts the plan's in-flight counts on the current members and returns how many parked
// requests were dispatched (they advanced the strategy like ordinary requests).
func (p *pool) applyLoad(l loadPlan) int {
	for i, c := range l.Pre {
		if i < len(p.names) {
			p.preload(p.names[i], c)
		}
	}
	n := 0
	for i := 0; i < l.Parked; i++ {
		if p.park() != "" {
			n++
		}
	}
	return n
}

func drawObs(rt *rapid.T) obsPlan {
	if rapid.IntRange(0, 2).Draw(rt, "observed") == 0 {
		return obsPlan{}
	}
	return obsPlan{Period: rapid.IntRange(1, 3).Draw(rt, "obsPeriod"), Start: rapid.IntRange(0, nObservers-1).Draw(rt, "obsStart")}
}

func planLabels(l loadPlan, o obsPlan) []string {
	var out []string
	if o.Period > 0 {
		out = append(out, "observers-interleaved")
	}
	if len(l.Pre) > 0 {
		out = append(out, "inflight-preloaded")
	}
	if l.big() {
		out = append(out, "inflight-99plus")
	}
	if l.Parked > 0 {
		out = append(out, "parked-requests")
	}
	return out
}
