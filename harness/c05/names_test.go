package c05

import (
	"fmt"
	"testing"

	"github.com/0xReLogic/Helios/internal/config"
	"github.com/0xReLogic/Helios/internal/loadbalancer"
	"github.com/0xReLogic/Helios/verifharness/lab"
	"pgregory.net/rapid"
)

// The other sub-checks of this property give every backend its own name (b0, b1, ...) and tell the
// backends apart by that name. A backend is a pool ENTRY (name, address, weight), though: neither
// configuration validation nor lb.AddBackend (and with it the admin API) refuses a name that is in
// use - lb.RemoveBackend documents that it removes all entries of a name - and listing several
// addresses under one service name is an ordinary way to run replicas. The statement's "backend i"
// is the i-th entry, so the distribution contracts hold per entry whatever the entries are called.
// Here the NAMING of the entries is the drawn dimension and the entries are told apart by their
// address (unique per entry), never by name.

// namedCase: a pool whose entry i has name Names[i], weight Weights[i] and address BackendHost(i).
type namedCase struct {
	Strategy string        `json:"strategy"`
	Names    []string      `json:"names"`
	Weights  []int         `json:"weights"`
	Build    string        `json:"build"` // config | admin (empty pool, then lb.AddBackend per entry) | mixed (first half config, rest admin)
	Via      string        `json:"via"`
	Offset   int           `json:"offset"`            // requests before the window (round_robin only: a weighted pool is "fresh")
	K        int           `json:"k"`                 // window = K periods
	Pre      []int         `json:"preload,omitempty"` // in-flight gauge per entry
	Obs      obsPlan       `json:"observers"`
	Dress    lab.DressPlan `json:"dress"`
}

var namingShapes = []string{"distinct", "one-pair", "all-same", "two-groups", "case-variants", "prefix-names", "drawn"}

// drawNames draws how n entries are named.
func drawNames(rt *rapid.T, n int) (names []string, shape string) {
	shape = rapid.SampledFrom(namingShapes).Draw(rt, "naming")
	names = make([]string, n)
	for i := range names {
		names[i] = fmt.Sprintf("svc%d", i)
	}
	switch shape {
	case "one-pair":
		if n >= 2 {
			i := rapid.IntRange(0, n-2).Draw(rt, "pair_i")
			j := rapid.IntRange(i+1, n-1).Draw(rt, "pair_j")
			names[j] = names[i]
		}
	case "all-same":
		for i := range names {
			names[i] = "api"
		}
	case "two-groups":
		for i := range names {
			names[i] = []string{"api", "static"}[rapid.IntRange(0, 1).Draw(rt, "group")]
		}
	case "case-variants": // different names that only differ in case: separate entries like any others
		for i := range names {
			names[i] = []string{"api", "API", "Api"}[i%3] + fmt.Sprint(i/3)
		}
	case "prefix-names": // one name a prefix of another, names with separators
		for i := range names {
			names[i] = []string{"api", "api-1", "api-10", "api.1", "api/1", "api 1", "ap", "a"}[i%8]
		}
	case "drawn":
		for i := range names {
			names[i] = rapid.SampledFrom([]string{"api", "static", "db", "b0", "b1", "api-1"}).Draw(rt, "name")
		}
	}
	return names, shape
}

func sharedNames(names []string) int {
	seen := map[string]int{}
	for _, n := range names {
		seen[n]++
	}
	s := 0
	for _, c := range seen {
		if c > 1 {
			s += c
		}
	}
	return s
}

// runNamed builds the pool and returns the sequence of entries (by address) that got the requests
// of the window, or a violation for least_connections (which is judged per pick).
func runNamed(c namedCase) (string, error) {
	n := len(c.Names)
	entry := func(i int) config.BackendConfig {
		return config.BackendConfig{Name: c.Names[i], Address: "http://" + lab.BackendHost(i), Weight: c.Weights[i]}
	}
	nCfg := n
	switch c.Build {
	case "admin":
		nCfg = 0
	case "mixed":
		nCfg = n / 2
	}
	cfg := lab.BaseConfig(c.Strategy, nil)
	for i := 0; i < nCfg; i++ {
		cfg.Backends = append(cfg.Backends, entry(i))
	}
	if nCfg > 0 {
		if err := cfg.Validate(); err != nil {
			return "", fmt.Errorf("configuration with names %q rejected: %w", c.Names, err)
		}
	}
	lb, err := loadbalancer.NewLoadBalancer(cfg)
	if err != nil {
		return "", err
	}
	defer lb.Stop()
	for i := nCfg; i < n; i++ {
		if err := lb.AddBackend(entry(i)); err != nil {
			return "", fmt.Errorf("lb.AddBackend(%+v): %w", entry(i), err)
		}
	}
	fn := lab.NewFakeNet()
	fn.Install(lb)
	p := &pool{lb: lb, cfg: cfg, fn: fn, dress: c.Dress, weight: map[string]int{}, ejected: map[string]bool{}, done: make(chan int, 1)}
	byHost := map[string]*loadbalancer.Backend{}
	for _, b := range lb.VerifBackends() {
		byHost[b.URL.Host] = b
	}
	if len(byHost) != n {
		return fmt.Sprintf("pool of %d entries (names %q) holds %d backends with distinct addresses", n, c.Names, len(byHost)), nil
	}
	inflight := map[string]int{}
	for i, k := range c.Pre {
		if i < n {
			for j := 0; j < k; j++ {
				byHost[lab.BackendHost(i)].IncrementConnections()
			}
			inflight[lab.BackendHost(i)] = k
		}
	}
	describe := func(host string) string {
		for i := 0; i < n; i++ {
			if lab.BackendHost(i) == host {
				return fmt.Sprintf("entry %d (name %q, address %s, weight %d)", i, c.Names[i], host, c.Weights[i])
			}
		}
		return fmt.Sprintf("%q", host)
	}
	pick := func(i int) string {
		if c.Obs.Period > 0 && i >= 0 && i%c.Obs.Period == 0 {
			p.observe(c.Obs.Start + i/c.Obs.Period)
		}
		if c.Via == "next" {
			b := lb.NextBackend(p.nextReq())
			if b == nil {
				return ""
			}
			return b.URL.Host
		}
		st, _, hdr, _ := lab.Serve(lb, p.nextReq())
		if st != 200 {
			return ""
		}
		return hdr.Get("X-Backend")
	}
	want := map[string]int{}
	S := 0
	for i := 0; i < n; i++ {
		w := 1
		if c.Strategy == "weighted_round_robin" {
			w = eff(c.Weights[i])
		}
		want[lab.BackendHost(i)] = w
		S += w
	}
	if c.Strategy == "least_connections" {
		// sequential requests: nothing but the preloaded gauge is in flight at any pick
		min := -1
		for i := 0; i < n; i++ {
			if k := inflight[lab.BackendHost(i)]; min < 0 || k < min {
				min = k
			}
		}
		for i := 0; i < c.K*n; i++ {
			h := pick(i)
			if _, ok := want[h]; !ok {
				return fmt.Sprintf("request %d went to %q, which is not an entry of the pool", i, h), nil
			}
			if inflight[h] != min {
				return fmt.Sprintf("request %d went to %s with %d requests in flight while the minimum among the eligible entries is %d (in flight per entry: %v)", i, describe(h), inflight[h], min, c.Pre), nil
			}
		}
		return "", nil
	}
	for i := 0; i < c.Offset; i++ {
		pick(-1)
	}
	seq := make([]string, 0, (c.K+1)*S)
	for i := 0; i < (c.K+1)*S; i++ {
		seq = append(seq, pick(i))
	}
	if v := everyWindowExact(seq, S, want); v != "" {
		return v + entriesLegend(c), nil
	}
	kk := map[string]int{}
	for h, w := range want {
		kk[h] = w * c.K
	}
	if v := everyWindowExact(seq, S*c.K, kk); v != "" {
		return v + entriesLegend(c), nil
	}
	return "", nil
}

func entriesLegend(c namedCase) string {
	s := "; entries:"
	for i := range c.Names {
		s += fmt.Sprintf(" [%d name=%q addr=%s weight=%d]", i, c.Names[i], lab.BackendHost(i), c.Weights[i])
	}
	return s
}

// TestC05EntryNaming: the distribution contracts per pool entry under drawn namings of the entries.
func TestC05EntryNaming(t *testing.T) {
	sub := lab.Sub("entry-naming", "rapid: pools of 1..6 entries with unique addresses whose NAMES are drawn (all distinct / one pair sharing a name / all the same name / two name groups / "+
		"names differing only in case / prefix and separator names / drawn from a small set) - configuration validation and lb.AddBackend accept a name that is in use; "+
		"strategy round_robin, weighted_round_robin (weights 0..6, fresh pool) or least_connections (drawn in-flight gauge vector); pool from configuration, through lb.AddBackend, or half/half; "+
		"requests through lb.NextBackend or lb.ServeHTTP(L1), entries told apart by ADDRESS; oracle per entry as in rr-window / wrr-fresh-enum / least_connections minimality; "+
		"non-trivial = at least two entries share a name")
	sub.NontrivialFloor(0.4)
	sub.Floor("strategy-weighted_round_robin", 0.2)
	sub.Floor("strategy-round_robin", 0.2)
	sub.Floor("strategy-least_connections", 0.1)
	sub.Floor("shared-name-unequal-weights", 0.1)
	lab.Check(t, sub, 900, 20000, func(rt *rapid.T) {
		n := rapid.IntRange(1, 6).Draw(rt, "n")
		c := namedCase{Strategy: rapid.SampledFrom([]string{"weighted_round_robin", "weighted_round_robin", "round_robin", "round_robin", "least_connections"}).Draw(rt, "strategy")}
		var shape string
		c.Names, shape = drawNames(rt, n)
		c.Weights = make([]int, n)
		for i := range c.Weights {
			c.Weights[i] = rapid.IntRange(0, 6).Draw(rt, "w")
		}
		c.Build = rapid.SampledFrom([]string{"config", "admin", "mixed"}).Draw(rt, "build")
		c.Via = rapid.SampledFrom([]string{"next", "serve"}).Draw(rt, "via")
		c.K = rapid.IntRange(1, 3).Draw(rt, "k")
		if c.Strategy == "round_robin" {
			c.Offset = rapid.IntRange(0, 2*n+1).Draw(rt, "offset")
		}
		if c.Strategy == "least_connections" || rapid.IntRange(0, 2).Draw(rt, "loaded") == 0 {
			c.Pre = make([]int, n)
			for i := range c.Pre {
				c.Pre[i] = rapid.SampledFrom([]int{0, 1, 2, 3, 5, 100}).Draw(rt, "inflight")
			}
		}
		c.Obs = drawObs(rt)
		c.Dress = lab.DrawDressPlan(rt)
		v, err := runNamed(c)
		if err != nil {
			rt.Fatalf("harness: %v", err)
		}
		labels := []string{"strategy-" + c.Strategy, "naming-" + shape, "build-" + c.Build, "via-" + c.Via, fmt.Sprintf("n%d", n)}
		shared := sharedNames(c.Names)
		if shared > 0 {
			labels = append(labels, "shared-name")
			byName := map[string]int{}
			for i, nm := range c.Names {
				if w, ok := byName[nm]; ok && w != eff(c.Weights[i]) {
					labels = append(labels, "shared-name-unequal-weights")
					break
				}
				byName[nm] = eff(c.Weights[i])
			}
		}
		sub.Case(c, shared > 0, labels...)
		if v != "" {
			rt.Fatalf("%s pool with entry names %q (weights %v, built %s, via %s): %s", c.Strategy, c.Names, c.Weights, c.Build, c.Via, v)
		}
	})
}
