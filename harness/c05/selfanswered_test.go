//go:build go1.25

package c05

import (
	"fmt"
	"strings"
	"testing"
	"testing/synctest"
	"time"

	"github.com/0xReLogic/Helios/internal/config"
	"github.com/0xReLogic/Helios/verifharness/lab"
	"pgregory.net/rapid"
)

// Requests that Helios answers ITSELF, interleaved with requests it gives to a backend.
//
// The distribution contracts speak about the requests the backends are given. A request that the
// circuit breaker refuses (503 while it is open, 429 when the half-open trial quota is in use) or
// that the rate limiter refuses (429) is given to nobody. So the sequence the contracts are about
// is the order in which requests ARRIVE AT THE BACKENDS (lab.FakeNet Arrivals/HostAt: the scripted
// backends' own log, independent of anything Helios reports), and with a stable set of eligible
// backends that sequence has to satisfy the same counting claims whether or not refused requests
// lie between two arrivals:
//
//	round_robin            every n consecutive arrivals: each of the n backends exactly once
//	                       (hence n*k consecutive arrivals: each exactly k)
//	weighted_round_robin   fresh pool: every S = sum(max(w,1)) consecutive arrivals: backend i exactly max(w_i,1)
//	least_connections      every arrival went to a backend whose in-flight count was minimal
//
// What is NOT demanded: anything about the refused requests themselves (that is C07/C09), which
// backend the first request after an episode goes to in absolute terms (a refusal may move the
// rotation by a whole number of cycles and no window of arrivals can tell), or anything about the
// answers (a 5xx answer of a backend is still a request that backend was given).
//
// The set of eligible backends stays stable throughout: nothing is ejected (passive health checks
// are off, or on with a threshold the case cannot reach), nothing is added or removed. Backends
// fail by answering (5xx, 1xx-then-5xx, a response broken off mid-body), so every dispatched
// request really is received by a scripted backend.

type saCfg struct {
	Strategy  string `json:"strategy"`
	Weights   []int  `json:"weights"`
	Breaker   bool   `json:"breaker,omitempty"`
	FT        int    `json:"failure_threshold,omitempty"`
	ST        int    `json:"success_threshold,omitempty"`
	MR        int    `json:"max_requests,omitempty"` // 0 = not set
	IntervalS int    `json:"interval_s,omitempty"`
	TimeoutS  int    `json:"timeout_s,omitempty"`
	Limiter   bool   `json:"limiter,omitempty"`
	MaxTokens int    `json:"max_tokens,omitempty"`
	RefillS   int    `json:"refill_s,omitempty"`
	Passive   bool   `json:"passive_cannot_act,omitempty"` // passive health checks on, threshold beyond the length of the case
	Clients   int    `json:"clients"`
}

type saEvent struct {
	K     string `json:"k"` // burst | outage | heal | wait | hold | release
	N     int    `json:"n,omitempty"`
	C     int    `json:"client,omitempty"` // first client of a burst (clients take turns when Turn)
	Turn  bool   `json:"turn,omitempty"`
	Hosts []int  `json:"hosts,omitempty"`
	B     string `json:"b,omitempty"`
	D     string `json:"d,omitempty"`
}

func (e saEvent) String() string {
	switch e.K {
	case "outage":
		return fmt.Sprintf("outage(backends %v answer %s)", e.Hosts, e.B)
	case "wait":
		return "wait(" + e.D + ")"
	case "hold":
		return fmt.Sprintf("hold(client %d)", e.C)
	case "release":
		return fmt.Sprintf("release(#%d as %s)", e.N, e.B)
	case "heal", "release-all":
		return e.K
	}
	if e.Turn {
		return fmt.Sprintf("%s(%d requests, clients in turn from %d)", e.K, e.N, e.C)
	}
	return fmt.Sprintf("%s(%d requests, client %d)", e.K, e.N, e.C)
}

const saPassiveThreshold = 100000 // more 5xx answers than any case produces

// who answered a request that reached no backend (labels and messages only; the oracle never reads it)
func selfAnsweredBy(status int, body string) string {
	switch {
	case strings.Contains(body, "circuit breaker is open"):
		return "breaker-open"
	case strings.Contains(body, "circuit breaker half-open"):
		return "breaker-half-open-limit"
	case strings.Contains(body, "Rate limit exceeded"):
		return "rate-limit"
	}
	return fmt.Sprintf("helios-%d", status)
}

type saHeld struct {
	host string
	fin  chan int
}

type saRun struct {
	p      *pool
	c      saCfg
	script map[string]lab.Behaviour // current scripted behaviour by host
	held   []saHeld                 // requests in flight at a backend (in arrival order)
	infl   map[string]int           // harness-side count of requests in flight by backend name
	// ground truth, from the scripted backends' arrival log
	gaps     [][]string // gaps[i] = who answered the requests that reached no backend between arrival i-1 and arrival i
	nReq     int
	lcViol   string
	seen     map[string]bool
	okAfter  bool // a 200 from a backend after a breaker refusal
	refusedB bool
	// openGuess steers the generator only: the last thing seen from the breaker was a refusal and no
	// ordinary request has been answered by a backend since
	openGuess bool
}

func (r *saRun) client(i int) string { return fmt.Sprintf("10.0.0.%d:4000", 1+i%r.c.Clients) }

// request sends one request. hold=true: every backend holds what it receives, so the request stays
// in flight at whichever backend it is given to (until release).
func (r *saRun) request(client int, hold bool) {
	p := r.p
	r.nReq++
	before := p.fn.Arrivals()
	inflBefore := map[string]int{}
	for _, n := range p.names {
		inflBefore[n] = r.infl[n]
	}
	req := p.nextReqFrom(r.client(client))
	var status int
	var body string
	if hold {
		for _, n := range p.names {
			p.fn.Set(n+".test", lab.Park)
		}
		fin := make(chan int, 1)
		answered := make(chan string, 1)
		go func() {
			st, b, _, _ := lab.Serve(p.lb, req)
			answered <- b
			fin <- st
		}()
		synctest.Wait() // the request is now either answered or held by a backend
		for _, n := range p.names {
			p.fn.Set(n+".test", r.script[n+".test"])
		}
		if p.fn.Arrivals() > before {
			host := p.fn.HostAt(before)
			r.held = append(r.held, saHeld{host: host, fin: fin})
			r.infl[hostName(host)]++
			r.seen["held-in-flight"] = true
		} else {
			status, body = <-fin, <-answered
		}
	} else {
		status, body, _, _ = lab.Serve(p.lb, req)
	}
	after := p.fn.Arrivals()
	if after == before {
		who := selfAnsweredBy(status, body)
		r.gaps[len(r.gaps)-1] = append(r.gaps[len(r.gaps)-1], who)
		r.seen[who] = true
		if strings.HasPrefix(who, "breaker") {
			r.refusedB, r.openGuess = true, true
		}
		return
	}
	for i := before; i < after; i++ {
		r.gaps = append(r.gaps, nil)
		if r.c.Strategy == "least_connections" && r.lcViol == "" {
			got := hostName(p.fn.HostAt(i))
			least := -1
			for _, n := range p.names {
				if least < 0 || inflBefore[n] < least {
					least = inflBefore[n]
				}
			}
			if inflBefore[got] != least {
				r.lcViol = fmt.Sprintf("arrival %d went to %s, which had %d requests in flight while the minimum was %d (in flight by backend: %v)", i+1, got, inflBefore[got], least, inflBefore)
			}
			inflBefore[got]++
		}
	}
	if !hold && status == 200 {
		r.openGuess = false
		if r.refusedB {
			r.okAfter = true
		}
	}
}

// release lets the oldest request held at the backend of r.held[k] finish with the given behaviour.
func (r *saRun) release(k int, as lab.Behaviour) {
	host := r.held[k].host
	for i := range r.held { // the fake network releases the oldest request parked at that host
		if r.held[i].host == host {
			k = i
			break
		}
	}
	h := r.held[k]
	r.held = append(r.held[:k:k], r.held[k+1:]...)
	r.p.fn.Release(h.host, as)
	<-h.fin
	r.infl[hostName(h.host)]--
}

// arrivals returns the arrival order at the backends and a rendering of it with the self-answered
// requests marked where they happened.
func (r *saRun) arrivals() (seq []string, rendered string) {
	var sb strings.Builder
	n := r.p.fn.Arrivals()
	for i := 0; i <= n; i++ {
		if g := r.gaps[i]; len(g) > 0 {
			cnt := map[string]int{}
			var order []string
			for _, w := range g {
				if cnt[w] == 0 {
					order = append(order, w)
				}
				cnt[w]++
			}
			sb.WriteString("[")
			for j, w := range order {
				if j > 0 {
					sb.WriteString(", ")
				}
				fmt.Fprintf(&sb, "%d answered by Helios itself: %s", cnt[w], w)
			}
			sb.WriteString("] ")
		}
		if i < n {
			seq = append(seq, hostName(r.p.fn.HostAt(i)))
			sb.WriteString(seq[i] + " ")
		}
	}
	return seq, strings.TrimSpace(sb.String())
}

func TestC05SelfAnsweredInterleaved(t *testing.T) {
	sub := lab.Sub("self-answered-interleaved", "rapid histories against lb.ServeHTTP(L1, virtual time) of fresh round_robin (n 1..8), weighted_round_robin (n 1..4, weights 0..4, sometimes up to 12) and least_connections pools "+
		"with circuit_breaker enabled (failure_threshold 1..4, success_threshold 1..3, max_requests unset or >= success_threshold, interval/timeout 1|5|60 s) and/or rate_limit enabled (1..8 tokens, refill 1|2|10 s, 1..3 client addresses), "+
		"passive health checks off or on with an unreachable threshold; events: burst of requests (one client or clients in turn), outage (all or a drawn subset of the backends answer 500/502/503/504, 1xx-then-5xx, or break the response off mid-body) "+
		"followed by enough requests to trip the breaker, heal, wait (50ms | 1s | breaker timeout (+1ms) | breaker interval+1s | limiter refill), hold (a request stays in flight at its backend - while the breaker is half-open this uses up the trial quota) and release (as 200 or 5xx); "+
		"nothing is ejected, added or removed. Ground truth = the arrival order at the scripted backends over the whole case; oracle on that order only: round_robin every n consecutive arrivals hit each backend once (and all n*k exactly k), "+
		"weighted_round_robin every S consecutive arrivals hit backend i exactly max(w_i,1) times, least_connections every arrival went to a backend with minimal in-flight count; requests that reached no backend are not part of the sequence. "+
		"non-trivial = a full window of arrivals has requests answered by Helios itself (breaker or limiter) inside it and the pool has >= 2 backends")
	sub.NontrivialFloor(0.45)
	sub.Floor("breaker-refusal-inside-window", 0.3)
	sub.Floor("limiter-refusal-inside-window", 0.15)
	sub.Floor("dispatched-again-after-breaker-refusal", 0.35)
	sub.Floor("refused-half-open-limit", 0.15)
	lab.Assume("C05 self-answered-interleaved: 'the requests a backend is given' = the requests that arrive at the scripted backends (L1 fake network log); a request answered by the circuit breaker or the rate limiter is given to nobody")
	maxEv := lab.Scale(14, 24)
	lab.Check(t, sub, 1600, 40000, func(rt *rapid.T) {
		var c saCfg
		c.Strategy = rapid.SampledFrom([]string{"round_robin", "round_robin", "weighted_round_robin", "weighted_round_robin", "least_connections"}).Draw(rt, "strategy")
		switch c.Strategy {
		case "weighted_round_robin":
			n := rapid.SampledFrom([]int{1, 2, 2, 2, 3, 3, 3, 4, 4, 5}).Draw(rt, "n")
			hi := 4
			if rapid.IntRange(0, 5).Draw(rt, "bigWeights") == 0 {
				hi = 12
			}
			for i := 0; i < n; i++ {
				c.Weights = append(c.Weights, rapid.IntRange(0, hi).Draw(rt, "w"))
			}
		default:
			c.Weights = rrWeights(rt, rapid.SampledFrom([]int{1, 2, 2, 3, 3, 4, 4, 5, 5, 6, 6, 7, 7, 8, 8}).Draw(rt, "n"))
		}
		switch rapid.IntRange(0, 5).Draw(rt, "protections") {
		case 0:
			c.Limiter = true
		case 1, 2:
			c.Breaker, c.Limiter = true, true
		default:
			c.Breaker = true
		}
		if c.Breaker {
			c.FT = rapid.IntRange(1, 4).Draw(rt, "ft")
			c.ST = rapid.IntRange(1, 3).Draw(rt, "st")
			if rapid.Bool().Draw(rt, "mr_set") {
				c.MR = rapid.IntRange(c.ST, c.ST+2).Draw(rt, "mr") // validation demands max_requests >= success_threshold
			}
			c.IntervalS = rapid.SampledFrom([]int{1, 5, 60}).Draw(rt, "interval_s")
			c.TimeoutS = rapid.SampledFrom([]int{1, 5, 60}).Draw(rt, "timeout_s")
		}
		c.Clients = 1
		if c.Limiter {
			c.MaxTokens = rapid.SampledFrom([]int{1, 2, 3, 5, 8}).Draw(rt, "max_tokens")
			c.RefillS = rapid.SampledFrom([]int{1, 2, 10}).Draw(rt, "refill_s")
			c.Clients = rapid.IntRange(1, 3).Draw(rt, "clients")
		}
		c.Passive = rapid.IntRange(0, 3).Draw(rt, "passive") == 0
		nev := rapid.IntRange(6, maxEv).Draw(rt, "events")

		// the rate limiter owns a never-ending janitor goroutine: the balancer is built outside the bubble
		p, err := newPoolWith(c.Strategy, c.Weights, func(cfg *config.Config) {
			if c.Breaker {
				cfg.CircuitBreaker = config.CircuitBreakerConfig{Enabled: true, MaxRequests: c.MR, IntervalSeconds: c.IntervalS, TimeoutSeconds: c.TimeoutS,
					FailureThreshold: c.FT, SuccessThreshold: c.ST}
			}
			if c.Limiter {
				cfg.RateLimit = config.RateLimitConfig{Enabled: true, MaxTokens: c.MaxTokens, RefillRate: c.RefillS}
			}
			if c.Passive {
				cfg.HealthChecks.Passive.Enabled = true
				cfg.HealthChecks.Passive.UnhealthyThreshold = saPassiveThreshold
				cfg.HealthChecks.Passive.UnhealthyTimeout = 30
			}
		})
		if err != nil {
			rt.Fatalf("harness: %v", err)
		}
		defer p.lb.Stop()
		p.dressFrom(rt)

		n := len(p.names)
		want := map[string]int{}
		S := 0
		for _, m := range p.names {
			want[m] = 1
			if c.Strategy == "weighted_round_robin" {
				want[m] = eff(p.weight[m])
			}
			S += want[m]
		}
		r := &saRun{p: p, c: c, script: map[string]lab.Behaviour{}, infl: map[string]int{}, gaps: [][]string{nil}, seen: map[string]bool{}}
		for _, m := range p.names {
			r.script[m+".test"] = lab.Good
		}
		var evs []saEvent
		burst := func(rt *rapid.T, lo, hi int, kind string) {
			m := rapid.IntRange(lo, hi).Draw(rt, "m")
			cl := rapid.IntRange(0, c.Clients-1).Draw(rt, "client")
			turn := c.Clients > 1 && rapid.Bool().Draw(rt, "turn")
			evs = append(evs, saEvent{K: kind, N: m, C: cl, Turn: turn})
			for j := 0; j < m; j++ {
				if turn {
					r.request(cl+j, false)
				} else {
					r.request(cl, false)
				}
			}
		}
		waits := []time.Duration{50 * time.Millisecond, time.Second}
		if c.Breaker {
			waits = append(waits, time.Duration(c.TimeoutS)*time.Second, time.Duration(c.TimeoutS)*time.Second+time.Millisecond,
				time.Duration(c.TimeoutS)*time.Second+time.Millisecond, time.Duration(c.IntervalS+1)*time.Second)
		}
		if c.Limiter {
			waits = append(waits, time.Duration(c.RefillS)*time.Second, time.Duration(c.RefillS*c.MaxTokens)*time.Second)
		}
		failKinds := []lab.Behaviour{lab.Status5xx, lab.Status5xx, lab.Status5xx, lab.Interim5xx, lab.AbortBody}

		rapid.SyncTest(rt, func(rt *rapid.T) {
			defer func() { // nothing may stay in flight when the bubble ends
				for len(r.held) > 0 {
					r.release(0, lab.Good)
				}
			}()
			burst(rt, 0, 2*S+1, "burst") // warm-up: the rotation stands at a drawn offset when the first episode starts
			heal := func() {
				for h := range r.script {
					r.script[h] = lab.Good
					p.fn.Set(h, lab.Good)
				}
				evs = append(evs, saEvent{K: "heal"})
			}
			wait := func(d time.Duration) {
				time.Sleep(d)
				evs = append(evs, saEvent{K: "wait", D: d.String()})
			}
			hold := func(rt *rapid.T) {
				cl := rapid.IntRange(0, c.Clients-1).Draw(rt, "client")
				evs = append(evs, saEvent{K: "hold", C: cl})
				r.request(cl, true)
			}
			release := func(rt *rapid.T) {
				j := rapid.IntRange(0, len(r.held)-1).Draw(rt, "held")
				as := rapid.SampledFrom([]lab.Behaviour{lab.Good, lab.Good, lab.Status5xx}).Draw(rt, "as")
				evs = append(evs, saEvent{K: "release", N: j, B: as.String()})
				r.release(j, as)
			}
			outage := func(rt *rapid.T) {
				// outage: a drawn non-empty set of backends (all of them in half of the cases) starts failing
				var hosts []int
				if n == 1 || rapid.Bool().Draw(rt, "all") {
					for j := 0; j < n; j++ {
						hosts = append(hosts, j)
					}
				} else {
					first := rapid.IntRange(0, n-1).Draw(rt, "failing")
					hosts = append(hosts, first)
					for j := 0; j < n; j++ {
						if j != first && rapid.IntRange(0, 2).Draw(rt, "also") == 0 {
							hosts = append(hosts, j)
						}
					}
				}
				b := rapid.SampledFrom(failKinds).Draw(rt, "fail")
				code := rapid.SampledFrom([]int{500, 502, 503, 504}).Draw(rt, "code")
				for _, j := range hosts {
					h := p.names[j] + ".test"
					r.script[h] = b
					p.fn.Set(h, b)
					p.fn.SetFailStatus(h, code)
				}
				evs = append(evs, saEvent{K: "outage", Hosts: hosts, B: fmt.Sprintf("%s(%d)", b, code)})
				if !c.Breaker {
					burst(rt, 1, S+3, "burst-during-outage")
					return
				}
				// traffic keeps coming: until the breaker is seen refusing (or 3 rounds of the pool plus the threshold
				// have gone by without that), and then a drawn number of requests more
				cl := rapid.IntRange(0, c.Clients-1).Draw(rt, "client")
				extra := rapid.IntRange(0, S+2).Draw(rt, "extra")
				m := 0
				for ; m < 3*S+c.FT && !r.openGuess; m++ {
					r.request(cl+m, false)
				}
				for j := 0; j < extra; j++ {
					r.request(cl+m+j, false)
				}
				evs = append(evs, saEvent{K: "burst-during-outage", N: m + extra, C: cl, Turn: true})
			}
			// with a breaker configured the first outage comes early (after 0..3 other events); later ones as drawn
			firstOutage := -1
			if c.Breaker {
				firstOutage = rapid.IntRange(0, 3).Draw(rt, "firstOutage")
			}
			for i := 0; i < nev && r.nReq < 600; i++ {
				if i == firstOutage {
					outage(rt)
					continue
				}
				k := rapid.IntRange(0, 99).Draw(rt, "ev")
				if c.Breaker && r.openGuess {
					// the breaker was last seen refusing: the interesting continuations are more likely than in the general table
					switch {
					case k < 30 && len(r.held) < 6:
						// a trial that stays in flight: (heal,) wait out the breaker timeout, one request is held by its backend, more
						// requests arrive meanwhile (with the trial quota in use they are refused), the held one finishes
						if rapid.IntRange(0, 2).Draw(rt, "healFirst") > 0 {
							heal()
						}
						wait(time.Duration(c.TimeoutS)*time.Second + time.Millisecond)
						hold(rt)
						burst(rt, 1, S+2, "burst-during-trial")
						if len(r.held) > 0 {
							release(rt)
						}
						continue
					case k < 50:
						wait(time.Duration(c.TimeoutS)*time.Second + time.Duration(rapid.IntRange(0, 1).Draw(rt, "past"))*time.Millisecond)
						continue
					case k < 62:
						heal()
						continue
					}
					k = rapid.IntRange(0, 99).Draw(rt, "ev2")
				}
				switch {
				case k < 28:
					burst(rt, 1, S+3, "burst")
				case k < 46:
					outage(rt)
				case k < 58:
					heal()
				case k < 76:
					wait(rapid.SampledFrom(waits).Draw(rt, "d"))
				case k < 90 && len(r.held) < 6:
					hold(rt)
				case len(r.held) > 0:
					release(rt)
				default:
					burst(rt, 1, S+3, "burst")
				}
			}
			// two thirds of the cases end with the system back to normal and a stretch of ordinary traffic, so that
			// windows of arrivals reach across the last episode
			if rapid.IntRange(0, 2).Draw(rt, "epilogue") > 0 {
				for h := range r.script {
					r.script[h] = lab.Good
					p.fn.Set(h, lab.Good)
				}
				for len(r.held) > 0 {
					r.release(0, lab.Good)
				}
				d := time.Millisecond
				if c.Breaker {
					d += time.Duration(c.TimeoutS) * time.Second
				}
				if c.Limiter && rapid.Bool().Draw(rt, "refill") {
					d += time.Duration(c.RefillS*c.MaxTokens) * time.Second
				}
				time.Sleep(d)
				evs = append(evs, saEvent{K: "heal"}, saEvent{K: "release-all"}, saEvent{K: "wait", D: d.String()})
				burst(rt, S, 2*S+3, "burst")
			}
			for len(r.held) > 0 {
				r.release(0, lab.Good)
			}
		})

		seq, rendered := r.arrivals()
		// where do self-answered requests lie relative to full windows of arrivals?
		insideB, insideL := false, false
		if S >= 2 && len(seq) >= S {
			for g := 1; g < len(seq); g++ { // between arrival g-1 and arrival g: inside some window of S >= 2 arrivals
				for _, who := range r.gaps[g] {
					if who == "rate-limit" {
						insideL = true
					} else {
						insideB = true
					}
				}
			}
		}
		labels := []string{"strategy=" + c.Strategy, fmt.Sprintf("n%d", n), p.dress.Label()}
		for _, kv := range []struct {
			on bool
			l  string
		}{{c.Breaker, "breaker-enabled"}, {c.Limiter, "limiter-enabled"}, {c.Passive, "passive-checks-that-cannot-act"},
			{insideB, "breaker-refusal-inside-window"}, {insideL, "limiter-refusal-inside-window"},
			{r.okAfter, "dispatched-again-after-breaker-refusal"}, {r.seen["breaker-open"], "refused-breaker-open"},
			{r.seen["breaker-half-open-limit"], "refused-half-open-limit"}, {r.seen["rate-limit"], "refused-rate-limit"},
			{r.seen["held-in-flight"], "held-in-flight"}} {
			if kv.on {
				labels = append(labels, kv.l)
			}
		}
		for w := range r.seen {
			if strings.HasPrefix(w, "helios-") {
				labels = append(labels, "self-answered-other")
			}
		}
		sub.Case(map[string]any{"cfg": c, "events": evs, "dress": p.dress}, n >= 2 && (insideB || insideL), labels...)

		desc := fmt.Sprintf("\nrequests in the order the backends received them, with the requests that reached no backend marked where they happened:\n  %s\n"+
			"%s weights=%v breaker=%v(failure_threshold=%d success_threshold=%d max_requests=%d interval=%ds timeout=%ds) rate_limit=%v(tokens=%d refill=%ds clients=%d) history=%v",
			rendered, c.Strategy, c.Weights, c.Breaker, c.FT, c.ST, c.MR, c.IntervalS, c.TimeoutS, c.Limiter, c.MaxTokens, c.RefillS, c.Clients, evs)
		if c.Strategy == "least_connections" {
			if r.lcViol != "" {
				rt.Fatalf("violation in self-answered-interleaved: least_connections with %d backends: %s%s", n, r.lcViol, desc)
			}
			return
		}
		fail := func(v string) {
			rt.Fatalf("violation in self-answered-interleaved: %s with %d backends, all eligible throughout, some requests answered by Helios itself (circuit breaker / rate limit) between the dispatched ones: "+
				"among the requests the backends received, %s%s", c.Strategy, n, v, desc)
		}
		if v := everyWindowExact(seq, S, want); v != "" {
			fail(v)
		}
		if k := len(seq) / S; k >= 2 {
			kk := map[string]int{}
			for m, w := range want {
				kk[m] = w * k
			}
			if v := everyWindowExact(seq, S*k, kk); v != "" {
				fail(v)
			}
		}
	})
}
