package c05

import (
	"fmt"
	"testing"

	"github.com/0xReLogic/Helios/verifharness/lab"
	"pgregory.net/rapid"
)

type memberOp struct {
	Op string `json:"op"` // add | remove
	I  int    `json:"i,omitempty"`
}

// TestC05RRWindow: round_robin, all members eligible. Any window of n consecutive requests gives
// every backend exactly one; any n*k consecutive requests give every backend exactly k.
func TestC05RRWindow(t *testing.T) {
	sub := lab.Sub("rr-window", "rapid: pool size 1..8 (reached directly or through a drawn add/remove history), drawn rotation offset (0..3n+2 warm-up requests), "+
		"window of n*k (k 1..5) consecutive requests through lb.NextBackend or lb.ServeHTTP(L1); in 2/3 of the cases admin/monitoring calls (admin mux /v1/health,/v1/backends,/v1/metrics, "+
		"MetricsHandler, HealthHandler, ListBackends, IsBackendHealthy, GetMetrics) are interleaved with the window's requests and/or the backends carry in-flight counts from "+
		"{0,1,99,100,101,500} (IncrementConnections) plus 0..2 really parked requests - neither may change the distribution; oracle: every n consecutive requests of the window hit each "+
		"backend exactly once and the n*k requests hit each exactly k times; non-trivial = n>=2 and (offset not a multiple of n, or a non-empty membership history)")
	sub.NontrivialFloor(0.45)
	sub.Floor("via-serve", 0.2)
	sub.Floor("via-next", 0.2)
	sub.Floor("history", 0.2)
	sub.Floor("observers-interleaved", 0.4)
	sub.Floor("inflight-99plus", 0.3)
	sub.Floor("parked-requests", 0.2)
	lab.Check(t, sub, 2000, 40000, func(rt *rapid.T) {
		n0 := rapid.IntRange(1, 8).Draw(rt, "n0")
		p, err := newPool("round_robin", rrWeights(rt, n0))
		if err != nil {
			rt.Fatalf("harness: %v", err)
		}
		defer p.close()
		p.dressFrom(rt)
		var hist []memberOp
		if rapid.IntRange(0, 2).Draw(rt, "withHistory") == 0 {
			nops := rapid.IntRange(1, 8).Draw(rt, "nops")
			for i := 0; i < nops; i++ {
				// interleave traffic so that the rotation counter is at an arbitrary value at each change
				for j, m := 0, rapid.IntRange(0, 5).Draw(rt, "between"); j < m; j++ {
					p.pick("next")
				}
				canAdd, canRemove := len(p.names) < 8, len(p.names) > 1
				if canAdd && (!canRemove || rapid.Bool().Draw(rt, "add")) {
					if _, err := p.add(1); err != nil {
						rt.Fatalf("harness: %v", err)
					}
					hist = append(hist, memberOp{Op: "add"})
				} else {
					i := rapid.IntRange(0, len(p.names)-1).Draw(rt, "victim")
					hist = append(hist, memberOp{Op: "remove", I: i})
					p.remove(p.names[i])
				}
			}
		}
		n := len(p.names)
		offset := rapid.IntRange(0, 3*n+2).Draw(rt, "offset")
		k := rapid.IntRange(1, 5).Draw(rt, "k")
		via := rapid.SampledFrom([]string{"next", "serve"}).Draw(rt, "via")
		load := drawLoad(rt, n, true)
		obs := drawObs(rt)
		offset += p.applyLoad(load) // parked requests take turns of the rotation like any request
		for i := 0; i < offset-load.Parked; i++ {
			p.pick(via)
		}
		seq := make([]string, 0, n*k)
		for i := 0; i < n*k; i++ {
			name, _ := p.windowPick(via, obs, i)
			seq = append(seq, name)
		}
		labels := append([]string{fmt.Sprintf("n%d", n), "via-" + via, p.dress.Label()}, planLabels(load, obs)...)
		if len(hist) > 0 {
			labels = append(labels, "history")
		}
		if offset%n != 0 {
			labels = append(labels, "offset-nonzero")
		}
		sub.Case(map[string]any{"n0": n0, "history": hist, "offset": offset, "k": k, "via": via, "inflight": load, "observers": obs, "dress": p.dress},
			n >= 2 && (offset%n != 0 || len(hist) > 0), labels...)
		one := map[string]int{}
		kk := map[string]int{}
		for _, m := range p.names {
			one[m], kk[m] = 1, k
		}
		if v := everyWindowExact(seq, n, one); v != "" {
			rt.Fatalf("round_robin n0=%d history=%+v offset=%d via=%s: %s", n0, hist, offset, via, v)
		}
		if v := everyWindowExact(seq, n*k, kk); v != "" {
			rt.Fatalf("round_robin n0=%d history=%+v offset=%d k=%d via=%s: %s", n0, hist, offset, k, via, v)
		}
	})
}
