package c05

import (
	"fmt"
	"testing"

	"github.com/0xReLogic/Helios/verifharness/lab"
	"pgregory.net/rapid"
)

type wrrFreshCase struct {
	Weights []int         `json:"weights"`
	Via     string        `json:"via"`
	Build   string        `json:"build"` // config (NewLoadBalancer) | admin (empty pool + lb.AddBackend per backend)
	Load    loadPlan      `json:"inflight"`
	Obs     obsPlan       `json:"observers"`
	Dress   lab.DressPlan `json:"dress"`
}

// wrrFresh builds a fresh weighted_round_robin pool and checks every window of S = sum(max(w,1))
// consecutive requests at every offset within three periods (4S requests in total).
func wrrFresh(c wrrFreshCase) (string, error) {
	var p *pool
	var err error
	if c.Build == "admin" {
		p, err = newPool("weighted_round_robin", nil)
		for i := 0; err == nil && i < len(c.Weights); i++ {
			_, err = p.add(c.Weights[i])
		}
	} else {
		p, err = newPool("weighted_round_robin", c.Weights)
	}
	if err != nil {
		return "", err
	}
	defer p.close()
	p.dress = c.Dress
	want := map[string]int{}
	S := 0
	for _, n := range p.names {
		want[n] = eff(p.weight[n])
		S += want[n]
	}
	c.Load.Parked = 0 // a parked request would be the pool's first request: fresh pools get gauge-only load
	p.applyLoad(c.Load)
	seq := make([]string, 0, 4*S)
	for i := 0; i < 4*S; i++ {
		name, _ := p.windowPick(c.Via, c.Obs, i)
		seq = append(seq, name)
	}
	return everyWindowExact(seq, S, want), nil
}

func nonUniform(ws []int) bool {
	for _, w := range ws {
		if eff(w) != eff(ws[0]) {
			return true
		}
	}
	return false
}

func hasBelowOne(ws []int) bool {
	for _, w := range ws {
		if w < 1 {
			return true
		}
	}
	return false
}

// TestC05WRRFreshEnum enumerates all weight vectors in {0..6}^n for n = 1..4 (7+49+343+2401 = 2800).
func TestC05WRRFreshEnum(t *testing.T) {
	const name = "wrr-fresh-enum"
	sub := lab.Sub(name, "enumeration of ALL weight vectors in {0..6}^n, n=1..4 (2800 vectors, split over the shards), fresh pool from configuration; "+
		"4*S requests (S = sum max(w,1)) through lb.NextBackend (even vector index) or lb.ServeHTTP(L1) (odd); per vector index, 2/3 with admin/monitoring calls interleaved and "+
		"1/2 with in-flight counts {0,1,99,100,101,500} on the backends (varied dimensions, not part of the enumerated space); oracle: every window of S consecutive requests at "+
		"every offset 0..3S gives backend i exactly max(w_i,1); non-trivial = n>=2 and effective weights not all equal")
	var rc wrrFreshCase
	if lab.ReplayCase(name, &rc) {
		v, err := wrrFresh(rc)
		if err != nil {
			t.Fatalf("harness: %v", err)
		}
		if v != "" {
			lab.Violation(t, name, rc, "weights %v via %s: %s", rc.Weights, rc.Via, v)
		}
		return
	}
	if lab.Replaying() {
		t.Skip("replay of another sub-check")
	}
	idx := 0
	for n := 1; n <= 4; n++ {
		ws := make([]int, n)
		var rec func(pos int)
		rec = func(pos int) {
			if pos == n {
				mine := idx%lab.Shards() == lab.Shard()
				i := idx
				idx++
				if !mine {
					return
				}
				c := wrrFreshCase{Weights: append([]int(nil), ws...), Via: "next", Build: "config"}
				if i%2 == 1 {
					c.Via = "serve"
				}
				if (i/2)%3 != 0 { // 2/3 of the vectors: observers interleaved, kind and period from the index
					c.Obs = obsPlan{Period: 1 + (i/6)%3, Start: (i / 18) % nObservers}
				}
				if (i/2)%2 == 1 { // half of the vectors: in-flight magnitudes rotated over the backends
					c.Load.Pre = make([]int, n)
					for j := range c.Load.Pre {
						c.Load.Pre[j] = inflightMagnitudes[(i/4+j*5)%len(inflightMagnitudes)]
					}
				}
				v, err := wrrFresh(c)
				if err != nil {
					t.Fatalf("harness: %v", err)
				}
				labels := append([]string{fmt.Sprintf("n%d", n), "via-" + c.Via}, planLabels(c.Load, c.Obs)...)
				if hasBelowOne(c.Weights) {
					labels = append(labels, "weight-below-1")
				}
				sub.Case(c, n >= 2 && nonUniform(c.Weights), labels...)
				if v != "" {
					lab.Violation(t, name, c, "fresh weighted_round_robin pool, weights %v via %s: %s", c.Weights, c.Via, v)
				}
				return
			}
			for w := 0; w <= 6; w++ {
				ws[pos] = w
				rec(pos + 1)
			}
		}
		rec(0)
	}
	if idx != 2800 {
		lab.Problem("%s: enumerated %d vectors, expected 2800", name, idx)
	}
	sub.Exhaustive()
}

// TestC05WRRFreshSampled: larger pools and weights outside 0..6, also pools built the admin way.
func TestC05WRRFreshSampled(t *testing.T) {
	sub := lab.Sub("wrr-fresh-sampled", "rapid: n 1..8, weights mostly 0..6, sometimes 7..40, in one case of eight a pool of 2-3 with weights from {1,2,100,256,257,300,999,1000,2000}, sometimes negative (reachable through the admin API, which passes the "+
		"operator's weight unvalidated to lb.AddBackend); pool built from configuration or by adding backends one at a time to an empty pool; same oracle as "+
		"wrr-fresh-enum; non-trivial = n>=2 and effective weights not all equal")
	sub.NontrivialFloor(0.6)
	sub.Floor("n5-8", 0.3)
	sub.Floor("weight-below-1", 0.2)
	sub.Floor("weights-up-to-2000", 0.07)
	lab.Check(t, sub, 1500, 30000, func(rt *rapid.T) {
		n := rapid.IntRange(1, 8).Draw(rt, "n")
		build := rapid.SampledFrom([]string{"config", "admin"}).Draw(rt, "build")
		ws := make([]int, n)
		for i := range ws {
			switch k := rapid.IntRange(0, 9).Draw(rt, "class"); {
			case k < 7:
				ws[i] = rapid.IntRange(0, 6).Draw(rt, "w")
			case k < 9:
				ws[i] = rapid.IntRange(7, 40).Draw(rt, "w")
			default:
				if build == "admin" {
					ws[i] = rapid.IntRange(-3, -1).Draw(rt, "w")
				} else {
					ws[i] = 0 // configuration validation rejects negative weights
				}
			}
		}
		via := rapid.SampledFrom([]string{"next", "serve"}).Draw(rt, "via")
		// one case in eight: a small pool with one or two LARGE weights (no upper limit is documented);
		// picks go through NextBackend so that sum(w) consecutive requests stay cheap
		big := rapid.IntRange(0, 7).Draw(rt, "big") == 0
		if big {
			n = rapid.IntRange(2, 3).Draw(rt, "big_n")
			ws = ws[:0]
			for i := 0; i < n; i++ {
				ws = append(ws, rapid.SampledFrom([]int{1, 2, 100, 256, 257, 300, 999, 1000, 2000}).Draw(rt, "big_w"))
			}
			via = "next"
		}
		c := wrrFreshCase{Weights: ws, Via: via, Build: build,
			Load: drawLoad(rt, n, false), Obs: drawObs(rt), Dress: lab.DrawDressPlan(rt)}
		v, err := wrrFresh(c)
		if err != nil {
			rt.Fatalf("harness: %v", err)
		}
		labels := append([]string{"via-" + c.Via, "build-" + build, c.Dress.Label()}, planLabels(c.Load, c.Obs)...)
		if n >= 5 {
			labels = append(labels, "n5-8")
		}
		if hasBelowOne(ws) {
			labels = append(labels, "weight-below-1")
		}
		if big {
			labels = append(labels, "weights-up-to-2000")
		}
		sub.Case(c, n >= 2 && nonUniform(ws), labels...)
		if v != "" {
			rt.Fatalf("fresh weighted_round_robin pool %+v: %s", c, v)
		}
	})
}
