package c05

import (
	"fmt"
	"sync"
	"testing"
	"time"

	"github.com/0xReLogic/Helios/verifharness/lab"
)

// Open findings of C05 (known_findings.json). For an open entry the check re-runs the recorded
// reproduction; while it still fails the KNOWN-FINDING line is printed and exactly the region
// named by the key is excluded by construction (and counted). As soon as the reproduction passes
// (the defect was repaired in /repo) nothing is excluded any more, whatever the entry says. If the
// entry is not open, nothing is excluded and the sub-checks report the violation themselves.
const (
	keyRR = "rr-ignores-health" // round_robin never looks at health: region = 3 or more members are ejected during the window
	keyLC = "lc-ignores-health" // least_connections considers ejected backends: region = an ejected member's in-flight count <= the eligible minimum
)

// reproRR: 4 backends, b0 b1 b2 ejected for an hour, 4 requests through ServeHTTP. Statement: with one
// eligible backend every single request goes to b3.
func reproRR() string {
	p, err := newPool("round_robin", lab.Ones(4))
	if err != nil {
		return "harness: " + err.Error()
	}
	defer p.lb.Stop()
	for _, b := range []string{"b0", "b1", "b2"} {
		p.lb.MarkBackendUnhealthy(p.backend(b), time.Hour)
	}
	var seq []string
	for i := 0; i < 4; i++ {
		name, _ := p.pick("serve")
		seq = append(seq, name)
	}
	if v := everyWindowExact(seq, 1, map[string]int{"b3": 1}); v != "" {
		return fmt.Sprintf("round_robin, backends b0 b1 b2 b3, b0 b1 b2 ejected for 1h, 4 requests arrived at %q: %s", seq, v)
	}
	return ""
}

// reproLC: 2 idle backends, b0 ejected for an hour, one request. Statement: it goes to b1.
func reproLC() string {
	p, err := newPool("least_connections", lab.Ones(2))
	if err != nil {
		return "harness: " + err.Error()
	}
	defer p.lb.Stop()
	p.lb.MarkBackendUnhealthy(p.backend("b0"), time.Hour)
	name, st := p.pick("serve")
	if name != "b1" {
		return fmt.Sprintf("least_connections, backends b0 b1 idle, b0 ejected for 1h: the request went to %q (status %d), want b1 (the only eligible backend, 0 in flight)", name, st)
	}
	return ""
}

var (
	knownOnce sync.Once
	knownExcl = map[string]bool{}
)

// excluded reports whether the region of key is currently excluded.
func excluded(key string) bool {
	knownOnce.Do(func() {
		for _, k := range []struct {
			key   string
			repro func() string
		}{{keyRR, reproRR}, {keyLC, reproLC}} {
			if !lab.Open(k.key) {
				continue
			}
			if v := k.repro(); v != "" {
				knownExcl[k.key] = true
				if lab.Shard() == 0 {
					lab.KnownFinding(k.key, lab.OpenWhat(k.key)+" -- reproduction still fails: "+v)
				}
			}
		}
	})
	return knownExcl[key]
}

// TestC05Regressions re-runs the recorded reproductions as plain cases. A failure is a violation
// unless the finding is listed as open (then it was already reported as KNOWN-FINDING).
func TestC05Regressions(t *testing.T) {
	sub := lab.Sub("regressions", "the recorded reproductions of the C05 findings (round_robin with 3 of 4 backends ejected; least_connections with the idle backend ejected), "+
		"re-run on every invocation as plain cases; non-trivial by construction")
	for _, k := range []struct {
		key   string
		repro func() string
	}{{keyRR, reproRR}, {keyLC, reproLC}} {
		v := k.repro()
		sub.Case(map[string]string{"finding": k.key}, true, k.key)
		if v != "" && !excluded(k.key) {
			lab.Violation(t, "regressions", map[string]string{"finding": k.key}, "%s", v)
		}
	}
}
